package main

// fmtcore: what C02 and C03 share - one "format record" per source text, made on the REAL code
// (parser.ParseProgram, ast.PrettyPrint in both modes, repl.EvalOne{FormatOnly}), always under recover().
//
//	src --parse--> T(src) = dump0
//	src --format normal--> fmtN --parse--> dumpN ; fmtN --format normal--> fmtNN
//	src --format compact-> fmtC --parse--> dumpC ; fmtC --format compact-> fmtCC
//
// dump = canonical structural dump: json.Marshal (sorted keys) of dumpStmts(tree) with the derived
// "ck" field (the function cache key, itself an output of the compact printer) removed.
// The laws are judged by spec/Format_Trace.tla (FormatLaws.tla), not here.

import (
	"bytes"
	"context"
	"encoding/json"
	"fmt"
	"os"
	"runtime/debug"
	"strings"

	"grol.io/grol/ast"
	"grol.io/grol/eval"
	"grol.io/grol/lexer"
	"grol.io/grol/parser"
	"grol.io/grol/repl"
)

// fmtRec is one record. Byte strings are Go strings here and latin1 strings in JSON.
type fmtRec struct {
	Src  string
	Via  string // "ast" (parser + PrettyPrint), "repl" (repl.EvalOne FormatOnly), "modify" (parser, identity ast.Modify, PrettyPrint), "line" (REPL line-mode lexer + PrettyPrint)
	TF   []any  // structural dump of T(src) with the comments' same-line flags (for attribution only)
	T0   []any  // structural dump of T(src)
	D0   string // canonical dump of T(src)
	Cm   bool   // T(src) has a comment in a statement list
	FmtN string
	OkN  bool // fmtN was accepted by the parser
	DN   string
	NN   string // fmtNN ("" when fmtN did not parse)
	OkNN bool
	FmtC string
	OkC  bool
	DC   string
	TC   []any
	CC   string
	OkCC bool
	// diagnostics (never part of a verdict)
	Panic   string
	PanicAt string
	ErrN    string
	ErrC    string
}

// stripCK removes what is not structure from a dump: the function cache key (derived: itself an output
// of the compact printer) and the same-line flags of comments (layout of the text the tree was read
// from, like token positions; C03's byte-for-byte fixpoint law is where a mishandled flag shows).
func stripCK(v any) any { return stripFlags(stripKey(v)) }

func stripKey(v any) any {
	switch x := v.(type) {
	case J:
		delete(x, "ck")
		for _, c := range x {
			stripKey(c)
		}
	case []any:
		for _, c := range x {
			stripKey(c)
		}
	}
	return v
}

func stripFlags(v any) any {
	switch x := v.(type) {
	case J:
		if x["k"] == "cmt" {
			delete(x, "sp")
			delete(x, "sn")
		}
		for _, c := range x {
			stripFlags(c)
		}
	case []any:
		for _, c := range x {
			stripFlags(c)
		}
	}
	return v
}

func canonDump(t []any) string {
	var buf bytes.Buffer
	enc := json.NewEncoder(&buf)
	enc.SetEscapeHTML(false)
	_ = enc.Encode(t)
	return strings.TrimSuffix(buf.String(), "\n")
}

// fmtParse: the parser accepts src (as `grol -format` / evalOne decide it): no errors, no continuation.
func fmtParse(src string) (prog *ast.Statements, ok bool, msg string) {
	return fmtParseMode(src, false)
}

// fmtParseMode: lineMode = the lexer of the interactive REPL (lexer.NewLineMode: the end of the text is an EOL token and
// an incomplete text asks for a continuation) instead of the whole-file lexer.
func fmtParseMode(src string, lineMode bool) (prog *ast.Statements, ok bool, msg string) {
	defer func() {
		if r := recover(); r != nil {
			prog, ok, msg = nil, false, fmt.Sprintf("parser panic: %v", r)
		}
	}()
	l := lexer.New(src)
	if lineMode {
		l = lexer.NewLineMode(src)
	}
	p := parser.New(l)
	prog = p.ParseProgram()
	if errs := p.Errors(); len(errs) > 0 {
		return nil, false, strings.SplitN(errs[0], "\n", 2)[0]
	}
	if p.ContinuationNeeded() {
		return nil, false, "continuation needed"
	}
	return prog, true, ""
}

func fmtPrint(prog *ast.Statements, compact bool) (out string, panicMsg, panicAt string) {
	defer func() {
		if r := recover(); r != nil {
			panicMsg = fmt.Sprint(r)
			panicAt = grolFrame(string(debug.Stack()))
			if panicAt == "" {
				panicAt = "?"
			}
		}
	}()
	ps := ast.NewPrintState()
	ps.Compact = compact
	return prog.PrettyPrint(ps).String(), "", ""
}

var fmtReplState *eval.State

// fmtRebuild: the tree after a pass through ast.Modify that rewrites nothing - what eval.State.ExpandMacros returns in a
// session where a macro is defined that the program does not call (every input of such a session, every text loaded
// through eval.EvalString, goes through it before it is evaluated, so it is the tree function values and quote() hold).
// A rebuilt tree is the same program, so the same laws hold for what the printer writes for it.
var fmtMacroState *eval.State

const fmtUnrelatedMacro = "zzunrelated = macro(q) { quote(unquote(q)) }"

func fmtRebuild(prog *ast.Statements) (out *ast.Statements, panicMsg string) {
	defer func() {
		if r := recover(); r != nil {
			out, panicMsg = nil, fmt.Sprintf("ast.Modify panic: %v", r)
		}
	}()
	if fmtMacroState == nil {
		fmtMacroState, _ = newState(RunOpt{})
		m, ok, _ := fmtParse(fmtUnrelatedMacro)
		if !ok {
			panic("macro definition rejected")
		}
		fmtMacroState.DefineMacros(m)
		if fmtMacroState.NumMacros() != 1 {
			panic("macro not defined")
		}
	}
	n := fmtMacroState.ExpandMacros(prog)
	st, ok := n.(*ast.Statements)
	if !ok {
		return nil, fmt.Sprintf("ExpandMacros returned %T for a program", n)
	}
	return st, ""
}

// fmtRepl: what `grol -format [-compact]` writes for src (repl.EvalOne with FormatOnly), or ok=false when rejected.
func fmtRepl(src string, compact bool) (out string, ok bool, panicMsg string) {
	if fmtReplState == nil {
		fmtReplState, _ = newState(RunOpt{})
	}
	var buf bytes.Buffer
	o := repl.Options{All: true, FormatOnly: true, Compact: compact, NoColor: true}
	cont, panicked, errs, _ := repl.EvalOne(context.Background(), fmtReplState, src, &buf, o)
	if panicked {
		return "", false, strings.Join(errs, "; ")
	}
	if cont || len(errs) > 0 {
		return "", false, ""
	}
	return buf.String(), true, ""
}

func hasStmtComment(v any) bool {
	return containsKind(v, map[string]bool{"cmt": true})
}

// fmtLastAst: the most recent "ast" record and its parsed program (the "modify" route of the same source starts from it).
var fmtLastAst struct {
	src  string
	prog *ast.Statements
	rec  fmtRec
}

// fmtRecord builds the record of src through the given path; ok=false when the parser rejects src
// (then src is outside the property's quantifier).
//
// Route "modify": src -> T(src) -> identity ast.Modify -> printer = f; f is then an ordinary text: it is read back by the
// parser (dN) and formatted again by the plain formatter (fNN). When f is byte-identical to what the "ast" route wrote
// for the same source, everything downstream of f is what that record already holds and is taken from there.
func fmtRecord(src, via string) (r fmtRec, ok bool) {
	r.Src, r.Via = src, via
	lineMode := via == "line"
	var prog *ast.Statements
	var base *fmtRec
	if via == "modify" && fmtLastAst.src == src && fmtLastAst.prog != nil {
		base, prog = &fmtLastAst.rec, fmtLastAst.prog
		r.TF, r.Cm, r.T0, r.D0 = base.TF, base.Cm, base.T0, base.D0
	} else {
		prog, ok, _ = fmtParseMode(src, lineMode)
		if !ok {
			return r, false
		}
		r.TF = stripKey(dumpStmts(prog)).([]any)
		r.Cm = hasStmtComment(r.TF)
		if r.Cm {
			r.T0 = stripFlags(deepCopy(any(r.TF))).([]any)
		} else {
			r.T0 = r.TF
		}
		r.D0 = canonDump(r.T0)
	}
	format := func(text string, p *ast.Statements, compact, first bool) (string, bool) {
		if via == "repl" {
			out, ok, pm := fmtRepl(text, compact)
			if pm != "" {
				r.Panic, r.PanicAt = pm, "repl.EvalOne"
			}
			return out, ok
		}
		if via == "modify" && first {
			p2, pm := fmtRebuild(p)
			if pm != "" {
				r.Panic, r.PanicAt = pm, "ast.Modify"
				return "", false
			}
			p = p2
		}
		out, pm, at := fmtPrint(p, compact)
		if pm != "" {
			r.Panic, r.PanicAt = pm, at
			return "", false
		}
		return out, true
	}
	second := func(text string, compact bool) (okParse bool, dump string, tree []any, again string, okAgain bool, errMsg string) {
		p2, ok2, msg := fmtParseMode(text, lineMode)
		if !ok2 {
			return false, "", nil, "", false, msg
		}
		tree = stripCK(dumpStmts(p2)).([]any)
		again, okAgain = format(text, p2, compact, false)
		return true, canonDump(tree), tree, again, okAgain, ""
	}
	var fok bool
	if r.FmtN, fok = format(src, prog, false, true); fok {
		if base != nil && base.Panic == "" && r.FmtN == base.FmtN {
			r.OkN, r.DN, r.NN, r.OkNN, r.ErrN = base.OkN, base.DN, base.NN, base.OkNN, base.ErrN
		} else {
			r.OkN, r.DN, _, r.NN, r.OkNN, r.ErrN = second(r.FmtN, false)
		}
	}
	if r.FmtC, fok = format(src, prog, true, true); fok {
		if base != nil && base.Panic == "" && r.FmtC == base.FmtC {
			r.OkC, r.DC, r.TC, r.CC, r.OkCC, r.ErrC = base.OkC, base.DC, base.TC, base.CC, base.OkCC, base.ErrC
		} else {
			r.OkC, r.DC, r.TC, r.CC, r.OkCC, r.ErrC = second(r.FmtC, true)
		}
	}
	if via == "ast" {
		fmtLastAst.src, fmtLastAst.prog, fmtLastAst.rec = src, prog, r
	}
	return r, true
}

// lawKey: the content the laws are stated over (records with equal content get one TLC verdict).
func (r *fmtRec) lawJSON(id int) J {
	j := J{"id": id, "d0": r.D0, "cm": r.Cm, "pan": r.Panic != "",
		"fN": latin1(r.FmtN), "okN": r.OkN, "dN": r.DN, "fNN": latin1(r.NN), "okNN": r.OkNN,
		"fC": latin1(r.FmtC), "okC": r.OkC, "dC": r.DC, "fCC": latin1(r.CC), "okCC": r.OkCC}
	if r.Cm {
		j["t0"] = r.T0
		tc := r.TC
		if tc == nil {
			tc = []any{}
		}
		j["tC"] = tc
	}
	return j
}

func init() {
	workers["fmtprobe"] = fmtProbe
}

// fmtProbe: debugging aid, `vh worker fmtprobe [repl] < sources` (one source per line, newline written as ⏎).
func fmtProbe(args []string) {
	via := "ast"
	if len(args) > 0 {
		via = args[0]
	}
	var in bytes.Buffer
	_, _ = in.ReadFrom(os.Stdin)
	for _, line := range strings.Split(in.String(), "\n") {
		if line == "" {
			continue
		}
		src := strings.ReplaceAll(line, "⏎", "\n")
		r, ok := fmtRecord(src, via)
		if !ok {
			_, _, msg := fmtParse(src)
			fmt.Printf("%q: rejected: %s\n", src, msg)
			continue
		}
		fmt.Printf("%q\n  N=%q okN=%v sameTree=%v idem=%v %s\n  C=%q okC=%v sameTree=%v idem=%v %s\n", src,
			r.FmtN, r.OkN, r.DN == r.D0, r.NN == r.FmtN, r.ErrN, r.FmtC, r.OkC, r.DC == r.D0, r.CC == r.FmtC, r.ErrC)
		v := fmtLawsGo(&r)
		for _, prop := range []string{"C02", "C03"} {
			for _, mode := range []string{"N", "C"} {
				if law := fmtFailedLaw(prop, mode, v); law != "" {
					sigs, note := fmtAttribute(&r, prop, mode, law, true)
					fmt.Printf("  %s %s %s -> %v %s\n", prop, mode, law, sigs, note)
				}
			}
		}
		if r.Panic != "" {
			fmt.Printf("  PANIC %s at %s\n", r.Panic, r.PanicAt)
		}
		for _, fr := range fnRecords(src) { // the source defines a function: its value through Inspect / SaveGlobals
			fr := fr
			fmt.Printf("  FN %s: %q ok=%v same=%v again=%q %s\n", fr.Via, fr.Text, fr.Ok, fnLawGo(&fr), fr.Text2, fr.Panic)
			if !fnLawGo(&fr) {
				sigs, note := fnAttribute(&fr, fnLawGo)
				fmt.Printf("    -> %v %s\n", sigs, note)
			}
		}
		if r.OkN && r.DN != r.D0 {
			a, b, path := treeDiff(any(r.T0), any(parseDump(r.DN)), "")
			fmt.Printf("  N at %s:\n    %s\n    %s\n", path, jstr(a), jstr(b))
		}
		if r.OkC && r.DC != r.D0 {
			a, b, path := treeDiff(any(r.T0), any(parseDump(r.DC)), "")
			fmt.Printf("  C at %s:\n    %s\n    %s\n", path, jstr(a), jstr(b))
		}
	}
}
