package main

// C19 - constants cannot be changed by any path (spec/Constants.tla).

import (
	"encoding/json"
	"fmt"
	"hash/fnv"
	"os"
	"strings"

	"grol.io/grol/lexer"
	"grol.io/grol/token"
)

func init() {
	props["C19"] = propDef{check: checkC19, replay: replayC19,
		rule: "case = one history of mutation attempts and of inputs failing inside a call (TLC-explored, kind x scope, <= 3 steps) on a constant of one value kind, replayed with registers on and off (under a tight memory limit in a child process for huge arrays); the constant is printed after every step; distinct by source text; non-trivial always (every case contains at least one attempt or failing input)"}
}

type constKind struct {
	name, lit, other, large string // large: name of the large variant's kind ("" if none)
}

var constKinds = []constKind{
	{"int", "5", "6", ""}, {"float", "2.5", "3.5", ""}, {"str", `"abc"`, `"xyz"`, ""}, {"bool", "true", "false", ""}, {"nil", "nil", "1", ""},
	{"arr-small", "[1, 2, 3]", "[9]", "arr-large"}, {"arr-large", "[1, 2, 3, 4, 5, 6, 7, 8, 9, 10]", "[9]", ""},
	{"map-small", `{"a": 1, "b": 2}`, `{"z": 0}`, "map-large"}, {"map-large", `{"a": 1, "b": 2, "c": 3, "d": 4, "e": 5, "f": 6}`, `{"z": 0}`, ""},
	{"func", "func(x) {x + 1}", "func(x) {x + 2}", ""},
	// containers that were large and became small again (the large representation holding few elements)
	{"map-shrunk", `(func() {m = {"a": 1, "b": 2, "c": 3, "d": 4, "e": 5}; del(m.e); del(m.d); m})()`, `{"z": 0}`, ""},
	{"arr-shrunk", "(1:12)[0:3]", "[9]", ""},
}

// constants of the tight-memory world: arrays far above the 256 elements below which the memory budget is not consulted; the
// budget left after binding them (c19MemSlack) is a quarter of one copy. They are observed through elements and length.
var c19HugeKinds = []constKind{
	{"arr-huge", "[0] * 300000", "[9]", ""},
	{"arr-huge-mixed", `[1, "a", 2.5] * 8000`, "[9]", ""},
	{"huge-map", c19HugeMapLit(), "{0: 9}", ""}, // (keys 0..3999: the attempts address it like an array, K[0])
}

func c19HugeMapLit() string {
	var ps []string
	for i := 0; i < 4000; i++ {
		ps = append(ps, fmt.Sprintf("%d:%d", i, i+1))
	}
	return "{" + strings.Join(ps, ",") + "}"
}

const c19HugeObs = "println([K[0], K[1], K[2], K[-1], K[3999], len(K)])"

func c19IsHuge(ck constKind) bool { return strings.Contains(ck.name, "huge") }

// c19BodyExpr is what a body run by an attempt prints for the constant: the constant, for a huge array what c19HugeObs shows.
func c19BodyExpr(ck constKind) string {
	if c19IsHuge(ck) {
		return `(if type(K) == "ARRAY" || type(K) == "MAP" {[K[0], K[1], K[2], K[-1], K[3999], len(K)]} else {K})`
	}
	return "K"
}

func c19ObsOf(ck constKind) string {
	if c19IsHuge(ck) {
		return c19HugeObs
	}
	return "println(K)"
}

// c19FailOp: the input of a history step "fail-<how>" in <where> (failing.go); the function of the session it fails in has a
// parameter and a local of its own.
func c19FailOp(op [2]string, i int) (string, bool) {
	if !strings.HasPrefix(op[0], "fail-") {
		return "", false
	}
	return failInput(strings.TrimPrefix(op[0], "fail-"), op[1], "v", "1", "x = v", i), true
}

func c19HasFail(h [][2]string) bool {
	for _, op := range h {
		if strings.HasPrefix(op[0], "fail-") {
			return true
		}
	}
	return false
}

// c19Run runs a session with registers on or off (sessions with failing inputs: under their limits).
func c19Run(in []string, noReg bool) []inObs {
	if hasFailInput(in) {
		return runFailHistory(in, noReg)
	}
	obs, _ := runHistory(in, RunOpt{NoReg: noReg})
	return obs
}

func c19Attempt(kind, scope string, ck constKind) string {
	var a string
	bk := c19BodyExpr(ck)
	switch kind {
	case "assign":
		a = "K = " + ck.other
	case "define":
		a = "K := " + ck.other
	case "incr":
		a = "K++"
	case "predecr":
		a = "--K"
	case "index-assign":
		if strings.HasPrefix(ck.name, "map") {
			a = `K["a"] = 99`
		} else {
			a = "K[0] = 99"
		}
	case "del-entry":
		if strings.HasPrefix(ck.name, "map") {
			a = "del(K.a)"
		} else {
			a = "del(K[0])"
		}
	case "loop-var":
		a = `for K = 2 {println("body", ` + bk + `)}`
	case "list-loop-var":
		a = `for K = [7, 8] {println("body", ` + bk + `)}`
	case "param":
		a = `println("body", func(K) {` + bk + `}(` + ck.other + `))`
		if ck.name != "int" {
			a = `println("body", func(K) {` + bk + `}(7))`
		}
	case "nested-assign":
		a = "func() {K = " + ck.other + "}()"
	case "nested-define":
		a = `println("body", func() {K := ` + ck.other + `; ` + bk + `}())`
	case "func-name":
		a = "func K() {1}"
	case "equal-reassign":
		a = "K = " + ck.lit
	case "loop-from-own-value":
		a = `for K = K:K + 3 {println("body", ` + bk + `)}`
	case "fresh-loop-constant":
		a = `for FRESHX = 3 {println("fresh", FRESHX)}; del(FRESHX)`
	case "fresh-param-constant":
		a = `println("r", catch(func(FRESHP) {println("fresh", FRESHP); ++FRESHP; println("fresh", FRESHP); FRESHP}(3)).err, ` +
			`catch(func(FRESHQ, n) {println("fresh", FRESHQ); for i = n {FRESHQ = FRESHQ + 1}; println("fresh", FRESHQ)}(3, 2)).err, ` +
			`catch(func(FRESHR) {println("fresh", FRESHR); FRESHR--; println("fresh", FRESHR)}(3)).err)`
	case "del-rebind":
		return "del(K); K = " + ck.lit
	}
	switch scope {
	case "function":
		return "func() {" + a + "}()"
	case "loop":
		return "for 1 {" + a + "}"
	}
	return a
}

// c19ClosureInputs: the constant is bound inside a function and only reachable through closures that escaped; every
// attempt calls one of them from the top level, from a function or from a loop. The probes have the same shape as for
// a global constant (value, then "seen from a function").
func c19ClosureInputs(h [][2]string, ck constKind) []string {
	idx, del := "K[0] = 99", "del(K[0])"
	if strings.HasPrefix(ck.name, "map") {
		idx, del = `K["a"] = 99`, "del(K.a)"
	}
	mk := "mk = func() {K = " + ck.lit + `; {"get": () => K, "assign": () => {K = ` + ck.other + `}, "define": () => {K := ` + ck.other + `; K}, "incr": () => {K++}, "predecr": () => {--K}, ` +
		`"index-assign": () => {` + idx + `}, "del-entry": () => {` + del + `}, "nested-assign": () => {func() {K = ` + ck.other + `}()}, "equal-reassign": () => {K = ` + ck.lit + `}}}`
	in := []string{mk + "; c = mk()", "println(c.get())"}
	for i, op := range h {
		if f, ok := c19FailOp(op, i); ok {
			in = append(in, f, "println(c.get())", `println(func() {c.get()}() == c.get())`)
			continue
		}
		call := `c["` + op[0] + `"]()`
		switch op[1] {
		case "function":
			call = "func() {" + call + "}()"
		case "loop":
			call = "for 1 {" + call + "}"
		}
		in = append(in, call, "println(c.get())", `println(func() {c.get()}() == c.get())`)
	}
	if failNeedsPrelude(in) {
		in[0] = failPrelude() + "; " + in[0]
	}
	return in
}

// c19Rebind marks the inputs that legitimately give the constant ANOTHER value (explicit del, then a new binding, then a
// function call before the next read): from there on the constant must print what that value prints in a fresh session.
const c19Rebind = "del(K); K = "

func c19Inputs(h [][2]string, ck constKind) []string {
	obs := c19ObsOf(ck)
	in := []string{"K = " + ck.lit, obs}
	cur := ck.lit
	for i, op := range h {
		if f, ok := c19FailOp(op, i); ok {
			in = append(in, f, obs, `println(func() {K}() == K)`)
			continue
		}
		if op[0] == "del-rebind" {
			if cur == ck.lit {
				cur = ck.other
			} else {
				cur = ck.lit
			}
			in = append(in, c19Rebind+cur+"; (func() {1})()", obs, `println(func() {K}() == K)`)
			continue
		}
		in = append(in, c19Attempt(op[0], op[1], ck), obs, `println(func() {K}() == K)`)
	}
	if failNeedsPrelude(in) {
		in[0] = failPrelude() + "; " + in[0]
	}
	return in
}

var c19FreshPrint = map[string]string{}

// c19PrintOf: what `K = <lit>; println(K)` prints in a fresh session (registers do not matter for a top-level binding).
func c19PrintOf(lit string) string {
	if p, ok := c19FreshPrint[lit]; ok {
		return p
	}
	obs, _ := runHistory([]string{"K = " + lit, "println(K)"}, RunOpt{})
	c19FreshPrint[lit] = obs[1].Out
	return obs[1].Out
}

// c19Judge: the constant prints the same after every attempt (self-relative), inside a body K never
// shows another value, and outcomes agree between registers on/off.
func c19Judge(in []string, on, off []inObs) string {
	base := on[1].Out
	if base == "" || on[1].Err {
		return "the constant could not be printed after binding"
	}
	for i := 2; i < len(in); i++ {
		if strings.HasPrefix(in[i], c19Rebind) { // the one legitimate change: the expected value is the new one from here on
			lit := strings.TrimSuffix(strings.TrimPrefix(in[i], c19Rebind), "; (func() {1})()")
			base = c19PrintOf(lit)
			if on[i].Err || off[i].Err {
				return fmt.Sprintf("explicit del and rebinding %q failed: %s / %s", in[i], on[i].Val, off[i].Val)
			}
			continue
		}
		if in[i] == "println(K)" || in[i] == c19HugeObs || in[i] == "println(c.get())" {
			if on[i].Out != base || off[i].Out != base {
				return fmt.Sprintf("after %q the constant prints %q (registers off: %q), was %q", in[i-1], on[i].Out, off[i].Out, base)
			}
			continue
		}
		if strings.HasPrefix(in[i], "println(func() {K}()") || strings.HasPrefix(in[i], "println(func() {c.get()}()") {
			if on[i].Out != "true\n" || off[i].Out != "true\n" {
				return fmt.Sprintf("after %q the constant seen from a function differs: %q / %q", in[i-2], on[i].Out, off[i].Out)
			}
			continue
		}
		if isFailInput(in[i]) { // an input that fails inside a call, nothing in it names the constant: what follows it is judged
			continue
		}
		// an attempt: same error/non-error outcome and same output with registers on and off
		if on[i].Err != off[i].Err || on[i].Out != off[i].Out {
			return fmt.Sprintf("attempt %q: registers on out=%q err=%v, off out=%q err=%v", in[i], on[i].Out, on[i].Err, off[i].Out, off[i].Err)
		}
		// a constant first bound by a loop keeps its first value: all "fresh <value>" lines are the same
		fresh := ""
		for _, ln := range strings.Split(on[i].Out, "\n") {
			if strings.HasPrefix(ln, "fresh ") {
				if fresh == "" {
					fresh = ln
				} else if ln != fresh {
					return fmt.Sprintf("attempt %q: a constant bound by the loop's first iteration later evaluated to %q (first %q)", in[i], ln, fresh)
				}
			}
		}
		// inside a body the name must not evaluate to another value: bodies print "body <value>"
		for _, ln := range strings.Split(on[i].Out, "\n") {
			if strings.HasPrefix(ln, "body ") && !on[i].Err && strings.TrimPrefix(ln, "body ")+"\n" != base {
				return fmt.Sprintf("attempt %q ran a body in which the constant evaluated to %q (bound value %q)", in[i], strings.TrimPrefix(ln, "body "), strings.TrimSpace(base))
			}
		}
	}
	return ""
}

func checkC19(c *Ctx) {
	cfg := func(maxOps int, dev int, emit bool) string {
		b := func(x bool) string {
			if x {
				return "TRUE"
			}
			return "FALSE"
		}
		return fmt.Sprintf("CONSTANTS\n MaxOps = %d\n MaxTightOps = %d\n WriteBeforeCheck = %s\n RegisterShadows = %s\n CheckWalksCallStack = %s\n FailureLeavesFrame = %s\n InPlaceWhenNoRoom = %s\n EmitOn = %s\nINIT Init\nNEXT Next\nINVARIANT ConstantsStable\n",
			maxOps, c.Pick(1, 2), b(dev == 0), b(dev == 1), b(dev == 2), b(dev == 3), b(dev == 4), b(emit))
	}
	// design level: each named deviation breaks ConstantsStable (the runs are JVMs of their own, awaited at the end)
	devDone := make(chan error, 5)
	for dev := 0; dev < 5; dev++ {
		go func(dev int) {
			r, err := c.TLC(TLCOpt{Spec: "Constants", Cfg: cfg(2, dev, false), Workers: 1, AllowError: true})
			if err == nil && r.InvViolated != "ConstantsStable" {
				err = fmt.Errorf("Constants.tla with deviation %d did not violate ConstantsStable (vacuous model): %s", dev, r.ErrText)
			}
			devDone <- err
		}(dev)
	}
	defer func() {
		for dev := 0; dev < 5; dev++ {
			if err := <-devDone; err != nil {
				c.Infra(err)
			}
		}
	}()
	c.Cov("design_counterexamples", "WriteBeforeCheck=TRUE, RegisterShadows=TRUE, CheckWalksCallStack=TRUE, FailureLeavesFrame=TRUE and InPlaceWhenNoRoom=TRUE each violate ConstantsStable")
	if err := failCalibrate(); err != nil {
		c.Infra(err)
		return
	}
	r, err := c.TLC(TLCOpt{Spec: "Constants", Cfg: cfg(c.Pick(2, 3), -1, true), Workers: 1})
	if err != nil {
		c.Infra(err)
		return
	}
	seen := map[string]bool{}
	n := 0
	errFlags := map[string][]bool{} // history key + kind -> error flags of attempts (small vs large comparison)
	type genLine struct {
		H    [][2]string `json:"h"`
		Home string      `json:"home"`
		Mem  string      `json:"mem"`
	}
	// the histories of the tight-memory world first: they run in child processes while this process runs the others
	var memCases []c19MemCase
	err = ReadLines(r.Emitted, func(line []byte) error {
		var g genLine
		if err := json.Unmarshal(line, &g); err != nil {
			return err
		}
		hk := g.Home + g.Mem + fmt.Sprint(g.H)
		if g.Mem != "tight" || seen[hk] {
			return nil
		}
		seen[hk] = true
		for _, ck := range c19HugeKinds {
			memCases = append(memCases, c19MemCase{Last: g.H[len(g.H)-1][0], Kind: ck.name, Inputs: c19Inputs(g.H, ck), Slack: c19MemSlack(ck)})
		}
		return nil
	})
	if err != nil {
		c.Infra(err)
		return
	}
	memDone := make(chan error, 1)
	scratch := c.Scratch()
	go func() { memDone <- c19MemRun(scratch, memCases) }() // (child processes: nothing of grol runs in this goroutine)
	defer func() {
		if err := <-memDone; err != nil {
			c.Infra(err)
			return
		}
		c19MemJudge(c, memCases)
	}()
	failSessions, failHit, failMissed := 0, 0, 0
	err = ReadLines(r.Emitted, func(line []byte) error {
		var g genLine
		if err := json.Unmarshal(line, &g); err != nil {
			return err
		}
		n++
		hk := g.Home + g.Mem + fmt.Sprint(g.H)
		if seen[hk] {
			return nil
		}
		seen[hk] = true
		if c.Thorough() && len(g.H) == 3 && (n+int(c.Seed))%6 != 0 {
			return nil
		}
		last := g.H[len(g.H)-1][0]
		hh := fnv.New32a()
		_, _ = hh.Write([]byte(hk))
		hsh := int(hh.Sum32()>>3) + int(c.Seed)
		sampled := !c.Thorough() || len(g.H) == 3 // (thorough: every history of up to two steps in full)
		if sampled && strings.Contains(hk, "fail-deadline") && hsh%4 != 0 {
			return nil // (a deadline costs milliseconds: one in four of the histories with one, by a hash of history and seed)
		}
		kinds := constKinds
		hasFail := c19HasFail(g.H)
		if hasFail && sampled {
			// a failing input does not look at the constant: two of the value kinds per history (chosen by a hash of the
			// history and the seed), not all twelve
			k := hsh / 4
			kinds = []constKind{constKinds[k%len(constKinds)], constKinds[(k+5)%len(constKinds)]}
		}
		for _, ck := range kinds {
			in := c19Inputs(g.H, ck)
			if g.Home == "closure" {
				in = c19ClosureInputs(g.H, ck)
			}
			on := c19Run(in, false)
			off := c19Run(in, true)
			key := ck.name + "\n" + strings.Join(in, "\n")
			c.Case(key, true)
			if n%4000 == 1 && ck.name == "arr-large" {
				c.Sample(map[string]any{"attempts": g.H, "inputs": in})
			}
			var flags []bool
			for i := 2; i < len(in); i += 3 {
				flags = append(flags, on[i].Err)
				if isFailInput(in[i]) {
					failSessions++
					if on[i].Err {
						failHit++
					} else if !strings.Contains(in[i], c10ShortMark) { // (a deadline can fire too late on a loaded machine; the other ways are exact)
						failMissed++
					}
				}
			}
			errFlags[hk+"|"+ck.name] = flags
			if msg := c19Judge(in, on, off); msg != "" {
				c.Fail("constant-changed:"+last+":"+ck.name, msg, map[string]any{"check": "attempts", "inputs": in})
			} else {
				c.AddTraces(1)
			}
		}
		// containers of any size: the small and the large variant agree on error / non-error of every attempt
		for _, ck := range constKinds {
			if ck.large == "" || hasFail {
				continue
			}
			a, b := errFlags[hk+"|"+ck.name], errFlags[hk+"|"+ck.large]
			if fmt.Sprint(a) != fmt.Sprint(b) {
				c.Fail("constant-outcome-depends-on-size:"+ck.name, fmt.Sprintf("attempts %v: error outcomes %v for %s but %v for %s", g.H, a, ck.name, b, ck.large),
					map[string]any{"check": "size", "home": g.Home, "inputs": c19Inputs(g.H, constKinds[indexOfKind(ck.large)])})
			}
		}
		return nil
	})
	if err != nil {
		c.Infra(err)
		return
	}
	if failSessions == 0 || failMissed > 0 || failHit*10 < failSessions*8 {
		c.Infra(fmt.Errorf("C19: only %d of %d failing inputs failed, %d of them without a deadline (sessions with failures test nothing)", failHit, failSessions, failMissed))
		return
	}
	c.Cov("failing_inputs", fmt.Sprintf("%d of %d failed inside their call", failHit, failSessions))
	c.Cov("histories", len(seen))
	// a constant bound for the first time from an integer loop variable / parameter (a register): once bound, every later
	// evaluation - later iterations, after ++ of the parameter, after other loops reused the register - gives the same value
	regBound := 0
	for _, src := range interactionPrograms() {
		if !strings.Contains(src, "KK") || strings.Contains(src, "KK0") {
			continue
		}
		on, _ := runHistory([]string{src}, RunOpt{})
		off, _ := runHistory([]string{src}, RunOpt{NoReg: true})
		c.Case("regbound:"+src, true)
		regBound++
		msg := ""
		if on[0].Out != off[0].Out || on[0].Err != off[0].Err {
			msg = fmt.Sprintf("registers on out=%q err=%v, off out=%q err=%v", on[0].Out, on[0].Err, off[0].Out, off[0].Err)
		} else if !on[0].Err {
			// every line that prints the constant alone shows the same value
			first := ""
			for _, ln := range strings.Split(strings.TrimSpace(on[0].Out), "\n") {
				f := strings.Fields(ln)
				if len(f) == 0 || ln == "false" || ln == "true" {
					continue
				}
				v := f[0]
				if first == "" {
					first = v
				} else if v != first {
					msg = fmt.Sprintf("the constant printed %q and later %q in %q", first, v, on[0].Out)
					break
				}
			}
		}
		if msg != "" {
			c.Fail("constant-bound-from-register-changes", msg, map[string]any{"check": "regbound", "inputs": []string{src}})
		} else {
			c.AddTraces(1)
		}
	}
	c.Cov("register_bound_constant_programs", regBound)
	c19Near(c)
	c19Names(c)
}

// c19Names: which names are constants. ConstNames.tla classifies every name of up to 3 characters over an alphabet with
// the ends of the letter and digit ranges ([A-Z][A-Z0-9_]*); every name that lexes as one identifier is bound and
// attacked: the attacks fail and leave the value exactly for the names the model calls constant, registers on and off.
func c19NameJudge(name, attack string, ai int, isConst bool, on, off []inObs) string {
	switch {
	case on[3] != off[3] || on[2].Err != off[2].Err:
		return fmt.Sprintf("registers on: attack err=%v then %q, off: err=%v then %q", on[2].Err, on[3].Out, off[2].Err, off[3].Out)
	case isConst && on[3].Out != "1\n":
		return fmt.Sprintf("%s is a constant ([A-Z][A-Z0-9_]*) bound to 1; after %q it prints %q", name, attack, strings.TrimSpace(on[3].Out))
	case isConst && !on[2].Err && ai < 4: // (as a loop variable or parameter name the constant may also simply keep its value)
		return fmt.Sprintf("%s is a constant; %q did not fail", name, attack)
	case !isConst && ai < 4 && (on[2].Err || on[3].Out != "2\n"):
		return fmt.Sprintf("%s is not a constant (not [A-Z][A-Z0-9_]*); %q failed (%v) / left %q", name, attack, on[2].Err, strings.TrimSpace(on[3].Out))
	}
	return ""
}

func c19Names(c *Ctx) {
	r, err := c.TLC(TLCOpt{Spec: "ConstNames", Cfg: "CONSTANTS\n EmitOn = TRUE\nINIT Init\nNEXT Next\nINVARIANT Sane\n", Workers: 1})
	if err != nil {
		c.Infra(err)
		return
	}
	n, consts := 0, 0
	err = ReadLines(r.Emitted, func(line []byte) error {
		var g struct {
			Name  string `json:"name"`
			Const bool   `json:"const"`
		}
		if err := json.Unmarshal(line, &g); err != nil {
			return err
		}
		l := lexer.New(g.Name)
		if t := l.NextToken(); t.Type() != token.IDENT || t.Literal() != g.Name || l.NextToken().Type() != token.EOF {
			return nil // not one identifier: not a name
		}
		for ai, attack := range []string{g.Name + " = 2", g.Name + " := 2", g.Name + "++", "func() {" + g.Name + " = 2}()", "for " + g.Name + " = 3:5 {}", "func(" + g.Name + ") {" + g.Name + "}(2)"} {
			in := []string{g.Name + " = 1", "println(" + g.Name + ")", attack, "println(" + g.Name + ")"}
			on, _ := runHistory(in, RunOpt{})
			off, _ := runHistory(in, RunOpt{NoReg: true})
			c.Case("name:"+strings.Join(in, "\n"), true)
			n++
			if on[1].Out != "1\n" || on[1].Err {
				return fmt.Errorf("name %q could not be bound and printed: %q %q", g.Name, on[0].Val, on[1].Out)
			}
			msg := c19NameJudge(g.Name, attack, ai, g.Const, on, off)
			if msg != "" {
				c.Fail("constant-name-misclassified", msg, map[string]any{"check": "names", "inputs": in, "const": g.Const, "attack": ai, "name": g.Name})
			} else {
				c.AddTraces(1)
			}
		}
		if g.Const {
			consts++
		}
		return nil
	})
	if err != nil {
		c.Infra(err)
		return
	}
	c.Cov("name_attack_cases", n)
	c.Cov("names_classified_constant", consts)
}

// c19Near: replacements that a lax "is it the same value" test lets through. The new value compares equal to the old one
// under == / Cmp or prints the same, but is observably another value (1 / K, type(K[0]), K() differ), or the name read at
// the place of the write is not the binding being written (a function named like the constant).
// inputs = prelude..., "K = <lit>", obs, attempt, obs, ...: every obs prints what the first one printed.
const c19Obs = "println(K, "

type c19NearCase struct {
	prelude  []string
	lit, obs string
	attempts []string
}

func c19NearCases() []c19NearCase {
	wr := func(nv string) []string {
		return []string{"K = " + nv, "K := " + nv, "func() {K = " + nv + "}()", "func() {K := " + nv + "; K}(); 0", "for i = 1 {K = " + nv + "}", "if true {K = " + nv + "}", "(() => {K = " + nv + "})()",
			"func(v) {K = v}(" + nv + ")", "func(K) {K}(" + nv + "); 0", "for K = [" + nv + "] {1}"}
	}
	mk := []string{"mk = func(n) {func() {n}}", "mk2 = func(n) {c = n; [func() {c = c + 1; c}]}"}
	cs := []c19NearCase{
		{nil, "1", "type(K), K / 2)", wr("1.0")}, {nil, "1.0", "type(K), K / 2)", wr("1")},
		{nil, "0.0", "1 / K)", wr("-0.0")}, {nil, "-0.0", "1 / K)", wr("0.0")},
		{nil, "[1]", "type(K[0]), K[0] / 2)", append(wr("[1.0]"), "K[0] = 1.0", "K[0] := 1.0", "func() {K[0] = 1.0}()", "K[0] = K[0] * 1.0", "K[0] /= 1.0")},
		{nil, "[1.0, 2]", "type(K[0]), type(K[1]))", append(wr("[1, 2]"), "K[0] = 1", "K[1] = 2.0", "func() {K[1] = 2.0}()")},
		{nil, "[0.0]", "1 / K[0])", append(wr("[-0.0]"), "K[0] = -0.0", "K[0] = -K[0]", "K[0] *= -1")},
		{nil, `{"a": 1}`, "type(K.a), K.a / 2)", append(wr(`{"a": 1.0}`), "K.a = 1.0", `K["a"] = 1.0`, "func() {K.a = 1.0}()", "K.a = K.a + 0.0")},
		{nil, "{1: 1}", "type(first(keys(K))))", append(wr("{1.0: 1}"), "K[1.0] = 1", "K[1] = 1.0")},
		{nil, "[[1]]", "type(K[0][0]))", wr("[[1.0]]")},
		{nil, `{"a": [1, {"b": 2}]}`, "type(K.a[1].b))", wr(`{"a": [1, {"b": 2.0}]}`)},
		{nil, "1:12", "type(K[11]))", append(wr("(1:11) + 11.0"), "K[10] = 11.0")},
		{nil, "[9007199254740993]", "type(K[0]), K[0] % 10)", append(wr("[9007199254740992.0]"), "K[0] = 9007199254740992.0")},
		{nil, "[9007199254740992.0]", "type(K[0]))", append(wr("[9007199254740993]"), "K[0] = 9007199254740993", "K[0] = 9007199254740992")},
		{nil, "[-9007199254740993]", "type(K[0]), K[0] % 10)", append(wr("[-9007199254740992.0]"), "K[0] = -9007199254740992.0")},
		{nil, "{9007199254740993: 1}", "type(first(keys(K))))", append(wr("{9007199254740992.0: 1}"), "K[9007199254740992.0] = 2")},
		{mk, "mk(1)", "K())", append(wr("mk(2)"), "K = mk(1)")},
		{mk, "mk2(0)", "K[0]() > 0)", nil},
		{mk, "[mk(1)]", "K[0]())", append(wr("[mk(2)]"), "K[0] = mk(2)")},
		{mk, `{"f": mk(1)}`, "K.f())", append(wr(`{"f": mk(2)}`), "K.f = mk(2)")},
		{nil, "func(x) {x + (1 + 2)}", "K(0.5), K([1]))", wr("func(x) {x + 1 + 2}")},
		{nil, "func ga(x) {x + 1}", "K(1))", wr("func gb(x) {x + 1}")}, {nil, "func(x) {x + 1}", "K(1))", wr("func gb(x) {x + 1}")}, {nil, "func ga(x) {x + 1}", "K(1))", wr("func(x) {x + 1}")},
		{nil, `"1"`, "type(K))", wr("1")}, {nil, "nil", "type(K))", wr("[]")}, {nil, "[]", "type(K), len(K))", wr("{}")}, {nil, "{}", "type(K))", wr("[]")},
		{nil, "true", "type(K))", wr("1")}, {nil, "0", "type(K))", wr("false")}, {nil, `""`, "type(K), len(K))", wr("nil")},
	}
	// a function named like the constant: inside it the name reads as the function itself
	for _, body := range []string{"K = self", "K := self", "K = self; K", "func() {K = self}()", "x = self; K = x", "for i = 1 {K = self}", "K = (() => self)()"} {
		cs = append(cs, c19NearCase{[]string{"g = func K() {" + body + "}", "del(K)"}, "5", "type(K))", []string{"g()", "catch(g()); 0", "g(); g()"}})
		cs = append(cs, c19NearCase{[]string{"func K() {" + body + "}", "g = K", "del(K)"}, "[1, 2]", "type(K))", []string{"g()", "h = g; h()"}})
	}
	return cs
}

func c19NearInputs(cs c19NearCase, attempt string) []string {
	in := append([]string{}, cs.prelude...)
	return append(in, "K = "+cs.lit, c19Obs+cs.obs, attempt, c19Obs+cs.obs)
}

func c19NearJudge(in []string, on, off []inObs) string {
	first := -1
	for i := range in {
		if !strings.Contains(in[i], c19Obs) {
			if first >= 0 && (on[i].Err != off[i].Err || on[i].Out != off[i].Out) {
				return fmt.Sprintf("attempt %q: registers on out=%q err=%v, off out=%q err=%v", in[i], on[i].Out, on[i].Err, off[i].Out, off[i].Err)
			}
			continue
		}
		if first < 0 {
			first = i
			if on[i].Err || on[i].Out == "" {
				return "" // (the constant could not be bound or observed: not a case)
			}
		}
		if on[i].Out != on[first].Out || off[i].Out != on[first].Out {
			return fmt.Sprintf("after %q the constant is observed as %q (registers off: %q), was %q", in[i-1], strings.TrimSpace(on[i].Out), strings.TrimSpace(off[i].Out), strings.TrimSpace(on[first].Out))
		}
	}
	return ""
}

func c19Near(c *Ctx) {
	n := 0
	for _, cs := range c19NearCases() {
		attempts := cs.attempts
		if len(attempts) == 0 {
			attempts = []string{"0"}
		}
		for _, at := range attempts {
			in := c19NearInputs(cs, at)
			on, _ := runHistory(in, RunOpt{})
			off, _ := runHistory(in, RunOpt{NoReg: true})
			c.Case("near:"+strings.Join(in, "\n"), true)
			n++
			if msg := c19NearJudge(in, on, off); msg != "" {
				c.Fail("constant-replaced-by-near-equal:"+cs.lit, msg, map[string]any{"check": "near", "inputs": in})
			} else {
				c.AddTraces(1)
			}
		}
	}
	c.Cov("near_equal_replacement_cases", n)
}

func indexOfKind(name string) int {
	for i, k := range constKinds {
		if k.name == name {
			return i
		}
	}
	return 0
}

func replayC19(rp map[string]any) (bool, string) {
	var in []string
	b, _ := json.Marshal(rp["inputs"])
	_ = json.Unmarshal(b, &in)
	if rp["check"] == "mem" {
		slack, _ := rp["slack"].(float64)
		dir, err := os.MkdirTemp("", "c19mem")
		if err != nil {
			return false, err.Error()
		}
		defer os.RemoveAll(dir)
		cs := []c19MemCase{{Inputs: in, Slack: int64(slack)}}
		if err := c19MemRun(dir, cs); err != nil {
			return false, err.Error()
		}
		if msg := c19Judge(in, cs[0].On, cs[0].Off); msg != "" {
			return false, msg
		}
		return true, ""
	}
	on := c19Run(in, false)
	off := c19Run(in, true)
	if rp["check"] == "regbound" {
		if on[0] != off[0] {
			return false, describeDiff(on, off, 1)
		}
		return true, "registers on/off agree (the in-run constancy judgement is only made by the check itself)"
	}
	if rp["check"] == "names" && len(in) == 4 {
		ai, _ := rp["attack"].(float64)
		isConst, _ := rp["const"].(bool)
		name, _ := rp["name"].(string)
		if msg := c19NameJudge(name, in[2], int(ai), isConst, on, off); msg != "" {
			return false, msg
		}
		return true, ""
	}
	if rp["check"] == "near" {
		if msg := c19NearJudge(in, on, off); msg != "" {
			return false, msg
		}
		return true, ""
	}
	if msg := c19Judge(in, on, off); msg != "" {
		return false, msg
	}
	return true, ""
}
