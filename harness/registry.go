package main

// Property checks register themselves from init() in their own cXX.go file:
//   func init() { props["Cxx"] = propDef{check: checkCxx, replay: replayCxx, rule: "..."} }
// Child-process workers register in workers[kind].

import (
	"fmt"
	"os"
)

var workers = map[string]func(args []string){}

func registerProps() {}

func workerMain(args []string) {
	if len(args) == 0 {
		fmt.Fprintln(os.Stderr, "worker kind missing")
		os.Exit(2)
	}
	w, ok := workers[args[0]]
	if !ok {
		fmt.Fprintln(os.Stderr, "unknown worker kind", args[0])
		os.Exit(2)
	}
	w(args[1:])
}
