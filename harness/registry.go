package main

import (
	"fmt"
	"os"
)

func registerProps() {
	props["C20"] = propDef{check: checkC20, replay: replayC20,
		rule: "case = one TLC-emitted transition (witness insertion order + inserted word) replayed on trie.Trie, or one random insertion trace validated by Trie_Trace.tla; distinct by (witness, word); non-trivial when the trie was non-empty before the insert"}
}

func workerMain(args []string) {
	fmt.Fprintln(os.Stderr, "no worker kinds yet", args)
	os.Exit(2)
}
