package main

// C06 - arrays and maps are values: no aliasing at any size (spec/Containers.tla).

import (
	"encoding/json"
	"fmt"
	"sort"
	"strings"
)

func init() {
	props["C06"] = propDef{check: checkC06, replay: replayC06,
		rule: "case = one TLC-explored transition of Containers.tla (witness history + operation) instantiated as a grol session for arrays or maps, all bindings printed after every statement and compared with the value-level prediction; distinct by source text; non-trivial when at least two bindings are non-empty"}
}

type contOp struct {
	Op    string `json:"op"`
	N     int    `json:"n"`
	X     string `json:"x"`
	Y     string `json:"y"`
	Z     string `json:"z"`
	Which int    `json:"which"`
}

type contLine struct {
	H   []contOp         `json:"h"`
	Val map[string][]int `json:"val"`
}

func contCfg(sizes string, small, maxOps int, cow, coa, emit bool) string {
	b := func(x bool) string {
		if x {
			return "TRUE"
		}
		return "FALSE"
	}
	return fmt.Sprintf("CONSTANTS\n Vars = {\"a\", \"b\", \"c\"}\n Sizes = %s\n Small = %d\n MaxOps = %d\n CopyOnWrite = %s\n CopyOnAppend = %s\n EmitOn = %s\nINIT Init\nNEXT Next\nVIEW view\nINVARIANT Refines\n",
		sizes, small, maxOps, b(cow), b(coa), b(emit))
}

// instantiateContainers renders a behaviour as grol inputs plus the expected print after each input.
// kind "arr": arrays; kind "map": maps whose i-th smallest key carries the i-th element.
// variant selects the source form of the initial value and of every copy (variant 0 = the plain forms): the value
// semantics are the same, what differs is where the storage comes from - a literal, a slice of a larger container that
// stays bound to `par` (printed too: it must never change), the `..` array of a variadic call, a value built by appends or
// deletions, a value taken out of another container or passed through a function or a loop variable.
func instantiateContainers(h []contOp, kind string, variant int) (inputs []string, ok bool) {
	vars := []string{"a", "b", "c"}
	keys := map[string][]int{"a": nil, "b": nil, "c": nil}
	probe := "println(a, b, c)"
	if variant > 0 {
		probe = "println(a, b, c); println(par, hold)"
	}
	inputs = append(inputs, "idf = func(p) {p}; pack = func(..) {..}; par = nil; hold = {}")
	appendForm := func(y, x, v string, i int) string { // y = x + v with the left operand written in several ways
		if variant == 0 {
			return y + " = " + x + " + " + v
		}
		forms := []string{"%[1]s = %[2]s + %[3]s", "%[1]s = idf(%[2]s) + %[3]s", "%[1]s = %[2]s[0:] + %[3]s", "%[1]s = [%[2]s][0] + %[3]s", "%[1]s = (%[2]s) + %[3]s",
			"%[1]s = (if true {%[2]s} else {0}) + %[3]s", `%[1]s = {"k": %[2]s}.k + %[3]s`, "%[1]s = first([%[2]s]) + %[3]s"}
		return fmt.Sprintf(forms[(variant/3+i)%len(forms)], y, x, v)
	}
	if kind == "arr" {
		inputs = append(inputs, "mut = func(p, v) {p[0] = v; p}")
	} else {
		inputs = append(inputs, "mutm = func(p, k, v) {p[k] = v; p}")
	}
	copyForm := func(y, x string, i int) string {
		if variant == 0 {
			return y + " = " + x
		}
		forms := []string{"%[1]s = %[2]s", "t = [%[2]s]; %[1]s = t[0]", `t = {"k": %[2]s}; %[1]s = t.k`, "%[1]s = idf(%[2]s)", "for q = [%[2]s] {%[1]s = q}",
			"t = []; t = t + [%[2]s]; %[1]s = t[0]", "%[1]s = (() => %[2]s)()", "t = [0, %[2]s]; t[0] = %[2]s; %[1]s = t[1]", `t = {}; t.k = %[2]s; %[1]s = first(t).value`}
		return fmt.Sprintf(forms[(variant+i)%len(forms)], y, x)
	}
	for i, op := range h {
		v := 100 + i // Fresh == 100 + Len(hist) before the step
		switch op.Op {
		case "init":
			var es, ps []string
			for k := 1; k <= op.N; k++ {
				es = append(es, fmt.Sprint(k))
				ps = append(ps, fmt.Sprintf("%d:%d", k, k))
				if kind == "map" {
					keys["a"] = append(keys["a"], k)
				}
			}
			n := op.N
			if kind == "arr" {
				src := fmt.Sprintf("a = 1:%d", n+1)
				if n == 0 {
					src = "a = []"
				}
				if variant > 0 && n > 0 { // (an empty initial value: only the plain form, pack() and rest([x]) are not [])
					switch variant % 6 {
					case 1:
						src = "a = [" + strings.Join(es, ", ") + "]"
					case 2: // a prefix of a larger array that stays bound (spare capacity behind the slice)
						src = fmt.Sprintf("par = 1:%d; a = par[0:%d]", n+6, n)
					case 3: // the `..` array of a variadic call
						src = "a = pack(" + strings.Join(es, ", ") + ")"
					case 4: // built by appends (storage grown in steps)
						src = fmt.Sprintf("a = []; for i = %d {a = a + (i + 1)}", n)
					case 5: // the tail and the middle of larger arrays
						src = fmt.Sprintf("par = 0:%d; a = rest(par)", n+1)
					default:
						src = fmt.Sprintf("par = -2:%d; a = par[3:%d]", n+4, n+3)
					}
				}
				inputs = append(inputs, src+"; b = []; c = []")
			} else {
				src := "a = {" + strings.Join(ps, ",") + "}"
				if variant > 0 {
					switch variant % 5 {
					case 1: // built by insertions, largest key first
						src = "a = {}"
						for k := n; k >= 1; k-- {
							src += fmt.Sprintf("; a[%d] = %d", k, k)
						}
					case 2: // was larger, shrunk by del (the large representation with few pairs)
						src = fmt.Sprintf("a = {%s}", strings.Join(append(append([]string{}, ps...), "91:91", "92:92", "93:93", "94:94", "95:95"), ","))
						src += "; for k = 91:96 {del(a[k])}"
					case 3: // a range of a larger map that stays bound
						src = fmt.Sprintf("par = {%s}; a = par[0:%d]", strings.Join(append(append([]string{}, ps...), "91:91", "92:92", "93:93", "94:94", "95:95"), ","), n)
					case 4: // a merge result
						h := n / 2
						src = fmt.Sprintf("a = {%s} + {%s}", strings.Join(ps[:h], ","), strings.Join(ps[h:], ","))
					default: // rest of a larger map (rest of a one-pair map is nil, not {}: only when something remains)
						if n > 0 {
							src = fmt.Sprintf("par = {%s}; a = rest(par)", strings.Join(append([]string{"-5:-5"}, ps...), ","))
						}
					}
				}
				inputs = append(inputs, src+"; b = {}; c = {}")
			}
		case "copy":
			inputs = append(inputs, copyForm(op.Y, op.X, i))
			keys[op.Y] = append([]int{}, keys[op.X]...)
		case "set":
			if kind == "arr" {
				idx := "0"
				if op.Which == 2 {
					idx = "-1"
				}
				inputs = append(inputs, fmt.Sprintf("%s[%s] = %d", op.X, idx, v))
			} else {
				ks := keys[op.X]
				k := ks[0]
				if op.Which == 2 {
					k = ks[len(ks)-1]
				}
				inputs = append(inputs, fmt.Sprintf("%s[%d] = %d", op.X, k, v))
			}
		case "append":
			if kind == "arr" {
				inputs = append(inputs, appendForm(op.Y, op.X, fmt.Sprint(v), i))
			} else {
				inputs = append(inputs, appendForm(op.Y, op.X, fmt.Sprintf("{%d:%d}", v, v), i))
				keys[op.Y] = append(append([]int{}, keys[op.X]...), v)
			}
		case "shrink":
			if kind == "arr" {
				inputs = append(inputs, fmt.Sprintf("%s = %s[0:-1]", op.X, op.X))
			} else {
				ks := keys[op.X]
				inputs = append(inputs, fmt.Sprintf("del(%s[%d])", op.X, ks[len(ks)-1]))
				keys[op.X] = append([]int{}, ks[:len(ks)-1]...)
			}
		case "overwrite":
			if kind == "arr" {
				return nil, false
			}
			ks := keys[op.X]
			k := ks[0]
			if op.Which == 2 {
				k = ks[len(ks)-1]
			}
			inputs = append(inputs, appendForm(op.Y, op.X, fmt.Sprintf("{%d:%d}", k, v), i))
			keys[op.Y] = append([]int{}, ks...)
		case "concat":
			if kind != "arr" {
				return nil, false
			}
			inputs = append(inputs, appendForm(op.Y, op.X, op.Z, i))
		case "call":
			if kind == "arr" {
				inputs = append(inputs, fmt.Sprintf("%s = mut(%s, %d)", op.Y, op.X, v))
			} else {
				inputs = append(inputs, fmt.Sprintf("%s = mutm(%s, %d, %d)", op.Y, op.X, keys[op.X][0], v))
				keys[op.Y] = append([]int{}, keys[op.X]...)
			}
		}
		if variant > 0 && op.Op != "init" {
			tgt := op.Y
			if op.Op == "set" || op.Op == "shrink" {
				tgt = op.X
			}
			inputs[len(inputs)-1] += fmt.Sprintf("; hold[%d] = %s", i, tgt) // stored inside another container: must keep this value
		}
		inputs = append(inputs, probe)
	}
	_ = vars
	return inputs, true
}

// expectedPrint is the printed form of the predicted values after the LAST step.
func expectedPrint(val map[string][]int, h []contOp, kind string) string {
	var parts []string
	// recompute keys for maps
	keys := map[string][]int{}
	for i, op := range h {
		v := 100 + i
		switch op.Op {
		case "init":
			for k := 1; k <= op.N; k++ {
				keys["a"] = append(keys["a"], k)
			}
		case "copy", "call", "overwrite":
			keys[op.Y] = append([]int{}, keys[op.X]...)
		case "append":
			keys[op.Y] = append(append([]int{}, keys[op.X]...), v)
		case "shrink":
			if n := len(keys[op.X]); n > 0 {
				keys[op.X] = append([]int{}, keys[op.X][:n-1]...)
			}
		}
	}
	for _, name := range []string{"a", "b", "c"} {
		vs := val[name]
		var es []string
		for i, x := range vs {
			if kind == "arr" {
				es = append(es, fmt.Sprint(x))
			} else {
				es = append(es, fmt.Sprintf("%d:%d", keys[name][i], x))
			}
		}
		if kind == "arr" {
			parts = append(parts, "["+strings.Join(es, ",")+"]")
		} else {
			parts = append(parts, "{"+strings.Join(es, ",")+"}")
		}
	}
	return strings.Join(parts, " ") + "\n"
}

func contSignature(h []contOp, kind string) string {
	last := h[len(h)-1]
	return fmt.Sprintf("container-aliasing-%s-after-%s", kind, last.Op)
}

func checkC06(c *Ctx) {
	// 1. design level: each deviation of the pinned tree breaks the refinement
	for _, dev := range [][2]bool{{false, true}, {true, false}} {
		r, err := c.TLC(TLCOpt{Spec: "Containers", Cfg: contCfg("{3}", 2, 3, dev[0], dev[1], false), Workers: 4, AllowError: true})
		if err != nil {
			c.Infra(err)
			return
		}
		if r.InvViolated != "Refines" {
			c.Infra(fmt.Errorf("Containers.tla with deviation %v did not violate Refines (vacuous model): %s", dev, r.ErrText))
			return
		}
	}
	c.Cov("design_counterexamples", "CopyOnWrite=FALSE and CopyOnAppend=FALSE each violate Refines (aliasing through a shared store)")

	type space struct {
		kind   string
		sizes  string
		small  int
		maxOps int
	}
	spaces := []space{{"arr", "{0, 1, 7, 8, 9, 10}", 8, c.Pick(3, 4)}, {"map", "{0, 1, 3, 4, 5, 6}", 4, c.Pick(3, 4)}}
	seen := map[string]bool{}
	for _, sp := range spaces {
		r, err := c.TLC(TLCOpt{Spec: "Containers", Cfg: contCfg(sp.sizes, sp.small, sp.maxOps, true, true, true), Workers: 1, Heap: "8g"}) // one worker: records/functions in the history are shared between states and TLC normalises them lazily (not thread safe)
		if err != nil {
			c.Infra(err)
			return
		}
		n := 0
		stride := 1
		if !c.Thorough() {
			stride = 3
		}
		err = ReadLines(r.Emitted, func(line []byte) error {
			var g contLine
			if err := json.Unmarshal(line, &g); err != nil {
				return err
			}
			n++
			if (n+int(c.Seed))%stride != 0 {
				return nil
			}
			variant := 0
			if n%2 == 1 { // every other behaviour with other source forms of its initial value and copies
				variant = 1 + int((uint32(n)*2654435761+uint32(c.Seed)*40503)>>9)%30 // hashed: the stride must not alias with the variants
			}
			inputs, ok := instantiateContainers(g.H, sp.kind, variant)
			if !ok {
				return nil
			}
			key := sp.kind + "\n" + strings.Join(inputs, "\n")
			if seen[key] {
				return nil
			}
			seen[key] = true
			obs, _ := runHistory(inputs, RunOpt{})
			nonEmpty := 0
			for _, v := range g.Val {
				if len(v) > 0 {
					nonEmpty++
				}
			}
			c.Case(key, nonEmpty >= 2)
			if n%20000 == 1 {
				c.Sample(map[string]any{"kind": sp.kind, "inputs": inputs, "predicted": g.Val})
			}
			want := expectedPrint(g.Val, g.H, sp.kind)
			got := obs[len(obs)-1]
			parChanged := ""
			if variant > 0 { // second line of every probe: the container the initial value was cut from; it never changes
				first := ""
				for k := 3; k < len(obs); k += 2 {
					abc, parLine, _ := strings.Cut(obs[k].Out, "\n")
					obs[k].Out = abc + "\n"
					if msg := c06SideLine(&first, strings.TrimSuffix(parLine, "\n")); msg != "" {
						parChanged = fmt.Sprintf("%s (step %d)", msg, (k-1)/2)
					}
				}
				got = obs[len(obs)-1]
			}
			bad := got.Err || got.Out != want || parChanged != ""
			// (i) non-interference, self-relative: bindings not assigned by the last operation print as before
			if !bad && len(obs) >= 3 {
				prev := strings.Fields(strings.TrimSpace(obs[len(obs)-3].Out))
				cur := strings.Fields(strings.TrimSpace(got.Out))
				last := g.H[len(g.H)-1]
				target := last.Y
				if last.Op == "set" || last.Op == "shrink" {
					target = last.X
				}
				if len(prev) == 3 && len(cur) == 3 {
					for i, name := range []string{"a", "b", "c"} {
						if name != target && prev[i] != cur[i] {
							bad = true
						}
					}
				}
			}
			for _, o := range obs {
				if o.Err {
					bad = true
				}
			}
			if bad {
				c.Fail(contSignature(g.H, sp.kind), fmt.Sprintf("after %v: printed %q (err=%v %s), values predict %q %s", g.H[len(g.H)-1], got.Out, got.Err, got.Val, want, parChanged),
					map[string]any{"check": "gen", "kind": sp.kind, "inputs": inputs, "want": want, "variant": variant})
			} else {
				c.AddTraces(1)
			}
			return nil
		})
		if err != nil {
			c.Infra(err)
			return
		}
		if n == 0 {
			c.Infra(fmt.Errorf("Containers GEN emitted nothing"))
			return
		}
		c.Note("Containers %s: %d states, %d transitions emitted", sp.kind, r.Distinct, n)
	}
	// 2. pinned reproducers of the repaired defects (regression cases) and nesting / loops / element ++
	pinned := []struct {
		in   []string
		want string
	}{
		{[]string{"a = 1:11; b = a; b[0] = 99; println(a[0], b[0])"}, "1 99\n"},
		{[]string{"n = {1:1,2:2,3:3,4:4,5:5}; o = n; o[1] = 99; del(o[2]); println(n, o)"}, "{1:1,2:2,3:3,4:4,5:5} {1:99,3:3,4:4,5:5}\n"},
		{[]string{"a = 1:11; c = a + 11; d = a + 12; println(c[10], d[10]); e = c + 1; f = c + 2; println(e[11], f[11])"}, "11 12\n1 2\n"},
		{[]string{"x = 1; f = func() {a = [x]; x = 2; a}; println(f())"}, "[1]\n"},
		{[]string{"a = 1:11; m = {\"k\": a}; a[0] = 50; println(m.k[0], a[0])"}, "1 50\n"},
		{[]string{"a = 1:11; b = [a, a]; a[1] = 7; println(b[0][1], b[1][1])"}, "2 2\n"},
		{[]string{"a = 1:11; for i = 3 {b = a; b[i] = 0}; println(a)"}, "[1,2,3,4,5,6,7,8,9,10]\n"},
		{[]string{"a = 1:11; r = rest(a); r[0] = 77; println(a[1], r[0])"}, "2 77\n"},
		{[]string{"a = 1:11; s = a[2:9] + 5; t = a[2:9] + 6; println(a, s[7], t[7])"}, "[1,2,3,4,5,6,7,8,9,10] 5 6\n"},
		{[]string{"m = {1:1,2:2,3:3,4:4,5:5,6:6}; r = rest(m); r[9] = 9; q = m[1:4]; q[0] = 0; println(m, len(r), len(q))"}, "{1:1,2:2,3:3,4:4,5:5,6:6} 6 4\n"},
		{[]string{"m = {1:1,2:2,3:3,4:4,5:5}; n = m + {6:6}; m[6] = 0; println(n[6], m[6])"}, "6 0\n"},
		{[]string{"a = {1:1,2:2,3:3,4:4,5:5,6:6}; b = a; c = a + {3:33, 9:9}; println(a[3], b[3], c[3])"}, "3 3 33\n"},
		{[]string{"x = info; n = len(x.globals); zz1 = 1; zz2 = 2; y = info; println(len(x.globals) == n, len(y.globals) == n + 4)"}, "true true\n"},
		{[]string{"f = func() {info}; x = f(); s = len(x.stack); g = func() {func() {info}()}; y = g(); println(len(x.stack) == s, len(y.stack) > s)"}, "true true\n"},
	}
	for _, p := range pinned {
		obs, _ := runHistory(p.in, RunOpt{})
		c.Case("pinned:"+strings.Join(p.in, "\n"), true)
		if obs[0].Err || obs[0].Out != p.want {
			c.Fail("container-aliasing-pinned", fmt.Sprintf("%q printed %q (err=%v %s), want %q", p.in[0], obs[0].Out, obs[0].Err, obs[0].Val, p.want),
				map[string]any{"check": "pinned", "inputs": p.in, "want": p.want})
		}
	}
	ks := make([]string, 0)
	for k := range seen {
		ks = append(ks, k)
	}
	sort.Strings(ks)
}

// c06SideLine judges the second line of a probe, "<par> <hold>": par (the container the initial value was taken from) never
// changes; hold (a map step -> the value stored there at that step) only grows at its end: every stored value stays.
func c06SideLine(prev *string, line string) string {
	if *prev == "" {
		*prev = line
		return ""
	}
	pp, ph, _ := strings.Cut(*prev, " {")
	cp, ch, _ := strings.Cut(line, " {")
	*prev = line
	if pp != cp {
		return fmt.Sprintf("the container the initial value was taken from printed %q and later %q", pp, cp)
	}
	if !strings.HasPrefix(ch, strings.TrimSuffix(ph, "}")) {
		return fmt.Sprintf("a value stored inside another container changed: the holder printed {%s and later {%s", ph, ch)
	}
	return ""
}

func replayC06(rp map[string]any) (bool, string) {
	var inputs []string
	b, _ := json.Marshal(rp["inputs"])
	_ = json.Unmarshal(b, &inputs)
	want, _ := rp["want"].(string)
	obs, _ := runHistory(inputs, RunOpt{})
	if v, _ := rp["variant"].(float64); v > 0 {
		first := ""
		for k := 3; k < len(obs); k += 2 {
			abc, parLine, _ := strings.Cut(obs[k].Out, "\n")
			obs[k].Out = abc + "\n"
			if msg := c06SideLine(&first, strings.TrimSuffix(parLine, "\n")); msg != "" {
				return false, msg
			}
		}
	}
	got := obs[len(obs)-1]
	if got.Err || got.Out != want {
		return false, fmt.Sprintf("printed %q (err=%v), values predict %q", got.Out, got.Err, want)
	}
	return true, ""
}
