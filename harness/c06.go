package main

// C06 - arrays and maps are values: no aliasing at any size (spec/Containers.tla).

import (
	"encoding/json"
	"fmt"
	"sort"
	"strings"
)

func init() {
	props["C06"] = propDef{check: checkC06, replay: replayC06,
		rule: "case = one TLC-explored transition of Containers.tla (witness history + operation) instantiated as a grol session for arrays or maps, all bindings printed after every statement and compared with the value-level prediction; distinct by source text; non-trivial when at least two bindings are non-empty"}
}

type contOp struct {
	Op    string `json:"op"`
	N     int    `json:"n"`
	X     string `json:"x"`
	Y     string `json:"y"`
	Z     string `json:"z"`
	Which int    `json:"which"`
}

type contLine struct {
	H   []contOp         `json:"h"`
	Val map[string][]int `json:"val"`
}

func contCfg(sizes string, small, maxOps int, cow, coa, emit bool) string {
	b := func(x bool) string {
		if x {
			return "TRUE"
		}
		return "FALSE"
	}
	return fmt.Sprintf("CONSTANTS\n Vars = {\"a\", \"b\", \"c\"}\n Sizes = %s\n Small = %d\n MaxOps = %d\n CopyOnWrite = %s\n CopyOnAppend = %s\n EmitOn = %s\nINIT Init\nNEXT Next\nVIEW view\nINVARIANT Refines\n",
		sizes, small, maxOps, b(cow), b(coa), b(emit))
}

// instantiateContainers renders a behaviour as grol inputs plus the expected print after each input.
// kind "arr": arrays; kind "map": maps whose i-th smallest key carries the i-th element.
func instantiateContainers(h []contOp, kind string) (inputs []string, ok bool) {
	vars := []string{"a", "b", "c"}
	keys := map[string][]int{"a": nil, "b": nil, "c": nil}
	probe := "println(a, b, c)"
	if kind == "arr" {
		inputs = append(inputs, "mut = func(p, v) {p[0] = v; p}")
	} else {
		inputs = append(inputs, "mutm = func(p, k, v) {p[k] = v; p}")
	}
	for i, op := range h {
		v := 100 + i // Fresh == 100 + Len(hist) before the step
		switch op.Op {
		case "init":
			if kind == "arr" {
				if op.N == 0 {
					inputs = append(inputs, "a = []; b = []; c = []")
				} else {
					inputs = append(inputs, fmt.Sprintf("a = 1:%d; b = []; c = []", op.N+1))
				}
			} else {
				var ps []string
				for k := 1; k <= op.N; k++ {
					ps = append(ps, fmt.Sprintf("%d:%d", k, k))
					keys["a"] = append(keys["a"], k)
				}
				inputs = append(inputs, "a = {"+strings.Join(ps, ",")+"}; b = {}; c = {}")
			}
		case "copy":
			inputs = append(inputs, fmt.Sprintf("%s = %s", op.Y, op.X))
			keys[op.Y] = append([]int{}, keys[op.X]...)
		case "set":
			if kind == "arr" {
				idx := "0"
				if op.Which == 2 {
					idx = "-1"
				}
				inputs = append(inputs, fmt.Sprintf("%s[%s] = %d", op.X, idx, v))
			} else {
				ks := keys[op.X]
				k := ks[0]
				if op.Which == 2 {
					k = ks[len(ks)-1]
				}
				inputs = append(inputs, fmt.Sprintf("%s[%d] = %d", op.X, k, v))
			}
		case "append":
			if kind == "arr" {
				inputs = append(inputs, fmt.Sprintf("%s = %s + %d", op.Y, op.X, v))
			} else {
				inputs = append(inputs, fmt.Sprintf("%s = %s + {%d:%d}", op.Y, op.X, v, v))
				keys[op.Y] = append(append([]int{}, keys[op.X]...), v)
			}
		case "shrink":
			if kind == "arr" {
				inputs = append(inputs, fmt.Sprintf("%s = %s[0:-1]", op.X, op.X))
			} else {
				ks := keys[op.X]
				inputs = append(inputs, fmt.Sprintf("del(%s[%d])", op.X, ks[len(ks)-1]))
				keys[op.X] = append([]int{}, ks[:len(ks)-1]...)
			}
		case "overwrite":
			if kind == "arr" {
				return nil, false
			}
			ks := keys[op.X]
			k := ks[0]
			if op.Which == 2 {
				k = ks[len(ks)-1]
			}
			inputs = append(inputs, fmt.Sprintf("%s = %s + {%d:%d}", op.Y, op.X, k, v))
			keys[op.Y] = append([]int{}, ks...)
		case "concat":
			if kind != "arr" {
				return nil, false
			}
			inputs = append(inputs, fmt.Sprintf("%s = %s + %s", op.Y, op.X, op.Z))
		case "call":
			if kind == "arr" {
				inputs = append(inputs, fmt.Sprintf("%s = mut(%s, %d)", op.Y, op.X, v))
			} else {
				inputs = append(inputs, fmt.Sprintf("%s = mutm(%s, %d, %d)", op.Y, op.X, keys[op.X][0], v))
				keys[op.Y] = append([]int{}, keys[op.X]...)
			}
		}
		inputs = append(inputs, probe)
	}
	_ = vars
	return inputs, true
}

// expectedPrint is the printed form of the predicted values after the LAST step.
func expectedPrint(val map[string][]int, h []contOp, kind string) string {
	var parts []string
	// recompute keys for maps
	keys := map[string][]int{}
	for i, op := range h {
		v := 100 + i
		switch op.Op {
		case "init":
			for k := 1; k <= op.N; k++ {
				keys["a"] = append(keys["a"], k)
			}
		case "copy", "call", "overwrite":
			keys[op.Y] = append([]int{}, keys[op.X]...)
		case "append":
			keys[op.Y] = append(append([]int{}, keys[op.X]...), v)
		case "shrink":
			if n := len(keys[op.X]); n > 0 {
				keys[op.X] = append([]int{}, keys[op.X][:n-1]...)
			}
		}
	}
	for _, name := range []string{"a", "b", "c"} {
		vs := val[name]
		var es []string
		for i, x := range vs {
			if kind == "arr" {
				es = append(es, fmt.Sprint(x))
			} else {
				es = append(es, fmt.Sprintf("%d:%d", keys[name][i], x))
			}
		}
		if kind == "arr" {
			parts = append(parts, "["+strings.Join(es, ",")+"]")
		} else {
			parts = append(parts, "{"+strings.Join(es, ",")+"}")
		}
	}
	return strings.Join(parts, " ") + "\n"
}

func contSignature(h []contOp, kind string) string {
	last := h[len(h)-1]
	return fmt.Sprintf("container-aliasing-%s-after-%s", kind, last.Op)
}

func checkC06(c *Ctx) {
	// 1. design level: each deviation of the pinned tree breaks the refinement
	for _, dev := range [][2]bool{{false, true}, {true, false}} {
		r, err := c.TLC(TLCOpt{Spec: "Containers", Cfg: contCfg("{3}", 2, 3, dev[0], dev[1], false), Workers: 4, AllowError: true})
		if err != nil {
			c.Infra(err)
			return
		}
		if r.InvViolated != "Refines" {
			c.Infra(fmt.Errorf("Containers.tla with deviation %v did not violate Refines (vacuous model): %s", dev, r.ErrText))
			return
		}
	}
	c.Cov("design_counterexamples", "CopyOnWrite=FALSE and CopyOnAppend=FALSE each violate Refines (aliasing through a shared store)")

	type space struct {
		kind   string
		sizes  string
		small  int
		maxOps int
	}
	spaces := []space{{"arr", "{0, 1, 7, 8, 9, 10}", 8, c.Pick(3, 4)}, {"map", "{0, 1, 3, 4, 5, 6}", 4, c.Pick(3, 4)}}
	seen := map[string]bool{}
	for _, sp := range spaces {
		r, err := c.TLC(TLCOpt{Spec: "Containers", Cfg: contCfg(sp.sizes, sp.small, sp.maxOps, true, true, true), Workers: 1, Heap: "8g"}) // one worker: records/functions in the history are shared between states and TLC normalises them lazily (not thread safe)
		if err != nil {
			c.Infra(err)
			return
		}
		n := 0
		stride := 1
		if !c.Thorough() {
			stride = 3
		}
		err = ReadLines(r.Emitted, func(line []byte) error {
			var g contLine
			if err := json.Unmarshal(line, &g); err != nil {
				return err
			}
			n++
			if (n+int(c.Seed))%stride != 0 {
				return nil
			}
			inputs, ok := instantiateContainers(g.H, sp.kind)
			if !ok {
				return nil
			}
			key := sp.kind + "\n" + strings.Join(inputs, "\n")
			if seen[key] {
				return nil
			}
			seen[key] = true
			obs, _ := runHistory(inputs, RunOpt{})
			nonEmpty := 0
			for _, v := range g.Val {
				if len(v) > 0 {
					nonEmpty++
				}
			}
			c.Case(key, nonEmpty >= 2)
			if n%20000 == 1 {
				c.Sample(map[string]any{"kind": sp.kind, "inputs": inputs, "predicted": g.Val})
			}
			want := expectedPrint(g.Val, g.H, sp.kind)
			got := obs[len(obs)-1]
			bad := got.Err || got.Out != want
			// (i) non-interference, self-relative: bindings not assigned by the last operation print as before
			if !bad && len(obs) >= 3 {
				prev := strings.Fields(strings.TrimSpace(obs[len(obs)-3].Out))
				cur := strings.Fields(strings.TrimSpace(got.Out))
				last := g.H[len(g.H)-1]
				target := last.Y
				if last.Op == "set" || last.Op == "shrink" {
					target = last.X
				}
				if len(prev) == 3 && len(cur) == 3 {
					for i, name := range []string{"a", "b", "c"} {
						if name != target && prev[i] != cur[i] {
							bad = true
						}
					}
				}
			}
			for _, o := range obs {
				if o.Err {
					bad = true
				}
			}
			if bad {
				c.Fail(contSignature(g.H, sp.kind), fmt.Sprintf("after %v: printed %q (err=%v %s), values predict %q", g.H[len(g.H)-1], got.Out, got.Err, got.Val, want),
					map[string]any{"check": "gen", "kind": sp.kind, "inputs": inputs, "want": want})
			} else {
				c.AddTraces(1)
			}
			return nil
		})
		if err != nil {
			c.Infra(err)
			return
		}
		if n == 0 {
			c.Infra(fmt.Errorf("Containers GEN emitted nothing"))
			return
		}
		c.Note("Containers %s: %d states, %d transitions emitted", sp.kind, r.Distinct, n)
	}
	// 2. pinned reproducers of the repaired defects (regression cases) and nesting / loops / element ++
	pinned := []struct {
		in   []string
		want string
	}{
		{[]string{"a = 1:11; b = a; b[0] = 99; println(a[0], b[0])"}, "1 99\n"},
		{[]string{"n = {1:1,2:2,3:3,4:4,5:5}; o = n; o[1] = 99; del(o[2]); println(n, o)"}, "{1:1,2:2,3:3,4:4,5:5} {1:99,3:3,4:4,5:5}\n"},
		{[]string{"a = 1:11; c = a + 11; d = a + 12; println(c[10], d[10]); e = c + 1; f = c + 2; println(e[11], f[11])"}, "11 12\n1 2\n"},
		{[]string{"x = 1; f = func() {a = [x]; x = 2; a}; println(f())"}, "[1]\n"},
		{[]string{"a = 1:11; m = {\"k\": a}; a[0] = 50; println(m.k[0], a[0])"}, "1 50\n"},
		{[]string{"a = 1:11; b = [a, a]; a[1] = 7; println(b[0][1], b[1][1])"}, "2 2\n"},
		{[]string{"a = 1:11; for i = 3 {b = a; b[i] = 0}; println(a)"}, "[1,2,3,4,5,6,7,8,9,10]\n"},
		{[]string{"a = 1:11; r = rest(a); r[0] = 77; println(a[1], r[0])"}, "2 77\n"},
		{[]string{"a = 1:11; s = a[2:9] + 5; t = a[2:9] + 6; println(a, s[7], t[7])"}, "[1,2,3,4,5,6,7,8,9,10] 5 6\n"},
		{[]string{"m = {1:1,2:2,3:3,4:4,5:5,6:6}; r = rest(m); r[9] = 9; q = m[1:4]; q[0] = 0; println(m, len(r), len(q))"}, "{1:1,2:2,3:3,4:4,5:5,6:6} 6 4\n"},
		{[]string{"m = {1:1,2:2,3:3,4:4,5:5}; n = m + {6:6}; m[6] = 0; println(n[6], m[6])"}, "6 0\n"},
		{[]string{"a = {1:1,2:2,3:3,4:4,5:5,6:6}; b = a; c = a + {3:33, 9:9}; println(a[3], b[3], c[3])"}, "3 3 33\n"},
		{[]string{"x = info; n = len(x.globals); zz1 = 1; zz2 = 2; y = info; println(len(x.globals) == n, len(y.globals) == n + 4)"}, "true true\n"},
		{[]string{"f = func() {info}; x = f(); s = len(x.stack); g = func() {func() {info}()}; y = g(); println(len(x.stack) == s, len(y.stack) > s)"}, "true true\n"},
	}
	for _, p := range pinned {
		obs, _ := runHistory(p.in, RunOpt{})
		c.Case("pinned:"+strings.Join(p.in, "\n"), true)
		if obs[0].Err || obs[0].Out != p.want {
			c.Fail("container-aliasing-pinned", fmt.Sprintf("%q printed %q (err=%v %s), want %q", p.in[0], obs[0].Out, obs[0].Err, obs[0].Val, p.want),
				map[string]any{"check": "pinned", "inputs": p.in, "want": p.want})
		}
	}
	ks := make([]string, 0)
	for k := range seen {
		ks = append(ks, k)
	}
	sort.Strings(ks)
}

func replayC06(rp map[string]any) (bool, string) {
	var inputs []string
	b, _ := json.Marshal(rp["inputs"])
	_ = json.Unmarshal(b, &inputs)
	want, _ := rp["want"].(string)
	obs, _ := runHistory(inputs, RunOpt{})
	got := obs[len(obs)-1]
	if got.Err || got.Out != want {
		return false, fmt.Sprintf("printed %q (err=%v), values predict %q", got.Out, got.Err, want)
	}
	return true, ""
}
