package main

// C06 - arrays and maps are values: no aliasing at any size (spec/Containers.tla).
//
// TLC explores Containers.tla (all operation sequences over three bindings, one run per kind of container) and emits every
// transition with its history and the predicted value of every binding; each is written as a grol session (one REPL input
// per operation, a probe input after each) and the probes are compared with the prediction and with the previous probe.
// What the harness adds to a behaviour of the model is its source form only (contForm): how the initial value and the
// copies are written, and which numbers the keys of a map are (key chains, below).
//
// Families added after seeding round 5 (seeds C06-10/11/12, all in the model):
//   - Retype: an element is replaced by its twin (3 <-> 3.0: prints the same, is another value). Histories with a Retype
//     print a second probe line, sig(a) sig(b) sig(c), the kinds of the elements as told by a user function that has been
//     applied to the earlier values of the bindings: the result of a function follows the value of its argument at every
//     size (a function-call cache keyed by the printed form of small containers answers for the wrong container);
//   - Frames: y = x through a function that makes an inner call with the same parameter names (`..` or named; recursion or a
//     closure made by the call) before returning its own parameter: a parameter is a binding of one call's frame only;
//   - Insert / DelAbsent (maps): index assignment under a new key (front, middle, end: the map grows, across the
//     threshold too) and del of a key that is absent but next to a present one;
//   - key chains: the keys are the plain small numbers or integers and floats one apart around +-2^31, 2^32, 2^53 and the
//     ends of the int64 range, so that "next to" means "told apart only by an exact comparison".

//
// Family added after seeding round 6 (seed C06-14, in the model: Failed / FailedLib):
//   - an input FAILS inside a call (deadline, cancellation, depth limit, error: failing.go) after the call changed its own
//     parameters, which are named like the session's variables, or inside a function of the library; the probes of the
//     inputs that follow (and functions defined before) still see the session's own bindings.

import (
	"bytes"
	"encoding/json"
	"fmt"
	"math/big"
	"sort"
	"strconv"
	"strings"
)

func init() {
	props["C06"] = propDef{check: checkC06, replay: replayC06,
		rule: "case = one TLC-explored transition of Containers.tla (witness history + operation) instantiated as a grol session for arrays or maps (source forms and, for maps, the key chain chosen by a hash of the transition number and the seed), all bindings - and after a Retype the kinds of their elements as seen by a user function - printed after every statement and compared with the value-level prediction; distinct by source text; non-trivial when at least two bindings are non-empty"}
}

type contOp struct {
	Op    string `json:"op"`
	N     int    `json:"n"`
	X     string `json:"x"`
	Y     string `json:"y"`
	Z     string `json:"z"`
	Which int    `json:"which"`
	V     int    `json:"v"` // twin: the new element (-n stands for the float n.0)
}

type contLine struct {
	H   []contOp         `json:"h"`
	Val map[string][]int `json:"val"`
}

func contCfg(kind, sizes string, small, maxOps int, cow, coa, own, rof, emit bool) string {
	b := func(x bool) string {
		if x {
			return "TRUE"
		}
		return "FALSE"
	}
	return fmt.Sprintf("CONSTANTS\n Vars = {\"a\", \"b\", \"c\"}\n Sizes = %s\n Small = %d\n MaxOps = %d\n CopyOnWrite = %s\n CopyOnAppend = %s\n OwnFrames = %s\n RestoreOnFailure = %s\n Kind = %q\n EmitOn = %s\nINIT Init\nNEXT Next\nVIEW view\nINVARIANT Refines\n",
		sizes, small, maxOps, b(cow), b(coa), b(own), b(rof), kind, b(emit))
}

// contForm is how a behaviour of the model is written as grol source: variant selects the source form of the initial value
// and of every copy (0 = the plain forms), salt the form of the operations that have several, chain the keys of a map.
type contForm struct {
	Variant int
	Salt    uint32
	Chain   *keyChain
}

// elemLit is the source form of an element of the model: -n is the float n.0.
func elemLit(e int) string {
	if e < 0 {
		return fmt.Sprintf("%d.0", -e)
	}
	return strconv.Itoa(e)
}

func c06HasTwin(h []contOp) bool {
	for _, op := range h {
		if op.Op == "twin" {
			return true
		}
	}
	return false
}

// instantiateContainers renders a behaviour as grol inputs: the definitions, then for every step of the history the
// operation and a probe. kind "arr": arrays; kind "map": maps whose i-th smallest key carries the i-th element.
// The value semantics of all forms are the same, what differs is where the storage comes from - a literal, a slice of a
// larger container that stays bound to `par` (printed too: it must never change), the `..` array of a variadic call, a
// value built by appends or deletions, a value taken out of another container or passed through a function, a frame or a
// loop variable.
// The probe prints all bindings; when the history retypes an element it also prints what the user function sig says about
// each binding (the kinds of its elements: print-alike containers are told apart, and sig has seen the earlier values).
func instantiateContainers(h []contOp, kind string, f contForm) (inputs []string, ok bool) {
	variant := f.Variant
	kc := f.Chain
	keys := map[string][]int{}
	hasTwin := c06HasTwin(h)
	probe := "println(a, b, c)"
	if hasTwin {
		probe += "; println(sig(a), sig(b), sig(c))"
	}
	if variant > 0 {
		probe += "; println(par, hold)"
	}
	helpers := [][2]string{ // name, definition: a session defines the ones it uses
		{"idf", "idf = func(p) {p}"}, {"pack", "pack = func(..) {..}"},
		{"recp", "func recp(n, v, p) {if n > 0 {recp(n - 1, v, [v])}; p}"},
		{"mkp", "mkp = func(p) {[() => p, (p) => len(p)]}"}, {"mkv", "mkv = func(..) {[() => .., (..) => len(..)]}"},
	}
	if kind == "arr" { // (an array as last argument of a variadic call is spread: `..` is x itself)
		helpers = append(helpers, [2]string{"recv", "func recv(n, v, ..) {if n > 0 {recv(n - 1, v, v, v)}; ..}"},
			[2]string{"sig", `sig = func(x) {r = ":"; for e = x {r = r + (if type(e) == "FLOAT" {"f"} else {"i"})}; r}`},
			[2]string{"mut", "mut = func(p, v) {p[0] = v; p}"})
	} else {
		helpers = append(helpers, [2]string{"recv", "func recv(n, v, ..) {if n > 0 {recv(n - 1, v, {v: v})}; ..[0]}"},
			[2]string{"sig", `sig = func(x) {r = ":"; for e = x {r = r + (if type(e.value) == "FLOAT" {"f"} else {"i"})}; r}`},
			[2]string{"mutm", "mutm = func(p, k, v) {p[k] = v; p}"})
	}
	defer func() { // the first input: the definitions, then the initial values
		if !ok {
			return
		}
		all := strings.Join(inputs, "\n")
		defs := []string{"par = nil; hold = {}"}
		for _, hp := range helpers {
			if strings.Contains(all, hp[0]+"(") {
				defs = append(defs, hp[1])
			}
		}
		if failNeedsPrelude(inputs) {
			defs = append(defs, failPrelude())
		}
		inputs[0] = strings.Join(defs, "; ") + "; " + inputs[0]
	}()
	// y = x through frames: the function's own parameter (named, or `..`) after an inner call with the same parameter names
	framesForm := func(y, x string, v, sel int) string {
		switch sel % 4 {
		case 0:
			return fmt.Sprintf("%s = recv(1, %d, %s)", y, v, x)
		case 1:
			return fmt.Sprintf("%s = recp(1, %d, %s)", y, v, x)
		case 2:
			if kind == "arr" {
				return fmt.Sprintf("t = mkv(%s); t[1](%d, %d); %s = t[0]()", x, v, v, y)
			}
			return fmt.Sprintf("t = mkv(%s); t[1](%d); %s = t[0]()[0]", x, v, y)
		}
		return fmt.Sprintf("t = mkp(%s); t[1]([%d]); %s = t[0]()", x, v, y)
	}
	appendForm := func(y, x, v string, i int) string { // y = x + v with the left operand written in several ways
		if variant == 0 {
			return y + " = " + x + " + " + v
		}
		forms := []string{"%[1]s = %[2]s + %[3]s", "%[1]s = idf(%[2]s) + %[3]s", "%[1]s = %[2]s[0:] + %[3]s", "%[1]s = [%[2]s][0] + %[3]s", "%[1]s = (%[2]s) + %[3]s",
			"%[1]s = (if true {%[2]s} else {0}) + %[3]s", `%[1]s = {"k": %[2]s}.k + %[3]s`, "%[1]s = first([%[2]s]) + %[3]s"}
		return fmt.Sprintf(forms[(variant/3+i)%len(forms)], y, x, v)
	}
	copyForm := func(y, x string, i int) string {
		if variant == 0 {
			return y + " = " + x
		}
		forms := []string{"%[1]s = %[2]s", "t = [%[2]s]; %[1]s = t[0]", `t = {"k": %[2]s}; %[1]s = t.k`, "%[1]s = idf(%[2]s)", "for q = [%[2]s] {%[1]s = q}",
			"t = []; t = t + [%[2]s]; %[1]s = t[0]", "%[1]s = (() => %[2]s)()", "t = [0, %[2]s]; t[0] = %[2]s; %[1]s = t[1]", `t = {}; t.k = %[2]s; %[1]s = first(t).value`}
		sel := (variant + i) % (len(forms) + 4)
		if sel >= len(forms) {
			return framesForm(y, x, 0, sel-len(forms))
		}
		return fmt.Sprintf(forms[sel], y, x)
	}
	pairs := func(from, to int) []string { // the pairs of the initial value number from..to: key 2j carries j
		var ps []string
		for j := from; j <= to; j++ {
			ps = append(ps, fmt.Sprintf("%s:%d", kc.lit(2*j).Lit, j))
		}
		return ps
	}
	for i, op := range h {
		v := 100 + i // Fresh == 100 + Len(hist) before the step
		k := 0
		if kind == "map" {
			if k, ok = mapStep(keys, op, i); !ok {
				return nil, false
			}
		}
		twinAddr := variant > 0 && (int(f.Salt>>14)+i)&1 == 1 // address an existing key by its twin literal when it has one
		switch op.Op {
		case "init":
			var es []string
			for j := 1; j <= op.N; j++ {
				es = append(es, fmt.Sprint(j))
			}
			n := op.N
			if kind == "arr" {
				src := fmt.Sprintf("a = 1:%d", n+1)
				if n == 0 {
					src = "a = []"
				}
				if variant > 0 && n > 0 { // (an empty initial value: only the plain form, pack() and rest([x]) are not [])
					switch variant % 6 {
					case 1:
						src = "a = [" + strings.Join(es, ", ") + "]"
					case 2: // a prefix of a larger array that stays bound (spare capacity behind the slice)
						src = fmt.Sprintf("par = 1:%d; a = par[0:%d]", n+6, n)
					case 3: // the `..` array of a variadic call
						src = "a = pack(" + strings.Join(es, ", ") + ")"
					case 4: // built by appends (storage grown in steps)
						src = fmt.Sprintf("a = []; for i = %d {a = a + (i + 1)}", n)
					case 5: // the tail and the middle of larger arrays
						src = fmt.Sprintf("par = 0:%d; a = rest(par)", n+1)
					default:
						src = fmt.Sprintf("par = -2:%d; a = par[3:%d]", n+4, n+3)
					}
				}
				inputs = append(inputs, src+"; b = []; c = []")
			} else {
				ps := pairs(1, n)
				var above, aboveKeys []string // five more pairs above all keys in use
				for j := 20; j <= 24; j++ {
					above = append(above, fmt.Sprintf("%s:%d", kc.lit(2*j).Lit, 71+j))
					aboveKeys = append(aboveKeys, kc.lit(2*j).Lit)
				}
				src := "a = {" + strings.Join(ps, ",") + "}"
				if variant > 0 {
					switch variant % 5 {
					case 1: // built by insertions, largest key first
						src = "a = {}"
						for j := n; j >= 1; j-- {
							src += fmt.Sprintf("; a[%s] = %d", kc.lit(2*j).Lit, j)
						}
					case 2: // was larger, shrunk by del (the large representation with few pairs)
						src = fmt.Sprintf("a = {%s}", strings.Join(append(append([]string{}, ps...), above...), ","))
						src += "; for k = [" + strings.Join(aboveKeys, ", ") + "] {del(a[k])}"
					case 3: // a range of a larger map that stays bound
						src = fmt.Sprintf("par = {%s}; a = par[0:%d]", strings.Join(append(append([]string{}, ps...), above...), ","), n)
					case 4: // a merge result
						h := n / 2
						src = fmt.Sprintf("a = {%s} + {%s}", strings.Join(ps[:h], ","), strings.Join(ps[h:], ","))
					default: // rest of a larger map (rest of a one-pair map is nil, not {}: only when something remains)
						if n > 0 {
							src = fmt.Sprintf("par = {%s}; a = rest(par)", strings.Join(append([]string{kc.lit(-8).Lit + ":-5"}, ps...), ","))
						}
					}
				}
				inputs = append(inputs, src+"; b = {}; c = {}")
			}
		case "copy":
			inputs = append(inputs, copyForm(op.Y, op.X, i))
		case "frames":
			inputs = append(inputs, framesForm(op.Y, op.X, v, int(f.Salt>>5)+i))
		case "set":
			if kind == "arr" {
				idx := "0"
				if op.Which == 2 {
					idx = "-1"
				}
				inputs = append(inputs, fmt.Sprintf("%s[%s] = %d", op.X, idx, v))
			} else {
				inputs = append(inputs, fmt.Sprintf("%s[%s] = %d", op.X, kc.addr(k, twinAddr), v))
			}
		case "twin":
			if kind == "arr" {
				idx := "0"
				if op.Which == 2 {
					idx = "-1"
				}
				inputs = append(inputs, fmt.Sprintf("%s[%s] = %s", op.X, idx, elemLit(op.V)))
			} else {
				inputs = append(inputs, fmt.Sprintf("%s[%s] = %s", op.X, kc.addr(k, twinAddr), elemLit(op.V)))
			}
		case "insert":
			inputs = append(inputs, fmt.Sprintf("%s[%s] = %d", op.X, kc.lit(k).Lit, v))
		case "delabsent":
			inputs = append(inputs, fmt.Sprintf("del(%s[%s])", op.X, kc.lit(k).Lit))
		case "append":
			if kind == "arr" {
				inputs = append(inputs, appendForm(op.Y, op.X, fmt.Sprint(v), i))
			} else {
				inputs = append(inputs, appendForm(op.Y, op.X, fmt.Sprintf("{%s:%d}", kc.lit(k).Lit, v), i))
			}
		case "shrink":
			if kind == "arr" {
				inputs = append(inputs, fmt.Sprintf("%s = %s[0:-1]", op.X, op.X))
			} else {
				inputs = append(inputs, fmt.Sprintf("del(%s[%s])", op.X, kc.addr(k, twinAddr)))
			}
		case "overwrite":
			if kind == "arr" {
				return nil, false
			}
			inputs = append(inputs, appendForm(op.Y, op.X, fmt.Sprintf("{%s:%d}", kc.addr(k, twinAddr), v), i))
		case "concat":
			if kind != "arr" {
				return nil, false
			}
			inputs = append(inputs, appendForm(op.Y, op.X, op.Z, i))
		case "fail", "faillib":
			// how the call fails and, for the library, which function and whether a function of the session calls it: source form
			fsel := int(c06Mix(f.Salt)>>8&0xfffff) + 5*i
			how := []string{"cancel", "depth", "error", "cancel", "error", "depth", "cancel", "error"}[fsel%8]
			if fsel%32 == 0 {
				how = "deadline" // (milliseconds each: one in thirty-two)
			}
			if op.Op == "faillib" {
				where := "lib"
				if (fsel/32)%2 == 1 {
					where = "lib-in-user"
				}
				inputs = append(inputs, failInput(how, where, "a, b, c", "c, a, b", "", fsel/3))
				break
			}
			var pre string
			if kind == "arr" {
				pre = fmt.Sprintf("%[1]s = %[1]s + %[2]d; %[1]s[0] = %[2]d", op.Y, v)
			} else {
				pre = fmt.Sprintf("%s[%s] = %d", op.Y, kc.lit(k).Lit, v)
				if ks := keys[op.X]; len(ks) > 0 {
					pre += fmt.Sprintf("; %s[%s] = %d", op.Y, kc.addr(ks[0], twinAddr), v)
				}
			}
			inputs = append(inputs, failInput(how, "user", op.Y, op.X, pre, fsel))
		case "call":
			if kind == "arr" {
				inputs = append(inputs, fmt.Sprintf("%s = mut(%s, %d)", op.Y, op.X, v))
			} else {
				inputs = append(inputs, fmt.Sprintf("%s = mutm(%s, %s, %d)", op.Y, op.X, kc.addr(k, twinAddr), v))
			}
		default:
			return nil, false
		}
		if variant > 0 && op.Op != "init" && op.Op != "fail" && op.Op != "faillib" {
			tgt := op.Y
			if op.Y == "" {
				tgt = op.X
			}
			inputs[len(inputs)-1] += fmt.Sprintf("; hold[%d] = %s", i, tgt) // stored inside another container: must keep this value
		}
		inputs = append(inputs, probe)
	}
	return inputs, true
}

// expectedPrint is what the probe after the LAST step prints for the predicted values: the line of the bindings and, when
// the history retypes an element, the line of the kinds of their elements.
func expectedPrint(val map[string][]int, h []contOp, kind string, kc *keyChain) string {
	var parts, sigs []string
	keys := map[string][]int{}
	if kind == "map" {
		for i, op := range h {
			mapStep(keys, op, i)
		}
	}
	for _, name := range []string{"a", "b", "c"} {
		vs := val[name]
		var es []string
		sig := ":"
		for i, x := range vs {
			shown := x
			if x < 0 {
				shown = -x
				sig += "f"
			} else {
				sig += "i"
			}
			if kind == "arr" {
				es = append(es, fmt.Sprint(shown))
			} else {
				es = append(es, fmt.Sprintf("%s:%d", kc.shown(keys[name][i]), shown))
			}
		}
		if kind == "arr" {
			parts = append(parts, "["+strings.Join(es, ",")+"]")
		} else {
			parts = append(parts, "{"+strings.Join(es, ",")+"}")
		}
		sigs = append(sigs, sig)
	}
	out := strings.Join(parts, " ") + "\n"
	if c06HasTwin(h) {
		out += strings.Join(sigs, " ") + "\n"
	}
	return out
}

// c06Target is the binding the last operation of a history assigns (every other binding keeps its value).
func c06Target(op contOp) string {
	if op.Op == "fail" || op.Op == "faillib" {
		return "-" // (an input that fails assigns nothing)
	}
	if op.Y != "" {
		return op.Y
	}
	return op.X
}

// c06Judge compares the probes of a session with the prediction for the last one. Every probe prints the lines of `want`
// (bindings, kinds) and, when side is set, a line with the container the initial value was cut from and the holder of the
// values stored at each step. target "" = do not look at the previous probe.
func c06Judge(inputs []string, obs []inObs, want string, side bool, target string) (bad bool, msg string) {
	nl := strings.Count(want, "\n")
	var probes [][]string // the lines of every probe
	first := ""
	for k := 1; k < len(obs); k += 2 { // inputs: definitions and initial values, probe, operation, probe, ...
		lines := strings.Split(strings.TrimSuffix(obs[k].Out, "\n"), "\n")
		if side && len(lines) == nl+1 {
			if m := c06SideLine(&first, lines[nl]); m != "" {
				bad = true
				msg = fmt.Sprintf("%s (operation %d)", m, (k-1)/2)
			}
			lines = lines[:nl]
		}
		probes = append(probes, lines)
	}
	for i, o := range obs {
		if o.Err && !(i < len(inputs) && isFailInput(inputs[i])) {
			return true, "an input failed: " + o.Val
		}
	}
	if len(probes) == 0 {
		return true, "no probe"
	}
	got := strings.Join(probes[len(probes)-1], "\n") + "\n"
	if got != want {
		return true, fmt.Sprintf("printed %q, values predict %q", got, want)
	}
	// (i) non-interference, self-relative: bindings not assigned by the last operation print (and are seen by sig) as before
	if target != "" && len(probes) >= 2 {
		prev, cur := probes[len(probes)-2], probes[len(probes)-1]
		for l := 0; l < nl && l < len(prev) && l < len(cur); l++ {
			pf, cf := strings.Fields(prev[l]), strings.Fields(cur[l])
			if len(pf) != 3 || len(cf) != 3 {
				continue
			}
			for i, name := range []string{"a", "b", "c"} {
				if name != target && pf[i] != cf[i] {
					return true, fmt.Sprintf("binding %s printed %q before the operation and %q after it", name, pf[i], cf[i])
				}
			}
		}
	}
	return bad, msg
}

// c06Mix: a second hash of the transition's salt (the bits of the salt itself are correlated in the sampled transitions: the
// sample is a condition on them).
func c06Mix(salt uint32) uint32 {
	h := (salt ^ salt>>13) * 0x5bd1e995
	return h ^ h>>15
}

// c06Run runs a session (sessions with failing inputs: under their limits, failing.go).
func c06Run(inputs []string) []inObs {
	if hasFailInput(inputs) {
		return runFailHistory(inputs, false)
	}
	obs, _ := runHistory(inputs, RunOpt{})
	return obs
}

func contSignature(h []contOp, kind string) string {
	last := h[len(h)-1]
	return fmt.Sprintf("container-aliasing-%s-after-%s", kind, last.Op)
}

func checkC06(c *Ctx) {
	// All TLC runs start now (each is its own JVM); the sessions run in this goroutine as the emitted files arrive.
	type space struct {
		kind   string
		sizes  string
		small  int
		maxOps int
	}
	spaces := []space{{"arr", "{0, 1, 7, 8, 9, 10}", 8, c.Pick(3, 4)}, {"map", "{0, 1, 3, 4, 5, 6}", 4, c.Pick(3, 4)}}
	type tlcDone struct {
		r   *TLCResult
		err error
	}
	emitted := make([]chan tlcDone, len(spaces))
	for i, sp := range spaces {
		emitted[i] = make(chan tlcDone, 1)
		go func(ch chan tlcDone, sp space) {
			// one worker: records/functions in the history are shared between states and TLC normalises them lazily (not thread safe)
			r, err := c.TLC(TLCOpt{Spec: "Containers", Cfg: contCfg(sp.kind, sp.sizes, sp.small, sp.maxOps, true, true, true, true, true), Workers: 1, Heap: "8g"})
			ch <- tlcDone{r, err}
		}(emitted[i], sp)
	}
	// 1. design level: each deviation of the pinned tree breaks the refinement
	type deviation struct {
		kind               string
		cow, coa, own, rof bool
	}
	devs := []deviation{{"arr", false, true, true, true}, {"map", true, false, true, true}, {"map", false, true, true, true}, {"arr", true, true, false, true}, {"arr", true, true, true, false}}
	devDone := make(chan error, len(devs))
	for _, dev := range devs {
		go func(dev deviation) {
			r, err := c.TLC(TLCOpt{Spec: "Containers", Cfg: contCfg(dev.kind, "{3}", 2, 3, dev.cow, dev.coa, dev.own, dev.rof, false), Workers: 2, AllowError: true})
			if err == nil && r.InvViolated != "Refines" {
				err = fmt.Errorf("Containers.tla with deviation %+v did not violate Refines (vacuous model): %s", dev, r.ErrText)
			}
			devDone <- err
		}(dev)
	}

	chains, err := c06Chains()
	if err == nil {
		err = failCalibrate()
	}
	if err != nil {
		c.Infra(err)
		return
	}
	failInputs, failMissed := 0, 0 // inputs meant to fail inside a call / those without a deadline that did not fail
	failHow := map[string]int{}    // how they failed (the start of the error message)
	seen := map[string]bool{}
	usedChains := map[string]int{}
	for si, sp := range spaces {
		done := <-emitted[si]
		r, err := done.r, done.err
		if err != nil {
			c.Infra(err)
			return
		}
		n := 0
		// quick: one transition in four. thorough: every history of up to three operations, one in three of the longest ones
		// (11.7M transitions with four operations).
		stride := c.Pick(4, 3)
		opsSeen := map[string]int{}
		err = ReadLines(r.Emitted, func(line []byte) error {
			n++
			salt := uint32(n)*2654435761 + uint32(c.Seed)*40503 // hashed: neither the sample nor the forms may alias with the order of enumeration
			sampled := !c.Thorough() || bytes.Count(line, []byte(`"op"`)) > 4
			if sampled && (uint64(salt^salt>>15)&0xffff)*uint64(stride)>>16 != 0 {
				return nil
			}
			if sampled && c06Mix(salt)>>31 == 1 && bytes.Contains(line, []byte(`"op":"fail`)) {
				return nil // (10 instances per state, and the witness histories that contain one: the sample takes every other one of them)
			}
			var g contLine
			if err := json.Unmarshal(line, &g); err != nil {
				return err
			}
			if op := g.H[len(g.H)-1].Op; !c.Thorough() && (op == "concat" || op == "overwrite") && salt>>31 == 1 {
				return nil // (27 and 18 instances per state: the sample takes every other one of them)
			}

			form := contForm{Salt: salt, Chain: chains[0]}
			if n%2 == 1 { // every other behaviour with other source forms of its initial value and copies, and other keys
				form.Variant = 1 + int(salt>>9)%30
				if sp.kind == "map" {
					kc := *chains[int(salt>>17)%len(chains)]
					if kc.Name != "plain" {
						kc.B = int(salt>>23)%15 - 1
					}
					form.Chain = &kc
				}
			}
			inputs, ok := instantiateContainers(g.H, sp.kind, form)
			if !ok {
				return nil
			}
			key := sp.kind + "\n" + strings.Join(inputs, "\n")
			if seen[key] {
				return nil
			}
			seen[key] = true
			obs := c06Run(inputs)
			for i, in := range inputs {
				if isFailInput(in) {
					failInputs++
					if obs[i].Err {
						failHow[strings.SplitN(strings.TrimPrefix(strings.TrimPrefix(obs[i].Val, "panic: "), "<err: "), ":", 2)[0]]++
					}
					if !obs[i].Err && !strings.Contains(in, c10ShortMark) { // (a deadline can fire too late on a loaded machine)
						failMissed++
					}
				}
			}
			nonEmpty := 0
			for _, v := range g.Val {
				if len(v) > 0 {
					nonEmpty++
				}
			}
			c.Case(key, nonEmpty >= 2)
			last := g.H[len(g.H)-1]
			opsSeen[last.Op]++
			if sp.kind == "map" {
				usedChains[form.Chain.Name]++
			}
			if n%20000 == 1 {
				c.Sample(map[string]any{"kind": sp.kind, "inputs": inputs, "predicted": g.Val})
			}
			want := expectedPrint(g.Val, g.H, sp.kind, form.Chain)
			if bad, msg := c06Judge(inputs, obs, want, form.Variant > 0, c06Target(last)); bad {
				c.Fail(contSignature(g.H, sp.kind), fmt.Sprintf("after %+v: %s", last, msg),
					map[string]any{"check": "gen", "kind": sp.kind, "inputs": inputs, "want": want, "variant": form.Variant, "target": c06Target(last)})
			} else {
				c.AddTraces(1)
			}
			return nil
		})
		if err != nil {
			c.Infra(err)
			return
		}
		if n == 0 {
			c.Infra(fmt.Errorf("Containers GEN emitted nothing"))
			return
		}
		c.Note("Containers %s: %d states, %d transitions emitted, sessions by last operation %v", sp.kind, r.Distinct, n, opsSeen)
	}
	if failInputs == 0 || failMissed > 0 {
		c.Infra(fmt.Errorf("C06: %d of %d inputs meant to fail inside a call did not fail (those sessions test nothing)", failMissed, failInputs))
		return
	}
	c.Cov("inputs_failing_inside_a_call", failInputs)
	c.Cov("inputs_failing_inside_a_call_by_error", failHow)
	c.Cov("map_key_chains", usedChains)
	for range devs {
		if err := <-devDone; err != nil {
			c.Infra(err)
			return
		}
	}
	c.Cov("design_counterexamples", "CopyOnWrite=FALSE (arrays, maps), CopyOnAppend=FALSE, OwnFrames=FALSE and RestoreOnFailure=FALSE each violate Refines (aliasing through a shared store / a shared parameter binding / the frame of a failed call)")
	// binding self-test: a session whose recorded probe is perturbed in one binding / one kind / the side line is rejected
	{
		h := []contOp{{Op: "init", N: 2}, {Op: "copy", X: "a", Y: "b"}, {Op: "twin", X: "b", Which: 1, V: -1}}
		val := map[string][]int{"a": {1, 2}, "b": {-1, 2}, "c": {}}
		inputs, _ := instantiateContainers(h, "arr", contForm{Variant: 1, Chain: chains[0]})
		want := expectedPrint(val, h, "arr", chains[0])
		obs, _ := runHistory(inputs, RunOpt{})
		if bad, msg := c06Judge(inputs, obs, want, true, "b"); bad {
			c.Fail("container-aliasing-arr-after-twin", "self-test session: "+msg, map[string]any{"check": "gen", "kind": "arr", "inputs": inputs, "want": want, "variant": 1, "target": "b"})
		}
		for _, perturb := range []func(o []inObs){
			func(o []inObs) { o[len(o)-1].Out = strings.Replace(o[len(o)-1].Out, ":fi", ":ii", 1) },
			func(o []inObs) { o[len(o)-1].Out = strings.Replace(o[len(o)-1].Out, "[1,2] [1,2]", "[9,2] [1,2]", 1) },
			func(o []inObs) { o[len(o)-1].Out = strings.Replace(o[len(o)-1].Out, "nil {", "[0] {", 1) },
		} {
			o2 := append([]inObs{}, obs...)
			perturb(o2)
			if bad, _ := c06Judge(inputs, o2, want, true, "b"); !bad {
				c.Infra(fmt.Errorf("C06: a perturbed probe was accepted (vacuous binding): %q", o2[len(o2)-1].Out))
				return
			}
		}
	}
	// 2. pinned reproducers of the repaired defects (regression cases) and nesting / loops / element ++
	pinned := []struct {
		in   []string
		want string
	}{
		{[]string{"a = 1:11; b = a; b[0] = 99; println(a[0], b[0])"}, "1 99\n"},
		{[]string{"n = {1:1,2:2,3:3,4:4,5:5}; o = n; o[1] = 99; del(o[2]); println(n, o)"}, "{1:1,2:2,3:3,4:4,5:5} {1:99,3:3,4:4,5:5}\n"},
		{[]string{"a = 1:11; c = a + 11; d = a + 12; println(c[10], d[10]); e = c + 1; f = c + 2; println(e[11], f[11])"}, "11 12\n1 2\n"},
		{[]string{"x = 1; f = func() {a = [x]; x = 2; a}; println(f())"}, "[1]\n"},
		{[]string{"a = 1:11; m = {\"k\": a}; a[0] = 50; println(m.k[0], a[0])"}, "1 50\n"},
		{[]string{"a = 1:11; b = [a, a]; a[1] = 7; println(b[0][1], b[1][1])"}, "2 2\n"},
		{[]string{"a = 1:11; for i = 3 {b = a; b[i] = 0}; println(a)"}, "[1,2,3,4,5,6,7,8,9,10]\n"},
		{[]string{"a = 1:11; r = rest(a); r[0] = 77; println(a[1], r[0])"}, "2 77\n"},
		{[]string{"a = 1:11; s = a[2:9] + 5; t = a[2:9] + 6; println(a, s[7], t[7])"}, "[1,2,3,4,5,6,7,8,9,10] 5 6\n"},
		{[]string{"m = {1:1,2:2,3:3,4:4,5:5,6:6}; r = rest(m); r[9] = 9; q = m[1:4]; q[0] = 0; println(m, len(r), len(q))"}, "{1:1,2:2,3:3,4:4,5:5,6:6} 6 4\n"},
		{[]string{"m = {1:1,2:2,3:3,4:4,5:5}; n = m + {6:6}; m[6] = 0; println(n[6], m[6])"}, "6 0\n"},
		{[]string{"a = {1:1,2:2,3:3,4:4,5:5,6:6}; b = a; c = a + {3:33, 9:9}; println(a[3], b[3], c[3])"}, "3 3 33\n"},
		{[]string{"x = info; n = len(x.globals); zz1 = 1; zz2 = 2; y = info; println(len(x.globals) == n, len(y.globals) == n + 4)"}, "true true\n"},
		{[]string{"f = func() {info}; x = f(); s = len(x.stack); g = func() {func() {info}()}; y = g(); println(len(x.stack) == s, len(y.stack) > s)"}, "true true\n"},
	}
	for _, p := range pinned {
		obs, _ := runHistory(p.in, RunOpt{})
		c.Case("pinned:"+strings.Join(p.in, "\n"), true)
		if obs[0].Err || obs[0].Out != p.want {
			c.Fail("container-aliasing-pinned", fmt.Sprintf("%q printed %q (err=%v %s), want %q", p.in[0], obs[0].Out, obs[0].Err, obs[0].Val, p.want),
				map[string]any{"check": "pinned", "inputs": p.in, "want": p.want})
		}
	}
	ks := make([]string, 0)
	for k := range seen {
		ks = append(ks, k)
	}
	sort.Strings(ks)
}

// c06SideLine judges the second line of a probe, "<par> <hold>": par (the container the initial value was taken from) never
// changes; hold (a map step -> the value stored there at that step) only grows at its end: every stored value stays.
func c06SideLine(prev *string, line string) string {
	if *prev == "" {
		*prev = line
		return ""
	}
	pp, ph, _ := strings.Cut(*prev, " {")
	cp, ch, _ := strings.Cut(line, " {")
	*prev = line
	if pp != cp {
		return fmt.Sprintf("the container the initial value was taken from printed %q and later %q", pp, cp)
	}
	if !strings.HasPrefix(ch, strings.TrimSuffix(ph, "}")) {
		return fmt.Sprintf("a value stored inside another container changed: the holder printed {%s and later {%s", ph, ch)
	}
	return ""
}

func replayC06(rp map[string]any) (bool, string) {
	var inputs []string
	b, _ := json.Marshal(rp["inputs"])
	_ = json.Unmarshal(b, &inputs)
	want, _ := rp["want"].(string)
	obs := c06Run(inputs)
	if chk, _ := rp["check"].(string); chk == "pinned" {
		if obs[0].Err || obs[0].Out != want {
			return false, fmt.Sprintf("printed %q (err=%v), want %q", obs[0].Out, obs[0].Err, want)
		}
		return true, ""
	}
	v, _ := rp["variant"].(float64)
	target, _ := rp["target"].(string)
	if bad, msg := c06Judge(inputs, obs, want, v > 0, target); bad {
		return false, msg
	}
	return true, ""
}

// ---- map keys -------------------------------------------------------------------------------------------------------
//
// The model orders the elements of a map by key and never says which keys they are: the harness takes them from a key
// chain, an ascending list of number literals addressed by an index p. The keys of the initial value are the even indices
// 2, 4, .. 2n, a merged-in new key of step i is 14 + 2i, and Insert / DelAbsent address the free neighbour of a key (p - 1,
// p + 1). Chain 0 is the plain one (p even: the integer p/2, p odd: the half between its neighbours). The others surround
// +-2^31, +-2^32, +-2^53 (neighbours differ by 1 and alternate between integer and float, or are all integers beyond the
// boundary, where a float cannot tell them apart) and +-2^63 (the ends of the integer range and the floats next to them);
// where the boundary lies among the indices is part of the case. Keys that are different numbers stay different elements
// and keep their order, at every size; a key that has a twin (the same number as the other kind) may be addressed by it.

type keyLit struct{ Lit, Twin string }

type keyChain struct {
	Name    string
	at      func(d int) keyLit
	B       int               // the index of entry d = 0
	printed map[string]string // literal -> what println shows for it (self-relative: number formatting is not C06's)
}

func (kc *keyChain) lit(p int) keyLit { return kc.at(p - kc.B) }

// addr is the literal used to address an existing key: the twin when asked for and there is one.
func (kc *keyChain) addr(p int, twin bool) string {
	l := kc.lit(p)
	if twin && l.Twin != "" {
		return l.Twin
	}
	return l.Lit
}

func (kc *keyChain) shown(p int) string { return kc.printed[kc.lit(p).Lit] }

const c06ChainSpan = 70 // entries -span..span around d = 0 are ever used (indices -8..48, boundary index -1..13)

func plainChainAt(d int) keyLit {
	if d%2 == 0 {
		return keyLit{strconv.Itoa(d / 2), strconv.Itoa(d/2) + ".0"}
	}
	return keyLit{strconv.FormatFloat(float64(d)/2, 'f', 1, 64), ""}
}

// pow2ChainAt: entry d is sign*2^k + d. alt: a float when d is even (always exact), an integer when d is odd. Otherwise
// ("ints"): beyond the boundary all integers (consecutive integers, the odd ones are no float64), floats and integers
// alternating on the near side.
func pow2ChainAt(k uint, sign int, alt bool) func(d int) keyLit {
	bnd := new(big.Int).Lsh(big.NewInt(1), k)
	two53 := new(big.Int).Lsh(big.NewInt(1), 53)
	return func(d int) keyLit {
		v := new(big.Int).Mul(bnd, big.NewInt(int64(sign)))
		v.Add(v, big.NewInt(int64(d)))
		abs := new(big.Int).Abs(v)
		outside := abs.Cmp(bnd) > 0
		isFloat := d&1 == 0
		if !alt {
			isFloat = !outside && d&1 == 1
		}
		exact := abs.Cmp(two53) <= 0 || abs.Bit(0) == 0 // (|v| < 2^54 here)
		if isFloat {
			return keyLit{v.String() + ".0", v.String()}
		}
		if exact {
			return keyLit{v.String(), v.String() + ".0"}
		}
		return keyLit{v.String(), ""}
	}
}

// endChainAt: the top of the integer range. d = 0, -1, -2: 2^63-1, 2^63-2, 2^63-3; below them, around every float 2^63 - 1024t
// the integer on each side of it; d > 0: the floats 2^63, 2^63 + 2048, ... sign -1: the mirror image.
func endChainAt(sign int) func(d int) keyLit {
	two63 := new(big.Int).Lsh(big.NewInt(1), 63)
	pos := func(d int) keyLit {
		switch {
		case d > 0:
			v := new(big.Int).Add(two63, big.NewInt(int64(2048*(d-1))))
			return keyLit{v.String() + ".0", ""}
		case d >= -2:
			return keyLit{new(big.Int).Add(two63, big.NewInt(int64(d-1))).String(), ""}
		}
		t, r := (-d-3)/3+1, (-d-3)%3 // r = 0: just above the float, 1: the float, 2: just below
		v := new(big.Int).Sub(two63, big.NewInt(int64(1024*t)))
		switch r {
		case 0:
			return keyLit{v.Add(v, big.NewInt(1)).String(), ""}
		case 1:
			return keyLit{v.String() + ".0", v.String()}
		}
		return keyLit{v.Sub(v, big.NewInt(1)).String(), ""}
	}
	if sign > 0 {
		return pos
	}
	return func(d int) keyLit {
		l := pos(-d)
		l.Lit = "-" + l.Lit
		if l.Twin != "" {
			l.Twin = "-" + l.Twin
		}
		return l
	}
}

// c06Chains builds the chains and asks the interpreter how it prints each literal (one println per literal).
func c06Chains() ([]*keyChain, error) {
	chains := []*keyChain{{Name: "plain", at: plainChainAt}}
	for _, k := range []uint{31, 32, 53} {
		for _, sign := range []int{1, -1} {
			for _, alt := range []bool{true, false} {
				chains = append(chains, &keyChain{Name: fmt.Sprintf("%d*2^%d alt=%v", sign, k, alt), at: pow2ChainAt(k, sign, alt)})
			}
		}
	}
	chains = append(chains, &keyChain{Name: "2^63", at: endChainAt(1)}, &keyChain{Name: "-2^63", at: endChainAt(-1)})
	for _, kc := range chains {
		var lits, inputs []string
		for d := -c06ChainSpan; d <= c06ChainSpan; d++ {
			l := kc.at(d)
			lits = append(lits, l.Lit)
			inputs = append(inputs, "println("+l.Lit+")")
		}
		obs, _ := runHistory(inputs, RunOpt{})
		kc.printed = map[string]string{}
		for i, o := range obs {
			p := strings.TrimSuffix(o.Out, "\n")
			if o.Err || p == "" || strings.Contains(p, "\n") {
				return nil, fmt.Errorf("key chain %s: println(%s) gave %q (err=%v %s)", kc.Name, lits[i], o.Out, o.Err, o.Val)
			}
			kc.printed[lits[i]] = p
		}
	}
	return chains, nil
}

// mapStep applies operation number i of a history to the key lists (chain indices, ascending) and returns the index the
// operation addresses; ok = false when the history has no map form (no free neighbour where the model wants a new key).
func mapStep(keys map[string][]int, op contOp, i int) (k int, ok bool) {
	clone := func(x string) []int { return append([]int{}, keys[x]...) }
	has := func(x string, p int) bool {
		for _, q := range keys[x] {
			if q == p {
				return true
			}
		}
		return false
	}
	end := func(x string, which int) int {
		ks := keys[x]
		if len(ks) == 0 {
			return 2
		}
		if which == 1 {
			return ks[0]
		}
		return ks[len(ks)-1]
	}
	switch op.Op {
	case "init":
		keys["a"], keys["b"], keys["c"] = nil, nil, nil
		for j := 1; j <= op.N; j++ {
			keys["a"] = append(keys["a"], 2*j)
		}
	case "copy", "frames":
		keys[op.Y] = clone(op.X)
	case "set", "twin":
		k = end(op.X, op.Which)
	case "call":
		k = end(op.X, 1)
		keys[op.Y] = clone(op.X)
	case "overwrite":
		k = end(op.X, op.Which)
		keys[op.Y] = clone(op.X)
	case "fail": // (the key the failing call adds to its own parameter)
		k = 14 + 2*i
	case "faillib":
	case "append":
		k = 14 + 2*i
		keys[op.Y] = append(clone(op.X), k)
	case "shrink":
		k = end(op.X, 2)
		if n := len(keys[op.X]); n > 0 {
			keys[op.X] = clone(op.X)[:n-1]
		}
	case "insert", "delabsent":
		switch op.Which {
		case 1:
			k = end(op.X, 1) - 1
		case 2:
			k = end(op.X, 2) - 1
		default:
			k = end(op.X, 2) + 1
		}
		if has(op.X, k) {
			return 0, false
		}
		if op.Op == "insert" {
			ks := append(clone(op.X), k)
			sort.Ints(ks)
			keys[op.X] = ks
		}
	default:
		return 0, false
	}
	return k, true
}
