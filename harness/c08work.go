package main

// C08 worker process: executes one shard of one job on the real front end (one goroutine per
// process: grol's token interning table is a process-global unsynchronised map).
//   vh worker c08 <job.json>
// Outputs next to job.Out:
//   .rec   one compact outcome record per case (input of FrontEnd_Trace.tla)
//   .in    "<line 0|1> <nontrivial 0|1> <base64 input>" per case, same order
//   .fail  ndjson of the cases the property relation rejects (attribution only; the verdict is TLC's)
//   .sum   json summary (counts, model disagreements, samples)

import (
	"bufio"
	"encoding/base64"
	"encoding/json"
	"fmt"
	"math/rand"
	"os"
	"strings"
)

type c08Job struct {
	Kind    string   `json:"kind"`           // gen | random | trunc | mutate | bytes | deep | layout | pinned
	Wide    bool     `json:"wide,omitempty"` // gen: render the spaced predictions once more with long blank runs between the tokens
	GenFile string   `json:"gen_file,omitempty"`
	Shard   int      `json:"shard"`
	NShards int      `json:"nshards"`
	Seed    int64    `json:"seed"`
	N       int      `json:"n,omitempty"`
	Files   []string `json:"files,omitempty"`
	Stride  int      `json:"stride,omitempty"`
	Depths  []int    `json:"depths,omitempty"`
	Inputs  []string `json:"inputs,omitempty"` // base64, for pinned
	Out     string   `json:"out"`
}

type c08Fail struct {
	Idx   int    `json:"idx"`   // 0-based record index in this shard's .rec
	Input string `json:"input"` // base64
	Line  bool   `json:"line"`
	Sig   string `json:"sig"`
	What  string `json:"what"`
	Rec   string `json:"rec"`
}

type c08Disagree struct {
	Syms  []string `json:"syms"`
	Input string   `json:"input"`
	Line  bool     `json:"line"`
	Sep   string   `json:"sep"`
	Pred  string   `json:"pred"`
	Obs   string   `json:"obs"`
}

type c08Sum struct {
	Cases      int                    `json:"cases"`
	GenLines   int                    `json:"gen_lines"`    // predictions of this shard
	Compared   int                    `json:"compared"`     // renderings whose prediction was compared
	NotCompar  int                    `json:"not_compared"` // renderings that re-lex to a different token string (merged tokens)
	Disagree   map[string]int         `json:"disagree"`     // "pred->obs" -> count
	DisSamples []c08Disagree          `json:"dis_samples"`
	Classes    map[string]int         `json:"classes"`
	Sigs       map[string]int         `json:"sigs"`
	Samples    []map[string]any       `json:"samples"`
	Unknown    int                    `json:"unknown_node_types"`
	Extra      map[string]interface{} `json:"extra,omitempty"`
}

type c08Out struct {
	rec, in, fail *bufio.Writer
	files         []*os.File
	sum           c08Sum
	n             int
}

func newC08Out(prefix string) (*c08Out, error) {
	o := &c08Out{sum: c08Sum{Disagree: map[string]int{}, Classes: map[string]int{}, Sigs: map[string]int{}}}
	for _, ext := range []string{".rec", ".in", ".fail"} {
		f, err := os.Create(prefix + ext)
		if err != nil {
			return nil, err
		}
		o.files = append(o.files, f)
	}
	o.rec = bufio.NewWriterSize(o.files[0], 1<<20)
	o.in = bufio.NewWriterSize(o.files[1], 1<<20)
	o.fail = bufio.NewWriterSize(o.files[2], 1<<16)
	return o, nil
}

func (o *c08Out) close(prefix string) error {
	for _, w := range []*bufio.Writer{o.rec, o.in, o.fail} {
		if err := w.Flush(); err != nil {
			return err
		}
	}
	for _, f := range o.files {
		if err := f.Close(); err != nil {
			return err
		}
	}
	b, _ := json.Marshal(o.sum)
	return os.WriteFile(prefix+".sum", b, 0o644)
}

// run executes one case and writes its record.
func (o *c08Out) run(input string, line bool, nontrivial bool) c08Rec {
	r := c08Run(input, line)
	o.rec.WriteString(r.compact())
	o.rec.WriteByte('\n')
	fmt.Fprintf(o.in, "%d %d %s\n", b2i(line), b2i(nontrivial), base64.StdEncoding.EncodeToString([]byte(input)))
	o.sum.Cases++
	o.sum.Classes[r.Class()]++
	o.sum.Unknown += r.Unknown
	if sig, what := c08Verdict(input, &r); sig != "" {
		o.sum.Sigs[sig]++
		b, _ := json.Marshal(c08Fail{Idx: o.n, Input: base64.StdEncoding.EncodeToString([]byte(input)), Line: line, Sig: sig, What: what, Rec: r.compact()})
		o.fail.Write(b)
		o.fail.WriteByte('\n')
	}
	if len(o.sum.Samples) < 3 && o.n%997 == 5 {
		o.sum.Samples = append(o.sum.Samples, map[string]any{"input": input, "line_mode": line, "class": r.Class(), "errors": r.NErr,
			"continuation": r.Cont, "nil_children": r.Nil, "printed": r.Pr})
	}
	o.n++
	return r
}

func init() {
	workers["c08"] = func(args []string) {
		if len(args) != 1 {
			fmt.Fprintln(os.Stderr, "usage: worker c08 <job.json>")
			os.Exit(2)
		}
		b, err := os.ReadFile(args[0])
		if err != nil {
			fmt.Fprintln(os.Stderr, err)
			os.Exit(2)
		}
		var job c08Job
		if err := json.Unmarshal(b, &job); err != nil {
			fmt.Fprintln(os.Stderr, err)
			os.Exit(2)
		}
		if job.NShards < 1 {
			job.NShards = 1
		}
		out, err := newC08Out(job.Out)
		if err == nil {
			switch job.Kind {
			case "gen":
				err = c08WorkGen(&job, out)
			case "random":
				c08WorkRandom(&job, out)
			case "trunc":
				err = c08WorkTrunc(&job, out)
			case "mutate":
				err = c08WorkMutate(&job, out)
			case "bytes":
				c08WorkBytes(&job, out)
			case "deep":
				c08WorkDeep(&job, out)
			case "layout":
				c08WorkLayout(&job, out)
			case "pinned":
				for _, s := range job.Inputs {
					in, _ := base64.StdEncoding.DecodeString(s)
					out.run(string(in), false, true)
					out.run(string(in), true, true)
				}
			default:
				err = fmt.Errorf("unknown job kind %q", job.Kind)
			}
		}
		if err == nil {
			err = out.close(job.Out)
		}
		if err != nil {
			fmt.Fprintln(os.Stderr, "c08 worker:", err)
			os.Exit(2)
		}
	}
}

// ------------------------------------------------------------------ gen: TLC-emitted predictions

type c08Pred struct {
	Syms  []string
	Line  bool
	Tight bool
	Class string
	Miss  int
}

func parsePred(line []byte) (c08Pred, error) {
	var raw []json.RawMessage
	var p c08Pred
	if err := json.Unmarshal(line, &raw); err != nil || len(raw) != 5 {
		return p, fmt.Errorf("bad prediction line %q", line)
	}
	var l, t int
	if json.Unmarshal(raw[0], &p.Syms) != nil || json.Unmarshal(raw[1], &l) != nil || json.Unmarshal(raw[2], &t) != nil ||
		json.Unmarshal(raw[3], &p.Class) != nil || json.Unmarshal(raw[4], &p.Miss) != nil {
		return p, fmt.Errorf("bad prediction line %q", line)
	}
	p.Line, p.Tight = l == 1, t == 1
	return p, nil
}

func c08WorkGen(job *c08Job, out *c08Out) error {
	idx := -1
	return ReadLines(job.GenFile, func(line []byte) error {
		idx++
		if idx%job.NShards != job.Shard {
			return nil
		}
		p, err := parsePred(line)
		if err != nil {
			return err
		}
		out.sum.GenLines++
		seps := []string{"spaced", "nl"}
		if p.Tight {
			seps = []string{"tight"}
		} else if job.Wide && len(p.Syms) >= 2 {
			seps = append(seps, "wide")
		}
		for _, sep := range seps {
			var in string
			if sep == "wide" { // the same token string laid out with a long run of blanks (spaces, tabs, blank lines, indentation) in every gap
				in = c08RenderWide(p.Syms, rand.New(rand.NewSource(job.Seed*7919+int64(idx))))
			} else {
				in = c08Render(p.Syms, sep)
			}
			r := out.run(in, p.Line, len(p.Syms) >= 2)
			// the prediction is about the token string; it applies to this byte string only if the real
			// lexer reads exactly that token string back (adjacent tokens may merge: `a` `1` -> `a1`).
			if !c08DenotesSyms(in, p.Syms) {
				out.sum.NotCompar++
				continue
			}
			out.sum.Compared++
			obs := r.Class()
			if obs == "clean" && p.Class == "clean" && min(r.Nil, 9) != p.Miss {
				obs = fmt.Sprintf("clean/nil=%d", r.Nil)
			}
			if obs != p.Class {
				k := p.Class + "->" + obs
				out.sum.Disagree[k]++
				if len(out.sum.DisSamples) < 12 && out.sum.Disagree[k] <= 3 {
					out.sum.DisSamples = append(out.sum.DisSamples, c08Disagree{Syms: p.Syms, Input: in, Line: p.Line, Sep: sep, Pred: p.Class, Obs: obs})
				}
			}
		}
		return nil
	})
}

// ------------------------------------------------------------------ random token sequences

var c08ExtraPieces = []string{"%", "^", "~", "|", "||", "<<", ">>", ">=", "<=", "!=", "--", "false", "continue", "first", "rest",
	"println", "log", "error", "catch", "unquote", "del", "0x1f", "0b101", "1e5", "1e", "1e+", ".5", ".5.3", "1_000", "`raw`", "`",
	"\"\\u00e9\\n\"", "\"\\x", "\\", "\x00", "\xff", "\xc3", "\xc3\xa9", "\t", "\r\n", "#", "$", "?", "'", "b", "self", "PI", "..."}

// genProgram builds a (mostly) valid program text as a token list.
func c08GenExpr(rng *rand.Rand, d int) []string {
	if d <= 0 {
		return []string{[]string{"a", "b", "1", "2.5", `"s"`, "true", ".."}[rng.Intn(7)]}
	}
	cat := func(parts ...[]string) []string {
		var r []string
		for _, p := range parts {
			r = append(r, p...)
		}
		return r
	}
	t := func(s ...string) []string { return s }
	e := func() []string { return c08GenExpr(rng, d-1) }
	switch rng.Intn(18) {
	case 0:
		return cat(e(), t([]string{"+", "-", "*", "/", "%", "==", "!=", "<", "<=", "&&", "||", "<<", "&", "|", "^", ":"}[rng.Intn(16)]), e())
	case 1:
		return cat(t([]string{"-", "!", "+", "~", "++", "--"}[rng.Intn(6)]), e())
	case 2:
		return cat(t("("), e(), t(")"))
	case 3:
		return cat(t("a", "("), e(), t(","), e(), t(")"))
	case 4:
		return cat(e(), t("["), e(), t("]"))
	case 5:
		return cat(t("["), e(), t(","), e(), t("]"))
	case 6:
		return cat(t("{"), e(), t(":"), e(), t(","), t(`"k"`, ":"), e(), t("}"))
	case 7:
		return cat(t("if"), e(), t("{"), e(), t("}", "else", "{"), e(), t("}"))
	case 8:
		return cat(t("if"), e(), t("{"), e(), t("}", "else", "if"), e(), t("{"), e(), t("}"))
	case 9:
		return cat(t("for"), e(), t("{"), e(), t(";", "break", "}"))
	case 10:
		return cat(t("func", "f", "(", "a", ",", "b", ")", "{"), e(), t(";", "return"), e(), t("}"))
	case 11:
		return cat(t("(", "a", ",", "b", ")", "=>"), e())
	case 12:
		return cat(t("a", "=>", "{"), e(), t("}"))
	case 13:
		return cat(t("a", "="), e())
	case 14:
		return cat(t([]string{"len", "print", "println", "first", "rest", "quote", "unquote", "error", "catch", "log", "del"}[rng.Intn(11)], "("), e(), t(")"))
	case 15:
		return cat(e(), t("."), t("a"))
	case 16:
		return cat(t("macro", "(", "a", ")", "{"), e(), t("}"))
	default:
		return cat(e(), t([]string{"//c\n", "/*c*/", ";", "a++", "a--"}[rng.Intn(5)]), e())
	}
}

func c08WorkRandom(job *c08Job, out *c08Out) {
	rng := rand.New(rand.NewSource(job.Seed*1000003 + int64(job.Shard)))
	seps := []string{"", " ", " ", "\n", "  ", "\t"}
	piece := func() string {
		if rng.Intn(5) == 0 {
			return c08ExtraPieces[rng.Intn(len(c08ExtraPieces))]
		}
		s := c08Alphabet[rng.Intn(len(c08Alphabet))]
		if s.Name == "lc" {
			return s.Text + "\n"
		}
		return s.Text
	}
	for i := 0; i < job.N; i++ {
		var toks []string
		if i%2 == 0 { // purely random token soup
			n := 4 + rng.Intn(36)
			for k := 0; k < n; k++ {
				toks = append(toks, piece())
			}
		} else { // a valid program with a few token-level mutations
			toks = c08GenExpr(rng, 1+rng.Intn(4))
			for m := rng.Intn(4); m > 0 && len(toks) > 0; m-- {
				k := rng.Intn(len(toks))
				switch rng.Intn(4) {
				case 0:
					toks = append(toks[:k], toks[k+1:]...)
				case 1:
					toks = append(toks[:k+1], toks[k:]...)
				case 2:
					toks[k] = piece()
				default:
					toks = append(toks[:k], append([]string{piece()}, toks[k:]...)...)
				}
			}
		}
		var sb strings.Builder
		for k, t := range toks {
			if k > 0 {
				sb.WriteString(seps[rng.Intn(len(seps))])
			}
			sb.WriteString(t)
		}
		in := sb.String()
		out.run(in, false, true)
		out.run(in, true, true)
	}
}

// ------------------------------------------------------------------ truncations / mutations of the shipped programs

func c08WorkTrunc(job *c08Job, out *c08Out) error {
	rng := rand.New(rand.NewSource(job.Seed))
	k := 0
	for _, f := range job.Files {
		b, err := os.ReadFile(f)
		if err != nil {
			return err
		}
		phase := 0
		if job.Stride > 1 {
			phase = rng.Intn(job.Stride)
		}
		for n := 0; n <= len(b); n++ {
			if job.Stride > 1 && n%job.Stride != phase && n != len(b) {
				continue
			}
			k++
			if k%job.NShards != job.Shard {
				continue
			}
			in := string(b[:n])
			out.run(in, false, n >= 2)
			out.run(in, true, n >= 2)
		}
	}
	return nil
}

var c08MutBytes = []byte{0, 0xff, 0x80, 0xc3, '(', ')', '{', '}', '[', ']', '"', '`', '/', '*', '\n', '=', '>', ',', ' ', ';', ':', '.', '+', '-', '!', 'a', '1', '\\', '@', '\r'}

func c08WorkMutate(job *c08Job, out *c08Out) error {
	rng := rand.New(rand.NewSource(job.Seed + 77))
	k := 0
	for _, f := range job.Files {
		b, err := os.ReadFile(f)
		if err != nil {
			return err
		}
		for n := 0; n < len(b); n++ {
			for rep := 0; rep < job.N; rep++ { // N replacement bytes per position
				pos, nb := n, c08MutBytes[rng.Intn(len(c08MutBytes))]
				del := rng.Intn(6) == 0
				if job.Stride > 1 && rng.Intn(job.Stride) != 0 {
					continue
				}
				k++
				if k%job.NShards != job.Shard {
					continue
				}
				var in string
				if del { // single-byte deletion
					in = string(b[:pos]) + string(b[pos+1:])
				} else {
					c := append([]byte{}, b...)
					c[pos] = nb
					in = string(c)
				}
				out.run(in, false, true)
				out.run(in, true, true)
			}
		}
	}
	return nil
}

// ------------------------------------------------------------------ NUL, non-UTF-8 and all short byte strings

func c08WorkBytes(job *c08Job, out *c08Out) {
	k := 0
	do := func(in string) {
		k++
		if k%job.NShards != job.Shard {
			return
		}
		out.run(in, false, len(in) >= 2)
		out.run(in, true, len(in) >= 2)
	}
	do("")
	for a := 0; a < 256; a++ {
		do(string([]byte{byte(a)}))
	}
	for a := 0; a < 256; a++ {
		for b := 0; b < 256; b++ {
			do(string([]byte{byte(a), byte(b)}))
		}
	}
	// every interesting byte inserted at every position of small programs
	progs := []string{`a = "str" + f(1, [2,3]) // c` + "\n" + `if a { b } else { c }`, `func f(a,b) { return a[1:] }` + "\n" + `/* bc */ m = {1:2, "k": x => x+1}`,
		"for i = 3 { print(i)\n}", "(a,b) => { a.b.c }", "`raw\nstring` \"esc\\x41\\u00e9\\U0001F600\"", "1e5 + .5 - 0x1f * 0b11 / 1_0"}
	ins := []byte{0, 0xff, 0x80, 0xc3, 0xe2, 0xf0, 0x7f, 0x01, '\r', 0x0b, 0x0c, 0xa0}
	// a comment (block, or line + newline) inserted at every position of one-construct programs, and the construct's inner
	// tokens replaced by a comment: blocks, lists and branches that hold nothing but a comment must still print in every mode
	small := []string{"if a {1} else {2}", "if a {} else {}", "if a {1} else if b {2} else {3}", "func f(a, b) {a}", "func() {}", "x => {x}", "() => {}", "(a, b) => a + b",
		"for a {1}", "for i = 3 {}", "for k, v = m {v}", "[1, 2]", "[]", "{1: 2}", "{}", "f(1, 2)", "f()", "a[1]", "a[1:2]", "a.b", "-a", "a + b * c", "a = 1", "return a", "return",
		"macro(a) {a}", "quote(a)", "len(a)", "print()", "a++", "(a)", "m = macro(a) {quote(unquote(a))}", "x = {1: [2, {3: 4}]}", "if a {if b {1}} else {for c {2}}"}
	for _, p := range small {
		for pos := 0; pos <= len(p); pos++ {
			for _, cm := range []string{"/* c */", "// c\n", "/**/", "//\n"} {
				do(p[:pos] + cm + p[pos:])
				for end := pos + 1; end <= len(p) && end <= pos+3; end++ {
					do(p[:pos] + cm + p[end:]) // the comment replaces 1..3 bytes
				}
			}
		}
	}
	// every odd token in every binding position (lambda / func / macro parameters, loop variable, assignment target, ...)
	odd := []string{"0x", "0b", "0o", "1_", "1__2", ".5_", "1e", "1e+", "1.2.3", "0x1g", "09", "1_.5", `"s"`, "`r`", "'", "@", "..", "...", "nil", "true", "if", "func", "return", "break", "continue",
		"=>", "1", "1.5", "-1", "(", ")", "[1]", "{}", "//c\n", "/*c*/", "len", "macro", "quote", "9223372036854775808", "1e999", "", "a.b", "a[0]", "a()", "-a", "!a", "a b"}
	for _, tk := range odd {
		for _, ctx := range []string{"T => 1", "f = T => 1", "(a, T) => a", "(T, a) => a", "(T) => 1", "(a, T, b) => 1", "func(T) {}", "func f(a, T) {a}", "func T() {}", "macro(T) {T}", "m = macro(a, T) {quote(1)}",
			"for T = 3 {}", "for T = 1:3 {}", "for T := [1] {}", "T = 1", "T := 1", "T++", "++T", "del(T)", "a.T", "a.T = 1", "{T: 1}", "T(1)", "x => T", "T => T => 1", "(..) => T", "(a, .., T) => 1", "func(a, ..T) {}",
			"a[T]", "a[T:]", "a[:T]", "[T => 1]", "f(T => 1)", "if T {1}", "return T", "T; T", "T T"} {
			do(strings.ReplaceAll(ctx, "T", tk))
		}
	}
	for _, p := range progs {
		for pos := 0; pos <= len(p); pos++ {
			for _, c := range ins {
				do(p[:pos] + string([]byte{c}) + p[pos:])
				if pos < len(p) {
					do(p[:pos] + string([]byte{c}) + p[pos+1:])
				}
			}
		}
	}
}

// ------------------------------------------------------------------ layout: how far apart the tokens are
//
// The parser knows positions only as byte offsets (position in the line, distance between the previous token and the lexer,
// start of the current line); error messages are cut out of the input with them. Every other family puts the tokens next to
// each other or one blank / one newline apart. Here the tokens of short programs (with and without errors) are moved apart:
// one gap at a time is filled with n bytes of blanks, blank lines, indentation, comments or one long token, n running over a
// ladder of sizes around the powers of two plus seeded random sizes.

var c08BlankShapes = []string{"spaces", "tabs", "newlines", "spaces-nl", "nl-spaces", "tab-nl", "crlf", "nl-mixed-indent"}

// c08Filler returns about n bytes (at least 1) of the given shape.
func c08Filler(shape string, n int) string {
	n = max(n, 1)
	switch shape {
	case "spaces":
		return strings.Repeat(" ", n)
	case "tabs":
		return strings.Repeat("\t", n)
	case "newlines":
		return strings.Repeat("\n", n)
	case "spaces-nl": // trailing blanks, then the line ends
		return strings.Repeat(" ", n-1) + "\n"
	case "nl-spaces": // the next token is indented
		return "\n" + strings.Repeat(" ", n-1)
	case "tab-nl": // lines holding only indentation
		return strings.Repeat("\t\n", (n+1)/2)
	case "crlf":
		return strings.Repeat("\r\n", (n+1)/2)
	case "nl-mixed-indent":
		return strings.Repeat(" \t", n/4) + "\n" + strings.Repeat("\t ", n/4) + "\n"
	case "block-comment":
		return " /*" + strings.Repeat("c", n) + "*/ "
	case "line-comment":
		return " //" + strings.Repeat("c", n) + "\n"
	case "block-comment-lines":
		return " /*" + strings.Repeat("c\n", (n+1)/2) + "*/ "
	case "long-ident":
		return " " + strings.Repeat("a", n) + " "
	case "long-int":
		return " " + strings.Repeat("1", n) + " "
	case "long-string":
		return " \"" + strings.Repeat("s", n) + "\" "
	case "long-illegal":
		return " " + strings.Repeat("@", n) + " "
	}
	panic("unknown filler shape " + shape)
}

// c08RenderWide: the token string with a seeded blank filler (shape and size) in every gap.
func c08RenderWide(syms []string, rng *rand.Rand) string {
	var sb strings.Builder
	for i, n := range syms {
		sb.WriteString(c08SymByName[n].Text)
		if n == "lc" {
			sb.WriteByte('\n')
		}
		if i < len(syms)-1 {
			size := c08LayoutLadder[rng.Intn(len(c08LayoutLadder))]
			if rng.Intn(2) == 0 {
				size = 1 + rng.Intn(300)
			}
			sb.WriteString(c08Filler(c08BlankShapes[rng.Intn(len(c08BlankShapes))], size))
		}
	}
	return sb.String()
}

var c08LayoutLadder = []int{1, 2, 3, 7, 8, 9, 15, 16, 17, 31, 32, 33, 63, 64, 65, 66, 100, 127, 128, 129, 200, 255, 256, 257, 511, 512, 513, 1023, 1024, 1025}

// token lists: errors reported for the current token, for the previous token, at the end of the input, continuation requests,
// and clean programs
var c08LayoutBases = [][]string{
	{"x", "=", ")", "y"}, {"@", "y", "=", "1"}, {"a", "=", "1", "]", "b"}, {"(", "a", ",", ",", ")", "=>", "b"}, {"if", "a", "{", "}", "else", "b"},
	{"f", "(", "1", ",", "2"}, {"a", ".", "1"}, {"[", "1", ",", "]", "]"}, {"{", "a", ":", "}"}, {"func", "(", ",", ")", "{", "}"}, {"return", ";", "x"},
	{"a", "=", "42", "/* start"}, {"x", "=", "\"abc"}, {"1e+", "a"}, {"x", "=>", "}"}, {"a", "b", "c"}, {"for", "{", "a"}, {"a", "[", "1", ":", "}"},
	{"len", "(", ")", ")"}, {"macro", "(", "a", "{"}, {"a", "=", "1", "+", "2"}, {"f", "(", "a", ",", "b", ")"}, {"if", "a", "{", "b", "}", "else", "{", "c", "}"},
	{"func", "f", "(", "a", ")", "{", "return", "a", "}"}, {"[", "1", ",", "2", "]"}, {"{", "\"k\"", ":", "1", "}"}, {"x", "=>", "x", "+", "1"}, {"a", ";", "b"},
	{"// c\n", "a", ")"}, {"/* c */", "a", "+"},
}

func c08WorkLayout(job *c08Job, out *c08Out) {
	rng := rand.New(rand.NewSource(job.Seed*31 + 5))
	shapes := append(append([]string{}, c08BlankShapes...), "block-comment", "line-comment", "block-comment-lines", "long-ident", "long-int", "long-string", "long-illegal")
	k := 0
	for _, base := range c08LayoutBases {
		for gap := 0; gap <= len(base); gap++ { // before the first token, between two tokens, after the last one
			for _, shape := range shapes {
				sizes := append([]int{}, c08LayoutLadder...)
				if job.N > 0 { // thorough: every size up to N
					sizes = sizes[:0]
					for n := 1; n <= job.N; n++ {
						sizes = append(sizes, n)
					}
					sizes = append(sizes, 511, 512, 513, 1023, 1024, 1025, 4095, 4096, 4097)
				}
				for r := 0; r < 3; r++ {
					sizes = append(sizes, 1+rng.Intn(700))
				}
				for _, n := range sizes {
					k++
					if k%job.NShards != job.Shard {
						continue
					}
					var sb strings.Builder
					for i, t := range base {
						if i == gap {
							sb.WriteString(c08Filler(shape, n))
						} else if i > 0 {
							sb.WriteByte(' ')
						}
						sb.WriteString(t)
					}
					if gap == len(base) {
						sb.WriteString(c08Filler(shape, n))
					}
					in := sb.String()
					out.run(in, false, true)
					out.run(in, true, true)
				}
			}
		}
	}
}

// ------------------------------------------------------------------ deep nesting (a few thousand levels; C09 owns stack exhaustion)

func c08WorkDeep(job *c08Job, out *c08Out) {
	type shape struct{ open, mid, close string }
	shapes := []shape{
		{"(", "a", ")"}, {"[", "a", "]"}, {"{a:", "1", "}"}, {"-", "a", ""}, {"!", "a", ""}, {"a=>", "a", ""}, {"a+", "a", ""}, {"a=", "1", ""},
		{"if a {", "b", "}"}, {"if a {} else ", "if a {}", ""}, {"func(){", "1", "}"}, {"f(", "a", ")"}, {"a[", "1", "]"}, {"a.", "b", ""},
		{"for a {", "b", "}"}, {"x=>{", "x", "}"}, {"(a,b)=>", "a", ""}, {"len(", "a", ")"}, {"/*c*/", "a", ""}, {"//c\n", "a", ""}, {"a;", "a", ""},
		{"(a,", "b", ")=>c"}, {"macro(a){", "a", "}"}, {"return ", "a", ""}, {"a++ ", "a", ""}, {"{", "", "}"}, {"[", "", "]"},
	}
	k := 0
	for _, d := range job.Depths {
		for _, s := range shapes {
			for _, variant := range []int{0, 1, 2} { // balanced, only opened, closed too often
				k++
				if k%job.NShards != job.Shard {
					continue
				}
				var in string
				switch variant {
				case 0:
					in = strings.Repeat(s.open, d) + s.mid + strings.Repeat(s.close, d)
				case 1:
					in = strings.Repeat(s.open, d) + s.mid
				default:
					in = strings.Repeat(s.open, d/2) + s.mid + strings.Repeat(s.close, d)
				}
				out.run(in, false, true)
				out.run(in, true, true)
			}
		}
	}
}
