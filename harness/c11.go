package main

// C11 - maps behave as finite maps in key order, whatever their history
// (spec/MapRep.tla, spec/MapRep_Trace.tla).
//
// MC   TLC explores the implementation-shaped map model (small / big / escaped *SmallMap) and checks
//      that it refines the abstract finite map (RepOK, AbsOK, ObsOK, EqOK).
// GEN  every explored transition (witness history + operation + abstract prediction of every
//      observation) is replayed on the real code through three channels:
//        api-fn    object.Map built and changed through the public Go API, observed through the
//                  language's entry points object.Len / First / Rest / Range / Equals
//        api-meth  the same map observed through the methods of the Map interface
//        src       the same history as grol source through repl.EvalOne on a fresh state
//      Emitted besides the transitions, for every state: the map held by a constant (kbind / kset / kdel),
//      two merges from one operand (fork), a merge onto a view (view); every line also carries the printed
//      forms of the values the variable held earlier, which are compared after the operation.
//      The Go side holds no oracle: it compares strings / numbers produced by the real code with
//      the strings / numbers the spec emitted.
// TV   long random histories over ~36 keys run on the real code (Go API and source), recorded
//      and validated by MapRep_Trace.tla against the abstract level; the key order is computed
//      in the spec from the key records.

import (
	"bytes"
	"context"
	"encoding/json"
	"fmt"
	"math"
	"math/rand"
	"os"
	"os/exec"
	"path/filepath"
	"runtime"
	"sort"
	"strconv"
	"strings"
	"sync"
	"time"

	"fortio.org/log"
	"grol.io/grol/eval"
	"grol.io/grol/extensions"
	"grol.io/grol/object"
	"grol.io/grol/repl"
)

const (
	c11EscapeSig = "smallmap-append-empty-right-escapes-pointer"
	c11ShareSig  = "bigmap-changed-inside-its-own-loop-shares-backing-array"
)

func init() {
	props["C11"] = propDef{check: checkC11, replay: replayC11,
		rule: "case = one TLC-emitted transition of MapRep.tla (witness history + operation) replayed on the real code through one channel (api-fn, api-meth, src) with every observation compared with the abstract prediction, or one random history validated by MapRep_Trace.tla; distinct by (channel, witness, operation); non-trivial when the map has a history or the result is not empty"}
	workers["c11gen"] = c11GenWorker
}

// ---------------------------------------------------------------------------- universe

// c11Key is a key or value record of the spec: int n | float n = twice the value (z: negative zero) |
// bool n | nil | str s (bytes) | arr e (elements). b places a number at an end of the int64 range (the model's integers
// are small): b = 1: the int MaxInt64 + n (n <= 0), the float 2^63 (n = 2, twice the distance from MaxInt64);
// b = -1: the int MinInt64 + n (n >= 0), the float -2^63 (n = 0). Numbers are ordered by (b, twice the value).
type c11Key struct {
	T   string   `json:"t"`
	N   int      `json:"n"`
	B   int      `json:"b"`
	Z   int      `json:"z"`
	S   []int    `json:"s"`
	E   []c11Key `json:"e"`
	Txt string   `json:"txt"`
}

func (k c11Key) toJSON() map[string]any {
	r := map[string]any{"t": k.T, "txt": k.Txt}
	switch k.T {
	case "bool":
		r["n"] = k.N
	case "int":
		r["n"] = k.N
		r["b"] = k.B
	case "float":
		r["n"] = k.N
		r["z"] = k.Z
		r["b"] = k.B
	case "str":
		s := k.S
		if s == nil {
			s = []int{}
		}
		r["s"] = s
	case "arr":
		e := make([]any, len(k.E))
		for i, x := range k.E {
			e[i] = x.toJSON()
		}
		r["e"] = e
	}
	return r
}

func (k c11Key) obj() (object.Object, error) {
	switch k.T {
	case "int":
		switch k.B {
		case 1:
			return object.Integer{Value: math.MaxInt64 + int64(k.N)}, nil
		case -1:
			return object.Integer{Value: math.MinInt64 + int64(k.N)}, nil
		}
		return object.Integer{Value: int64(k.N)}, nil
	case "float":
		if k.B == 1 && k.N == 2 {
			return object.Float{Value: 9223372036854775808.0}, nil
		}
		if k.B == -1 && k.N == 0 {
			return object.Float{Value: -9223372036854775808.0}, nil
		}
		if k.B != 0 {
			return nil, fmt.Errorf("no float64 at b=%d n=%d", k.B, k.N)
		}
		if k.Z == 1 {
			return object.Float{Value: math.Copysign(0, -1)}, nil
		}
		return object.Float{Value: float64(k.N) / 2}, nil
	case "bool":
		if k.N == 1 {
			return object.TRUE, nil
		}
		return object.FALSE, nil
	case "nil":
		return object.NULL, nil
	case "str":
		return object.String{Value: bytesOf(k.S)}, nil
	case "arr":
		els := make([]object.Object, len(k.E))
		for i, e := range k.E {
			o, err := e.obj()
			if err != nil {
				return nil, err
			}
			els[i] = o
		}
		return object.NewArray(els), nil
	}
	return nil, fmt.Errorf("unknown key kind %q", k.T)
}

// src is the grol source text of the key.
func (k c11Key) src() string {
	switch k.T {
	case "int":
		if o, err := k.obj(); err == nil {
			return strconv.FormatInt(o.(object.Integer).Value, 10)
		}
		return strconv.Itoa(k.N)
	case "float":
		if k.B == 1 {
			return "9223372036854775808.0"
		}
		if k.B == -1 {
			return "-9223372036854775808.0"
		}
		if k.Z == 1 {
			return "-0.0"
		}
		s := strconv.FormatFloat(float64(k.N)/2, 'f', -1, 64)
		if !strings.Contains(s, ".") {
			s += ".0"
		}
		return s
	case "bool":
		if k.N == 1 {
			return "true"
		}
		return "false"
	case "nil":
		return "nil"
	case "str":
		return `"` + bytesOf(k.S) + `"` // generators use plain ASCII letters and digits only
	case "arr":
		parts := make([]string, len(k.E))
		for i, e := range k.E {
			parts[i] = e.src()
		}
		return "[" + strings.Join(parts, ",") + "]"
	}
	return "?"
}

type c11Univ struct {
	Keys []c11Key   `json:"universe"`
	Vals []c11Key   `json:"vals"`
	Lits [][][2]int `json:"lits"`
	kobj []object.Object
	vobj []object.Object
	ksrc []string
	vsrc []string
}

// prepare builds the real objects and cross-checks the scalar texts of the spec's tables with the
// real Inspect (scalar formatting is not C11's subject: a stale table is an infrastructure error).
func (u *c11Univ) prepare() error {
	u.kobj, u.vobj, u.ksrc, u.vsrc = nil, nil, nil, nil
	for i, k := range u.Keys {
		o, err := k.obj()
		if err != nil {
			return err
		}
		if o.Inspect() != k.Txt {
			return fmt.Errorf("key %d: the universe table says it prints as %q, the real object prints as %q (table stale?)", i+1, k.Txt, o.Inspect())
		}
		u.kobj = append(u.kobj, o)
		u.ksrc = append(u.ksrc, k.src())
	}
	for i, v := range u.Vals {
		o, err := v.obj()
		if err != nil {
			return err
		}
		if o.Inspect() != v.Txt {
			return fmt.Errorf("value %d: the universe table says it prints as %q, the real object prints as %q (table stale?)", i+1, v.Txt, o.Inspect())
		}
		u.vobj = append(u.vobj, o)
		u.vsrc = append(u.vsrc, v.src())
	}
	return nil
}

func (u *c11Univ) headerJSON() map[string]any {
	ks := make([]any, len(u.Keys))
	for i, k := range u.Keys {
		ks[i] = k.toJSON()
	}
	vs := make([]any, len(u.Vals))
	for i, v := range u.Vals {
		vs[i] = v.toJSON()
	}
	return map[string]any{"e": "universe", "keys": ks, "vals": vs}
}

// ---------------------------------------------------------------------------- operations, observations

// c11Op: lit a|es, set a b, del a, rest, range a b, appr a|es, appl a|es, self.
// J > 0: the set/del is done by the body of a `for kv = m` loop at its J-th iteration.
type c11Op struct {
	O  string   `json:"o"`
	A  int      `json:"a"`
	B  int      `json:"b"`
	J  int      `json:"j"`
	Es [][2]int `json:"es,omitempty"`
	// Sp: another source spelling of the same operation (m[-2:], m.a = 1, ..), used by the source channel only.
	Sp string `json:"sp,omitempty"`
}

// UnmarshalJSON accepts the spec's tuple form ["set",a,b,j] and the object form used in traces and replay files.
func (o *c11Op) UnmarshalJSON(b []byte) error {
	b = bytes.TrimSpace(b)
	if len(b) > 0 && b[0] == '[' {
		var t []json.RawMessage
		if err := json.Unmarshal(b, &t); err != nil {
			return err
		}
		if len(t) != 4 {
			return fmt.Errorf("operation tuple of length %d", len(t))
		}
		*o = c11Op{}
		if err := json.Unmarshal(t[0], &o.O); err != nil {
			return err
		}
		for i, p := range []*int{&o.A, &o.B, &o.J} {
			if err := json.Unmarshal(t[i+1], p); err != nil {
				return err
			}
		}
		return nil
	}
	type plain c11Op
	var p plain
	if err := json.Unmarshal(b, &p); err != nil {
		return err
	}
	*o = c11Op(p)
	return nil
}

func (o c11Op) hasLit() bool { return o.O == "lit" || o.O == "appr" || o.O == "appl" }

func (o c11Op) toJSON() map[string]any {
	r := map[string]any{"o": o.O, "a": o.A, "b": o.B, "j": o.J}
	if o.hasLit() {
		es := o.Es
		if es == nil {
			es = [][2]int{}
		}
		r["es"] = es
	}
	return r
}

func (u *c11Univ) entries(o c11Op) ([][2]int, error) {
	if o.Es != nil {
		return o.Es, nil
	}
	if o.A < 1 || o.A > len(u.Lits) {
		return nil, fmt.Errorf("literal index %d out of range", o.A)
	}
	return u.Lits[o.A-1], nil
}

// c11Obs: what a user sees of one map. Err = 1: the operation did not yield a map.
type c11Obs struct {
	Len     int    `json:"len"`
	Printed string `json:"printed"`
	Iter    string `json:"iter"`
	First   string `json:"first"`
	Rest    string `json:"rest"`
	Get     string `json:"get"`
	Err     int    `json:"err,omitempty"`
}

// c11Seen: one channel's observation of one case.
type c11Seen struct {
	Obs     c11Obs `json:"obs"`
	Ch      int    `json:"ch"`   // del: 1 changed, 0 not; else 2
	Eq      int    `json:"eq"`   // equal to an equal map built in another order (both directions)
	Neq     int    `json:"neq"`  // 1 when it claims equality with a different map
	It      string `json:"it"`   // loop cases: the pairs the loop visited
	Acc     int    `json:"acc"`  // constant cases: 1 the store into the constant was accepted, 0 refused
	Prev    string `json:"prev"` // the values the variable held earlier (and sibling results), printed after the operation
	HistErr string `json:"hist_err,omitempty"`
	OpErr   string `json:"op_err,omitempty"`
}

// ---------------------------------------------------------------------------- channel: Go API

func (u *c11Univ) mkLit(es [][2]int) object.Map {
	// eval.evalMapLiteral: NewMapSize(number of entries) + repeated Set
	m := object.NewMapSize(len(es))
	for _, e := range es {
		m = m.Set(u.kobj[e[0]-1], u.vobj[e[1]-1])
	}
	return m
}

type c11Ranger interface {
	Range(l, r int64) object.Object
}

// apiApply performs one operation the way the evaluator uses the public API.
func (u *c11Univ) apiApply(m object.Map, op c11Op, meth bool) (res object.Map, ch int, oerr string) {
	defer func() {
		if r := recover(); r != nil {
			res, oerr = nil, fmt.Sprintf("panic: %v", r)
		}
	}()
	ch = 2
	asMap := func(o object.Object, what string) (object.Map, int, string) {
		if mm, ok := o.(object.Map); ok {
			return mm, 2, ""
		}
		return nil, 2, fmt.Sprintf("%s returned %s %s", what, o.Type(), o.Inspect())
	}
	switch op.O {
	case "lit":
		es, err := u.entries(op)
		if err != nil {
			return nil, 2, err.Error()
		}
		return u.mkLit(es), 2, ""
	case "set": // eval.evalIndexAssigment: maps are values, the evaluator copies before it writes
		return object.CopyMap(m).Set(u.kobj[op.A-1], u.vobj[op.B-1]), 2, ""
	case "del": // eval.deleteMapEntry keeps the binding when nothing changed
		m2, changed := object.CopyMap(m).Delete(u.kobj[op.A-1])
		if changed {
			return m2, 1, ""
		}
		return m, 0, ""
	case "rest":
		if meth {
			return asMap(m.Rest(), "Rest()")
		}
		return asMap(object.Rest(m), "object.Rest")
	case "range":
		if rr, ok := m.(c11Ranger); ok && meth {
			return asMap(rr.Range(int64(op.A), int64(op.B)), "Range()")
		}
		return asMap(object.Range(m, int64(op.A), int64(op.B)), "object.Range")
	case "appr", "appl":
		es, err := u.entries(op)
		if err != nil {
			return nil, 2, err.Error()
		}
		lit := u.mkLit(es)
		if op.O == "appr" {
			return m.Append(lit), 2, ""
		}
		return lit.Append(m), 2, ""
	case "self":
		return m.Append(m), 2, ""
	}
	return nil, 2, "unknown op " + op.O
}

func c11ViewBounds(a, n int) (int, int) {
	if a == 0 {
		return 0, n - 1
	}
	return 1, n
}

func (o c11Op) isConst() bool { return o.O == "kbind" || o.O == "kset" || o.O == "kdel" }

// apiConst: the map held by a constant of an object.Environment; the steps of the evaluator (copy, change, store)
// with the store decided by the environment. Returns what the constant holds afterwards.
func (u *c11Univ) apiConst(m object.Map, op c11Op, alt []c11Op, meth bool) (res object.Map, ch, acc int, oerr string) {
	defer func() {
		if r := recover(); r != nil {
			res, oerr = nil, fmt.Sprintf("panic: %v", r)
		}
	}()
	env := object.NewRootEnvironment()
	if r := env.Set("K", m); r.Type() == object.ERROR {
		return nil, 2, 0, "K = m: " + r.Inspect()
	}
	held := func() (object.Map, bool) {
		o, ok := env.Get("K")
		if !ok {
			return nil, false
		}
		mm, ok := object.Value(o).(object.Map)
		return mm, ok
	}
	cur, ok := held()
	if !ok {
		return nil, 2, 0, "K does not hold a map"
	}
	ch = 2
	store := func(v object.Map) int {
		if r := env.Set("K", v); r.Type() == object.ERROR {
			return 0
		}
		return 1
	}
	switch op.O {
	case "kbind":
		t := object.NewMap()
		for i, x := range alt {
			var e string
			t, _, e = u.apiApply(t, x, meth)
			if e != "" {
				return nil, 2, 0, fmt.Sprintf("other way step %d (%s): %s", i+1, x.O, e)
			}
		}
		acc = store(t)
	case "kset":
		acc = store(object.CopyMap(cur).Set(u.kobj[op.A-1], u.vobj[op.B-1]))
	case "kdel":
		m2, changed := object.CopyMap(cur).Delete(u.kobj[op.A-1])
		switch {
		case !changed:
			ch = 0
		case store(m2) == 1:
			ch = 1
		default:
			ch = 3
		}
	}
	res, ok = held()
	if !ok {
		return nil, ch, acc, "K does not hold a map afterwards"
	}
	return res, ch, acc, ""
}

func c11RestTxt(r object.Object) string {
	switch {
	case r == nil:
		return "error"
	case r.Type() == object.ERROR:
		return "error"
	case r.Type() == object.NIL:
		return "nil"
	}
	return r.Inspect()
}

type c11Acc struct {
	first, rest func(x object.Object) object.Object
	length      func(x object.Object) int
}

// c11Accessors: the language's entry points (object.First/Rest/Len) or the methods of the Map interface.
func c11Accessors(meth bool) c11Acc {
	if !meth {
		return c11Acc{object.First, object.Rest, object.Len}
	}
	return c11Acc{
		first: func(x object.Object) object.Object { return x.(object.Map).First() },
		rest:  func(x object.Object) object.Object { return x.(object.Map).Rest() },
		length: func(x object.Object) int {
			if mm, ok := x.(object.Map); ok {
				return mm.Len()
			}
			return object.Len(x)
		},
	}
}

// iterate is eval.evalForList: for Len(list) > 0 { v = First(list); list = Rest(list); body(i) }.
func (a c11Acc) iterate(m object.Object, body func(i int)) string {
	var it []string
	cur := m
	for n := 1; a.length(cur) > 0 && n < 1000; n++ {
		f := a.first(cur)
		cur = a.rest(cur)
		if body != nil {
			body(n)
		}
		fm, ok := f.(object.Map)
		if !ok {
			it = append(it, "?"+f.Inspect())
			break
		}
		k, _ := fm.Get(object.KeyKey)
		v, _ := fm.Get(object.ValueKey)
		it = append(it, "["+k.Inspect()+","+v.Inspect()+"]")
	}
	return "[" + strings.Join(it, ",") + "]"
}

// apiLoop: a loop over m whose body performs op (set/del) on m at iteration op.J.
func (u *c11Univ) apiLoop(m object.Map, op c11Op, meth bool) (res object.Map, ch int, it string, oerr string) {
	defer func() {
		if r := recover(); r != nil {
			res, oerr = nil, fmt.Sprintf("panic: %v", r)
		}
	}()
	res, ch = m, 2
	body := op
	body.J = 0
	it = c11Accessors(meth).iterate(m, func(i int) {
		if i == op.J && oerr == "" {
			res, ch, oerr = u.apiApply(res, body, meth)
		}
	})
	return res, ch, it, oerr
}

func (u *c11Univ) apiObserve(m object.Map, ps [][2]int, gk []int, meth bool) (seen c11Seen) {
	defer func() {
		if r := recover(); r != nil {
			seen.OpErr = fmt.Sprintf("panic while observing: %v", r)
			seen.Obs.Err = 1
		}
	}()
	seen.Ch = 2
	o := &seen.Obs
	acc := c11Accessors(meth)
	first, rest, length := acc.first, acc.rest, acc.length
	o.Len = length(m)
	o.Printed = m.Inspect()
	o.Iter = acc.iterate(m, nil)
	o.First = first(m).Inspect()
	o.Rest = c11RestTxt(rest(m))
	gs := make([]string, len(gk))
	for i, k := range gk {
		v, found := m.Get(u.kobj[k-1])
		if found {
			gs[i] = v.Inspect()
		} else {
			gs[i] = "nil"
		}
	}
	o.Get = "[" + strings.Join(gs, ",") + "]"
	// equality with the predicted map built in the reverse order, and with two different maps
	other := object.NewMap()
	for i := len(ps) - 1; i >= 0; i-- {
		other = other.Set(u.kobj[ps[i][0]-1], u.vobj[ps[i][1]-1])
	}
	if object.Equals(m, other) && object.Equals(other, m) {
		seen.Eq = 1
	}
	for _, d := range u.different(ps) {
		dm := object.NewMap()
		for _, e := range d {
			dm = dm.Set(u.kobj[e[0]-1], u.vobj[e[1]-1])
		}
		if object.Equals(m, dm) || object.Equals(dm, m) {
			seen.Neq = 1
		}
	}
	return seen
}

// different returns two entry lists that denote maps different from the one with pairs ps:
// one value changed (or a singleton for the empty map), and the first pair dropped.
func (u *c11Univ) different(ps [][2]int) [][][2]int {
	if len(ps) == 0 {
		return [][][2]int{{{1, 1}}}
	}
	a := append([][2]int{}, ps...)
	i := len(a) / 2
	a[i][1] = a[i][1]%len(u.Vals) + 1
	return [][][2]int{a, append([][2]int{}, ps[1:]...)}
}

func (u *c11Univ) apiRun(h []c11Op, op c11Op, alt []c11Op, ps [][2]int, gk []int, meth bool) c11Seen {
	m := object.NewMap()
	var earlier []object.Map // every value the variable held: they are values, nothing done later may change them
	for i, x := range h {
		var e string
		m, _, e = u.apiApply(m, x, meth)
		if e != "" {
			return c11Seen{HistErr: fmt.Sprintf("history step %d (%s): %s", i+1, x.O, e), Obs: c11Obs{Err: 1}, Ch: 2}
		}
		earlier = append(earlier, m)
	}
	var r object.Map
	var ch, acc int
	var e, it string
	switch {
	case op.J > 0:
		r, ch, it, e = u.apiLoop(m, op, meth)
	case op.isConst():
		r, ch, acc, e = u.apiConst(m, op, alt, meth)
	case op.O == "fork": // a = m + Lits[A]; b = m + Lits[B]; a is the result, m and b join the earlier values
		func() {
			defer func() {
				if p := recover(); p != nil {
					e = fmt.Sprintf("panic: %v", p)
				}
			}()
			if op.A < 1 || op.A > len(u.Lits) || op.B < 1 || op.B > len(u.Lits) {
				e = "literal index out of range"
				return
			}
			a := m.Append(u.mkLit(u.Lits[op.A-1]))
			b := m.Append(u.mkLit(u.Lits[op.B-1]))
			earlier = append(earlier, m, b)
			r, ch = a, 2
		}()
	case op.O == "view": // v = m[l:r] (A = 0: without the last pair, 1: without the first); w = v + Lits[B]
		if op.B < 1 || op.B > len(u.Lits) {
			e = "literal index out of range"
			break
		}
		l, rr := c11ViewBounds(op.A, m.Len())
		var v object.Map
		v, _, e = u.apiApply(m, c11Op{O: "range", A: l, B: rr}, meth)
		if e == "" {
			earlier = append(earlier, m, v)
			r, ch, e = u.apiApply(v, c11Op{O: "appr", Es: u.Lits[op.B-1]}, meth)
		}
	default:
		r, ch, e = u.apiApply(m, op, meth)
	}
	if e != "" {
		return c11Seen{OpErr: e, Obs: c11Obs{Err: 1}, Ch: ch}
	}
	seen := u.apiObserve(r, ps, gk, meth)
	seen.Ch, seen.It, seen.Acc = ch, it, acc
	func() {
		defer func() {
			if p := recover(); p != nil {
				seen.Prev = fmt.Sprintf("panic: %v", p)
			}
		}()
		parts := make([]string, len(earlier))
		for i, p := range earlier {
			parts[i] = p.Inspect()
		}
		seen.Prev = "[" + strings.Join(parts, ",") + "]"
	}()
	return seen
}

// ---------------------------------------------------------------------------- channel: grol source

type c11Sess struct {
	s   *eval.State
	out *strings.Builder
}

func newC11Sess() *c11Sess {
	s := eval.NewState()
	out := &strings.Builder{}
	s.Out, s.LogOut, s.NoLog = out, out, true
	return &c11Sess{s: s, out: out}
}

func (x *c11Sess) eval(src string) (string, []string) {
	x.out.Reset()
	_, _, errs, _ := repl.EvalOne(context.Background(), x.s, src, x.out, repl.EvalStringOptions())
	return x.out.String(), errs
}

func (u *c11Univ) litSrc(es [][2]int) string {
	parts := make([]string, len(es))
	for i, e := range es {
		parts[i] = u.ksrc[e[0]-1] + ":" + u.vsrc[e[1]-1]
	}
	return "{" + strings.Join(parts, ", ") + "}"
}

// identLike: a string key that can be written m.name (lower-case letters only).
func (k c11Key) identLike() bool {
	if k.T != "str" || len(k.S) == 0 {
		return false
	}
	for _, b := range k.S {
		if b < 'a' || b > 'z' {
			return false
		}
	}
	return true
}

// dotSpelling returns m.name for an identifier-like string key ("" otherwise).
func (u *c11Univ) dotSpelling(k int) string {
	if u.Keys[k-1].identLike() {
		return "m." + bytesOf(u.Keys[k-1].S)
	}
	return ""
}

// altSpelling: the same set/del written with the dot form, when the key allows it.
func (u *c11Univ) altSpelling(op c11Op) string {
	if (op.O != "set" && op.O != "del") || op.J != 0 || op.A < 1 || op.A > len(u.Keys) {
		return ""
	}
	d := u.dotSpelling(op.A)
	switch {
	case d == "":
		return ""
	case op.O == "set":
		return d + " = " + u.vsrc[op.B-1]
	}
	return "d = del(" + d + ")"
}

func (u *c11Univ) opSrc(op c11Op) (string, error) {
	if op.Sp != "" {
		return op.Sp, nil
	}
	if op.J > 0 {
		body := op
		body.J = 0
		b, err := u.opSrc(body)
		if err != nil {
			return "", err
		}
		return fmt.Sprintf("q = []; i = 0; for kv = m { i = i + 1; if i == %d { %s }; q = q + [[kv.key, kv.value]] }", op.J, b), nil
	}
	switch op.O {
	case "kset": // the map held by a constant: accepted or refused, the constant is observed afterwards
		return "K = m; r = catch(K[" + u.ksrc[op.A-1] + "] = " + u.vsrc[op.B-1] + "); acc = !r.err; m = K", nil
	case "kdel":
		return "K = m; r = catch(del(K[" + u.ksrc[op.A-1] + "])); d = if r.err {\"refused\"} else {r.value}; m = K", nil
	case "kbind": // t was built another way before the history ran
		return "K = m; r = catch(K = t); acc = !r.err; m = K", nil
	case "fork":
		if op.A < 1 || op.A > len(u.Lits) || op.B < 1 || op.B > len(u.Lits) {
			return "", fmt.Errorf("literal index out of range")
		}
		return "pm = m; a = m + " + u.litSrc(u.Lits[op.A-1]) + "; b = m + " + u.litSrc(u.Lits[op.B-1]) + "; m = a", nil
	case "view":
		if op.B < 1 || op.B > len(u.Lits) {
			return "", fmt.Errorf("literal index out of range")
		}
		sl := "m[0:len(m)-1]"
		if op.A == 1 {
			sl = "m[1:len(m)]"
		}
		return "pm = m; v = " + sl + "; w = v + " + u.litSrc(u.Lits[op.B-1]) + "; m = w", nil
	case "lit", "appr", "appl":
		es, err := u.entries(op)
		if err != nil {
			return "", err
		}
		switch op.O {
		case "lit":
			return "m = " + u.litSrc(es), nil
		case "appr":
			return "m = m + " + u.litSrc(es), nil
		}
		return "m = " + u.litSrc(es) + " + m", nil
	case "set":
		return "m[" + u.ksrc[op.A-1] + "] = " + u.vsrc[op.B-1], nil
	case "del":
		return "d = del(m[" + u.ksrc[op.A-1] + "])", nil
	case "rest":
		return "m = rest(m)", nil
	case "range":
		return fmt.Sprintf("m = m[%d:%d]", op.A, op.B), nil
	case "self":
		return "m = m + m", nil
	}
	return "", fmt.Errorf("unknown op %s", op.O)
}

// histSrc: the history from the empty map; with snap, the value after step i is also kept as p<i>.
func (u *c11Univ) histSrc(h []c11Op, snap bool) (string, error) {
	var sb strings.Builder
	sb.WriteString("m = {}\n")
	for i, x := range h {
		s, err := u.opSrc(x)
		if err != nil {
			return "", err
		}
		sb.WriteString(s)
		sb.WriteString("\n")
		if snap {
			fmt.Fprintf(&sb, "p%d = m\n", i+1)
		}
	}
	return sb.String(), nil
}

// c11ObsOpt: which extra lines the observation program prints after the standard ones.
type c11ObsOpt struct {
	del, loop, acc bool
	prev           []string // names of the variables that hold earlier values
}

// obsSrc is the observation program: one println per observation.
func (u *c11Univ) obsSrc(ps [][2]int, gk []int, oo c11ObsOpt) string {
	del, loop := oo.del, oo.loop
	var sb strings.Builder
	if loop {
		sb.WriteString("println(q)\n")
	}
	sb.WriteString("println(len(m))\nprintln(m)\n")
	// (the library's keys(m) is one more way of iterating: it has to agree with the for loop, else the line shows both)
	sb.WriteString("r = []; kr = []; for kv = m { r = r + [[kv.key, kv.value]]; kr = kr + [kv.key] }; ks = catch(keys(m)); " +
		"println(if !ks.err && str(ks.value) == str(kr) {r} else {[\"keys(m) disagrees with the iteration\", ks, kr]})\n")
	sb.WriteString("println(first(m))\nc = catch(rest(m)); println(c.err); println([c.value])\n")
	gs := make([]string, len(gk))
	for i, k := range gk {
		gs[i] = "m[" + u.ksrc[k-1] + "]"
		if d := u.dotSpelling(k); d != "" && (i+len(ps))%2 == 1 {
			gs[i] = d
		}
	}
	sb.WriteString("println([" + strings.Join(gs, ", ") + "])\n")
	rev := make([][2]int, len(ps))
	for i := range ps {
		rev[len(ps)-1-i] = ps[i]
	}
	sb.WriteString("o = " + u.litSrc(rev) + "; println(m == o && o == m)\n")
	for _, d := range u.different(ps) {
		sb.WriteString("o = " + u.litSrc(d) + "; println(m == o || o == m)\n")
	}
	if del {
		sb.WriteString("println(d)\n")
	}
	if oo.acc {
		sb.WriteString("println(acc)\n")
	}
	sb.WriteString("println([" + strings.Join(oo.prev, ", ") + "])\n")
	return sb.String()
}

func c11ParseObs(out string, errs []string, oo c11ObsOpt) (seen c11Seen) {
	del, loop := oo.del, oo.loop
	seen.Ch = 2
	if len(errs) > 0 {
		seen.OpErr = strings.Join(errs, "; ")
		seen.Obs.Err = 1
		return seen
	}
	lines := strings.Split(strings.TrimSuffix(out, "\n"), "\n")
	if loop && len(lines) > 1 {
		seen.It = lines[0]
		lines = lines[1:]
	}
	if len(lines) > 1 { // the last line: the earlier values
		seen.Prev = lines[len(lines)-1]
		lines = lines[:len(lines)-1]
	}
	if oo.acc && len(lines) > 1 {
		if lines[len(lines)-1] == "true" {
			seen.Acc = 1
		}
		lines = lines[:len(lines)-1]
	}
	want := 10
	if del {
		want = 11
	}
	if len(lines) != want && len(lines) != want-1 { // the empty map has one "different" map only
		seen.OpErr = fmt.Sprintf("unexpected output shape (%d lines): %q", len(lines), out)
		seen.Obs.Err = 1
		return seen
	}
	o := &seen.Obs
	n, err := strconv.Atoi(lines[0])
	if err != nil {
		n = -1
	}
	o.Len, o.Printed, o.Iter, o.First, o.Get = n, lines[1], lines[2], lines[3], lines[6]
	switch v := lines[5]; {
	case lines[4] == "false" && strings.HasPrefix(v, "[") && strings.HasSuffix(v, "]"):
		o.Rest = v[1 : len(v)-1]
	default:
		o.Rest = "error"
	}
	if lines[7] == "true" {
		seen.Eq = 1
	}
	rest := lines[8:]
	if del {
		switch rest[len(rest)-1] {
		case "true":
			seen.Ch = 1
		case "false":
			seen.Ch = 0
		case `"refused"`, "refused":
			seen.Ch = 3
		default:
			seen.Ch = -1
		}
		rest = rest[:len(rest)-1]
	}
	for _, l := range rest {
		if l != "false" {
			seen.Neq = 1
		}
	}
	return seen
}

func (u *c11Univ) srcRun(h []c11Op, op c11Op, alt []c11Op, ps [][2]int, gk []int) c11Seen {
	hs, err := u.histSrc(h, true)
	if err != nil {
		return c11Seen{HistErr: err.Error(), Obs: c11Obs{Err: 1}, Ch: 2}
	}
	x := newC11Sess()
	if op.O == "kbind" { // the same (or another) map built another way, kept as t
		as, err := u.histSrc(alt, false)
		if err != nil {
			return c11Seen{HistErr: err.Error(), Obs: c11Obs{Err: 1}, Ch: 2}
		}
		if _, errs := x.eval(as + "t = m\n"); len(errs) > 0 {
			return c11Seen{HistErr: "the other way of building the map failed: " + strings.Join(errs, "; "), Obs: c11Obs{Err: 1}, Ch: 2}
		}
	}
	if _, errs := x.eval(hs); len(errs) > 0 {
		return c11Seen{HistErr: "history failed: " + strings.Join(errs, "; "), Obs: c11Obs{Err: 1}, Ch: 2}
	}
	if len(h)%2 == 1 && op.Sp == "" {
		op.Sp = u.altSpelling(op)
	}
	os1, err := u.opSrc(op)
	if err != nil {
		return c11Seen{HistErr: err.Error(), Obs: c11Obs{Err: 1}, Ch: 2}
	}
	oo := c11ObsOpt{del: op.O == "del" || op.O == "kdel", loop: op.J > 0, acc: op.O == "kbind" || op.O == "kset"}
	for i := range h {
		oo.prev = append(oo.prev, fmt.Sprintf("p%d", i+1))
	}
	switch op.O {
	case "fork":
		oo.prev = append(oo.prev, "pm", "b")
	case "view":
		oo.prev = append(oo.prev, "pm", "v")
	}
	out, errs := x.eval(os1 + "\n" + u.obsSrc(ps, gk, oo))
	return c11ParseObs(out, errs, oo)
}

// ---------------------------------------------------------------------------- GEN: comparing a case

type c11Line struct {
	H    []c11Op         `json:"h"`
	Op   c11Op           `json:"op"`
	Exp  c11Obs          `json:"exp"`
	Ps   [][2]int        `json:"ps"`
	Ch   int             `json:"ch"`
	It   string          `json:"it"`
	Dev  json.RawMessage `json:"dev"`
	Prev string          `json:"prev"` // printed forms of the earlier results, as an array text
	Acc  int             `json:"acc"`  // kbind / kset: 1 accepted, 0 refused
	Alt  []c11Op         `json:"alt"`  // kbind: the other way of building a map, run from the empty map
	Rep  string          `json:"rep"`
	Repb string          `json:"repb"`
}

type c11Dev struct {
	c11Obs
	Shared int `json:"shared"`
}

func (l *c11Line) dev() *c11Dev {
	if len(l.Dev) == 0 || l.Dev[0] != '{' {
		return nil
	}
	var d c11Dev
	if json.Unmarshal(l.Dev, &d) != nil {
		return nil
	}
	return &d
}

// c11Diff returns "" when the channel saw exactly the expected observations.
func c11Diff(seen c11Seen, exp c11Obs, ch int, it string) string {
	return c11DiffLine(seen, &c11Line{Exp: exp, Ch: ch, It: it, Prev: seen.Prev, Acc: seen.Acc})
}

// c11EarlierMark / c11ConstMark start the texts of the two kinds of difference that have signatures of their own.
const (
	c11EarlierMark = "an earlier value changed"
	c11ConstMark   = "the constant"
)

func c11DiffLine(seen c11Seen, l *c11Line) string {
	exp, ch, it := l.Exp, l.Ch, l.It
	if d := c11Diff0(seen, exp, ch, it, l.Op.isConst()); d != "" {
		return d
	}
	switch {
	case seen.Acc != l.Acc:
		return fmt.Sprintf("%s accepted the store: %d want %d", c11ConstMark, seen.Acc, l.Acc)
	case seen.Prev != l.Prev:
		return fmt.Sprintf("%s: the values held before the operation now print %s, they were %s", c11EarlierMark, seen.Prev, l.Prev)
	}
	return ""
}

func c11Diff0(seen c11Seen, exp c11Obs, ch int, it string, isConst bool) string {
	if seen.HistErr != "" {
		return seen.HistErr
	}
	if seen.Obs.Err == 1 {
		return "the operation did not yield a map: " + seen.OpErr
	}
	o := seen.Obs
	switch {
	case seen.It != it:
		return fmt.Sprintf("the loop visited %s want %s", seen.It, it)
	case o.Len != exp.Len:
		return fmt.Sprintf("len=%d want %d", o.Len, exp.Len)
	case o.Printed != exp.Printed:
		return fmt.Sprintf("printed %s want %s", o.Printed, exp.Printed)
	case o.Get != exp.Get:
		return fmt.Sprintf("lookups %s want %s", o.Get, exp.Get)
	case o.First != exp.First:
		return fmt.Sprintf("first %s want %s", o.First, exp.First)
	case o.Rest != exp.Rest:
		return fmt.Sprintf("rest %s want %s", o.Rest, exp.Rest)
	case o.Iter != exp.Iter:
		return fmt.Sprintf("iteration %s want %s", o.Iter, exp.Iter)
	case seen.Ch != ch && isConst:
		return fmt.Sprintf("%s: del answered %d want %d (1 true, 0 false, 3 refused) and the map holds %s", c11ConstMark, seen.Ch, ch, o.Printed)
	case seen.Ch != ch:
		return fmt.Sprintf("del reported %d want %d", seen.Ch, ch)
	case seen.Eq != 1:
		return "not equal to the same map built in reverse order"
	case seen.Neq != 0:
		return "equal to a different map"
	}
	return ""
}

type c11Fail struct {
	Sig    string         `json:"sig"`
	What   string         `json:"what"`
	Replay map[string]any `json:"replay"`
}

var c11Channels = []string{"api-fn", "api-meth", "src"}

func (u *c11Univ) runChannel(chn string, h []c11Op, op c11Op, alt []c11Op, ps [][2]int, gk []int) c11Seen {
	switch chn {
	case "api-fn":
		return u.apiRun(h, op, alt, ps, gk, false)
	case "api-meth":
		return u.apiRun(h, op, alt, ps, gk, true)
	}
	return u.srcRun(h, op, alt, ps, gk)
}

func (u *c11Univ) allKeys() []int {
	gk := make([]int, len(u.Keys))
	for i := range gk {
		gk[i] = i + 1
	}
	return gk
}

// genCase replays one emitted transition on all channels.
func (u *c11Univ) genCase(l *c11Line) []c11Fail {
	var fails []c11Fail
	gk := u.allKeys()
	for _, chn := range c11Channels {
		seen := u.runChannel(chn, l.H, l.Op, l.Alt, l.Ps, gk)
		d := c11DiffLine(seen, l)
		if d == "" {
			continue
		}
		sig := "map-observation-mismatch"
		switch {
		case strings.HasPrefix(d, c11EarlierMark):
			sig = "map-earlier-value-changed"
		case l.Op.isConst():
			sig = "map-held-by-constant-mismatch"
		}
		// The only named deviation of the spec: a *SmallMap escaped from SmallMap.Append (rep "psmall").
		// A failing case is attributed to it only when the implementation-shaped model, with that
		// deviation, predicts exactly what the real code showed.
		// The second one, SharedBacking, only marks its cases (a loop over a big map that still has more
		// than 4 pairs to visit when its body changes the map); there the model predicts nothing.
		if dv := l.dev(); dv != nil && seen.HistErr == "" {
			switch {
			case dv.Shared == 1 && l.Op.J > 0 && l.Repb == "big" && seen.Obs.Err == 0:
				sig = c11ShareSig
			case dv.Shared == 1:
			case dv.Err == 1 && l.Repb == "psmall" && seen.Obs.Err == 1:
				sig = c11EscapeSig
			case dv.Err == 0 && l.Rep == "psmall" && c11Diff(seen, dv.c11Obs, l.Ch, l.It) == "":
				sig = c11EscapeSig
			}
		}
		fails = append(fails, c11Fail{Sig: sig, What: fmt.Sprintf("[%s] after %s then %s: %s", chn, jstr(l.H), jstr(l.Op), d),
			Replay: map[string]any{"check": "gen", "channel": chn, "universe": u.Keys, "vals": u.Vals, "lits": u.Lits,
				"h": l.H, "op": l.Op, "exp": l.Exp, "ps": l.Ps, "ch": l.Ch, "it": l.It, "prev": l.Prev, "acc": l.Acc, "alt": l.Alt, "observed": seen}})
	}
	return fails
}

// ---------------------------------------------------------------------------- GEN worker process

type c11WorkerOut struct {
	Cases   int            `json:"cases"`
	Lines   int            `json:"lines"`
	Reps    map[string]int `json:"reps"`
	Fails   []c11Fail      `json:"fails"`
	NFail   map[string]int `json:"nfail"`
	Samples []any          `json:"samples"`
	Err     string         `json:"err,omitempty"`
}

// vh worker c11gen <emit.ndjson> <shard> <nshards> <out.json>
func c11GenWorker(args []string) {
	c11Setup()
	if len(args) != 4 {
		fmt.Fprintln(os.Stderr, "usage: worker c11gen <emit> <shard> <n> <out>")
		os.Exit(2)
	}
	shard, _ := strconv.Atoi(args[1])
	n, _ := strconv.Atoi(args[2])
	res := c11WorkerOut{Reps: map[string]int{}, NFail: map[string]int{}}
	var u *c11Univ
	lineNo := 0
	err := ReadLines(args[0], func(line []byte) error {
		if u == nil {
			if !bytes.HasPrefix(line, []byte(`{"universe"`)) {
				return fmt.Errorf("first emitted line is not the universe")
			}
			u = &c11Univ{}
			if err := json.Unmarshal(line, u); err != nil {
				return err
			}
			return u.prepare()
		}
		lineNo++
		if lineNo%n != shard {
			return nil
		}
		var l c11Line
		if err := json.Unmarshal(line, &l); err != nil {
			return fmt.Errorf("line %d: %w", lineNo, err)
		}
		res.Lines++
		res.Cases += len(c11Channels)
		opName := l.Op.O
		if l.Op.J > 0 {
			opName = "loop-" + opName
		}
		res.Reps[opName+" "+l.Repb+">"+l.Rep]++
		for _, f := range u.genCase(&l) {
			res.NFail[f.Sig]++
			// keep every unexpected failure (bounded) and a few of each attributed kind
			if f.Sig == "map-observation-mismatch" && len(res.Fails) < 40 || res.NFail[f.Sig] <= 2 {
				res.Fails = append(res.Fails, f)
			}
		}
		if shard == 0 && len(res.Samples) < 4 && lineNo%(977*n) == 0 {
			res.Samples = append(res.Samples, map[string]any{"witness": l.H, "op": l.Op, "predicted": l.Exp, "rep_before_after": l.Repb + ">" + l.Rep})
		}
		return nil
	})
	if err != nil {
		res.Err = err.Error()
	}
	b, _ := json.Marshal(res)
	if err := os.WriteFile(args[3], b, 0o644); err != nil {
		fmt.Fprintln(os.Stderr, err)
		os.Exit(2)
	}
}

// ---------------------------------------------------------------------------- TLC configurations

// c11Invs: the invariants of MapRep.tla every configuration is checked for.
const c11Invs = "RepOK AbsOK ObsOK EqOK ConstOK EarlierOK CapOK KeysListedInOrder"

// c11Cfg: dev names the deviation that is switched on ("" none, "escaping", "inplace", "identbyrep").
func c11Cfg(univ, lits string, dev string, stale, emit bool, loopAt, invs string) string {
	b := func(x bool) string {
		if x {
			return "TRUE"
		}
		return "FALSE"
	}
	return fmt.Sprintf("CONSTANTS\n Keys <- %s\n Vals <- V2\n Lits <- %s\n MaxSmall = 4\n EscapingPointer = %s\n TrackStale = %s\n LoopAt = %s\n EmitOn = %s\n"+
		" AppendInPlace = %s\n IdenticalByRep = %s\n MaxSpare = 2\n ForkLits <- %s\n"+
		"INIT Init\nNEXT Next\nVIEW %s\nINVARIANTS %s\n", univ, lits, b(dev == "escaping"), b(stale), loopAt, b(emit), b(dev == "inplace"), b(dev == "identbyrep"),
		map[bool]string{true: "FLG", false: "FL"}[emit], map[bool]string{true: "viewG", false: "view"}[emit], invs)
}

func c11TraceCfg(escaping bool) string {
	e := "FALSE"
	if escaping {
		e = "TRUE"
	}
	return "CONSTANTS\n Keys <- TKeys\n Vals <- TVals\n Lits <- NoLits\n MaxSmall = 4\n EscapingPointer = " + e +
		"\n TrackStale = TRUE\n LoopAt = {}\n EmitOn = FALSE\n AppendInPlace = FALSE\n IdenticalByRep = FALSE\n MaxSpare = 2\n ForkLits = {}\nINIT TraceInit\nNEXT TraceNext\nINVARIANTS RepOK AbsOK ObsOK CapOK\nPOSTCONDITION TraceAccepted\n"
}

// ---------------------------------------------------------------------------- TV: random histories

func c11TVUniverse() *c11Univ {
	I := func(n int) c11Key { return c11Key{T: "int", N: n} }
	F := func(n2 int) c11Key { return c11Key{T: "float", N: n2} }
	S := func(s string) c11Key { return c11Key{T: "str", S: intsOf(s)} }
	A := func(e ...c11Key) c11Key { return c11Key{T: "arr", E: e} }
	T, Fa, N := c11Key{T: "bool", N: 1}, c11Key{T: "bool", N: 0}, c11Key{T: "nil"}
	u := &c11Univ{
		Keys: []c11Key{
			{T: "int", B: -1, N: 0}, {T: "int", B: -1, N: 1}, {T: "float", B: -1, N: 0}, // MinInt64, MinInt64+1, -2^63 as a float (= MinInt64)
			I(-100), I(-3), I(-2), I(-1), I(0), I(1), I(2), I(3), I(7), I(100),
			{T: "int", B: 1, N: -1}, {T: "int", B: 1, N: 0}, {T: "float", B: 1, N: 2}, // MaxInt64-1, MaxInt64, 2^63 as a float (> MaxInt64)
			F(-3), {T: "float", Z: 1}, F(1), F(2), F(3), F(4), F(5), F(6), F(200), // -1.5 -0.0 0.5 1.0 1.5 2.0 2.5 3.0 100.0
			Fa, T, N,
			S(""), S("1"), S("B"), S("a"), S("ab"), S("b"),
			A(), A(I(1)), A(F(2)), A(I(2)), A(I(1), I(2)), A(A(I(1))), A(A(I(1)), I(2)), A(A()), A(S("a")), A(N), A(T), A(I(1), A(I(2), A(I(3)))),
		},
		Vals: []c11Key{I(10), S("x"), F(5), N, T, A(I(1), S("y")), I(-7), S("")},
	}
	fill := func(ks []c11Key) {
		for i := range ks {
			o, err := ks[i].obj()
			if err == nil {
				ks[i].Txt = o.Inspect() // scalar formatting is the real code's own
			}
			var rec func(k *c11Key)
			rec = func(k *c11Key) {
				for j := range k.E {
					if eo, err := k.E[j].obj(); err == nil {
						k.E[j].Txt = eo.Inspect()
					}
					rec(&k.E[j])
				}
			}
			rec(&ks[i])
		}
	}
	fill(u.Keys)
	fill(u.Vals)
	return u
}

type c11TVDriver interface {
	reset()
	apply(op c11Op) (it string, err string) // it: what a loop visited; err: "" or why the operation failed
	observe(ps [][2]int, gk []int, del bool) c11Seen
}

type c11APIDriver struct {
	u  *c11Univ
	m  object.Map
	ch int
}

func (d *c11APIDriver) reset() { d.m = object.NewMap() }
func (d *c11APIDriver) apply(op c11Op) (string, string) {
	var r object.Map
	var ch int
	var it, e string
	if op.J > 0 {
		r, ch, it, e = d.u.apiLoop(d.m, op, false)
	} else {
		r, ch, e = d.u.apiApply(d.m, op, false)
	}
	if e != "" {
		return "", e
	}
	d.m, d.ch = r, ch
	return it, ""
}
func (d *c11APIDriver) observe(ps [][2]int, gk []int, _ bool) c11Seen {
	s := d.u.apiObserve(d.m, ps, gk, false)
	s.Ch = d.ch
	return s
}

type c11SrcDriver struct {
	u *c11Univ
	x *c11Sess
}

func (d *c11SrcDriver) reset() {
	d.x = newC11Sess()
	d.x.eval("m = {}")
}
func (d *c11SrcDriver) apply(op c11Op) (string, string) {
	s, err := d.u.opSrc(op)
	if err != nil {
		return "", err.Error()
	}
	if op.J > 0 {
		s += "\nprintln(q)"
	}
	out, errs := d.x.eval(s)
	if len(errs) > 0 {
		return "", strings.Join(errs, "; ")
	}
	if op.J > 0 {
		return strings.TrimSuffix(out, "\n"), ""
	}
	return "", ""
}
func (d *c11SrcDriver) observe(ps [][2]int, gk []int, del bool) c11Seen {
	out, errs := d.x.eval(d.u.obsSrc(ps, gk, c11ObsOpt{del: del}))
	return c11ParseObs(out, errs, c11ObsOpt{del: del})
}

// c11RandOp draws the next operation. n is the current length of the real map. When allowEmptyRight is
// false no `+` with an empty right operand is generated; when allowShared is false no loop changes its
// map while more than 4 pairs remain to be visited (known findings, see checkC11).
func c11RandOp(rng *rand.Rand, u *c11Univ, n int, hot []int, allowEmptyRight, allowShared bool) c11Op {
	pickKey := func() int {
		if len(hot) > 0 && rng.Intn(3) > 0 {
			return hot[rng.Intn(len(hot))]
		}
		return 1 + rng.Intn(len(u.Keys))
	}
	pickVal := func() int { return 1 + rng.Intn(len(u.Vals)) }
	lit := func(minN, maxN int) [][2]int {
		k := minN + rng.Intn(maxN-minN+1)
		es := make([][2]int, k)
		for i := range es {
			es[i] = [2]int{pickKey(), pickVal()}
		}
		return es
	}
	minRight := 0
	if !allowEmptyRight {
		minRight = 1
	}
	for {
		switch x := rng.Intn(100); {
		case x < 6:
			if n >= 1 {
				j := 1 + rng.Intn(n)
				if !allowShared && n-j > 4 {
					j = n - 4 + rng.Intn(5)
				}
				if rng.Intn(2) == 0 {
					return c11Op{O: "set", A: pickKey(), B: pickVal(), J: j}
				}
				return c11Op{O: "del", A: pickKey(), J: j}
			}
		case x < 38:
			op := c11Op{O: "set", A: pickKey(), B: pickVal()}
			if rng.Intn(2) == 0 {
				op.Sp = u.altSpelling(op)
			}
			return op
		case x < 58:
			op := c11Op{O: "del", A: pickKey()}
			if rng.Intn(2) == 0 {
				op.Sp = u.altSpelling(op)
			}
			return op
		case x < 64:
			if n >= 2 {
				return c11Op{O: "rest"}
			}
		case x < 76:
			l := rng.Intn(n + 1)
			r := l + rng.Intn(n-l+1)
			if rng.Intn(3) > 0 && n > 2 { // mostly drop little, so that maps stay interesting
				l = rng.Intn(2)
				r = n - rng.Intn(2)
			}
			op := c11Op{O: "range", A: l, B: r}
			// other spellings of the same slice: open end, indexes relative to the end, an end beyond the length
			switch v := rng.Intn(6); {
			case v == 0 && r == n:
				op.Sp = fmt.Sprintf("m = m[%d:]", l)
			case v == 1 && l < n:
				op.Sp = fmt.Sprintf("m = m[%d:%d]", l-n, r)
			case v == 2 && r < n:
				op.Sp = fmt.Sprintf("m = m[%d:%d]", l, r-n)
			case v == 3 && r == n:
				op.Sp = fmt.Sprintf("m = m[%d:%d]", l, n+1+rng.Intn(3))
			case v == 4 && l < n && r < n:
				op.Sp = fmt.Sprintf("m = m[%d:%d]", l-n, r-n)
			}
			return op
		case x < 86:
			return c11Op{O: "appr", Es: lit(minRight, 7)}
		case x < 94:
			if n >= minRight {
				return c11Op{O: "appl", Es: lit(0, 7)}
			}
		case x < 97:
			if n >= minRight {
				return c11Op{O: "self"}
			}
		default:
			return c11Op{O: "lit", Es: lit(0, 9)}
		}
	}
}

type c11Trace struct {
	Driver string  `json:"driver"`
	Ops    []c11Op `json:"ops"`
	Gks    [][]int `json:"gks"`
}

// c11PairsFromIter reads the pairs back from what the real map reported by iteration. They are used to
// choose the next operation (hot keys) and as the argument of the equality observations (an equal map
// built in reverse order, two different maps); the verdict on the iteration itself is the trace spec's.
func c11PairsFromIter(u *c11Univ, iter string) [][2]int {
	// iteration text is [[k,v],[k,v]...] in Inspect syntax; map texts back to indexes greedily.
	// Keys/values whose text is shared (1 / 1.0) resolve to the first index with that text - good enough for
	// choosing operations and for building comparison maps (equal up to Cmp).
	var res [][2]int
	s := strings.TrimSuffix(strings.TrimPrefix(iter, "["), "]")
	for len(s) > 0 {
		if s[0] == ',' {
			s = s[1:]
		}
		if len(s) == 0 || s[0] != '[' {
			return res
		}
		s = s[1:]
		ki, kl := c11MatchTxt(u.Keys, s)
		if ki == 0 || len(s) <= kl || s[kl] != ',' {
			return res
		}
		s = s[kl+1:]
		vi, vl := c11MatchTxt(u.Vals, s)
		if vi == 0 || len(s) <= vl || s[vl] != ']' {
			return res
		}
		s = s[vl+1:]
		res = append(res, [2]int{ki, vi})
	}
	return res
}

// c11MatchTxt finds the longest table text that prefixes s and is followed by ',' or ']'.
func c11MatchTxt(tab []c11Key, s string) (int, int) {
	best, bl := 0, -1
	for i, k := range tab {
		t := k.Txt
		if strings.HasPrefix(s, t) && len(t) > bl && len(s) > len(t) && (s[len(t)] == ',' || s[len(t)] == ']') {
			best, bl = i+1, len(t)
		}
	}
	return best, bl
}

// recordTrace runs one random history on a driver and appends its events to enc.
func c11RecordTrace(u *c11Univ, d c11TVDriver, name string, rng *rand.Rand, steps int, allowEmptyRight, allowShared bool, enc *json.Encoder, fixed *c11Trace) (c11Trace, int) {
	tr := c11Trace{Driver: name}
	_ = enc.Encode(map[string]any{"e": "new"})
	events := 1
	d.reset()
	var pairs [][2]int
	for s := 0; s < steps; s++ {
		var op c11Op
		var gk []int
		if fixed != nil {
			if s >= len(fixed.Ops) {
				break
			}
			op, gk = fixed.Ops[s], fixed.Gks[s]
		} else {
			hot := make([]int, 0, len(pairs))
			for _, p := range pairs {
				hot = append(hot, p[0])
			}
			op = c11RandOp(rng, u, len(pairs), hot, allowEmptyRight, allowShared)
			// look up: the operation's key and its neighbours in the table (aliases sit next to each other), plus random ones
			seen := map[int]bool{}
			add := func(k int) {
				if k >= 1 && k <= len(u.Keys) && !seen[k] {
					seen[k] = true
					gk = append(gk, k)
				}
			}
			if op.O == "set" || op.O == "del" {
				add(op.A)
				add(op.A - 1)
				add(op.A + 1)
			}
			for _, e := range op.Es {
				add(e[0])
			}
			for i := 0; i < 5; i++ {
				add(1 + rng.Intn(len(u.Keys)))
			}
			for _, p := range pairs {
				if len(gk) < 14 {
					add(p[0])
				}
			}
			sort.Ints(gk)
		}
		tr.Ops = append(tr.Ops, op)
		tr.Gks = append(tr.Gks, gk)
		ev := map[string]any{"e": "op", "op": op.toJSON(), "gk": gk}
		it, e := d.apply(op)
		ev["it"] = it
		if e != "" {
			ev["obs"] = c11Obs{Err: 1, Printed: e}
			ev["ch"], ev["eq"], ev["neq"] = 2, 0, 0
			_ = enc.Encode(ev)
			events++
			break
		}
		// first look to learn the pairs, then the full observation with the comparison maps
		pre := d.observe(nil, nil, false)
		ps := c11PairsFromIter(u, pre.Obs.Iter)
		seen := d.observe(ps, gk, op.O == "del")
		pairs = ps
		ev["obs"], ev["ch"], ev["eq"], ev["neq"] = seen.Obs, seen.Ch, seen.Eq, seen.Neq
		if seen.Obs.Err == 1 {
			ev["obs"] = c11Obs{Err: 1, Printed: seen.OpErr}
		}
		_ = enc.Encode(ev)
		events++
	}
	return tr, events
}

func c11RejectedLine(out string) int {
	const tag = "TRACE_REJECTED_AT_LINE"
	i := strings.Index(out, tag)
	if i < 0 {
		return -1
	}
	s := out[i+len(tag):]
	j := 0
	for j < len(s) && (s[j] < '0' || s[j] > '9') {
		j++
	}
	k := j
	for k < len(s) && s[k] >= '0' && s[k] <= '9' {
		k++
	}
	n, err := strconv.Atoi(s[j:k])
	if err != nil {
		return -1
	}
	return n
}

// c11Validate runs MapRep_Trace on the recorded bytes: (accepted, rejected line, error).
func c11Validate(c *Ctx, trace []byte, escaping bool) (bool, int, error) {
	first := trace
	if i := bytes.IndexByte(trace, '\n'); i >= 0 {
		first = trace[:i+1]
	}
	r, err := c.TLC(TLCOpt{Spec: "MapRep_Trace", Cfg: c11TraceCfg(escaping), Workers: 1,
		Files: map[string][]byte{"maprep_trace.ndjson": trace, "maprep_universe.ndjson": first}, AllowError: true, Timeout: 20 * time.Minute})
	if err != nil {
		return false, 0, err
	}
	if r.ErrText == "" {
		return true, 0, nil
	}
	if line := c11RejectedLine(r.Out); line > 0 {
		return false, line, nil
	}
	return false, 0, fmt.Errorf("MapRep_Trace failed: %s", r.ErrText)
}

// ---------------------------------------------------------------------------- pinned reproducers

// The reproducers of the ledger entries of C11 (both repaired in /repo) stay as ordinary regression cases:
// program, expected output (what a finite map in key order gives), signature if it fails again.
var c11Pinned = []struct{ sig, src, want string }{
	{c11EscapeSig, `m = {1:1,2:2} + {}; println(rest(m)); println(m[0:1]); r=[]; for kv = m {r = r + [kv.key]}; println(r)`,
		"{2:2}\n{1:1}\n[1,2]\n"},
	{c11EscapeSig, `m = {} + {}; println(rest(m)); println(m[0:0]); println(len(m))`, "nil\n{}\n0\n"},
	{c11ShareSig, `m = {1:1,2:2,3:3,4:4,5:5,6:6,7:7}; r=[]; for kv = m { if kv.key == 2 { del(m[5]) }; r = r + [kv.key] }; println(r); println(m)`,
		"[1,2,3,4,5,6,7]\n{1:1,2:2,3:3,4:4,6:6,7:7}\n"},
	{c11ShareSig, `m = {1:1,2:2,3:3,4:4,5:5,6:6,7:7}; r=[]; for kv = m { if kv.key == 2 { m[5] = 55 }; r = r + [[kv.key,kv.value]] }; println(r)`,
		"[[1,1],[2,2],[3,3],[4,4],[5,5],[6,6],[7,7]]\n"},
	{"map-observation-mismatch", `m = {1:1, 1:2, 1:3, 1:4, 2:5}; println(m, len(m), rest(m), m[0:1])`, "{1:4,2:5} 2 {2:5} {1:4}\n"},
}

func c11RunPinned(src string) string {
	x := newC11Sess()
	out, errs := x.eval(src)
	if len(errs) > 0 {
		out += "errors: " + strings.Join(errs, "; ")
	}
	return out
}

// ---------------------------------------------------------------------------- the check

func c11KnownListed(c *Ctx, sig string) bool {
	for _, f := range c.ledger {
		if f.Status == "known" && f.ID == sig {
			return true
		}
	}
	return false
}

// c11Setup: quiet logging; extensions.Init defines `nil` and friends for source evaluation.
func c11Setup() {
	log.SetLogLevelQuiet(log.Critical)
	_ = extensions.Init(nil)
}

func checkC11(c *Ctx) {
	c11Setup()
	c.Assume("the printed form of scalar keys and values (object.Inspect of integers, floats, strings, booleans, nil, arrays) is taken from the real code / a table cross-checked with it; C11 is about the map around them")
	c.Assume("key universes avoid NaN and integers beyond 2^53 next to floats (ordering anomalies there belong to C12)")

	// 0. pinned reproducers of the ledger entries.
	for _, p := range c11Pinned {
		c.Case("pinned:"+p.src, true)
		if got := c11RunPinned(p.src); got != p.want {
			c.Fail(p.sig, fmt.Sprintf("pinned reproducer %s printed %q want %q", p.src, got, p.want),
				map[string]any{"check": "pinned", "src": p.src, "want": p.want})
		}
	}

	// 1. design-level counterexample: the spec of the code before 520f0a5 (EscapingPointer) must violate ObsOK.
	//    Likewise the two other named deviations: an append into the left operand's spare capacity must violate EarlierOK,
	//    an Identical that looks at the representation must violate ConstOK. The three runs go side by side.
	devRuns := []struct{ dev, inv, cov, what string }{
		{"escaping", "ObsOK", "design_counterexample_with_escaping_pointer", "ObsOK violated after `small + {}` (rest/range unsupported, iteration stops after one element)"},
		{"inplace", "EarlierOK", "design_counterexample_with_append_in_place", "EarlierOK violated: a merge written into the spare capacity of its left operand overwrites pairs of another value"},
		{"identbyrep", "ConstOK", "design_counterexample_with_identical_by_representation", "ConstOK violated: a constant refuses the same map built another way"},
	}
	devErr := make([]error, len(devRuns))
	var dw sync.WaitGroup
	for i, d := range devRuns {
		dw.Add(1)
		go func() {
			defer dw.Done()
			r, err := c.TLC(TLCOpt{Spec: "MapRep", Cfg: c11Cfg("U6", "L6", d.dev, false, false, "{}", c11Invs), Workers: 2, AllowError: true})
			switch {
			case err != nil:
				devErr[i] = err
			case r.InvViolated != d.inv:
				devErr[i] = fmt.Errorf("deviation run (%s) did not violate %s: %q\n%s", d.dev, d.inv, r.InvViolated, r.ErrText)
			}
		}()
	}
	dw.Wait()
	for i, d := range devRuns {
		if devErr[i] != nil {
			c.Infra(devErr[i])
			return
		}
		c.Cov(d.cov, d.what)
	}

	// 2. MC of the repaired design (all invariants, stale slots tracked) runs concurrently with GEN.
	type mcRes struct {
		r    *TLCResult
		err  error
		name string
	}
	mcUniv := [][2]string{{"U6", "L6"}}
	genUniv := [][2]string{{"U7", "L7"}}
	loopAt := "{1}"
	if c.Thorough() {
		mcUniv = [][2]string{{"U7", "L7"}, {"U8", "L8"}}
		genUniv = [][2]string{{"U7", "L7"}, {"U8", "L8"}}
		loopAt = "{1, 2}"
	}
	mcCh := make(chan mcRes, len(mcUniv))
	var wg sync.WaitGroup
	wg.Add(1)
	go func() {
		defer wg.Done()
		for _, mu := range mcUniv {
			r, err := c.TLC(TLCOpt{Spec: "MapRep", Cfg: c11Cfg(mu[0], mu[1], "", true, false, "{}", c11Invs),
				Workers: 4, Timeout: 20 * time.Minute})
			mcCh <- mcRes{r, err, mu[0]}
		}
	}()

	// 3. GEN: the code as it is (EscapingPointer = FALSE since /repo 520f0a5; `m + {}` stays an explored
	//    transition whose result is observed in full, so the old defect would be reported at once).
	nWorkers := c.Pick(12, 14)
	if n := runtime.NumCPU(); nWorkers > n {
		nWorkers = n
	}
	exe, err := os.Executable()
	if err != nil {
		c.Infra(err)
		return
	}
	reps := map[string]int{}
	for gi, gu := range genUniv {
		r, err := c.TLC(TLCOpt{Spec: "MapRep", Cfg: c11Cfg(gu[0], gu[1], "", false, true, loopAt, c11Invs),
			Workers: 8, Timeout: 20 * time.Minute})
		if err != nil {
			c.Infra(err)
			wg.Wait()
			return
		}
		tReplay := time.Now()
		outs := make([]c11WorkerOut, nWorkers)
		errs := make([]error, nWorkers)
		var ww sync.WaitGroup
		for w := 0; w < nWorkers; w++ {
			ww.Add(1)
			go func(w int) {
				defer ww.Done()
				of := filepath.Join(c.Scratch(), fmt.Sprintf("c11gen-%d-%d.json", gi, w))
				cmd := exec.Command(exe, "worker", "c11gen", r.Emitted, strconv.Itoa(w), strconv.Itoa(nWorkers), of)
				cmd.Dir = c.Scratch()
				var eb bytes.Buffer
				cmd.Stderr = &eb
				if err := cmd.Run(); err != nil {
					errs[w] = fmt.Errorf("GEN worker %d died: %v %s", w, err, eb.String())
					return
				}
				b, err := os.ReadFile(of)
				if err != nil {
					errs[w] = err
					return
				}
				errs[w] = json.Unmarshal(b, &outs[w])
			}(w)
		}
		// meanwhile count the cases (distinct keys) in this process
		lines := 0
		var u *c11Univ
		err = ReadLines(r.Emitted, func(line []byte) error {
			if u == nil {
				u = &c11Univ{}
				return json.Unmarshal(line, u)
			}
			lines++
			var hd struct {
				H   []c11Op `json:"h"`
				Op  c11Op   `json:"op"`
				Exp struct {
					Len int `json:"len"`
				} `json:"exp"`
			}
			if err := json.Unmarshal(line, &hd); err != nil {
				return fmt.Errorf("emitted line %d: %w: %.300s", lines, err, line)
			}
			key := gu[0] + jstr(hd.H) + jstr(hd.Op)
			nontrivial := len(hd.H) > 0 || hd.Exp.Len > 0
			for _, chn := range c11Channels {
				c.Case(chn+key, nontrivial)
			}
			return nil
		})
		ww.Wait()
		if err != nil {
			c.Infra(err)
			wg.Wait()
			return
		}
		total := 0
		for w := range outs {
			if errs[w] != nil {
				c.Infra(errs[w])
				wg.Wait()
				return
			}
			if outs[w].Err != "" {
				c.Infra(fmt.Errorf("GEN worker %d: %s", w, outs[w].Err))
				wg.Wait()
				return
			}
			total += outs[w].Lines
			for k, v := range outs[w].Reps {
				reps[k] += v
			}
			for _, s := range outs[w].Samples {
				c.Sample(s)
			}
			kept := map[string]int{}
			for _, f := range outs[w].Fails {
				kept[f.Sig]++
				c.Fail(f.Sig, f.What, f.Replay)
			}
			// failures the worker counted but did not ship (attributed ones beyond the first two)
			for sig, n := range outs[w].NFail {
				for i := kept[sig]; i < n; i++ {
					c.Fail(sig, "(same signature, not shipped)", map[string]any{"check": "gen", "note": "see the first cases of this signature"})
				}
			}
		}
		if total != lines || lines == 0 {
			c.Infra(fmt.Errorf("GEN %s: TLC emitted %d transitions, workers replayed %d", gu[0], lines, total))
			wg.Wait()
			return
		}
		if int64(lines) != r.Generated-1 && int64(lines) != r.Generated {
			c.Note("GEN %s: TLC reports %d generated states, %d lines emitted", gu[0], r.Generated, lines)
		}
		c.AddTraces(int64(lines))
		c.Note("GEN %s: %d states, %d transitions emitted and replayed on %d channels (TLC %.0fs, replay %.0fs with %d worker processes)", gu[0], r.Distinct, lines, len(c11Channels), r.Wall.Seconds(), time.Since(tReplay).Seconds(), nWorkers)
	}
	c.Cov("exhaustive", true)
	c.Cov("transitions_by_op_and_representation", reps)
	for _, need := range []string{"small>big", "big>small", "big>big", "small>small"} {
		found := false
		for k := range reps {
			if strings.HasSuffix(k, " "+need) {
				found = true
			}
		}
		if !found {
			c.Infra(fmt.Errorf("GEN never crossed %s (vacuous)", need))
		}
	}

	wg.Wait()
	close(mcCh)
	for mr := range mcCh {
		if mr.err != nil {
			c.Infra(mr.err)
			return
		}
		c.Note("MC %s repaired design, stale slots tracked: %d states, %d transitions, all invariants hold (TLC %.0fs)", mr.name, mr.r.Distinct, mr.r.Generated, mr.r.Wall.Seconds())
	}

	// 4. TV: random long histories on the real code, validated against the abstract level.
	u := c11TVUniverse()
	if err := u.prepare(); err != nil {
		c.Infra(err)
		return
	}
	known, knownShare := c11KnownListed(c, c11EscapeSig), c11KnownListed(c, c11ShareSig)
	var excl []string
	if known {
		excl = append(excl, "TV generator: `+` with an empty right operand (known finding "+c11EscapeSig+"); GEN excludes nothing")
	}
	if knownShare {
		excl = append(excl, "TV generator: a loop body changing the looped map while more than 4 pairs remain to be visited (known finding "+c11ShareSig+"); GEN excludes nothing")
	}
	if len(excl) > 0 {
		c.Cov("excluded_features", excl)
	}
	tTV := time.Now()
	nTraces, steps := c.Pick(30, 240), c.Pick(60, 150)
	var buf bytes.Buffer
	enc := json.NewEncoder(&buf)
	_ = enc.Encode(u.headerJSON())
	events := 1
	var traces []c11Trace
	for t := 0; t < nTraces; t++ {
		var d c11TVDriver
		name := "api"
		if t%2 == 1 {
			name = "src"
			d = &c11SrcDriver{u: u}
		} else {
			d = &c11APIDriver{u: u}
		}
		tr, n := c11RecordTrace(u, d, name, c.Rng, steps, !known, !knownShare, enc, nil)
		events += n
		traces = append(traces, tr)
		c.Case("tv:"+name+jstr(tr.Ops), true)
	}
	traceBytes := append([]byte{}, buf.Bytes()...)
	// reject-and-continue: a rejected history is reported and cut out, the rest is validated again
	remaining := traceBytes
	live := make([]int, len(traces)) // indexes of the histories still in `remaining`, in file order
	for i := range live {
		live[i] = i
	}
	validated := 0
	for round := 0; ; round++ {
		ok, line, err := c11Validate(c, remaining, false)
		if err != nil {
			c.Infra(err)
			return
		}
		if ok {
			validated = len(live)
			break
		}
		ls := bytes.SplitAfter(remaining, []byte("\n")) // ls[i] is line i+1; ls[0] is the universe
		if line < 2 || line > len(ls) {
			c.Infra(fmt.Errorf("MapRep_Trace rejected line %d of %d", line, len(ls)))
			return
		}
		isNew := func(i int) bool { return bytes.Contains(ls[i], []byte(`"e":"new"`)) }
		s := line - 1 // index of the rejected line; walk back to the history's "new" event
		for s > 1 && !isNew(s) {
			s--
		}
		e := line
		for e < len(ls) && !isNew(e) {
			e++
		}
		idx := -1
		for i := 1; i <= s; i++ {
			if isNew(i) {
				idx++
			}
		}
		if idx < 0 || idx >= len(live) {
			c.Infra(fmt.Errorf("MapRep_Trace rejected line %d which belongs to no recorded history", line))
			return
		}
		bad := traces[live[idx]]
		cut := line - s - 1 // operations up to and including the rejected one
		if cut < 1 {
			cut = 1
		}
		if cut > len(bad.Ops) {
			cut = len(bad.Ops)
		}
		c.Fail("map-trace-rejected", fmt.Sprintf("MapRep_Trace rejected a %s history at its operation %d (%s): recorded %s", bad.Driver, cut, jstr(bad.Ops[cut-1]), strings.TrimSpace(string(ls[line-1]))),
			map[string]any{"check": "tv", "driver": bad.Driver, "ops": bad.Ops[:cut], "gks": bad.Gks[:cut]})
		var nb []byte
		for i, ln := range ls {
			if i < s || i >= e {
				nb = append(nb, ln...)
			}
		}
		remaining = nb
		live = append(live[:idx:idx], live[idx+1:]...)
		if round == 4 {
			c.Note("TV: more than 5 histories rejected; the remaining %d were not validated", len(live))
			break
		}
	}
	nTraces = validated
	c.AddTraces(int64(nTraces))
	c.Cov("tv_events", events)
	c.Note("TV: %d histories, %d events recorded and validated in %.0fs", nTraces, events, time.Since(tTV).Seconds())
	c.Cov("tv_universe_keys", len(u.Keys))

	// 5. binding self-tests: a corrupted observation must be rejected / reported.
	{
		bad := bytes.Replace(traceBytes, []byte(`"first":"{\"key\":`), []byte(`"first":"{\"key\":9`), 1)
		if bytes.Equal(bad, traceBytes) {
			c.Infra(fmt.Errorf("self-test: nothing to corrupt in the TV trace"))
			return
		}
		ok, _, err := c11Validate(c, bad, false)
		if err != nil {
			c.Infra(err)
			return
		}
		if ok {
			c.Infra(fmt.Errorf("vacuous binding: corrupted map trace was accepted"))
			return
		}
		// GEN side: a perturbed expectation must be reported by the comparer
		mu := &c11Univ{}
		hdr := `{"universe":[{"t":"int","n":1,"txt":"1"},{"t":"int","n":2,"txt":"2"}],"vals":[{"t":"int","n":10,"txt":"10"},{"t":"int","n":11,"txt":"11"}],"lits":[[[2,1],[1,1]]]}`
		if err := json.Unmarshal([]byte(hdr), mu); err != nil || mu.prepare() != nil {
			c.Infra(fmt.Errorf("self-test universe: %v", err))
			return
		}
		good := c11Line{Op: c11Op{O: "lit", A: 1}, Ps: [][2]int{{1, 1}, {2, 1}}, Ch: 2, Prev: "[]",
			Exp: c11Obs{Len: 2, Printed: "{1:10,2:10}", Iter: "[[1,10],[2,10]]", First: `{"key":1,"value":10}`, Rest: "{2:10}", Get: "[10,10]"}}
		badl := good
		badl.Exp.Iter = "[[2,10],[1,10]]"
		if f := mu.genCase(&good); len(f) != 0 {
			// the real code fails the simplest case: that is a violation (already reported by GEN), not a tool problem
			if c.NumViolations() == 0 {
				c.Infra(fmt.Errorf("self-test: a correct expectation was reported although GEN reported nothing: %v", f[0].What))
				return
			}
			c.Note("GEN comparer self-test skipped: the real code fails its base case (%s)", f[0].What)
		} else if f := mu.genCase(&badl); len(f) != len(c11Channels) {
			c.Infra(fmt.Errorf("vacuous binding: a perturbed expectation was not reported on every channel"))
			return
		}
		c.Cov("sabotage_rejected", true)
	}
}

// ---------------------------------------------------------------------------- replay

func replayC11(rp map[string]any) (bool, string) {
	c11Setup()
	get := func(k string, into any) error {
		b, _ := json.Marshal(rp[k])
		return json.Unmarshal(b, into)
	}
	switch rp["check"] {
	case "pinned":
		src, _ := rp["src"].(string)
		want, _ := rp["want"].(string)
		got := c11RunPinned(src)
		return got == want, fmt.Sprintf("pinned reproducer %s printed %q want %q", src, got, want)
	case "gen":
		if _, ok := rp["universe"]; !ok {
			return false, "this replay file is a counted duplicate without a case; replay the first file of its signature"
		}
		u := &c11Univ{}
		var l c11Line
		if err := get("universe", &u.Keys); err != nil {
			return false, err.Error()
		}
		_ = get("vals", &u.Vals)
		_ = get("lits", &u.Lits)
		_ = get("h", &l.H)
		_ = get("op", &l.Op)
		_ = get("exp", &l.Exp)
		_ = get("ps", &l.Ps)
		_ = get("ch", &l.Ch)
		_ = get("it", &l.It)
		_ = get("acc", &l.Acc)
		_ = get("alt", &l.Alt)
		if _, ok := rp["prev"]; ok {
			_ = get("prev", &l.Prev)
		}
		if err := u.prepare(); err != nil {
			return false, "infrastructure: " + err.Error()
		}
		chn, _ := rp["channel"].(string)
		seen := u.runChannel(chn, l.H, l.Op, l.Alt, l.Ps, u.allKeys())
		if _, ok := rp["prev"]; !ok { // a replay file written before earlier values were observed
			l.Prev = seen.Prev
		}
		d := c11DiffLine(seen, &l)
		return d == "", fmt.Sprintf("[%s] after %s then %s: %s", chn, jstr(l.H), jstr(l.Op), d)
	case "tv":
		var tr c11Trace
		_ = get("ops", &tr.Ops)
		_ = get("gks", &tr.Gks)
		tr.Driver, _ = rp["driver"].(string)
		u := c11TVUniverse()
		if err := u.prepare(); err != nil {
			return false, "infrastructure: " + err.Error()
		}
		var d c11TVDriver = &c11APIDriver{u: u}
		if tr.Driver == "src" {
			d = &c11SrcDriver{u: u}
		}
		var buf bytes.Buffer
		enc := json.NewEncoder(&buf)
		_ = enc.Encode(u.headerJSON())
		c11RecordTrace(u, d, tr.Driver, nil, len(tr.Ops), true, true, enc, &tr)
		c := NewCtx("C11", "quick")
		defer os.RemoveAll(c.Scratch())
		ok, line, err := c11Validate(c, buf.Bytes(), false)
		if err != nil {
			return false, "infrastructure: " + err.Error()
		}
		if ok {
			return true, ""
		}
		return false, fmt.Sprintf("MapRep_Trace rejects the re-recorded %s history at line %d", tr.Driver, line)
	}
	return false, "unknown replay kind"
}
