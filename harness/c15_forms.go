package main

// C15, clause 3: the source text of the function-body forms of spec/Chunking.tla (FormTable).
//
// Chunking.tla says WHICH node kinds a form exercises; this file says how the form is spelled. A form defines the
// function {F} so that {F}() returns {G} + {N} ({G}: the global g of the abstract scripts, or a literal in random
// scripts; {N}: 10 for def1, 20 for def2). c15FormKinds collects the node kinds of the parsed source (vocabulary of
// dumpNode plus the refinements Chunking.tla names) and c15CheckForm requires every kind the spec claims.

import (
	"encoding/json"
	"fmt"
	"sort"
	"strings"
)

var c15Forms = map[string]string{
	"plain":    "{F} = func() {{G} + {N}}",
	"curried":  "{F} = func() {add = a => b => a + b; add({G})({N})}",
	"lamblock": "{F} = func() {h = (a, b) => {a + b}; h({G}, {N})}",
	"lambda0":  "{F} = () => {h = () => {G} + {N}; h()}",
	"named":    "{F} = func() {func inner(a) {a + {N}}; inner({G})}",
	"toplevel": "func {F}() {{G} + {N}}",
	"variadic": "{F} = func(..) {h = func(a, ..) {a + {N} * len(..)}; h({G}, 0)}",
	"closure":  "{F} = func() {mk = func(v) {func(y) {y + v}}; mk({N})({G})}",
	"iife":     "{F} = func() {(x => x + {N})({G})}",
	"lamarg":   "{F} = func() {ap = (h, x) => h(x); ap(x => x + {N}, {G})}",
	"recur":    "{F} = func() {func fact(n) {if n <= 1 {return 1}; n * fact(n - 1)}; {G} + {N} + fact(3) - 6}",
	"mapfn":    `{F} = func() {m = {"h": x => x + {N}}; m.h({G})}`,
	"maplit":   `{F} = func() {m = {"k": {N}, 2: [1, 2.5], true: "s", 1.5: {}}; {G} + m["k"]}`,
	"dotted":   `{F} = func() {m = {"k": {"j": {N}}}; {G} + m.k.j}`,
	"indexed":  "{F} = func() {a = [0, {N}, [3]]; {G} + a[1] + a[-1][0] - 3}",
	"sliced":   "{F} = func() {a = [0, 1, {N}]; {G} + a[2:][0] + len(a[0:1]) - len(a[1:2])}",
	"ifelse":   "{F} = func() {if {G} < 0 {0} else if {G} > 1000 {1} else {{G} + {N}}}",
	"forcount": "{F} = func() {s = 0; for i = {N} {if i < 0 {break}; s++; continue}; {G} + s}",
	"forcond":  "{F} = func() {n = 0; for n < {N} {n++}; {G} + n}",
	"returns":  "{F} = func() {if false {return}; if true {return {G} + {N}}; 0}",
	"prefixes": "{F} = func() {x = -{G}; y = !false; if y {-x + {N}} else {-1}}",
	"postfix":  "{F} = func() {x = {G}; x++; x++; x--; x + {N} - 1}",
	"strings":  "{F} = func() {s = \"a\\\"b\\n\" + `r\\n`; {G} + {N} + len(s) - 7}",
	"floats":   "{F} = func() {x = 2.5e0 * 4.0; int(x) - 10 + {G} + {N}}",
	"parens":   "{F} = func() {({G} + {N} / 2) * 2 - {G}}",
	"comments": "{F} = func() {\n  /* block */ x = {G} // trailing\n  // own line\n  x + {N}\n}",
	"builtins": "{F} = func() {first([{G}, 1]) + {N} * len(rest([1, 2]))}",
	"quoted":   "{F} = func() {q = quote(a => a + 1); {G} + {N}}",
	"defines":  "{F} = func() {x := {G}; a = [0]; a[0] = x; m = {}; m.k = {N}; a[0] + m.k}",
	"logic":    "{F} = func() {if {G} >= 0 && !({G} == -5) || false {{G} + {N}} else if {G} != 3 {0} else {1}}",
}

func c15FormNames() []string {
	var ns []string
	for n := range c15Forms {
		ns = append(ns, n)
	}
	sort.Strings(ns)
	return ns
}

func c15FormSrc(form, name, g string, n int) string {
	t, ok := c15Forms[form]
	if !ok {
		return ""
	}
	return strings.NewReplacer("{F}", name, "{G}", g, "{N}", fmt.Sprint(n)).Replace(t)
}

// c15FormKinds: the node kinds (and refinements) in the dump of a parsed program.
func c15FormKinds(v any, inFn bool, acc map[string]bool) {
	switch x := v.(type) {
	case []any:
		for _, e := range x {
			c15FormKinds(e, inFn, acc)
		}
	case map[string]any:
		k, _ := x["k"].(string)
		if k != "" && k != "none" {
			acc[k] = true
		}
		sub := inFn
		switch k {
		case "fn":
			if b, _ := x["lambda"].(bool); b {
				acc["fn.lambda"] = true
			}
			if b, _ := x["variadic"].(bool); b {
				acc["fn.variadic"] = true
			}
			if s, _ := x["name"].(string); s != "" {
				acc["fn.named"] = true
			}
			if ps, ok := x["ps"].([]any); ok && len(ps) > 0 {
				acc["fn.params"] = true
			}
			if inFn {
				acc["fn.nested"] = true
			}
			sub = true
		case "asg":
			if b, _ := x["def"].(bool); b {
				acc["asg.def"] = true
			}
		case "ret":
			if e, ok := x["e"].(map[string]any); ok && e["k"] == "none" {
				acc["ret.bare"] = true
			}
		case "if":
			if b, _ := x["he"].(bool); b {
				acc["if.else"] = true
				if e, ok := x["e"].([]any); ok && len(e) == 1 {
					if m, ok := e[0].(map[string]any); ok && m["k"] == "if" {
						acc["if.elseif"] = true
					}
				}
			}
		case "call":
			if f, ok := x["f"].(map[string]any); ok && f["k"] != "id" {
				acc["call.expr"] = true
			}
		case "map":
			if ps, ok := x["p"].([]any); ok && len(ps) > 1 {
				acc["map.multi"] = true
			}
		case "idx":
			if i, ok := x["i"].(map[string]any); ok && i["k"] == "inf" && i["op"] == ":" {
				acc["idx.slice"] = true
			}
		}
		for _, e := range x {
			c15FormKinds(e, sub, acc)
		}
	}
}

// c15CheckForm: the source of the form must be a valid program whose tree contains every node kind that
// Chunking.tla's FormTable claims for it.
func c15CheckForm(form string, claimed []string) error {
	src := c15FormSrc(form, "f", "g", 10)
	if src == "" {
		return fmt.Errorf("Chunking.tla names the form %q, the harness has no source for it", form)
	}
	o := c15ParseMode(src, false, true)
	if o.Panicked != "" || len(o.Errs) > 0 {
		return fmt.Errorf("form %q: %q is not a valid program: %v %s", form, src, o.Errs, o.Panicked)
	}
	var tree any
	if err := json.Unmarshal([]byte(o.Tree), &tree); err != nil {
		return fmt.Errorf("form %q: dump: %w", form, err)
	}
	acc := map[string]bool{}
	c15FormKinds(tree, false, acc)
	for _, k := range claimed {
		if !acc[k] {
			return fmt.Errorf("form %q (%q) does not contain the node kind %q that Chunking.tla's FormTable claims (it has %v)", form, src, k, sortedKeys(acc))
		}
	}
	return nil
}
