package main

// interact: small exhaustive families of programs in which two language mechanisms meet:
// (A) a name bound by an enclosing function's parameter / a loop / a global is bound again by an inner
//     function's parameter, an inner loop, an inner named function or := ; called with integers and
//     with other kinds (registers on the outside, variables on the inside and the reverse);
// (B) sequences of operations on ONE outer variable made from nested functions (read, assign, :=, ++,
//     del, index assignment, redefinition as a function), so that references created by an earlier
//     operation meet a later deletion / redefinition.
// Used by C01 (compared with the reference semantics) and C07 (totality).

import (
	"fmt"
	"strings"
)

func interactionPrograms() []string {
	var out []string
	// (A) shadowing
	inner := []string{
		`g = func(n) {n + 1}; g(n) + n`,
		`g = func(n) {n = n * 2; n}; g(n) + n`,
		`g = n => n + 1; g(n + 1) + n`,
		`func g(n) {if n <= 0 {return 0}; 1 + g(n - 1)}; g(n) + n`,
		`func n2(n) {n + 1}; n2(n) + n`,
		`s = 0; for n = 3 {s = s + n}; s`,
		`s = 0; for i = n {g = func(i) {i * 2}; s = s + g(i)}; s`,
		`s = 0; for i = 2 {for i = 2 {s = s + i}}; s + n`,
		`n := n + 1; n`,
		`m = n; n = "str"; [m, n]`,
		`f2 = func(a, n) {a - n}; f2(n, 1) + f2(1, n)`,
		`h = func() {n = n + 1; n}; h() + h() + n`,
		`h = func() {n := 100; n}; h() + n`,
		`g = func(.. ) {len(..) + n}; g(n, n, n)`,
		`[n, func(n) {n}(7), n]`,
		`{"k": n, "v": (n => n * n)(n + 1)}`,
		`x = n; if n > 0 {n = n - 1; x = x + n}; x`,
		`++n; n++; --n; n`,
	}
	for _, body := range inner {
		for _, arg := range []string{"3", "0", "2.5", `"s"`, "[1, 2]", "nil"} {
			out = append(out, fmt.Sprintf(`f = func(n) {%s}; r = catch(f(%s)); if r.err {println("E")} else {println(r.value)}`, strings.ReplaceAll(body, "\n", " "), arg))
		}
		if !strings.Contains(body, "for n =") { // a counted-loop variable coinciding with an outer binding: known finding of C05, pinned there
			out = append(out, fmt.Sprintf("n = 5; r = func() {%s}(); println(r, n)", body))
		}
		out = append(out, fmt.Sprintf("for n = 2 {r = func(n) {%s}(n + 1); println(r)}", body))
	}
	// (B) operation sequences on one outer variable from nested functions
	ops := map[string]string{
		"read": `println("r", catch(x).err)`, "assign": "x = 7", "define": "x := 8", "incr": "catch(x++)",
		"del": `println("d", del(x))`, "func": "x = func() {9}", "call": `println("c", catch(x()).err)`,
	}
	names := []string{"read", "assign", "define", "incr", "del", "func", "call"}
	for _, a := range names {
		for _, b := range names {
			for _, c := range names {
				// a in f before the nested call, b in g (called from f), c in f after it; then observe at top level
				out = append(out, fmt.Sprintf(`x = 1; g = func() {%s}; f = func() {%s; g(); %s}; f(); println("t", catch(x).err)`, ops[b], ops[a], ops[c]))
			}
			out = append(out, fmt.Sprintf(`x = [1, 2]; g = func() {%s}; f = func() {y = x; g(); %s; catch(x[0]).err}; println(f())`, ops[a], ops[b]))
		}
	}
	// (C) a name that is an integer parameter / counted-loop variable also appears as a map key after a dot,
	//     in the callee expression of a call, as the loop's own result, in a variadic pass-through
	for _, body := range []string{
		`m.k`, `m.k + k`, `{"k": 1}.k + k`, `fs[k](k)`, `fs[k - k](k) + fs[1](k)`, `(if k > 0 {fs[0]} else {fs[1]})(k)`,
		`m.f(k)`, `for k = 3 {if k == 1 {break}; k}`, `for i = k {if i == 1 {break}; i}`, `r = for i = 4 {i}; r + k`,
		`func() {for i = 3 {if i == 1 {return i}}}() + k`, `v = func(..) {..}; v(k, m, fs)[0]`, `v = func(a, ..) {[a, ..]}; v(k, k, k)`,
		`w = func(..) {..}; z = w(m); m.k = 99; z`, `q = [k, m.k, fs[0](k)]; k = k + 1; q`,
	} {
		for _, arg := range []string{"1", "0"} {
			out = append(out, fmt.Sprintf(`m = {"k": 7, "f": x => x * 3}; fs = [x => x + 1, x => x * 2]; f = func(k) {%s}; r = catch(f(%s)); if r.err {println("E")} else {println(r.value)}; println(m.k)`, body, arg))
		}
		out = append(out, fmt.Sprintf(`m = {"k": 7, "f": x => x * 3}; fs = [x => x + 1, x => x * 2]; for k = 2 {r = catch(func() {%s}()); if r.err {println("E")} else {println(r.value)}}`, body))
		if !strings.Contains(body, ";") {
			out = append(out, fmt.Sprintf(`m = {"k": 7, "f": x => x * 3}; fs = [x => x + 1, x => x * 2]; for k = 2 {r = catch(%s); if r.err {println("E")} else {println(r.value)}}`, body))
		}
	}
	// (D) left-to-right evaluation when a later element modifies what an earlier one read (outer variable / parameter / loop variable)
	for _, e := range []string{`[v, v++]`, `[v++, v]`, `pair(v, v++)`, `pair(++v, v)`, `[(if true {v} else {0}), v = v + 5, v]`, `{"a": v, "b": v++}`, `v + (v = 10)`, `[v, set(), v]`, `pair(v, set())`, `[a[0], a = [9], a[0]]`,
		"[0, 1, 2, 3][v:++v]", `"abcd"[v:++v]`, "{1: 1, 2: 2, 3: 3}[v:++v]", "v:++v", "min(v, ++v)", "{v: ++v}", "{++v: v}", "[0, 1, 2, 3][v] + ++v", "[[0, 1], [2, 3]][v][--v]", "(v:5)[++v]", "v * ++v - v", "[v, --v, v, ++v]"} {
		out = append(out, fmt.Sprintf(`pair = func(x, y) {[x, y]}; v = 1; a = [1, 2]; set = func() {v = 50; a = [7]; v}; f = func() {%s}; println(f(), v)`, e))
		out = append(out, fmt.Sprintf(`pair = func(x, y) {[x, y]}; a = [1, 2]; f = func(v) {set = func() {v = 50; v}; %s}; println(f(1))`, e))
		if !strings.Contains(e, "set()") && !strings.Contains(e, "v++") && !strings.Contains(e, "v =") {
			out = append(out, fmt.Sprintf(`pair = func(x, y) {[x, y]}; a = [1, 2]; f = func(v) {%s}; println(catch(f(1)))`, e))
		}
		out = append(out, fmt.Sprintf(`pair = func(x, y) {[x, y]}; v = 1; a = [1, 2]; set = func() {v = 50; a = [7]; v}; println(%s, v)`, e))
	}
	// (E) containers that were large and were shrunk / emptied (the large representation with few or no elements),
	//     then every builtin, operator and loop form applied to them
	uses := []string{"first(m)", "rest(m)", "len(m)", "m", "m[0:1]", "m[0]", "m + m", "m == m", "m < m", "for x = m {println(x)}", "m[1:]", "catch(m.k).err", "[m, m]", "m + {}", `m + [1]`, "del(m[0])", "m[0] = 1; m"}
	for _, build := range []string{
		`m = {1: 1, 2: 2, 3: 3, 4: 4, 5: 5}; for k = 1:6 {del(m[k])}`,
		`m = {1: 1, 2: 2, 3: 3, 4: 4, 5: 5}; for k = 2:6 {del(m[k])}`,
		`m = {1: 1, 2: 2, 3: 3, 4: 4, 5: 5, 6: 6}; del(m[6]); del(m[5])`,
		`m = {}; for k = 7 {m[k] = k}; for k = 7 {del(m[k])}`,
		`m = 1:12; m = m[0:0]`, `m = 1:12; m = m[11:]`, `m = (1:12)[3:3]`, `m = rest(rest(1:11))`, `m = [1] * 9; m = m[0:1]`,
		`m = {1: 1, 2: 2, 3: 3, 4: 4, 5: 5, 6: 6}; m = m[0:0]`, `m = {1: 1, 2: 2, 3: 3, 4: 4, 5: 5, 6: 6}; m = m[5:]`, `m = rest({1: 1, 2: 2, 3: 3, 4: 4, 5: 5})`,
	} {
		for _, u := range uses {
			out = append(out, fmt.Sprintf(`%s; r = catch(func() {%s}()); if r.err {println("E")} else {println(r.value)}`, build, u))
		}
	}
	// (F) every way a counted-loop variable or integer parameter (held in a register) can be stored: the stored value must be
	//     the value at that time, whatever the register does afterwards (later iterations, ++, later loops reusing the slot)
	for _, name := range []string{"k", "KK"} { // KK: an all-caps constant bound for the first time from the register
		binds := []string{"%s = R", "%s = [R]", `%s = {"a": R}`, "%s = {R: 1}", "%s = [R, R + 1]", "%s = R + 0", "%s = (x => x)(R)", `%s = catch(R).value`, "%s = (if true {R} else {0})", "%s = -(-R)", "%s = [[R]]", "%s = first([R])"}
		if name == "k" {
			binds = append(binds, "%s := R", "%s = 0; %s = R", "%s = [0]; %s[0] = R", "%s = {}; %s.a = R", "%s = {}; %s[R] = R")
		}
		for _, b := range binds {
			loopB := strings.ReplaceAll(strings.ReplaceAll(b, "%s", name), "R", "i")
			parB := strings.ReplaceAll(strings.ReplaceAll(b, "%s", name), "R", "n")
			out = append(out, fmt.Sprintf(`for i = 3 {if i == 0 {%s}; println(%s)}; println(%s); for j = 10 {}; println(%s)`, loopB, name, name, name))
			out = append(out, fmt.Sprintf(`for i = 1:4 {for q = 2 {if i == 1 && q == 0 {%s}}}; for j = 10 {for z = 10 {}}; println(%s)`, loopB, name))
			out = append(out, fmt.Sprintf(`f = func(n) {%s; ++n; --n; ++n; println(%s, n); %s}; println(f(5)); for j = 10 {}; println(catch(%s).err)`, parB, name, name, name))
			out = append(out, fmt.Sprintf(`%s0 = 0; f = func(n) {g = func() {%s}; g(); ++n; %s}; println(catch(f(5)).err)`, name, strings.ReplaceAll(parB, name, name+"0"), name+"0"))
			if name == "k" { // the target already exists in an outer scope: first write to it from this frame
				out = append(out, fmt.Sprintf(`k = 100; f = func(n) {%s; ++n; --n; ++n; println(k, n); k}; println(f(5)); for j = 10 {}; println(k)`, parB))
				out = append(out, fmt.Sprintf(`k = 100; f = func() {for i = 3 {if i == 0 {%s}; println(k)}; k}; println(f()); for j = 10 {}; println(k)`, loopB))
				out = append(out, fmt.Sprintf(`k = 100; f = func() {g = func(n) {%s; ++n; k}; g(7)}; println(f(), k)`, parB))
			}
		}
	}
	// (G) names with a special status used as parameter / loop variable / assignment target: extension functions (found
	//     before the environment, not assignable), identifiers of the root environment (abs, keys, PI, nil ...), self, args
	for _, nm := range []string{"min", "max", "int", "round", "type", "join", "abs", "keys", "printf", "str", "PI", "E", "Inf", "NaN", "nil", "null", "self", "args", "_", "ff"} {
		for _, tmpl := range []string{
			`f = func(NM) {NM}; r = catch(f(1)); println(r.err); println(catch(f("a")).err, catch(f(1.5)).err)`,
			`f = func(a, NM) {a + 1}; println(catch(f(1, 2)).err, catch(f(1, "x")).err)`,
			`f = func(NM) {NM++; NM}; println(catch(f(1)).err)`,
			`f = func(NM) {g = func() {NM}; g()}; r = catch(f(1)); println(r.err)`,
			`r = catch(func() {for NM = 3 {println(NM == 1)}}()); println(r.err)`,
			`r = catch(func() {for NM = 1:3 {println(NM == 1)}}()); println(r.err)`,
			`r = catch(func() {for NM = [1, 2] {println(NM == 1)}}()); println(r.err)`,
			`r = catch(func() {for NM = 2 {for j = 2 {println(NM == j)}}}()); println(r.err)`,
			`f = func(n) {for NM = n {println(NM == 1)}; n}; println(catch(f(2)).err)`,
			`r = catch(func() {NM = 1; NM + 1}()); println(r.err)`,
			`r = catch(func() {NM := 1; NM + 1}()); println(r.err)`,
			`r = catch(func() {NM = 1}()); println(r.err); println(catch(NM == 1).err)`,
			`println(catch(func() {NM++}()).err, catch(func() {del(NM)}()).err)`,
			`func NM(n) {n + 1}`, `println(catch(func() {func NM(n) {n + 1}; NM(1)}()).err)`,
			`m = {"NM": 1}; println(m.NM, catch(m["NM"]).err)`,
			`func ff(NM) {NM == 1}; println(catch(ff(1)).err)`, `func ff() {for NM = 2 {println(NM == 1)}}; println(catch(ff()).err)`,
			`func ff() {g = func() {for NM = 2 {println(NM == 1)}}; g()}; println(catch(ff()).err)`,
		} {
			out = append(out, strings.ReplaceAll(tmpl, "NM", nm))
		}
	}
	// (H) a variable deleted (or rebound) by a callee while enclosing frames hold references to it, then used from deeper
	//     closures: every frame must look the variable up again, none may follow a reference to the deleted binding
	for _, kill := range []string{"del(x)", "del(x); x = 7", "x = [9]", "del(x); del(x)"} {
		for _, use := range []string{"x", "x = 5; x", "x++", "del(x)", "[x]", "x + 1", "for x = 2 {}; 1", "func() {x}()", "catch(x).err", "y = x; y", "x == x", "(() => (() => x)())()", "m = {}; m[x] = 1; m"} {
			for _, touch := range []string{"a = x", "x = x", "a = [x]", "1", "a = func() {x}()"} {
				out = append(out, fmt.Sprintf(`x = 1; g = func() {%s}; f = func() {%s; g(); h = () => {%s}; h()}; r = catch(f()); println(r.err, catch(x).err)`, kill, touch, use))
				out = append(out, fmt.Sprintf(`x = 1; g = func() {%s}; f = func() {%s; k = func() {g(); h = () => {%s}; h()}; k()}; r = catch(f()); println(r.err, catch(x).err)`, kill, touch, use))
			}
		}
	}
	// (I) repeated parameter names; quoted code mentioning parameters and loop variables
	out = append(out,
		`func f(a, a) {a}; println(f(1, 2), f(1, "x"), f("x", 2))`, `f = func(a, b, a) {[a, b]}; println(f(1, 2, 3), f(1.5, 2, 3))`, `func f(a, a) {a++; a}; println(f(1, 2))`,
		`f = func(a, a, a, a, a, a, a, a, a, a) {a}; println(f(1, 2, 3, 4, 5, 6, 7, 8, 9, 10))`, `f = func(a, a) {g = func() {a}; g()}; println(f(1, 2))`,
		`func f(i) {quote(i)}; println(f(1))`, `func f(i) {quote(i + 1)}; println(f(1))`, `for j = 2 {println(quote(j * 2))}`, `func f(n) {for j = n {println(quote([n, j]))}}; f(2)`,
		`func f(i) {q = quote(i); ++i; println(q)}; f(1)`, `func f(i) {println(quote(unquote(i)))}; f(1)`)
	// (J) the variable of a counted loop after the loop, for every way of leaving it and every prior binding of the name
	//     (error wording is not observed: E stands for any error)
	probe := func(v string) string { return "r = catch(" + v + "); println(if r.err {\"E\"} else {r.value})" }
	val := func(v string) string { return "r = catch(" + v + "); if r.err {\"E\"} else {r.value}" }
	for _, pre := range []string{"", "i = 100; ", `i = "s"; `, "i = [1]; "} {
		for _, loop := range []string{"for i = 3 {}", "for i = 0 {}", "for i = 2:5 {}", "for i = 5 {if i == 2 {break}}", "for i = 5 {if i == 2 {continue}}", "for i = 3 {++i}",
			"catch(for i = 5 {if i == 3 {error(\"e\")}})", "for i = 2 {for j = 3 {}}; " + probe("j"), "for i = 2 {for i = 3 {}}", "for i = 3 {i = i + 10}", "for i = 3 {i++}"} {
			out = append(out, pre+loop+"; "+probe("i"))
			out = append(out, pre+"f = func() {"+loop+"; "+val("i")+"}; println(f()); "+probe("i"))
			out = append(out, pre+"f = func(i) {"+loop+"; i}; println(catch(f(7)).err); "+probe("i"))
			out = append(out, pre+"f = func(n) {"+strings.ReplaceAll(loop, "i = 3", "i = n")+"; r = catch(i); [(if r.err {\"E\"} else {r.value}), n]}; println(f(3))")
		}
	}
	// (K) ill-typed uses of an integer parameter / loop variable, with the error TEXT printed (catch exposes it to programs);
	//     code evaluated at run time that names the variable. Not for the reference semantics (wording): see c01 skip list.
	for _, use := range []string{"R[0]", "R.x", "len(R)", "R()", "first(R)", "rest(R)", "R[0] = 1", "R.k = 1", "del(R.x)", "del(R[0])", "R[0:1]", "for x = R.y {}", `R + "a"`, `"a" + R`, "-R[0]",
		"!R", "R < [1]", "[1, 2][R:\"a\"]", "{}[R][R]", "error(R)", "join(R)", "R(R)", "R.R", "keys(R)", "eval(\"R\")", "eval(\"R + 1\")", "eval(\"R = 5\"); R", "eval(\"++R\"); R", "unjson(\"R\")"} {
		u := strings.ReplaceAll(use, "R", "n")
		out = append(out, fmt.Sprintf(`f = func(n) {catch(%s)}; println("ERRTEXT", f(1))`, u))
		out = append(out, fmt.Sprintf(`f = func(a, n) {for i = 2 {println("ERRTEXT", catch(%s))}}; f(0, 3)`, strings.ReplaceAll(use, "R", "i")))
		out = append(out, fmt.Sprintf(`for n = 2 {println("ERRTEXT", catch(%s))}`, u))
	}
	// (L) recursion through counted loops: the loop variable (and the parameters) of an outer activation read again after an
	//     inner activation of the SAME loop returned; the recursion argument is an integer, a string, an array (registers for
	//     parameters exist only for integers, so the loop body is rewritten per call or not)
	for _, arg := range []struct{ init, smaller, stop string }{{"3", "n - 1", "n <= 0"}, {`"xxx"`, "n[1:]", "len(n) == 0"}, {"[1, 2, 3]", "rest(n)", "len(n) == 0"}, {"2.0", "n - 1", "n <= 0"}} {
		// (a DIRECT self call runs in an environment whose parent is the calling activation - documented in
		// NewFunctionEnvironment - so without registers the inner loop assigns the outer activation's loop variable, with
		// registers it cannot see it: that is the listed finding loop-variable-invisible-to-callees-during-loop, pinned in c05.go.
		// Here the recursion goes through a second function, whose environment hangs off the definition scope.)
		for _, shape := range []string{
			`sub = func(n) {tree(n)}; tree = func(n) {if STOP {return []}; r = []; for i = 2 {r = r + sub(SMALLER); r = r + [i]}; r}; println(tree(INIT))`,
			`sub = func(n) {tree(n)}; tree = func(n) {if STOP {return []}; r = []; for i = 2 {r = r + sub(SMALLER) + [i]}; r}; println(tree(INIT))`,
			`sub = func(n) {tree(n)}; tree = func(n) {if STOP {return 0}; s = 0; for i = 3 {for j = 2 {s = s + sub(SMALLER) + i * 10 + j}}; s}; println(tree(INIT))`,
			`a = func(n) {if STOP {return [0]}; r = []; for i = 2 {r = r + b(SMALLER) + [i]}; r}; b = func(n) {r = []; for i = 1:3 {r = r + a(n) + [-i]}; r}; println(a(INIT))`,
			`sub = func(n, d) {tree(n, d)}; tree = func(n, d) {if STOP {return [d]}; r = []; for i = 2 {x = sub(SMALLER, d + 1); r = r + x + [i, d]}; r}; println(tree(INIT, 0))`,
			`sub = func(n) {tree(n)}; tree = func(n) {if STOP {return ""}; r = ""; for i = 2 {r = r + sub(SMALLER); for k = 2 {r = r + "01"[i:i + 1] + "01"[k:k + 1]}}; r}; println(tree(INIT))`,
			`sub = func(n) {catch(tree(n)).value}; tree = func(n) {if STOP {return 0}; t = 0; for i = 2 {t = t + sub(SMALLER) + i; if i == 1 {break}}; t}; println(tree(INIT))`,
			`sub = func(n) {for q = 2 {w = tree(n)}; w}; tree = func(n) {if STOP {return [9]}; r = []; for i = 2 {for j = 2 {r = r + sub(SMALLER) + [i, j]}}; r}; println(len(tree(INIT)), tree(INIT)[0:12])`,
		} {
			out = append(out, strings.NewReplacer("STOP", arg.stop, "SMALLER", arg.smaller, "INIT", arg.init).Replace(shape))
		}
	}
	// (M) an integer parameter / loop variable as RIGHT operand (the left one is copied before, the right one may still be the live
	//     register) of every operator with every kind of left operand; as index into containers with mixed int / float keys
	for _, op := range []string{"<", "<=", ">", ">=", "==", "!=", "+", "-", "*", "/", "%", "<<", ">>", "&", "|", "^", "&&", "||", ":"} {
		for _, left := range []string{"2.5", "0.5", "1.0", "7", `"s"`, "[1]", "{1: 1}", "nil", "true", "(0.0 / 0.0)", "9223372036854775807.0"} {
			out = append(out, fmt.Sprintf(`f = func(n) {r = catch(%s %s n); if r.err {"E"} else {r.value}}; println(f(1), f(2), f(-3))`, left, op))
			out = append(out, fmt.Sprintf(`for i = 3 {r = catch(%s %s i); println(if r.err {"E"} else {r.value})}`, left, op))
		}
	}
	for _, m := range []string{`{1: "a", 1.5: "b", 2: "c", 2.5: "d", 3: "e", 0.5: "f"}`, `{1: "a", 1.5: "b"}`, `{0.0: "z", 1: "a", 2.0: "t", 3: "e", 4.5: "g"}`, `[10, 20, 30, 40]`, `{"1": "s", 1: "i", true: "b", nil: "n", 2: "j"}`} {
		out = append(out, fmt.Sprintf(`m = %s; f = func(n) {[m[n], m[n + 1], m[n + 0.5]]}; println(f(0), f(1), f(2))`, m))
		out = append(out, fmt.Sprintf(`m = %s; for i = 4 {println(m[i], m[i + 0.5], m[i * 1.0])}`, m))
		out = append(out, fmt.Sprintf(`f = func(n) {m = %s; m[n] = "new"; del(m[n + 1]); m}; println(f(1), f(2))`, m))
	}
	// (N) an integer parameter / loop variable holding a value at an end of the int64 range, under every operator that changes
	//     or recomputes it (the register path and the variable path each have their own arithmetic)
	for _, v := range []string{"9223372036854775807", "9223372036854775806", "-9223372036854775808", "-9223372036854775807", "4611686018427387904", "-4611686018427387905", "3037000500", "-1"} {
		for _, op := range []string{"++n; n", "n++; n", "--n; n", "n--; n", "n = n + 1; n", "n = n - 1; n", "n = n * 2; n", "n = -n; n", "n = n / -1; n", "n = n % -1; n", "n = n << 1; n", "n = n >> 63; n",
			"n = n * n; n", "n = n - -n; n", "m = n; ++n; [m, n]", "[++n, n--, n]", "n + 1", "n - 1", "-n", "n * -1", "n / -1", "n == n + 1", "n < n + 1", "n > n - 1", "abs(n)", "(n:n + 2)", "[n][0] + 1"} {
			out = append(out, fmt.Sprintf(`f = func(n) {%s}; r = catch(f(%s)); println(if r.err {"E"} else {r.value})`, op, v))
		}
		out = append(out, fmt.Sprintf(`r = catch(func() {for i = %s:%s + 1 {println(i, i + 1, i - 1, -i)}}()); println(r.err)`, v, v))
		out = append(out, fmt.Sprintf(`r = catch(func() {for i = %s - 1:%s {n = i; ++n; println(i, n)}}()); println(r.err)`, v, v))
	}
	// (O) code that names a register-held variable and outlives it (a stored quote, a function value, an error text), looked at
	//     after other loops / calls with other variable names have used the same register
	for _, keep := range []string{"q = quote(V + 1)", "q = quote([V, V * 2])", "q = [quote(V)]", `q = {"k": quote(-V)}`, "q = quote(func() {V})", "q = quote(V); q2 = quote(V + V)", `q = "ERRTEXT " + catch(V + nil).value`} {
		for _, later := range []string{"for j = 2 {}", "for j = 2 {for k = 2 {}}", "for k = 3 {r = quote(k - 1)}", "g = func(m) {m}; g(1)", "for jj = 1:3 {jj}", "for j = 2 {q3 = quote(j)}", "g = func(a, b) {quote(a + b)}; q4 = g(1, 2)"} {
			out = append(out, fmt.Sprintf("for i = 2 {%s}; %s; println(q)", strings.ReplaceAll(keep, "V", "i"), later))
			out = append(out, fmt.Sprintf("f = func() {for i = 2 {%s}; %s; q}; println(f())", strings.ReplaceAll(keep, "V", "i"), later))
			out = append(out, fmt.Sprintf("f = func(n) {%s; q}; x = f(3); %s; println(x); h = func(other) {other}; h(5); println(x)", strings.ReplaceAll(keep, "V", "n"), later))
			out = append(out, fmt.Sprintf("for i = 2 {for i2 = 2 {%s}}; %s; println(q)", strings.ReplaceAll(keep, "V", "i2"), later))
		}
	}
	// (P) a register-held variable changed by the index expression of the assignment that stores it; named twice as a key or
	//     element of one literal; named by code that is built at run time (eval, defun) in its scope
	for _, hold := range []string{"f = func(V) {BODY}; println(f(0), f(1))", "for V = 2 {println(func() {0}(), BODY2)}"} {
		for _, body := range []string{"a = [0, 0, 0, 0]; a[++V] = V; a", "m = {1: 9}; m[++V] = V; m", "a = [0, 0, 0, 0]; a[V] = ++V; a", "a = [0, 0, 0, 0]; w = V; a[++w] = w; [a, w]", "a = [[0, 0], [0, 0]]; t = a[V]; t[++V - 1] = V; [t, V]",
			`{V: println("a"), V: println("b")}`, `[println("a", V), println("b", V)]`, `{V: 1, V + 0: 2, V * 1: 3}`, `m = {V: "x"}; m[V] = "y"; m`, `{V: V, V: V + 1}`} {
			if strings.HasPrefix(hold, "for") {
				if strings.Contains(body, "++V") {
					continue // (a loop variable that is incremented in the body is not held in a register; the function form covers it)
				}
				out = append(out, strings.ReplaceAll(strings.ReplaceAll(hold, "BODY2", "func() {"+body+"}()"), "V", "i"))
				continue
			}
			out = append(out, strings.ReplaceAll(strings.ReplaceAll(hold, "BODY", body), "V", "n"))
		}
	}
	for _, code := range []string{`eval("n + 1")`, `eval("n = n + 5; n")`, `defun("", [], ["n * 2"])()`, `defun("", ["q"], ["q + n"])(10)`, `g = defun("", [], ["n"]); n = n + 1; g()`, `eval("func() {n}")()`} {
		out = append(out, fmt.Sprintf(`x_ERRTEXT = 0; f = func(n) {r = catch(%s); if r.err {"E"} else {r.value}}; println(f(1), f(2))`, code))
		out = append(out, fmt.Sprintf(`x_ERRTEXT = 0; for n = 1:3 {r = catch(%s); println(if r.err {"E"} else {r.value})}`, code))
	}
	// (Q) the extra arguments of a variadic call kept after the call (as they are, sliced, wrapped), for every count around the
	//     small / large array threshold, looked at after OTHER calls with other argument lists have been made
	for _, n := range []int{0, 1, 7, 8, 9, 10, 17} {
		args := make([]string, n)
		for i := range args {
			args[i] = fmt.Sprint(i + 1)
		}
		al := strings.Join(args, ", ")
		for _, keep := range []string{"..", "[..]", "..[1:]", `{"k": ..}`, "func() {..}", "[len(..), ..]"} {
			get := "a"
			if keep == "func() {..}" {
				get = "a()"
			}
			out = append(out, fmt.Sprintf(`pack = func(..) {%s}; add = func(x, y) {x + y}; a = pack(%s); add(40, 50); add(60, 70); pack(100, 200, 300, 400, 500, 600, 700, 800, 900, 1000, 1100); println(%s); b = pack(%s); println(%s, b == a || true)`, keep, al, get, al, get))
			out = append(out, fmt.Sprintf(`pack = func(h, ..) {%s}; a = pack(0, %s); for i = 3 {pack(i, i, i, i, i, i, i, i, i, i, i, i)}; println(%s)`, keep, strings.TrimSuffix("0, "+al, ", "), get))
		}
	}
	// containers reached through references
	for _, a := range []string{"x[0] = 5", `x.k = 5`, "del(x[0])", "x = x + 1", "x = x + x", "del(x)"} {
		for _, init := range []string{"[1, 2, 3]", `{"k": 1, 0: 2}`, "1:12", `{1: 1, 2: 2, 3: 3, 4: 4, 5: 5}`} {
			out = append(out, fmt.Sprintf(`x = %s; y = x; f = func() {z = x; %s; z}; println(catch(f()).err, catch(x).err, y)`, init, a))
		}
	}
	return out
}
