module verif/harness

go 1.23.8

require (
	fortio.org/log v1.17.2
	fortio.org/terminal v0.30.0
	grol.io/grol v0.0.0
)

require (
	fortio.org/cli v1.10.0 // indirect
	fortio.org/safecast v1.0.0 // indirect
	fortio.org/sets v1.3.0 // indirect
	fortio.org/struct2env v0.4.2 // indirect
	fortio.org/term v0.29.0-fortio-1 // indirect
	fortio.org/version v1.0.4 // indirect
	github.com/kortschak/goroutine v1.1.2 // indirect
	github.com/rivo/uniseg v0.4.7 // indirect
	golang.org/x/crypto/x509roots/fallback v0.0.0-20250406160420-959f8f3db0fb // indirect
	golang.org/x/image v0.26.0 // indirect
	golang.org/x/sys v0.31.0 // indirect
)

replace grol.io/grol => /repo
