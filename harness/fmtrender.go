package main

// fmtrender: source text for the trees emitted by spec/GrolSyntax.tla (C02 / C03). The renderer only
// PRODUCES inputs. Three styles:
//   fsMin    - minimal parentheses; identical to gen.go's renderNode(styleNormal) / renderProgram on
//              the kinds gen.go knows (self-checked at run time),
//   fsParens - every sub-expression parenthesised; identical to renderNode(styleParens),
//   fsWS     - minimal parentheses plus random redundant whitespace, newlines, optional semicolons,
//              alternative spellings (`else if`, `(x) => ..`, brace-less lambda bodies, raw / backtick strings).
// Beyond gen.go it lays out comments according to their same-line flags, writes raw numeric
// spellings, parenthesises a numeric literal in front of a dot, and writes the general dot `a.(b + c)` (kind dotbad).

import (
	"math/rand"
	"strings"
)

type fstyle int

const (
	fsMin fstyle = iota
	fsParens
	fsWS
)

type jclass int

const (
	jFree     jclass = iota // any whitespace or none
	jReq                    // at least one whitespace character
	jLineFree               // spaces / tabs or none (no newline: keeps comment flags)
	jLineReq                // at least one space / tab, no newline
	jNewline                // contains a newline
)

type frender struct {
	st  fstyle
	rng *rand.Rand
	// beyond: the tree needed something gen.go's renderer does not do (comments, numeric literal before a dot)
	beyond bool
}

var jChoices = map[jclass][]string{
	jFree:     {"", "", " ", "  ", "\t", "\n", " \n\t", "\r\n"},
	jReq:      {" ", " ", "  ", "\t", "\n", " \n  "},
	jLineFree: {"", " ", "\t", "  "},
	jLineReq:  {" ", "  ", "\t"},
	jNewline:  {"\n", " \n", "\n\n", "\n\t", "  \n  "},
}

func (r *frender) j(def string, c jclass) string {
	if r.st != fsWS || r.rng.Intn(3) > 0 {
		return def
	}
	ch := jChoices[c]
	return ch[r.rng.Intn(len(ch))]
}

func (r *frender) coin(n int) bool { return r.st == fsWS && r.rng.Intn(n) == 0 }

func isNumericLeaf(n J) bool {
	switch n["k"] {
	case "int", "float":
		return true
	}
	return false
}

func (r *frender) str(s string) string {
	if r.st == fsWS {
		switch r.rng.Intn(4) {
		case 0: // raw bytes between double quotes
			if !strings.ContainsAny(s, "\"\\") {
				return `"` + s + `"`
			}
		case 1: // backtick string
			if !strings.Contains(s, "`") {
				return "`" + s + "`"
			}
		}
	}
	return quoteGrol(s)
}

func (r *frender) node(n J, ctx int) string {
	p := nodePrec(n)
	s := r.raw(n)
	need := p <= ctx
	if r.st == fsParens && p < precAtom {
		need = true
	}
	if need && n["k"] == "inf" && n["r"].(J)["k"] == "none" {
		// the open slice `a[x:]` exists only directly inside the brackets: never parenthesised
		need = false
		r.beyond = true
	}
	if need {
		return "(" + r.j("", jFree) + s + r.j("", jFree) + ")"
	}
	return s
}

func (r *frender) list(l []any) string {
	parts := make([]string, len(l))
	for i, x := range l {
		parts[i] = r.node(x.(J), precLowest)
	}
	return strings.Join(parts, ","+r.j(" ", jFree))
}

func (r *frender) raw(n J) string {
	switch n["k"] {
	case "str":
		return r.str(unlatin1(n["v"].(string)))
	case "ret":
		if n["e"].(J)["k"] == "none" {
			return "return"
		}
		return "return" + r.j(" ", jReq) + r.node(n["e"].(J), precLowest)
	case "pre":
		op := n["op"].(string)
		rs := r.node(n["r"].(J), precPrefix-1)
		if (op == "-" || op == "+") && strings.HasPrefix(rs, op) {
			if r.coin(2) {
				return op + " " + rs
			}
			return op + "(" + rs + ")"
		}
		return op + r.j("", jFree) + rs
	case "post":
		return n["n"].(string) + r.j("", jLineFree) + n["op"].(string)
	case "inf":
		op := n["op"].(string)
		p := prec[op]
		l := r.node(n["l"].(J), p-1)
		if n["r"].(J)["k"] == "none" {
			return l + r.j("", jFree) + ":"
		}
		rs := r.node(n["r"].(J), p)
		jr := r.j(" ", jFree)
		if jr == "" && (op == "-" || op == "+") && strings.HasPrefix(rs, op) {
			jr = " "
		}
		return l + r.j(" ", jFree) + op + jr + rs
	case "asg":
		op := "="
		if n["def"].(bool) {
			op = ":="
		}
		return r.node(n["l"].(J), 2) + r.j(" ", jFree) + op + r.j(" ", jFree) + r.node(n["r"].(J), 2)
	case "idx":
		return r.node(n["l"].(J), precIndex-1) + "[" + r.j("", jFree) + r.node(n["i"].(J), precLowest) + r.j("", jFree) + "]"
	case "dot":
		l := r.node(n["l"].(J), precDot-1)
		if isNumericLeaf(n["l"].(J)) { // `1.key` would lex as the float `1.`
			r.beyond = true
			l = "(" + l + ")"
		}
		return l + r.j("", jFree) + "." + r.j("", jFree) + n["n"].(string)
	case "dotbad":
		// a.(b + c): a dot whose right side is not one identifier / string token exists only with the parentheses
		r.beyond = true
		l := r.node(n["l"].(J), precDot-1)
		if isNumericLeaf(n["l"].(J)) {
			l = "(" + l + ")"
		}
		return l + r.j("", jFree) + "." + r.j("", jFree) + "(" + r.j("", jFree) + r.node(n["i"].(J), precLowest) + r.j("", jFree) + ")"
	case "call":
		return r.node(n["f"].(J), precCall-1) + "(" + r.j("", jFree) + r.list(n["a"].([]any)) + r.j("", jFree) + ")"
	case "bi":
		return n["n"].(string) + r.j("", jFree) + "(" + r.list(n["a"].([]any)) + ")"
	case "arr":
		return "[" + r.j("", jFree) + r.list(n["e"].([]any)) + r.j("", jFree) + "]"
	case "map":
		parts := []string{}
		for _, p := range n["p"].([]any) {
			kv := p.([]any)
			parts = append(parts, r.node(kv[0].(J), prec[":"])+r.j("", jFree)+":"+r.j(" ", jFree)+r.node(kv[1].(J), prec[":"]))
		}
		return "{" + r.j("", jFree) + strings.Join(parts, ","+r.j(" ", jFree)) + r.j("", jFree) + "}"
	case "if":
		s := "if" + r.j(" ", jReq) + r.node(n["c"].(J), precLowest) + r.j(" ", jFree) + r.block(n["t"].([]any))
		if n["he"].(bool) {
			e := n["e"].([]any)
			if len(e) == 1 && e[0].(J)["k"] == "if" && r.coin(2) {
				return s + r.j(" ", jFree) + "else" + r.j(" ", jReq) + r.raw(e[0].(J))
			}
			s += r.j(" ", jFree) + "else" + r.j(" ", jFree) + r.block(e)
		}
		return s
	case "for":
		return "for" + r.j(" ", jReq) + r.node(n["c"].(J), precLowest) + r.j(" ", jFree) + r.block(n["body"].([]any))
	case "fn":
		ps := n["ps"].([]any)
		names := make([]string, len(ps))
		for i, p := range ps {
			names[i] = p.(string)
		}
		body := n["body"].([]any)
		if n["lambda"].(bool) && n["name"].(string) == "" {
			head := "(" + strings.Join(names, ","+r.j(" ", jFree)) + ")"
			if len(names) == 1 && names[0] != ".." && !r.coin(3) {
				head = names[0]
			}
			if len(body) == 1 && r.coin(3) {
				b := body[0].(J)
				k := b["k"].(string)
				if k != "cmt" && k != "ret" && k != "brk" && k != "cnt" && (nodePrec(b) > precLambda || (k == "fn" && b["lambda"].(bool))) {
					if bs := r.node(b, precLambda-1); !strings.HasPrefix(bs, "{") { // `x => {` opens a block
						return head + r.j(" ", jFree) + "=>" + r.j(" ", jFree) + bs
					}
				}
			}
			return head + r.j(" ", jFree) + "=>" + r.j(" ", jFree) + r.block(body)
		}
		s := "func"
		if n["name"].(string) != "" {
			s += r.j(" ", jReq) + n["name"].(string)
		}
		return s + r.j("", jFree) + "(" + strings.Join(names, ","+r.j(" ", jFree)) + ")" + r.j(" ", jFree) + r.block(body)
	case "cmt":
		// a comment in EXPRESSION position (statement comments are laid out by stmts): a line comment ends with its line
		text := unlatin1(n["text"].(string))
		if strings.HasPrefix(text, "//") {
			return text + "\n"
		}
		return text
	}
	return renderRaw(n, styleNormal) // leaves: int float bool id none brk cnt
}

func (r *frender) block(stmts []any) string {
	return "{" + r.stmts(stmts, false) + "}"
}

func isCmt(x any) bool { return x.(J)["k"] == "cmt" }

// needsSemicolon: without a `;` the parser would continue the previous statement into the next one.
func needsSemicolon(prev J, next string) bool {
	if next == "" {
		return false
	}
	return strings.IndexByte("-+^([.", next[0]) >= 0
}

// stmts lays out a statement list: `; ` between statements (`;\n` after each at top level) exactly as gen.go does,
// and comments according to their flags: sp = no newline between the previous token and the comment,
// sn = no newline between the comment and the next token.
func (r *frender) stmts(list []any, top bool) string {
	var sb strings.Builder
	n := len(list)
	texts := make([]string, n)
	for i, s := range list {
		if isCmt(s) {
			texts[i] = unlatin1(s.(J)["text"].(string))
			continue
		}
		texts[i] = r.node(s.(J), 0)
	}
	for i, s := range list {
		st := s.(J)
		if isCmt(s) {
			r.beyond = true
			// junction before the comment (after `{`, the start of the text, or the previous statement / comment)
			sameLine := st["sp"].(bool)
			if i > 0 && isCmt(list[i-1]) && !list[i-1].(J)["sn"].(bool) {
				sameLine = false // the previous comment already demanded a newline
			}
			first := i == 0 && top
			switch {
			case i > 0 && isCmt(list[i-1]):
				// the junction was written after the previous comment
			case sameLine && first:
				sb.WriteString(r.j("", jLineFree))
			case sameLine:
				sb.WriteString(r.j(" ", jLineReq))
			default:
				sb.WriteString(r.j("\n", jNewline))
			}
			sb.WriteString(texts[i])
			// junction after the comment
			lineCmt := strings.HasPrefix(texts[i], "//")
			last := i == n-1
			sn := st["sn"].(bool)
			if !last && isCmt(list[i+1]) && !list[i+1].(J)["sp"].(bool) {
				sn = false
			}
			switch {
			case last && top && sn:
				// end of text right after the comment
			case last && top:
				sb.WriteString(r.j("\n", jNewline))
			case sn && !lineCmt:
				sb.WriteString(r.j(" ", jLineReq))
			default:
				sb.WriteString(r.j("\n", jNewline))
			}
			if !last && !isCmt(list[i+1]) && needsSemicolon(st, texts[i+1]) {
				sb.WriteString(";") // `// c` newline `-a` would read as the infix expression `comment - a`
			}
			continue
		}
		sb.WriteString(texts[i])
		last := i == n-1
		if st["k"] == "ret" && st["e"].(J)["k"] == "none" {
			// a bare `return` must be followed directly by `}` or the end of the text (`return;` is a parse error)
			r.beyond = true
			if last && top {
				sb.WriteString("\n")
			}
			continue
		}
		if last {
			if top {
				sb.WriteString(";\n")
			} else if r.coin(4) {
				sb.WriteString(r.j("", jFree) + ";" + r.j("", jFree))
			}
			continue
		}
		if isCmt(list[i+1]) {
			sb.WriteString(";") // the junction is written with the comment
			continue
		}
		if r.st == fsWS && !needsSemicolon(st, texts[i+1]) && r.rng.Intn(3) == 0 {
			sb.WriteString(r.j("\n", jReq)) // newline or blank only, no semicolon
			continue
		}
		if top {
			sb.WriteString(";" + r.j("\n", jFree))
		} else {
			sb.WriteString(";" + r.j(" ", jFree))
		}
	}
	return sb.String()
}

// fmtRenderProgram renders a program (list of statements) in the given style.
func fmtRenderProgram(prog []any, st fstyle, rng *rand.Rand) (src string, beyond bool) {
	r := &frender{st: st, rng: rng}
	src = r.stmts(prog, true)
	return src, r.beyond
}

// fmtNormTree converts the generator-only leaves (strb, raw) to renderable kinds; comparable=false when
// the tree contains a raw numeric spelling (its dump carries the value, not the spelling).
func fmtNormTree(v any) (comparable bool) {
	comparable = true
	switch x := v.(type) {
	case map[string]any:
		switch x["k"] {
		case "strb":
			bs := x["b"].([]any)
			b := make([]byte, len(bs))
			for i, c := range bs {
				b[i] = byte(c.(float64))
			}
			delete(x, "b")
			x["k"] = "str"
			x["v"] = latin1(string(b))
		case "raw":
			x["k"] = "int"
			x["v"] = x["text"]
			delete(x, "text")
			comparable = false
		}
		for _, c := range x {
			if !fmtNormTree(c) {
				comparable = false
			}
		}
	case []any:
		for _, c := range x {
			if !fmtNormTree(c) {
				comparable = false
			}
		}
	}
	return comparable
}
