package main

// fmtsession: function values in a SESSION (C02; spec/FormatFnSession.tla). The GrolSyntax families print one function
// value per interpreter; here TLC enumerates histories of one interpreter process - definitions of named functions and
// lambdas that share parameters, body text or name, aliases, Inspect, SaveGlobals + load, a second interpreter in the same
// process - and says, per observation, which function is bound to the name looked at. The history is replayed on the real
// interpreter; per observation one record [the function the model says is bound, the text the real code wrote, what the
// real parser reads back from it] goes to Format_Trace.tla (FormatLaws!FnLaw).

import (
	"bytes"
	"encoding/json"
	"fmt"
	"os"
	"strings"
	"time"

	"grol.io/grol/eval"
	"grol.io/grol/object"
)

type fsFn struct {
	Name string `json:"name"`
	Sig  int    `json:"sig"`
	Body int    `json:"body"`
}

type fsExp struct {
	N string `json:"n"`
	F fsFn   `json:"f"`
}

type fsOp struct {
	Op  string  `json:"op"` // named | lam | alias | print | save | new | end
	N   string  `json:"n"`
	S   int     `json:"s"`
	B   int     `json:"b"`
	T   string  `json:"t"`
	Exp []fsExp `json:"exp"`
}

// fsTexts: what the model's parameter-list and body indices stand for in one history. Every body carries a number that is
// unique to the history, so a history is self-contained although all of them are replayed in one process (and a failing
// one can be replayed alone).
type fsTexts struct {
	Sigs   []string `json:"sigs"`
	Bodies []string `json:"bodies"` // with one %d
	Tag    int      `json:"tag"`
}

var fsSigPool = []string{"a, b", "a", "a, b, c", "a, .."}
var fsBodyPool = []string{"a * %d", "a + %d", "x = a; x - %d", "if a > %d {a} else {-a}", "[a, %d]", "return {\"k\": a, \"v\": %d}"}

func (t fsTexts) sig(i int) string  { return t.Sigs[(i-1)%len(t.Sigs)] }
func (t fsTexts) body(i int) string { return fmt.Sprintf(t.Bodies[(i-1)%len(t.Bodies)], t.Tag) }

// literal: the source text of the function value f.
func (t fsTexts) literal(f fsFn) string {
	if f.Name != "" {
		return fmt.Sprintf("func %s(%s) {%s}", f.Name, t.sig(f.Sig), t.body(f.Body))
	}
	return fmt.Sprintf("(%s) => {%s}", t.sig(f.Sig), t.body(f.Body))
}

// input: the source text of a defining operation.
func (t fsTexts) input(op fsOp) string {
	switch op.Op {
	case "named":
		return t.literal(fsFn{Name: op.N, Sig: op.S, Body: op.B})
	case "lam":
		return op.N + " = " + t.literal(fsFn{Sig: op.S, Body: op.B})
	case "alias":
		return op.N + " = " + op.T
	}
	return ""
}

// dump0: canonical dump of the function value the model says is bound (what FnLaw compares the read-back text with).
func (t fsTexts) dump0(f fsFn) (string, J, bool) {
	src := t.literal(f)
	if f.Name == "" {
		src = "zz = " + src
	}
	prog, ok, _ := fmtParse(src)
	if !ok || len(prog.Statements) != 1 {
		return "", nil, false
	}
	tree := stripKey(dumpStmts(prog)).([]any)
	fn0, _ := findFn(tree[0].(J))
	if fn0 == nil {
		return "", nil, false
	}
	nf := normFn(fn0)
	return canonDump(stripCommentsGo([]any{stripFlags(deepCopy(any(nf)))}).([]any)), nf, true
}

// fnSessCfg: bounds "quick" (2 names, 2 parameter lists, 2 bodies, 2 definitions, 3 observations), "thorough" (3 names, 1 list,
// 2 bodies, 3 definitions, 2 observations) or "alias" (the smallest bounds in which the AliasLine deviation shows: 3 definitions).
func fnSessCfg(bounds, memo, aliasLine string, emit bool) string {
	b := "FALSE"
	if emit {
		b = "TRUE"
	}
	k := " NNames = 2\n NSigs = 2\n NBodies = 2\n MaxDefs = 2\n MaxObs = 3\n MaxNew = 1\n"
	switch bounds {
	case "thorough":
		k = " NNames = 3\n NSigs = 1\n NBodies = 2\n MaxDefs = 3\n MaxObs = 2\n MaxNew = 1\n"
	case "alias":
		k = " NNames = 2\n NSigs = 1\n NBodies = 2\n MaxDefs = 3\n MaxObs = 1\n MaxNew = 0\n"
	}
	return fmt.Sprintf("CONSTANTS\n%s Memo = %q\n AliasLine = %q\n EmitOn = %s\nINIT Init\nNEXT Next\nINVARIANT Faithful\n", k, memo, aliasLine, b)
}

// fsRec: one observation of a replayed history.
type fsRec struct {
	fnRec
	Hist  []fsOp
	Texts fsTexts
	At    int // index of the observing operation in Hist
	Name  string
}

// fsDescribe: the history up to and including operation `at`, as inputs.
func fsDescribe(t fsTexts, hist []fsOp, at int) string {
	var parts []string
	for i, op := range hist {
		if i > at {
			break
		}
		switch op.Op {
		case "named", "lam", "alias":
			parts = append(parts, t.input(op))
		case "print":
			parts = append(parts, "<inspect "+op.N+">")
		case "save":
			parts = append(parts, "<save, load into a new interpreter>")
		case "new":
			parts = append(parts, "<new interpreter, same process>")
		}
	}
	return strings.Join(parts, " ; ")
}

// fsFindDef: the function literal a parsed text binds to `name`: a definition `func name(..){..}` when own is set, else
// `name = <function literal>`; the last one counts (that is what loading the text leaves behind).
func fsFindDef(tree []any, name string, own bool) J {
	var found J
	for _, st := range tree {
		j, ok := st.(J)
		if !ok {
			continue
		}
		fn, bound := findFn(j)
		if fn == nil {
			continue
		}
		fname, _ := fn["name"].(string)
		if own && bound == "" && fname == name {
			found = fn
		}
		if !own && bound == name {
			found = fn
		}
		if own && bound == name { // the name was rebound by an assignment after the definition
			found = nil
		}
	}
	return found
}

// fsReplay runs one history on the real interpreter and returns one record per observation.
// infra != "" : the history could not be replayed as the model describes it (a definition was refused).
func fsReplay(hist []fsOp, t fsTexts) (recs []fsRec, infra string) {
	s, buf := newState(RunOpt{})
	mk := func(at int, via, name string, f fsFn) fsRec {
		r := fsRec{Hist: hist, Texts: t, At: at, Name: name}
		r.Via = via
		r.Src = fsDescribe(t, hist, at) + " -> " + name
		d0, nf, ok := t.dump0(f)
		if !ok {
			infra = "the model's function literal is rejected by the parser: " + t.literal(f)
		}
		r.D0, r.FN = d0, nf
		r.Ok2, r.Text2 = true, "" // the fixpoint law of single function values is not judged on session records
		return r
	}
	for at, op := range hist {
		switch op.Op {
		case "named", "lam", "alias":
			src := t.input(op)
			prog, ok, msg := fmtParse(src)
			if !ok {
				return nil, fmt.Sprintf("definition %q rejected: %s", src, msg)
			}
			if o := evalProgram(s, buf, prog, RunOpt{}); o.Panicked || o.Err {
				return nil, fmt.Sprintf("definition %q failed: %s %s", src, o.ErrMsg, o.PanicMsg)
			}
		case "new":
			s, buf = newState(RunOpt{})
		case "skip": // an operation taken out of the history by the attribution (indices stay what they were)
		case "print":
			for _, e := range op.Exp {
				r := mk(at, "session-inspect", e.N, e.F)
				fsInspect(s, &r)
				recs = append(recs, r)
			}
		case "save":
			var out bytes.Buffer
			var saveErr string
			func() {
				defer func() {
					if e := recover(); e != nil {
						saveErr = fmt.Sprint(e)
					}
				}()
				if _, err := s.SaveGlobals(&out); err != nil {
					saveErr = err.Error()
				}
			}()
			saved := out.String()
			p2, okp, _ := fmtParse(saved)
			var tree []any
			if okp {
				tree = stripKey(dumpStmts(p2)).([]any)
			}
			// the session goes on in a new interpreter that loaded the saved text
			if okp && saveErr == "" {
				s2, buf2 := newState(RunOpt{})
				if o := evalProgram(s2, buf2, p2, RunOpt{}); o.Panicked || o.Err {
					saveErr = "the saved text does not load: " + o.ErrMsg + o.PanicMsg
				} else {
					s, buf = s2, buf2
				}
			}
			for _, e := range op.Exp {
				r := mk(at, "session-save", e.N, e.F)
				r.Text = saved
				r.Panic = saveErr
				if okp && saveErr == "" {
					if fn2 := fsFindDef(tree, e.N, e.F.Name == e.N); fn2 != nil {
						r.Ok = true
						r.DI = canonDump([]any{stripFlags(any(normFn(fn2)))})
					}
				}
				recs = append(recs, r)
			}
		}
	}
	return recs, infra
}

// fsInspect: Function.Inspect of the value bound to r.Name, read back by the real parser.
func fsInspect(s *eval.State, r *fsRec) {
	defer func() {
		if e := recover(); e != nil {
			r.Panic = fmt.Sprint(e)
		}
	}()
	cancel := s.SetDefaultContext()
	defer cancel()
	v, okv := object.Value(s.Eval(parseIdent(r.Name))).(object.Function)
	if !okv {
		r.Panic = "binding is not a function value"
		return
	}
	r.Text = v.Inspect()
	p2, ok, _ := fmtParse(r.Text)
	if !ok || len(p2.Statements) != 1 {
		return
	}
	t2 := stripKey(dumpStmts(p2)).([]any)
	fn2, b2 := findFn(t2[0].(J))
	if fn2 == nil || b2 != "" {
		return
	}
	r.Ok = true
	r.DI = canonDump([]any{stripFlags(any(normFn(fn2)))})
}

const sigFnSession = "fmt-function-value-depends-on-session-history"

// sigSavedAlias: a named function held under another name is saved as  k=func g(..){..} ; loading that line binds g as well
// as k, so a session in which g is bound to something else by now comes back with g bound to the function k holds.
const sigSavedAlias = "fmt-saved-alias-of-named-function-rebinds-the-function-name"

// fsAliasHazard: the bindings written by a save hold a named function under another name while that function's own name
// is bound to something else.
func fsAliasHazard(op fsOp) bool {
	if op.Op != "save" {
		return false
	}
	bound := map[string]fsFn{}
	for _, e := range op.Exp {
		bound[e.N] = e.F
	}
	for _, e := range op.Exp {
		if own, ok := bound[e.F.Name]; e.F.Name != "" && e.F.Name != e.N && ok && own != e.F {
			return true
		}
	}
	return false
}

// fnSessionStart starts the TLC runs of FormatFnSession (the two deviations, which must be refuted, and the generator)
// and returns the function that waits for them, replays the histories and returns the law records for Format_Trace.
func (fr *fmtRun) fnSessionStart() func(base int) ([]J, error) {
	c := fr.c
	type res struct {
		r   *TLCResult
		err error
	}
	devs := []string{"text", "name", "alias"}
	devCh := make([]chan res, len(devs))
	for i, dev := range devs {
		devCh[i] = make(chan res, 1)
		go func(i int, dev string) {
			cfg := fnSessCfg("quick", dev, "binds", false)
			if dev == "alias" {
				cfg = fnSessCfg("alias", "none", "defines", false)
			}
			r, err := c.TLC(TLCOpt{Spec: "FormatFnSession", Cfg: cfg, Workers: 1, AllowError: true})
			devCh[i] <- res{r, err}
		}(i, dev)
	}
	genCh := make(chan res, 1)
	go func() {
		bounds := "quick"
		if c.Thorough() || os.Getenv("VERIF_FNSESS_BOUNDS") == "thorough" { // (the variable: debugging aid)
			bounds = "thorough"
		}
		r, err := c.TLC(TLCOpt{Spec: "FormatFnSession", Cfg: fnSessCfg(bounds, "none", "binds", true), Workers: 2})
		genCh <- res{r, err}
	}()
	return func(base int) ([]J, error) {
		for i, dev := range devs {
			x := <-devCh[i]
			if x.err != nil {
				return nil, x.err
			}
			if x.r.InvViolated != "Faithful" {
				return nil, fmt.Errorf("vacuous FormatFnSession: deviation %s did not violate Faithful: %q %s", dev, x.r.InvViolated, x.r.ErrText)
			}
		}
		c.Cov("fn_session_design_counterexamples", "Memo=text and Memo=name violate Faithful (a printer that answers from a text remembered under less than the whole function value); AliasLine=defines violates it with three definitions (func g ; h = g ; g = .. ; save + load: loading h = func g(..){..} binds g again)")
		tWait := time.Now()
		g := <-genCh
		if g.err != nil {
			return nil, g.err
		}
		tReplay := time.Now()
		// the texts the indices stand for: a seed-dependent window of the pools
		off := int(c.Seed)
		nHist, nObs := 0, 0
		err := ReadLines(g.r.Emitted, func(line []byte) error {
			var h struct {
				H []fsOp `json:"h"`
			}
			if err := json.Unmarshal(line, &h); err != nil {
				return err
			}
			t := fsTexts{Tag: 1000 + nHist}
			for k := 0; k < 2; k++ {
				t.Sigs = append(t.Sigs, fsSigPool[(off+nHist/7+k)%len(fsSigPool)])
				t.Bodies = append(t.Bodies, fsBodyPool[(off+nHist/3+k)%len(fsBodyPool)])
			}
			nHist++
			recs, infra := fsReplay(h.H, t)
			if infra != "" {
				return fmt.Errorf("history %d of FormatFnSession cannot be replayed: %s", nHist, infra)
			}
			for i := range recs {
				fr.sessItems = append(fr.sessItems, &recs[i])
				c.Case("fnsess:"+recs[i].Via+":"+recs[i].Src, true)
			}
			nObs += len(recs)
			return nil
		})
		if err != nil {
			return nil, err
		}
		if nHist == 0 || nObs == 0 {
			return nil, fmt.Errorf("FormatFnSession emitted %d histories, %d observations", nHist, nObs)
		}
		c.Cov("fn_session_histories", nHist)
		c.Cov("fn_session_observations", nObs)
		c.AddTraces(int64(nHist))
		c.Note("FormatFnSession: %d states, %d histories replayed on one interpreter process, %d observations (waited %.1fs for TLC, replay %.1fs)",
			g.r.Distinct, nHist, nObs, tReplay.Sub(tWait).Seconds(), time.Since(tReplay).Seconds())
		if os.Getenv("VERIF_FMT_DUMP") != "" {
			fmt.Println(c.notes[len(c.notes)-1])
		}
		// one law record per distinct content
		seen := map[string]int{}
		var out []J
		fr.sessID = make([]int, len(fr.sessItems))
		for i, r := range fr.sessItems {
			j := r.lawJSON(0)
			delete(j, "id")
			j["t"] = "" // the text is not part of FnLaw; the whole saved file would be carried once per binding
			b, _ := json.Marshal(j)
			id, ok := seen[string(b)]
			if !ok {
				id = base + len(out)
				seen[string(b)] = id
				j["id"] = id
				out = append(out, j)
			}
			fr.sessID[i] = id
		}
		// binding self-test: the record of an observation that holds, with the NAME of the function read back changed
		for _, r := range fr.sessItems {
			if fnLawGo(&r.fnRec) && r.FN["name"] != "" {
				bad := r.lawJSON(base - 1)
				bad["t"] = ""
				name := r.FN["name"].(string)
				bad["dI"] = strings.Replace(r.DI, `"name":"`+name+`"`, `"name":"`+name+`x"`, 1)
				if bad["dI"] == r.DI {
					continue
				}
				out = append(out, bad)
				fr.sessSab = base - 1
				break
			}
		}
		if fr.sessSab == 0 {
			return nil, fmt.Errorf("vacuous binding: no session observation of a named function holds")
		}
		return out, nil
	}
}

// fnSessionReport: verdicts of the session records (TLC's), attribution, failures.
func (fr *fmtRun) fnSessionReport(other map[int]bool) error {
	c := fr.c
	if ok, seen := other[fr.sessSab]; !seen || ok {
		return fmt.Errorf("vacuous binding: a session record whose read-back function has another name was accepted by Format_Trace")
	}
	clusters := map[string]int{}
	defer func() {
		if os.Getenv("VERIF_FMT_DUMP") != "" {
			fmt.Println("FNSESS clusters (signature, route, definitions of the history):", clusters)
		}
	}()
	for i, r := range fr.sessItems {
		ok, seen := other[fr.sessID[i]]
		if !seen {
			return fmt.Errorf("no verdict for session record %d", i)
		}
		c.AddTraces(1)
		if ok {
			continue
		}
		sig, note := fsAttribute(r)
		key := sig + " " + r.Via
		for _, op := range r.Hist {
			switch op.Op {
			case "named", "lam", "alias", "new":
				key += fmt.Sprintf(" %s:%s%d%d", op.Op, op.N, op.S, op.B)
			}
		}
		clusters[key]++
		text := r.Text
		if len(text) > 300 {
			text = text[:300] + "..."
		}
		c.Fail(sig, fmt.Sprintf("session %s: %s wrote %q, which does not read back as the function bound to %s (%s) %s", r.Src, r.Via, text, r.Name, r.Texts.literal(fsExpOf(r).F), note),
			map[string]any{"check": "fnsess", "hist": r.Hist, "texts": r.Texts, "at": r.At, "name": r.Name})
	}
	return nil
}

func fsExpOf(r *fsRec) fsExp {
	for _, e := range r.Hist[r.At].Exp {
		if e.N == r.Name {
			return e
		}
	}
	return fsExp{}
}

// fsAttribute: the observation fails in its history; does the same function, defined alone in a fresh interpreter (with
// a body number no other history uses, so that nothing printed before has its text), print right by the same route?
// Then the history is the cause. Otherwise the function value itself is not printed right: attributed like the
// single function values.
func fsAttribute(r *fsRec) (string, string) {
	e := fsExpOf(r)
	// an earlier save + load with the alias hazard: the same history with those saves taken out (the session stays in the
	// interpreter it was in) - does the observation hold then?
	hazard := false
	without := append([]fsOp{}, r.Hist...)
	for j := 0; j < r.At; j++ {
		if fsAliasHazard(r.Hist[j]) {
			hazard = true
			without[j] = fsOp{Op: "skip"}
		}
	}
	if hazard {
		if recs, infra := fsReplay(without, r.Texts); infra == "" {
			for i := range recs {
				if recs[i].At == r.At && recs[i].Name == r.Name && fnLawGo(&recs[i].fnRec) {
					return sigSavedAlias, "[the same history without the earlier save + load of a named function held under another name is written correctly]"
				}
			}
		}
	}
	alone := r.Texts
	alone.Tag = 900000 + r.Texts.Tag
	var hist []fsOp
	if e.F.Name != "" {
		hist = append(hist, fsOp{Op: "named", N: e.F.Name, S: e.F.Sig, B: e.F.Body})
		if e.N != e.F.Name {
			hist = append(hist, fsOp{Op: "alias", N: e.N, T: e.F.Name})
		}
	} else {
		hist = append(hist, fsOp{Op: "lam", N: e.N, S: e.F.Sig, B: e.F.Body})
	}
	obsOp := fsOp{Op: "print", N: e.N, Exp: []fsExp{e}}
	if r.Via == "session-save" {
		obsOp = fsOp{Op: "save", Exp: []fsExp{e}}
	}
	hist = append(hist, obsOp)
	recs, infra := fsReplay(hist, alone)
	if infra == "" {
		for i := range recs {
			if recs[i].Name == e.N && fnLawGo(&recs[i].fnRec) {
				return sigFnSession, "[alone in a fresh interpreter the same definition is written correctly]"
			}
		}
	}
	return "fmt-function-value-" + r.Via + "-unexplained", "[fails alone in a fresh interpreter too]"
}

// replayFnSession re-runs the recorded history and judges the recorded observation (replay files).
func replayFnSession(rp map[string]any) (bool, string) {
	b, _ := json.Marshal(rp)
	var x struct {
		Hist  []fsOp  `json:"hist"`
		Texts fsTexts `json:"texts"`
		At    int     `json:"at"`
		Name  string  `json:"name"`
	}
	if err := json.Unmarshal(b, &x); err != nil {
		return true, "unreadable replay: " + err.Error()
	}
	recs, infra := fsReplay(x.Hist, x.Texts)
	if infra != "" {
		return true, infra
	}
	for i := range recs {
		if recs[i].At == x.At && recs[i].Name == x.Name && !fnLawGo(&recs[i].fnRec) {
			return false, fmt.Sprintf("%s: %s wrote %q", recs[i].Src, recs[i].Via, recs[i].Text)
		}
	}
	return true, ""
}
