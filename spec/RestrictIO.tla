----------------------------- MODULE RestrictIO -----------------------------
(* C17 - restricted IO confines file access to plain .gr names in the current
   directory.

   What is modelled (extensions/extension.go, shell.go, images.go, main.go):

     configuration   process-wide flags chosen once at extensions.Init:
                       unres  Config.UnrestrictedIOs    (main.go: NOT -restrict-io)
                       empty  Config.LoadSaveEmptyOnly  (main.go: -empty-only)
                       ls     Config.HasLoad/HasSave    (main.go: NOT -no-load-save)
                     the four named configurations of the property are rows of Flags.
     sanitiser       San(flags, hasArg, name): names are sequences of byte values;
                     no argument -> ".gr"; empty-only accepts only the empty name;
                     unrestricted passes the name through; otherwise strip ONE ".gr"
                     suffix, require identifier bytes [A-Za-z0-9_] only, re-append ".gr".
     operating system  a path string is resolved against the current directory in a
                     small tree of directories (Dirs); the empty path and paths with a
                     NUL byte are refused; "." ".." "//" are resolved; intermediate
                     components must be existing directories.  There are no symbolic
                     links and grol cannot create directories.
     file system     fs: file id (absolute component list) -> content ("init" for seeded
                     files, "saved" for files written by save).  Two initial trees:
                     tree 0 holds only sentinel files outside the allowed set (parent
                     directories, sub-directories, root, names with dots, hidden names,
                     un-suffixed names ...), tree 1 additionally holds files of the
                     allowed set and one more foreign file, tree 2 (fault tree) is tree 0
                     with DIRECTORIES where accepted names point (d.gr e.gr .gr grol.png).
     operations      Save(name), Load(name) (absent when ls is off), ImageSave(img)
                     (always ./grol.png whatever the image is called), Exec (exists
                     only when unres; may touch any file).

   acc is the access log: every file created, truncated, read, and every file an
   open was *attempted* on.  The property is stated on it:

     Confined        restricted => every logged file is <cwd>/<ident>.gr
                     (<cwd>/.gr only in empty-only mode) or <cwd>/grol.png
     ExecAbsent      restricted => no exec/run access ever happens
     NameOnly        the accept/reject decision of every request made equals the
                     decision the same request gets on an empty file system
                     (action property: checked on every explored transition)
     RejectNoEffect  a rejected request changes neither fs nor acc (action property)
     FailNoEffect    a request that fails for any reason (refused, or accepted and then refused by the
                     operating system: target is a directory, name too long) leaves fs unchanged
     NoLoadSave      with ls off Save/Load are never enabled (checked through acc)

   Deviation names one deliberately broken variant of the mechanism; "none" is the
   code as written.  With any other value TLC must find the stated property violated
   (design-level non-vacuity, run by the harness):
     AllowDot           '.' counts as an identifier byte           -> Confined
     OpenRaw            validates the stripped name, opens the raw -> Confined
     LoadUnsanitized    load skips the sanitiser                   -> Confined
     EmptyOnlyIgnored   the empty-only flag is ignored             -> Confined
     ExistingBypass     a name that exists as a file is accepted   -> NameOnly
     CreateBeforeCheck  save creates the raw path, then validates  -> RejectNoEffect
     ExecWhenRestricted exec registered whatever the flags         -> ExecAbsent
     TempLeftOnFailure  save via temp file + rename, temp file
                        left behind when the rename is refused      -> FailNoEffect (and Confined)
     StripAll           every ".gr" suffix is stripped (loop)      -> nothing: keeps the property

   GEN: hist/last are history variables outside the VIEW; every transition is emitted
   with its witness history and the model's prediction as one JSON line; Init emits the
   initial trees, which the harness builds on the real file system.  `shard` only
   partitions the exhaustive name set over several initial states (TLC parallelism).   *)
EXTENDS Integers, Sequences, FiniteSets, TLC, Json, GrolPrims

CONSTANTS Alphabet,    \* byte values names are built from
          MaxLen,      \* names: every byte sequence over Alphabet of length 0..MaxLen, plain and with ".gr" appended
          ExtraNames,  \* pinned additional names (set of byte sequences), asked in every tree
          SweepNames,  \* further pinned names asked in trees 0 and 1 only (large families, e.g. the 256-byte sweep)
          ImgNames,    \* image names used by ImageSave (set of byte sequences)
          Configs,     \* subset of DOMAIN Flags
          Trees,       \* subset of {0, 1}
          MaxOps,      \* history length bound
          Shards,      \* >= 1: the exhaustive names are partitioned over Shards initial states by their first byte
                       \* (parallelism for the depth-1 runs; use 1 when MaxOps > 1)
          Deviation,   \* "none" or a deviation name, see above
          EmitOn       \* BOOLEAN

VARIABLES cfg, tree, shard, fs, acc, hist, last
vars == <<cfg, tree, shard, fs, acc, hist, last>>
view == <<cfg, tree, shard, fs, acc>>

\* ------------------------------------------------------------------ configuration
Flags == [ unrestricted |-> [unres |-> TRUE,  empty |-> FALSE, ls |-> TRUE ],
           restricted   |-> [unres |-> FALSE, empty |-> FALSE, ls |-> TRUE ],
           emptyonly    |-> [unres |-> FALSE, empty |-> TRUE,  ls |-> TRUE ],
           disabled     |-> [unres |-> FALSE, empty |-> FALSE, ls |-> FALSE],
           unres_empty  |-> [unres |-> TRUE,  empty |-> TRUE,  ls |-> TRUE ] ]   \* -empty-only without -restrict-io
F == Flags[cfg]
Restricted == ~F.unres

\* ------------------------------------------------------------------ bytes
B(s)  == StrBytes(s)              \* "a.gr" -> <<97,46,103,114>>
Gr    == <<46, 103, 114>>         \* ".gr"
Slash == 47
IsIdByte(b) == \/ b \in 48..57 \/ b \in 65..90 \/ b \in 97..122 \/ b = 95
              \/ (Deviation = "AllowDot" /\ b = 46)
HasGr(s)    == Len(s) >= 3 /\ SubSeq(s, Len(s) - 2, Len(s)) = Gr
StripOne(s) == IF HasGr(s) THEN SubSeq(s, 1, Len(s) - 3) ELSE s
RECURSIVE StripAll(_)
StripAll(s) == IF HasGr(s) THEN StripAll(SubSeq(s, 1, Len(s) - 3)) ELSE s
Strip(s)    == IF Deviation = "StripAll" THEN StripAll(s) ELSE StripOne(s)
AllId(s)    == \A i \in 1..Len(s) : IsIdByte(s[i])

\* ------------------------------------------------------------------ sanitiser
Rej      == [ok |-> FALSE, path |-> <<>>]
Acc(p)   == [ok |-> TRUE,  path |-> p]
San(fl, hasArg, name) ==
  IF ~hasArg THEN Acc(Gr)
  ELSE IF fl.empty /\ Deviation # "EmptyOnlyIgnored" /\ name # <<>> THEN Rej
  ELSE IF fl.unres THEN Acc(name)
  ELSE LET f == Strip(name) IN
       IF AllId(f) THEN Acc(IF Deviation = "OpenRaw" THEN name ELSE f \o Gr) ELSE Rej

\* ------------------------------------------------------------------ operating system
\* directory tree (absolute component lists); the current directory is three levels deep so that
\* no relative name of the explored length leaves the modelled tree
D1 == B("l1")   D2 == B("l2")   D3 == B("cwd")
Cwd == <<D1, D2, D3>>
SubDirNames == {B("a"), B("0"), B("_"), B("~"), B(" "), B("\\"), B("sub"), <<233>>}
BaseDirs == {<<>>, <<D1>>, <<D1, D2>>, Cwd} \cup {Append(Cwd, d) : d \in SubDirNames}
\* tree 2 (the fault tree): the targets of some accepted names exist as DIRECTORIES, so that the request passes the
\* sanitiser and fails in the operating system (EISDIR): d.gr empty, e.gr and .gr non-empty, grol.png for image.save
FaultDirs == {Append(Cwd, n) : n \in {B("d.gr"), B("e.gr"), B(".gr"), B("grol.png")}}
DirsOf(t) == IF t = 2 THEN BaseDirs \cup FaultDirs ELSE BaseDirs
Dirs == DirsOf(tree)
NameMax == 255   \* longest file-name component the OS takes (ENAMETOOLONG beyond)

RECURSIVE SplitAt(_, _, _)
SplitAt(s, i, cur) ==   \* components of s separated by '/', including empty ones
  IF i > Len(s) THEN <<cur>>
  ELSE IF s[i] = Slash THEN <<cur>> \o SplitAt(s, i + 1, <<>>)
  ELSE SplitAt(s, i + 1, Append(cur, s[i]))

Dot == <<46>>   DotDot == <<46, 46>>
\* walk: returns [ok, at] where at is the component list reached; every prefix walked through must be a directory
RECURSIVE Walk(_, _, _)
Walk(at, comps, i) ==
  IF i > Len(comps) THEN [ok |-> TRUE, at |-> at]
  ELSE IF at \notin Dirs THEN [ok |-> FALSE, at |-> at]      \* ENOTDIR / ENOENT
  ELSE LET c == comps[i] IN
       IF Len(c) > NameMax THEN [ok |-> FALSE, at |-> Append(at, c)]     \* ENAMETOOLONG (the attempt is on that name)
       ELSE IF c = <<>> \/ c = Dot THEN Walk(at, comps, i + 1)
       ELSE IF c = DotDot THEN Walk(IF at = <<>> THEN at ELSE SubSeq(at, 1, Len(at) - 1), comps, i + 1)
       ELSE Walk(Append(at, c), comps, i + 1)

HasNul(p) == \E i \in 1..Len(p) : p[i] = 0
\* the file a path string denotes: [ok, file]; not ok = the OS refuses the string whatever the file system holds
Resolve(p) ==
  IF p = <<>> \/ HasNul(p) THEN [ok |-> FALSE, file |-> <<>>]
  ELSE LET comps == SplitAt(p, 1, <<>>)
           start == IF p[1] = Slash THEN <<>> ELSE Cwd
           w     == Walk(start, comps, 1)
           last_ == comps[Len(comps)]
       IN IF ~w.ok \/ w.at \in Dirs \/ last_ \in {<<>>, Dot, DotDot}   \* names a directory: neither created nor read as a file
          THEN [ok |-> FALSE, file |-> w.at]
          ELSE [ok |-> TRUE, file |-> w.at]

\* ------------------------------------------------------------------ the allowed set
IsPlainGr(n) == HasGr(n) /\ \A i \in 1..(Len(n) - 3) : (n[i] \in 48..57 \/ n[i] \in 65..90 \/ n[i] \in 97..122 \/ n[i] = 95)
Allowed(c, file) ==
  /\ Len(file) = Len(Cwd) + 1 /\ SubSeq(file, 1, Len(Cwd)) = Cwd
  /\ LET n == file[Len(file)] IN
       \/ n = B("grol.png")
       \/ (IF Flags[c].empty THEN n = Gr ELSE IsPlainGr(n))

\* ------------------------------------------------------------------ initial trees
InCwd(n) == Append(Cwd, n)
Sentinels0 ==
  {<<B(".gr")>>, <<B("a.gr")>>, <<D1, B(".gr")>>, <<D1, B("a.gr")>>,               \* ../../  and ../../../
   <<D1, D2, B(".gr")>>, <<D1, D2, B("a.gr")>>, <<D1, D2, B("0.gr")>>, <<D1, D2, B("_.gr")>>, <<D1, D2, B("a")>>}  \* ../
  \cup {<<D1, D2, D3, d, n>> : d \in SubDirNames, n \in {B(".gr"), B("a.gr"), B("a")}}                \* sub-directories
  \cup {InCwd(n) : n \in {B("a.b.gr"), B("..gr"), B("...gr"), B(".a.gr"), B("a..gr"), B("a.gr.gr"),  \* dots
                          B("aa"), B("a0"), B("0a"), B("__"), B("a.g"), B("a.txt"), B("gr"),         \* no / other suffix
                          B("a .gr"), B(" .gr"), B(" a.gr"), B("~.gr"), B("~a.gr"), B("a~.gr"),
                          B("\\.gr"), B("a\\.gr"), B("\\a.gr"), <<233, 46, 103, 114>>, <<97, 233, 46, 103, 114>>}}
AllowedFiles1 == {InCwd(n) : n \in {B(".gr"), B("a.gr"), B("0.gr"), B("_.gr"), B("a0_.gr"), B("grol.png")}}
Sentinels1 == Sentinels0 \cup {InCwd(B("a~")), InCwd(B("a.")), InCwd(B(".a"))}
Sentinels2 == Sentinels0 \cup {Append(InCwd(B("e.gr")), B("a.gr")), Append(InCwd(B(".gr")), B("a.gr"))}
FilesOf(t) == CASE t = 0 -> Sentinels0
                [] t = 1 -> Sentinels1 \cup AllowedFiles1
                [] t = 2 -> Sentinels2
InitFS(t) == [f \in FilesOf(t) |-> "init"]
EmptyFS == [f \in {} |-> "init"]
ASSUME \A t \in 0..2 : FilesOf(t) \cap DirsOf(t) = {}    \* a path is a file or a directory, not both
ASSUME \A t \in 0..2 : \A f \in FilesOf(t) : SubSeq(f, 1, Len(f) - 1) \in DirsOf(t)
ASSUME \A t \in 0..2 : \A d \in DirsOf(t) : d = <<>> \/ SubSeq(d, 1, Len(d) - 1) \in DirsOf(t)
ASSUME \A c \in DOMAIN Flags : \A f \in Sentinels1 \cup Sentinels2 : ~Allowed(c, f)   \* sentinels are outside every allowed set

\* ------------------------------------------------------------------ decisions and effects
\* the decision taken for a request in file-system state g
Decide(fl, g, op, hasArg, name) ==
  LET s == IF op = "load" /\ Deviation = "LoadUnsanitized" /\ hasArg THEN Acc(name) ELSE San(fl, hasArg, name)
      r == Resolve(name)
  IN IF Deviation = "ExistingBypass" /\ hasArg /\ ~s.ok /\ r.ok /\ r.file \in DOMAIN g THEN Acc(name) ELSE s

Ev(k, f) == [k |-> k, f |-> f]
\* effect of create-or-truncate on path string p: <<fs', accesses, oserr>>
DoCreate(g, p) ==
  LET r == Resolve(p) IN
  IF ~r.ok THEN <<g, IF p = <<>> \/ HasNul(p) THEN {} ELSE {Ev("attempt", r.file)}, TRUE>>
  ELSE IF r.file \in DOMAIN g THEN <<[g EXCEPT ![r.file] = "saved"], {Ev("trunc", r.file)}, FALSE>>
  ELSE <<(r.file :> "saved") @@ g, {Ev("create", r.file)}, FALSE>>
\* save: the code creates/truncates the target directly.  Deviation TempLeftOnFailure writes a temporary file next to
\* it and renames it over the target, and forgets the temporary file when the rename is refused.
TmpFile == InCwd(B(".grol0.tmp"))
DoSave(g, p) ==
  LET e == DoCreate(g, p) IN
  IF Deviation = "TempLeftOnFailure" /\ e[3] /\ e[2] # {}
  THEN <<(TmpFile :> "saved") @@ g, e[2] \cup {Ev("create", TmpFile)}, TRUE>>
  ELSE e
DoRead(g, p) ==
  LET r == Resolve(p) IN
  IF ~r.ok THEN <<g, IF p = <<>> \/ HasNul(p) THEN {} ELSE {Ev("attempt", r.file)}, TRUE>>
  ELSE IF r.file \in DOMAIN g THEN <<g, {Ev("read", r.file)}, FALSE>>
  ELSE <<g, {Ev("attempt", r.file)}, TRUE>>

Room == Len(hist) < MaxOps

JBool(b) == IF b THEN 1 ELSE 0
\* the file an accepted request is directed to (<<>> when rejected or when the OS refuses the path string)
Target(d) == LET r == Resolve(d.path) IN IF d.ok /\ r.ok THEN r.file ELSE <<>>
Emit(op, hasArg, name, d, eff) ==
  EmitOn => EmitLine(ToJson([c |-> cfg, t |-> tree, h |-> hist, o |-> op, g |-> JBool(hasArg), n |-> name,
                             ok |-> JBool(d.ok), p |-> d.path,
                             f |-> Target(d),
                             oserr |-> JBool(eff[3]),
                             ev |-> {<<e.k, e.f>> : e \in eff[2]}]))

Request(op, hasArg, name) ==
  /\ Room
  /\ F.ls                                   \* save/load exist only when enabled
  /\ LET d    == Decide(F, fs, op, hasArg, name)
         dref == Decide(F, EmptyFS, op, hasArg, name)
         pre  == IF op = "save" /\ Deviation = "CreateBeforeCheck" /\ hasArg THEN DoCreate(fs, name) ELSE <<fs, {}, FALSE>>
         eff  == IF ~d.ok THEN <<pre[1], pre[2], TRUE>>
                 ELSE IF op = "save" THEN LET e == DoSave(pre[1], d.path) IN <<e[1], e[2] \cup pre[2], e[3]>>
                 ELSE DoRead(pre[1], d.path)
     IN /\ fs'   = eff[1]
        /\ acc'  = acc \cup eff[2]
        /\ last' = [op |-> op, ok |-> d.ok, okref |-> dref.ok, failed |-> eff[3]]
        /\ hist' = Append(hist, [o |-> op, g |-> JBool(hasArg), n |-> name, ok |-> JBool(d.ok), f |-> Target(d)])
        /\ Emit(op, hasArg, name, d, eff)
  /\ UNCHANGED <<cfg, tree, shard>>

\* save/load called although the configuration has no such function: nothing happens
AbsentCall(op, name) ==
  /\ Room /\ ~F.ls
  /\ last' = [op |-> op, ok |-> FALSE, okref |-> FALSE, failed |-> TRUE]
  /\ hist' = Append(hist, [o |-> op, g |-> 1, n |-> name, ok |-> 0, f |-> <<>>])
  /\ Emit(op, TRUE, name, Rej, <<fs, {}, TRUE>>)
  /\ UNCHANGED <<cfg, tree, shard, fs, acc>>

ImageSave(img) ==
  /\ Room
  /\ LET e == DoCreate(fs, B("grol.png"))
     IN /\ fs' = e[1] /\ acc' = acc \cup e[2]
        /\ last' = [op |-> "image", ok |-> TRUE, okref |-> TRUE, failed |-> e[3]]
        /\ hist' = Append(hist, [o |-> "image", g |-> 1, n |-> img, ok |-> 1, f |-> InCwd(B("grol.png"))])
        /\ Emit("image", TRUE, img, Acc(B("grol.png")), e)
  /\ UNCHANGED <<cfg, tree, shard>>

ExecExists == F.unres \/ Deviation = "ExecWhenRestricted"
\* exec/run: when present the program reaches any file; modelled as an access to the root sentinel
Exec ==
  /\ Room
  /\ IF ExecExists
     THEN /\ acc' = acc \cup {Ev("exec", <<B("a.gr")>>)}
          /\ fs' = [fs EXCEPT ![<<B("a.gr")>>] = "saved"]
          /\ last' = [op |-> "exec", ok |-> TRUE, okref |-> TRUE, failed |-> FALSE]
     ELSE /\ UNCHANGED <<fs, acc>>
          /\ last' = [op |-> "exec", ok |-> FALSE, okref |-> FALSE, failed |-> TRUE]
  /\ hist' = Append(hist, [o |-> "exec", g |-> 0, n |-> <<>>, ok |-> JBool(ExecExists), f |-> <<>>])
  /\ (EmitOn => EmitLine(ToJson([c |-> cfg, t |-> tree, h |-> hist, o |-> "exec", g |-> 0, n |-> <<>>,
                                 ok |-> JBool(ExecExists), p |-> <<>>, f |-> <<>>, oserr |-> 0, ev |-> {}])))
  /\ UNCHANGED <<cfg, tree, shard>>

Init == /\ cfg \in Configs /\ tree \in Trees /\ shard \in 0..(Shards - 1)
        /\ fs = InitFS(tree) /\ acc = {} /\ hist = <<>>
        /\ (tree = 2 => shard = 0)
        /\ last = [op |-> "init", ok |-> TRUE, okref |-> TRUE, failed |-> FALSE]
        \* GEN: the initial trees are part of what the harness builds on the real file system
        /\ (EmitOn /\ shard = 0) =>
              EmitLine(ToJson([init |-> tree, c |-> cfg, files |-> DOMAIN fs, dirs |-> Dirs, cwd |-> Cwd]))

\* every name of the exhaustive set (plain and with ".gr" appended) exactly once over all shards, then the pinned ones
ShardOf(b) == Cardinality({x \in Alphabet : x < b}) % Shards
AnyName(P(_)) ==
  \/ /\ tree # 2          \* the fault tree is explored with the pinned names only
     /\ \E n \in 1..MaxLen : \E b \in {x \in Alphabet : ShardOf(x) = shard} : \E s \in [1..(n - 1) -> Alphabet] :
          LET nm == <<b>> \o s IN P(nm) \/ P(nm \o Gr)
  \/ /\ shard = 0
     /\ (P(<<>>) \/ P(Gr) \/ (\E s \in ExtraNames : P(s)) \/ (tree # 2 /\ \E s \in SweepNames : P(s)))

(* extensions.Init "can be called multiple times safely": the configuration of the FIRST call stays in force whatever a later
   call asks for (a stuttering step of this specification: cfg is chosen once, in Init). The deviation - the flags of the
   last call win - would make cfg a variable that any step can change; the harness checks the real code against the stuttering
   reading by calling Init again, with the most and the least permissive configurations, in every second child. *)
Reinit == UNCHANGED vars

Next ==
  /\ Room                                   \* (first, so that full histories are not expanded name by name)
  /\ \/ /\ F.ls
        /\ \E op \in {"save", "load"} : AnyName(LAMBDA s : Request(op, TRUE, s)) \/ (shard = 0 /\ Request(op, FALSE, <<>>))
     \/ /\ ~F.ls
        /\ \E op \in {"save", "load"} : AnyName(LAMBDA s : AbsentCall(op, s))
     \/ shard = 0 /\ \E img \in ImgNames : ImageSave(img)
     \/ shard = 0 /\ Exec

Spec == Init /\ [][Next]_vars

\* ------------------------------------------------------------------ properties
Confined   == Restricted => \A a \in acc : Allowed(cfg, a.f)
ExecAbsent == Restricted => \A a \in acc : a.k # "exec"
NoLoadSave == ~F.ls => \A a \in acc : a.f = InCwd(B("grol.png")) \/ a.k = "exec"
NameOnly       == [][last'.ok = last'.okref]_vars
RejectNoEffect == [][~last'.ok => (fs' = fs /\ acc' = acc)]_vars
\* a request that fails - refused by the sanitiser or by the operating system - leaves the file system as it was
FailNoEffect   == [][last'.failed => fs' = fs]_vars
=============================================================================
