----------------------------- MODULE GrolOrder -----------------------------
(* The DOCUMENTED order and equality of grol values (DESIGN.md 3.1; object.Cmp /
   object.Equals are the code under test, this module is what they are meant to be).

   Abstract values are records (all JSON-able, see OrderLaws!OrderUniverse):
     [t |-> "int",   v |-> "-9223372036854775808"]    64-bit integer as a decimal string
     [t |-> "float", v |-> "3ff0000000000000"]        IEEE-754 binary64 as 16 hex digits
     [t |-> "bool",  v |-> TRUE]
     [t |-> "nil"]
     [t |-> "func",  v |-> "x=>x", ...]               the normalised (compact printed) text
     [t |-> "str",   v |-> "ab"]                      bytes carried as characters
     [t |-> "arr",   v |-> <<e1, .., en>>]
     [t |-> "map",   v |-> << <<k1, v1>>, .., <<kn, vn>> >>]   keys strictly ascending by Cmp
     [t |-> "quote", v |-> "quote(1 + 2)", ...]       quoted code: its printed text
     [t |-> "ext",   v |-> "sin", ...]                a built-in (Go) function: its name
   (quotes and built-ins are first-class too: a program can bind, store and compare them)
   A record may carry further fields (src: the source that makes it; how, ep: its construction
   history, see OrderLaws); the order reads t and v only.

   Cmp(a, b) \in {-1, 0, 1}:
     * type rank first, in the order of object.Type:
         INTEGER ~ FLOAT  <  BOOLEAN  <  NIL  <  FUNC  <  STRING  <  ARRAY  <  MAP  <  QUOTE  <  EXTENSION
       (integers and floats form ONE numeric class);
     * numbers by their exact mathematical value, across int and float (no rounding
       of the integer to a float): NaN is below every other number and equal to
       itself, -0 = +0, -Inf < every integer < +Inf;
     * false < true;  nil = nil;  functions and quotes by their text;  built-ins by name;
       strings bytewise;
     * arrays: the shorter is smaller; equal lengths compare element by element;
     * maps: the smaller is smaller; equal sizes compare key1, value1, key2, value2 ..
       in key order.
   Cmp is a total preorder (OrderLaws.tla model-checks that on its universe); its
   equivalence Cmp = 0 is what map keys are unique up to, so 1 and 1.0 are the same key.

   Equals(a, b) is the language's == : same type (integer and float are DIFFERENT
   here: 1 == 1.0 is false although Cmp(1, 1.0) = 0) and Cmp = 0.  Only the outermost
   type is looked at, as in the code: [1] == [1.0] is true.

   Scalar comparisons come from GrolPrims (Java override): I64Cmp, F64Cmp (Go
   cmp.Compare on float64), NumCmpExact (int64 against float64, exact), StrCmp.

   The module is self-contained (GrolPrims only) so that the reference evaluator can
   reuse Cmp, Equals, Min2/Max2 and the sorted-map helpers MapGet / MapSet / MapOf.   *)
EXTENDS Integers, Sequences, GrolPrims

IsNum(a) == a.t \in {"int", "float"}

\* position of the type class in object.Type (only the relative order matters)
Rank(a) ==
  CASE a.t \in {"int", "float"} -> 1
    [] a.t = "bool"  -> 3
    [] a.t = "nil"   -> 4
    [] a.t = "func"  -> 7
    [] a.t = "str"   -> 8
    [] a.t = "arr"   -> 9
    [] a.t = "map"   -> 10
    [] a.t = "quote" -> 11
    [] a.t = "ext"   -> 13

\* exact numeric comparison across the two representations
NumCmp(a, b) ==
  IF a.t = "int"
  THEN IF b.t = "int" THEN I64Cmp(a.v, b.v) ELSE NumCmpExact(a.v, b.v)
  ELSE IF b.t = "int" THEN 0 - NumCmpExact(b.v, a.v) ELSE F64Cmp(a.v, b.v)

RECURSIVE Cmp(_, _), CmpSeq(_, _, _), CmpPairs(_, _, _)

Cmp(a, b) ==
  IF IsNum(a) /\ IsNum(b) THEN NumCmp(a, b)
  ELSE IF Rank(a) < Rank(b) THEN -1
  ELSE IF Rank(a) > Rank(b) THEN 1
  ELSE CASE a.t = "bool" -> IF a.v = b.v THEN 0 ELSE IF a.v THEN 1 ELSE -1
         [] a.t = "nil"  -> 0
         [] a.t = "func" -> StrCmp(a.v, b.v)
         [] a.t = "str"  -> StrCmp(a.v, b.v)
         [] a.t \in {"quote", "ext"} -> StrCmp(a.v, b.v)
         [] a.t = "arr"  -> IF Len(a.v) < Len(b.v) THEN -1
                            ELSE IF Len(a.v) > Len(b.v) THEN 1
                            ELSE CmpSeq(a.v, b.v, 1)
         [] a.t = "map"  -> IF Len(a.v) < Len(b.v) THEN -1
                            ELSE IF Len(a.v) > Len(b.v) THEN 1
                            ELSE CmpPairs(a.v, b.v, 1)

\* element-wise comparison of two sequences of equal length, from position i
CmpSeq(s, t, i) ==
  IF i > Len(s) THEN 0
  ELSE LET c == Cmp(s[i], t[i]) IN IF c # 0 THEN c ELSE CmpSeq(s, t, i + 1)

\* key, value, key, value .. of two pair sequences of equal length, from position i
CmpPairs(s, t, i) ==
  IF i > Len(s) THEN 0
  ELSE LET ck == Cmp(s[i][1], t[i][1]) IN
       IF ck # 0 THEN ck
       ELSE LET cv == Cmp(s[i][2], t[i][2]) IN
            IF cv # 0 THEN cv ELSE CmpPairs(s, t, i + 1)

\* the language's ==
Equals(a, b) == a.t = b.t /\ Cmp(a, b) = 0

\* min / max of two values as the library computes them (the first argument wins ties)
Min2(a, b) == IF Cmp(b, a) < 0 THEN b ELSE a
Max2(a, b) == IF Cmp(b, a) > 0 THEN b ELSE a

\* ------------------------------------------------------------------ sorted maps
\* number of keys of the pair sequence m that are strictly below k (= insertion index - 1)
RECURSIVE MapBelow(_, _, _)
MapBelow(m, k, i) ==
  IF i > Len(m) \/ Cmp(m[i][1], k) >= 0 THEN i - 1 ELSE MapBelow(m, k, i + 1)

MapHas(m, k) == LET p == MapBelow(m, k, 1) + 1 IN p <= Len(m) /\ Cmp(m[p][1], k) = 0
MapGet(m, k) == m[MapBelow(m, k, 1) + 1][2]             \* only when MapHas(m, k)

\* set key k to value v: an equivalent key keeps its place and its first spelling
\* (1 stays 1 when 1.0 is assigned), only the value is replaced
MapSet(m, k, v) ==
  LET p == MapBelow(m, k, 1) + 1 IN
  IF p <= Len(m) /\ Cmp(m[p][1], k) = 0
  THEN [m EXCEPT ![p] = <<m[p][1], v>>]
  ELSE SubSeq(m, 1, p - 1) \o << <<k, v>> >> \o SubSeq(m, p, Len(m))

\* the pair sequence obtained by setting the pairs of `prs` left to right (a map literal)
RECURSIVE MapOfFrom(_, _, _)
MapOfFrom(acc, prs, i) ==
  IF i > Len(prs) THEN acc ELSE MapOfFrom(MapSet(acc, prs[i][1], prs[i][2]), prs, i + 1)
MapOf(prs) == MapOfFrom(<<>>, prs, 1)
=============================================================================
