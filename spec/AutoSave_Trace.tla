--------------------------- MODULE AutoSave_Trace ---------------------------
(* Trace validation for C18: what real runs of repl.AutoSave did, recorded by
   harness/c18.go (hook events of object.VerifHook with a directory listing taken at
   that instant, the return of AutoSave, the directory after the child died, what a
   fresh process auto-loaded), is checked against AutoSave.tla.

   One line per event, runs are concatenated (every run starts with "begin"):
     {"e":"begin","old":file,"new":[lines],"changed":bool,"ls":listing}
     {"e":"hook","p":"autosave.start"|"autosave.created"|"save.binding"|"autosave.written"|"autosave.renamed","n":k,"ls":listing}
     {"e":"ret","err":bool,"ls":listing}      AutoSave returned
     {"e":"crash","ls":listing}               the process was killed; listing taken by the parent
     {"e":"exit","ls":listing}                the process ended by itself; listing taken by the parent
     {"e":"boot","ls":listing}                the next process was started in the directory (the grol binary, or
                                              the repl API, which has no start-up code); listing after its start-up
     {"e":"load","lines":[lines]}             SaveGlobals of a fresh process after AutoLoad
   listing = [gr |-> file, t1 |-> file, ..] (temp files named in order of appearance),
   file = [ex, ls], line = [k, v, s, t] (s = shape, see AutoSave.tla); bytes that are no known binding
   line arrive as k = 0, s = "".

   An event is accepted when the spec action it names is enabled in the current state
   and the state file in the action's successor state equals the recorded one
   (StrictTemp = TRUE: the temp files as well - a diagnostic, the property is about
   "gr").  So a run whose steps are in another order (rename before the last write,
   write into the state file, carry on after a failed write) is rejected at the first
   event the specification cannot explain, and Atomic / FailedLeavesOld are evaluated
   by TLC on the recorded states.                                                       *)
EXTENDS AutoSave

CONSTANT StrictTemp
VARIABLE l
Trace == ndJsonDeserialize("autosave_trace.ndjson")

tvars == <<vars, l>>

Ev == Trace[l]
IsEvent(e) == l <= Len(Trace) /\ Ev.e = e
IsHook(p)  == IsEvent("hook") /\ Ev.p = p

Seen(ls) == /\ disk'[GR] = ls[GR]
            /\ (StrictTemp => \A f \in FileNames : disk'[f] = ls[f])

TraceInit ==
  /\ l = 1
  /\ disk = [f \in FileNames |-> NoFile] /\ tmp = "none" /\ pc = "end" /\ old = NoFile /\ new = <<>>
  /\ written = 0 /\ alive = FALSE /\ changed = FALSE /\ loaded = <<>> /\ session = 1 /\ hist = <<>>

TraceBegin ==
  /\ IsEvent("begin")
  /\ Ev.ls[GR] = Ev.old
  /\ DOMAIN Ev.ls = FileNames
  /\ disk' = [f \in FileNames |-> Ev.ls[f]]
  /\ old' = Ev.old /\ new' = Ev.new /\ changed' = Ev.changed
  /\ tmp' = "none" /\ pc' = "idle" /\ written' = 0 /\ alive' = TRUE
  /\ loaded' = Ev.old.ls /\ session' = 1 /\ hist' = <<>>

\* a write torn by death or by a failing write(2): WriteTorn followed by Crash / WriteFails
TornThen(nextpc, nextalive) ==
  /\ alive /\ pc = "write" /\ written < Len(new) /\ ~IsTorn(disk[tmp])
  /\ disk' = [disk EXCEPT ![tmp] = File(Append(disk[tmp].ls, Torn(new[written + 1])))]
  /\ pc' = nextpc /\ alive' = nextalive
  /\ UNCHANGED <<tmp, old, new, written, changed, loaded, session, hist>>

TraceHook ==
  \/ IsHook("autosave.start")   /\ Start
  \/ IsHook("autosave.created") /\ CreateTemp
  \/ IsHook("save.binding")     /\ WriteBinding /\ written' = Ev.n
  \/ IsHook("autosave.written") /\ WriteDone /\ Ev.n = Len(new)
  \/ IsHook("autosave.renamed") /\ Rename

TraceRet ==
  /\ IsEvent("ret")
  /\ IF Ev.err
     THEN CreateFails \/ WriteFails \/ RenameFails \/ TornThen("failed", TRUE)
     ELSE IF pc = "idle" THEN Skip ELSE (pc = "done" /\ UNCHANGED vars)

TraceCrash ==
  \/ IsEvent("crash") /\ (Crash \/ TornThen(pc, FALSE))
  \/ IsEvent("exit")  /\ Crash      \* the process ended by itself: it is gone all the same

TraceBoot == IsEvent("boot") /\ Boot

TraceLoad ==
  /\ IsEvent("load")
  /\ Load
  /\ loaded' = Ev.lines
  /\ pc' = "end"
  /\ UNCHANGED <<disk, tmp, old, new, written, alive, changed, session, hist>>

TraceNext ==
  /\ \/ TraceBegin
     \/ (TraceHook \/ TraceRet \/ TraceCrash \/ TraceBoot) /\ Seen(Ev.ls)
     \/ TraceLoad
  /\ l' = l + 1

TraceSpec == TraceInit /\ [][TraceNext]_tvars

\* Atomic, FailedLeavesOld, LoadedOldOrNew, StateFileWhole of AutoSave.tla are INVARIANTs of the
\* trace configuration too: TLC evaluates them on the recorded states.

TraceAccepted ==
  IF TLCGet("stats").diameter - 1 = Len(Trace) THEN TRUE
  ELSE PrintT(<<"TRACE_REJECTED_AT_LINE", TLCGet("stats").diameter>>) /\ FALSE
=============================================================================
