----------------------------- MODULE Continuation -----------------------------
(* C15 (clauses 1 and 2) - when does a prefix of a program need more input?

   The property: "For any prefix of a valid program that ends at a token boundary inside an
   unclosed parenthesis, bracket, brace, string or block comment, or right after a binary
   operator, line mode asks for more input and reports no error."

   This module states WHEN that is, over token streams, and nothing about how a parser finds
   out.  A token is one of the classes below (the harness maps grol's token types to them, the
   grammar at the end of the module spells them):

     id     identifier, number, true/false, break/continue, builtin name   (an operand)
     str    closed string literal (an operand)         ustr  a string still open at the cut
     cmt    closed block comment   lcmt  line comment  ucmt  a block comment still open at the cut
     bin    operator that is only binary  * / % == != < > <= >= && || & | << >>
     pm     + - ^  binary after an operand, prefix otherwise
     pre    ! ~    prefix only           inc   ++ --   postfix after an operand, prefix otherwise
     asg    = :=   col  :   (infix operators of grol's precedence table: assignment, range / key:value)
     dot    .      arrow  =>   comma  ,   semi  ;
     lp rp lb rb lc rc        ( ) [ ] { }
     kw     if else for func macro return   (keywords after which more is expected)

   State of the machine: the stack of unclosed openers and what the last token was.
   Feed(s, c) is the transition; NeedsMore(s) is the property's predicate:

       the stack is not empty  (inside an unclosed parenthesis, bracket or brace)
    \/ the last token is an unterminated string or block comment
    \/ the last token is a binary operator

   and Why(s) names the clause.  Nothing else is demanded: after a prefix operator, a keyword,
   `.`, `=>` or a complete statement the property is silent (`last` is still reported so that the
   harness can count what the implementation does there).

   Three uses (constant Mode):
     "mc"       TLC feeds every token string over Sigma up to MaxLen and checks the invariants that
                relate the stack depth to NeedsMore, and that the incremental machine agrees with
                NeedsMoreP, an independent definition over the whole prefix (bracket cancellation
                and a backward look for "ends an operand").
     "grammar"  GEN: every program of the bounded grammar below (context[filler], optionally
                context[context[filler]]) is fed token by token; the run checks that the grammar
                never mismatches a bracket and that a complete program needs nothing more, and
                emits, per program, the spelled tokens and for every prefix Why / last, which the
                harness replays on the real line-mode parser (every cut of every program).
     "file"     TV: cont_progs.ndjson holds token-class streams recorded by the REAL lexer from
                generated and shipped programs together with what the REAL line-mode parser did at
                every cut ("c" asked for more and no error, "e" reported an error, "n" accepted,
                "-" not observed); the machine is run over each stream and every cut where
                NeedsMore holds and the parser did not answer "c" is emitted as a rejection.       *)
EXTENDS Integers, Sequences, FiniteSets, SequencesExt, TLC, Json, GrolPrims

CONSTANTS Sigma,    \* token classes for Mode = "mc"
          MaxLen,   \* maximal token string length for Mode = "mc"
          Mode,     \* "mc" | "grammar" | "file"
          Depth     \* grammar nesting: 1 or 2

VARIABLES pid,      \* index of the program being fed (0 in mc mode)
          toks,     \* token classes fed so far
          st,       \* machine state
          needs     \* history: for every prefix length [w |-> Why, l |-> last, i |-> Why of a cut inside the last token]
vars == <<pid, toks, st, needs>>

Classes == {"id", "str", "cmt", "lcmt", "bin", "pm", "pre", "inc", "asg", "col", "dot", "arrow",
            "comma", "semi", "lp", "rp", "lb", "rb", "lc", "rc", "kw", "ustr", "ucmt"}
Lasts   == {"start", "operand", "binop", "prefix", "open", "sep", "kw", "dot", "arrow", "cmt", "ustr", "ucmt"}

OpenerOf == [lp |-> "(", lb |-> "[", lc |-> "{"]
CloserOf == [rp |-> "(", rb |-> "[", rc |-> "{"]
Openers == DOMAIN OpenerOf
Closers == DOMAIN CloserOf

\* ------------------------------------------------------------------ the machine
S0 == [stack |-> <<>>, last |-> "start", bad |-> FALSE]

Dead(s) == s.last \in {"ustr", "ucmt"}     \* the rest of the input belongs to the open string / comment

Feed(s, c) ==
  CASE c \in {"id", "str"}         -> [s EXCEPT !.last = "operand"]
    [] c \in {"bin", "asg", "col"} -> [s EXCEPT !.last = "binop"]
    [] c = "pm"                    -> [s EXCEPT !.last = IF s.last = "operand" THEN "binop" ELSE "prefix"]
    [] c = "pre"                   -> [s EXCEPT !.last = "prefix"]
    [] c = "inc"                   -> [s EXCEPT !.last = IF s.last = "operand" THEN "operand" ELSE "prefix"]
    [] c \in Openers               -> [s EXCEPT !.stack = Append(@, OpenerOf[c]), !.last = "open"]
    [] c \in Closers               ->
         IF s.stack # <<>> /\ s.stack[Len(s.stack)] = CloserOf[c]
         THEN [s EXCEPT !.stack = SubSeq(@, 1, Len(@) - 1), !.last = "operand"]
         ELSE [s EXCEPT !.bad = TRUE, !.last = "operand"]       \* not a prefix of any program
    [] c = "comma"                 -> [s EXCEPT !.last = "sep"]
    [] c = "semi"                  -> [s EXCEPT !.last = "start"]
    [] c = "kw"                    -> [s EXCEPT !.last = "kw"]
    [] c = "dot"                   -> [s EXCEPT !.last = "dot"]
    [] c = "arrow"                 -> [s EXCEPT !.last = "arrow"]
    [] c \in {"cmt", "lcmt"}       -> [s EXCEPT !.last = "cmt"]
    [] c \in {"ustr", "ucmt"}      -> [s EXCEPT !.last = c]

RECURSIVE FeedAll(_, _)
FeedAll(s, cs) == IF cs = <<>> THEN s ELSE FeedAll(Feed(s, Head(cs)), Tail(cs))

\* the property's predicate and the clause that applies (the innermost open construct first)
NeedsMore(s) == ~s.bad /\ (s.stack # <<>> \/ s.last \in {"binop", "ustr", "ucmt"})
Why(s) ==
  IF ~NeedsMore(s) THEN ""
  ELSE IF s.last = "ustr" THEN "string"
  ELSE IF s.last = "ucmt" THEN "comment"
  ELSE IF s.stack # <<>>
       THEN (CASE s.stack[Len(s.stack)] = "(" -> "paren"
               [] s.stack[Len(s.stack)] = "[" -> "bracket"
               [] OTHER                      -> "brace")
  ELSE "binop"

\* a cut inside the token c that is about to be fed (only strings and block comments can be cut inside)
InsideWhy(s, c) ==
  IF c = "str" THEN Why(Feed(s, "ustr")) ELSE IF c = "cmt" THEN Why(Feed(s, "ucmt")) ELSE ""

\* ------------------------------------------------------------------ the same predicate, stated on the whole prefix
IsBr(c) == c \in Openers \cup Closers
RECURSIVE Cancel(_)     \* delete adjacent matching pairs until none is left
Cancel(bs) ==
  LET hits == {i \in 1..Len(bs) - 1 : bs[i] \in Openers /\ bs[i + 1] \in Closers /\ OpenerOf[bs[i]] = CloserOf[bs[i + 1]]} IN
  IF hits = {} THEN bs
  ELSE LET i == CHOOSE j \in hits : \A k \in hits : j <= k IN
       Cancel(SubSeq(bs, 1, i - 1) \o SubSeq(bs, i + 2, Len(bs)))
Residue(ts)   == Cancel(SelectSeq(ts, IsBr))
BadP(ts)      == \E i \in 1..Len(Residue(ts)) : Residue(ts)[i] \in Closers
UnclosedP(ts) == [i \in 1..Len(Residue(ts)) |-> OpenerOf[Residue(ts)[i]]]

RECURSIVE OperandEnd(_, _)   \* does the token at position i end an operand?
OperandEnd(ts, i) ==
  /\ i >= 1
  /\ \/ ts[i] \in {"id", "str"} \cup Closers
     \/ ts[i] = "inc" /\ OperandEnd(ts, i - 1)
LastIsBinary(ts) ==
  LET n == Len(ts) IN
  /\ n >= 1
  /\ \/ ts[n] \in {"bin", "asg", "col"}
     \/ ts[n] = "pm" /\ OperandEnd(ts, n - 1)
NeedsMoreP(ts) ==
  /\ ~BadP(ts)
  /\ \/ UnclosedP(ts) # <<>>
     \/ (Len(ts) >= 1 /\ ts[Len(ts)] \in {"ustr", "ucmt"})
     \/ LastIsBinary(ts)

\* ------------------------------------------------------------------ the bounded grammar (Mode = "grammar")
\* a spelled token: class, text (or a symbolic name @.. the harness spells), separator before it:
\* "s" one space, "g" glued to the previous token (call parenthesis, index bracket), "n" newline
T(c, t) == [c |-> c, t |-> t, s |-> "s"]
G(c, t) == [c |-> c, t |-> t, s |-> "g"]
N(c, t) == [c |-> c, t |-> t, s |-> "n"]
Id(t)  == T("id", t)
Bin(o) == T("bin", o)
Pm(o)  == T("pm", o)
Pre(o) == T("pre", o)
Inc(o) == T("inc", o)
Asg(o) == T("asg", o)
Kw(k)  == T("kw", k)
a == Id("a")   b == Id("b")   c3 == Id("c")   f == Id("f")   x == Id("x")   y == Id("y")
one == Id("1") two == Id("2.5")
LP == T("lp", "(")   LPg == G("lp", "(")   RP == T("rp", ")")
LB == T("lb", "[")   LBg == G("lb", "[")   RB == T("rb", "]")
LC == T("lc", "{")   RC == T("rc", "}")
CM == T("comma", ",")   SC == T("semi", ";")   CL == T("col", ":")   DOT == T("dot", ".")   AR == T("arrow", "=>")
SDQ  == T("str", "@dq")      \* "hi"
SESC == T("str", "@dqesc")   \* double quotes with \" \\ \n \x41 escapes
SBQ  == T("str", "@bqnl")    \* back quotes with an embedded newline
SCO  == T("str", "@dqc")     \* a string that contains /*
BC   == T("cmt", "@bc")      \* /* c */
BCN  == T("cmt", "@bcnl")    \* block comment over two lines
BCS  == T("cmt", "@bcs")     \* /*/ x */   (the third byte is a slash)
BCQ  == T("cmt", "@bcq")     \* a block comment that contains a quote
LCT  == T("lcmt", "@lc")     \* // lc
PRINTLN == Id("println")

BinOpsS == {"*", "/", "%", "==", "!=", "<", ">", "<=", ">=", "&&", "||", "&", "|", "<<", ">>"}
PmOpsS  == {"+", "-", "^"}

Atoms == {<<a>>, <<one>>, <<SDQ>>, <<SESC>>, <<SBQ>>, <<SCO>>}
Fillers ==
  Atoms
  \cup {<<a, Bin(o), b>> : o \in BinOpsS} \cup {<<a, Pm(o), b>> : o \in PmOpsS}
  \cup { <<Pm("-"), a>>, <<Pre("!"), a>>, <<Pre("~"), a>>, <<Inc("++"), a>>, <<a, Inc("--")>>,
         <<a, DOT, b>>, <<a, DOT, b, DOT, c3>>, <<a, DOT, SDQ>>,
         <<a, LBg, one, RB>>, <<a, LBg, one, CL, two, RB>>, <<a, LBg, one, CL, RB>>, <<a, LBg, one, RB, LBg, Pm("-"), one, RB>>,
         <<f, LPg, RP>>, <<f, LPg, a, RP>>, <<f, LPg, a, CM, b, RP>>, <<f, LPg, a, RP, LPg, b, RP>>,
         <<LB, RB>>, <<LB, a, CM, b, RB>>, <<LB, LB, a, RB, CM, LB, RB, RB>>,
         <<LC, RC>>, <<LC, SDQ, CL, a, RC>>, <<LC, SDQ, CL, a, CM, one, CL, LB, b, RB, RC>>,
         <<LP, a, Pm("+"), b, RP, Bin("*"), c3>>, <<a, Pm("+"), b, Bin("*"), c3>>, <<a, Bin("*"), LP, b, Pm("-"), c3, RP>>,
         <<a, Pm("-"), Pm("-"), b>>, <<a, Bin("=="), b, Bin("&&"), c3, Bin("<"), one>>,
         <<x, AR, x, Pm("+"), one>>, <<LP, x, CM, y, RP, AR, x, Bin("*"), y>>, <<LP, RP, AR, one>>, <<x, AR, LC, x, RC>>,
         <<x, AR, y, AR, x, Pm("+"), y>>, <<LP, x, CM, Id(".."), RP, AR, LC, Id(".."), RC>>,
         <<Kw("func"), LPg, y, RP, LC, y, RC>>, <<Kw("func"), LPg, y, CM, Id(".."), RP, LC, y, RC>>,
         <<Kw("if"), a, LC, one, RC, Kw("else"), LC, two, RC>>, <<Kw("if"), a, LC, one, RC>>,
         <<a, Asg("="), b>>, <<a, Asg(":="), one>>, <<one, CL, two>>,
         <<Id("len"), LPg, a, RP>>, <<SDQ, Pm("+"), SBQ>>, <<Id("true")>> }

\* a context is what stands before and after the hole; nl = the filler starts on a new line
C(pre, post)  == [pre |-> pre, post |-> post, nl |-> FALSE]
CN(pre, post) == [pre |-> pre, post |-> post, nl |-> TRUE]
Contexts == {
  C(<<>>, <<>>),
  C(<<a, Asg("=")>>, <<>>), C(<<a, Asg(":=")>>, <<>>), C(<<a, LBg, one, RB, Asg("=")>>, <<>>),
  C(<<f, LPg>>, <<RP>>), C(<<f, LPg, a, CM>>, <<RP>>), C(<<f, LPg>>, <<CM, b, RP>>),
  C(<<LB>>, <<RB>>), C(<<LB, one, CM>>, <<RB>>), C(<<LB>>, <<CM, two, RB>>),
  C(<<LC, SDQ, CL>>, <<RC>>), C(<<LC, SDQ, CL, one, CM, SESC, CL>>, <<RC>>), C(<<LC>>, <<CL, one, RC>>),
  C(<<a, LBg>>, <<RB>>), C(<<a, LBg, one, CL>>, <<RB>>), C(<<LP>>, <<RP>>), C(<<LP>>, <<RP, Bin("*"), c3>>),
  C(<<Kw("if")>>, <<LC, y, RC>>), C(<<Kw("if"), c3, LC>>, <<RC>>),
  C(<<Kw("if"), c3, LC, y, RC, Kw("else"), LC>>, <<RC>>),
  C(<<Kw("if"), c3, LC, y, RC, Kw("else"), Kw("if"), b, LC>>, <<RC>>),
  C(<<Kw("for")>>, <<LC, y, RC>>), C(<<Kw("for"), x, Asg("="), one, LC>>, <<RC>>), C(<<Kw("for"), x, Asg("=")>>, <<LC, y, RC>>),
  C(<<Kw("func"), f, LPg, x, RP, LC>>, <<RC>>), C(<<a, Asg("="), Kw("func"), LPg, x, CM, y, RP, LC>>, <<RC>>),
  C(<<Kw("func"), f, LPg, RP, LC, Kw("return")>>, <<RC>>), C(<<Kw("return")>>, <<>>), C(<<a, Asg("="), one, SC, Kw("return")>>, <<>>),
  C(<<x, AR>>, <<>>), C(<<LP, x, CM, y, RP, AR, LC>>, <<RC>>), C(<<LP, RP, AR, LC>>, <<RC>>),
  C(<<PRINTLN, LPg>>, <<RP>>), C(<<PRINTLN, LPg, SDQ, CM>>, <<RP>>),
  C(<<Id("m"), Asg("="), Kw("macro"), LPg, x, RP, LC, Id("quote"), LPg>>, <<RP, RC>>),
  C(<<a, Asg("="), one, SC>>, <<>>), C(<<>>, <<SC, b>>), C(<<>>, <<N("id", "b")>>), CN(<<a, Asg("="), one>>, <<>>),
  C(<<Kw("if"), c3, LC, a, Asg("="), one, SC>>, <<RC>>), CN(<<Kw("if"), c3, LC, a, Asg("="), one>>, <<RC>>),
  C(<<>>, <<Pm("+"), c3>>), C(<<c3, Bin("*")>>, <<>>), C(<<Pm("-")>>, <<>>), C(<<Pre("!")>>, <<>>),
  C(<<BC>>, <<>>), C(<<BCS>>, <<>>), C(<<BCQ>>, <<>>), CN(<<BCN>>, <<>>), CN(<<LCT>>, <<>>),
  C(<<>>, <<BC>>), C(<<>>, <<LCT>>),
  C(<<Kw("if"), c3, LC, BC>>, <<RC>>), CN(<<Kw("if"), c3, LC, LCT>>, <<RC>>),
  C(<<Kw("func"), f, LPg, x, RP, LC, Kw("for"), y, Asg("="), two, LC, Kw("if"), x, LC>>, <<RC, RC, RC>>) }

\* second level: only contexts that can stand inside another one on the same line, and a few fillers
InnerContexts == {
  C(<<f, LPg, a, CM>>, <<RP>>), C(<<LB, one, CM>>, <<RB>>), C(<<LC, SDQ, CL>>, <<RC>>), C(<<a, LBg>>, <<RB>>),
  C(<<LP>>, <<RP>>), C(<<Kw("if"), c3, LC>>, <<RC>>), C(<<Kw("if"), c3, LC, y, RC, Kw("else"), LC>>, <<RC>>),
  C(<<Kw("for"), x, Asg("="), one, LC>>, <<RC>>), C(<<Kw("func"), LPg, x, RP, LC>>, <<RC>>), C(<<x, AR>>, <<>>),
  C(<<c3, Bin("*")>>, <<>>), C(<<Pm("-")>>, <<>>), C(<<a, Asg("=")>>, <<>>), C(<<PRINTLN, LPg>>, <<RP>>),
  C(<<BC>>, <<>>), C(<<>>, <<BC>>), C(<<a, Asg("="), one, SC>>, <<>>) }
Fillers2 == { <<a>>, <<SESC>>, <<SBQ>>, <<a, Pm("+"), b>>, <<a, Bin("<="), b>>, <<Pm("-"), a>>, <<a, DOT, b>>,
              <<a, LBg, one, CL, RB>>, <<f, LPg, a, CM, b, RP>>, <<LB, a, CM, b, RB>>, <<LC, SDQ, CL, a, RC>>,
              <<x, AR, x, Pm("+"), one>>, <<Kw("if"), a, LC, one, RC, Kw("else"), LC, two, RC>>, <<a, Inc("--")>> }

Fill(ctx, body) ==
  ctx.pre \o (IF ctx.nl /\ body # <<>> THEN <<[body[1] EXCEPT !.s = "n"]>> \o Tail(body) ELSE body) \o ctx.post
Programs1 == {Fill(o, fl) : o \in Contexts, fl \in Fillers}
Programs2 == {Fill(o, Fill(i, fl)) : o \in Contexts, i \in InnerContexts, fl \in Fillers2}
\* programs without a hole: bare return, empty blocks and lists
Extras == { <<Kw("return")>>, <<a, Asg("="), one, SC, Kw("return")>>, <<a, Asg("="), one, N("kw", "return")>>,
            <<Kw("if"), c3, LC, RC>>, <<Kw("if"), c3, LC, RC, Kw("else"), LC, RC>>, <<Kw("for"), one, LC, RC>>,
            <<Kw("func"), f, LPg, RP, LC, RC>>, <<Kw("func"), f, LPg, RP, LC, Kw("return"), RC>>, <<LP, RP, AR, LC, RC>>,
            <<Kw("func"), f, LPg, RP, LC, Kw("return"), SC, a, RC>>, <<Id("break")>>, <<Kw("for"), one, LC, Id("continue"), RC>> }
GrammarSet == (IF Depth >= 2 THEN Programs1 \cup Programs2 ELSE Programs1) \cup Extras
GrammarSeq == SetToSeq(GrammarSet)

\* ------------------------------------------------------------------ recorded programs (Mode = "file")
FilePrograms == ndJsonDeserialize("cont_progs.ndjson")   \* [id, c: classes, o: obs at each boundary, oi: obs of cuts inside each token]

NumPrograms == IF Mode = "grammar" THEN Len(GrammarSeq) ELSE IF Mode = "file" THEN Len(FilePrograms) ELSE 0
ProgLen(p)  == IF Mode = "grammar" THEN Len(GrammarSeq[p]) ELSE Len(FilePrograms[p].c)
ClassAt(p, i) == IF Mode = "grammar" THEN GrammarSeq[p][i].c ELSE FilePrograms[p].c[i]

\* ------------------------------------------------------------------ behaviours
Init ==
  /\ pid \in (IF Mode = "mc" THEN {0} ELSE 1..NumPrograms)
  /\ toks = <<>> /\ st = S0 /\ needs = <<>>

Rejections(p, ns) ==    \* file mode: cuts where the property demands a continuation and the parser did not give it
  LET r == FilePrograms[p]
      badAt == {k \in 1..Len(ns) : ns[k].w # "" /\ r.o[k] \in {"e", "n", "p"}}
      badIn == {k \in 1..Len(ns) : ns[k].i # "" /\ r.oi[k] \in {"e", "n", "p"}}
  IN SetToSeq({[k |-> k, inside |-> FALSE, w |-> ns[k].w, l |-> ns[k].l, o |-> r.o[k]] : k \in badAt}
              \cup {[k |-> k, inside |-> TRUE, w |-> ns[k].i, l |-> "inside", o |-> r.oi[k]] : k \in badIn})

EmitProgram(ns) ==
  IF Mode = "grammar"
  THEN EmitLine(ToJson([p |-> pid, toks |-> GrammarSeq[pid], need |-> ns]))
  ELSE EmitLine(ToJson([id |-> FilePrograms[pid].id, endw |-> ns[Len(ns)].w,
                        w |-> [k \in 1..Len(ns) |-> ns[k].w], iw |-> [k \in 1..Len(ns) |-> ns[k].i],
                        bad |-> Rejections(pid, ns)]))

Step(c) ==
  LET s2 == Feed(st, c)
      ns == Append(needs, [w |-> Why(s2), l |-> s2.last, i |-> InsideWhy(st, c)])
  IN /\ st' = s2
     /\ toks' = Append(toks, c)
     /\ needs' = ns
     /\ UNCHANGED pid
     /\ (Mode # "mc" /\ Len(ns) = ProgLen(pid)) => EmitProgram(ns)

Next ==
  IF Mode = "mc"
  THEN \E c \in Sigma : Len(toks) < MaxLen /\ ~Dead(st) /\ Step(c)
  ELSE Len(toks) < ProgLen(pid) /\ Step(ClassAt(pid, Len(toks) + 1))

Spec == Init /\ [][Next]_vars

\* ------------------------------------------------------------------ properties
TypeOK ==
  /\ st.last \in Lasts /\ st.bad \in BOOLEAN
  /\ \A i \in 1..Len(st.stack) : st.stack[i] \in {"(", "[", "{"}
  /\ Len(needs) = Len(toks)

Count(ts, S) == Cardinality({i \in 1..Len(ts) : ts[i] \in S})
\* the depth is the number of openers minus the number of closers
DepthIsBalance == ~st.bad => Len(st.stack) = Count(toks, Openers) - Count(toks, Closers)
\* inside an unclosed construct more input is always needed; an open string / comment always needs more
OpenDemands     == (~st.bad /\ Len(st.stack) > 0) => NeedsMore(st)
TerminalDemands == (~st.bad /\ Dead(st)) => NeedsMore(st)
\* with nothing open, only a trailing binary operator needs more
ClosedDemands   == (~st.bad /\ st.stack = <<>> /\ ~Dead(st)) => (NeedsMore(st) <=> st.last = "binop")
\* the incremental machine computes the predicate stated on the whole prefix
PredicateAgrees ==
  /\ st.bad = BadP(toks)
  /\ (~st.bad => st.stack = UnclosedP(toks))
  /\ NeedsMore(st) = NeedsMoreP(toks)
  /\ (st.last = "binop") = LastIsBinary(toks)
\* every demand can be met: an operand and the missing closers complete the prefix
RECURSIVE ClosersFor(_)
ClosersFor(stk) ==
  IF stk = <<>> THEN <<>>
  ELSE <<CASE stk[Len(stk)] = "(" -> "rp" [] stk[Len(stk)] = "[" -> "rb" [] OTHER -> "rc">> \o ClosersFor(SubSeq(stk, 1, Len(stk) - 1))
Completable ==
  (~st.bad /\ ~Dead(st)) =>
     LET s2 == FeedAll(st, <<"id">> \o ClosersFor(st.stack)) IN ~NeedsMore(s2) /\ s2.stack = <<>> /\ ~s2.bad
\* history agrees with the state
HistoryOK == Len(needs) > 0 => needs[Len(needs)].w = Why(st) /\ needs[Len(needs)].l = st.last
\* grammar / recorded programs: well bracketed, and complete when all tokens are fed
NeverBad == Mode # "mc" => ~st.bad
CompleteNeedsNothing == (Mode = "grammar" /\ Len(toks) = ProgLen(pid)) => ~NeedsMore(st)
\* the depth moves by at most one per token and a demand caused by depth only ends with a closer
DepthStep == [][ /\ Len(st'.stack) - Len(st.stack) \in {-1, 0, 1}
                 /\ (Len(st.stack) > 0 /\ ~st.bad /\ ~NeedsMore(st')) => toks'[Len(toks')] \in Closers ]_vars
=============================================================================
