------------------------------- MODULE Chunking -------------------------------
(* C15 (clause 3) - chunking a script is invisible.

   "Feeding the top-level statements of an error-free script (macros defined before use, no
   top-level return) one at a time to a persistent session produces the same output and the same
   final globals as evaluating the script in one go."

   Session-level model over an abstract deterministic session semantics that keeps exactly the
   mechanisms of repl.evalOne / eval.DefineMacros / eval.ExpandMacros that chunking can expose:

     * one input = one chunk of consecutive top-level statements; evaluation of a chunk stops at
       the first error and at a top-level return; the session (globals, macro table, output so
       far) persists and the next chunk is evaluated regardless;
     * MACRO DEFINITIONS.  By design a definition takes effect where it stands: definition and
       expansion proceed in source order, which is what one statement at a time does, so a chunk
       boundary cannot be seen (Dev = {}: ChunkingIsInvisible holds for every eligible script,
       including scripts that define a macro name again, or define a macro named like an earlier
       function, between two uses).  THE IMPLEMENTATION (Dev contains "hoist-definitions"):
       DefineMacros first collects EVERY macro definition of the chunk (removing them from the
       program; the last definition of a name wins), then the remaining statements are expanded
       and evaluated  -> definitions are hoisted to the start of their chunk.  That is why the
       statement needs "macros defined before use" (a hoisted definition makes a use in front of
       it work in the whole script and fail one statement at a time) - and it is a deviation
       where a definition follows a use that another definition (or a function of that name)
       served: HoistSensitive scripts, `m = macro..+100; println(m(g)); m = macro..+200;
       println(m(g))` prints 201 201 at once and 101 201 one statement at a time.  The run with
       Dev = {"hoist-definitions"} must violate ChunkingIsInvisible; HoistingSeenOnlyThere says
       that the two semantics agree on every other eligible script.
     * THE EXPANSION PASS.  A statement evaluated while the macro table is not empty is rewritten
       by eval.ExpandMacros, i.e. ast.Modify builds a COPY of every node, whether or not a macro
       is used in it; otherwise it is evaluated from the parser's own tree.  A function value
       keeps the tree it was built from (its text is what println(f), the saved globals and the
       memoization key show), so every function value carries one bit of hidden state: built from
       a copied tree (fc) or from the original.  With hoisting the whole script is copied as soon
       as it defines a macro ANYWHERE; fed one statement at a time, the statements in front of the
       first macro definition are not.  The design says the copy is faithful (Text ignores fc);
       Dev = {"hoist-definitions", "copy-alters-text"} is the deviation "the copy of a node loses
       or changes something the printer shows", under which TLC finds the shortest counterexample
       (def1, mdef1 split in two).

   Abstract statements (the harness instantiates them as grol source):
     set    g = 1              inc    g = g + 1            print  println(g)
     def1   f = func() {g+10}  def2   f = func() {g+20}    call   println(f())
     show   println(f)         the TEXT of the function value is printed
     mdef1  m = macro(x) {quote(unquote(x)+100)}           mdef2  .. +200
     mfun   m = func(x) {x + 300}   the NAME m as an ordinary function
     muse   println(m(g))      a macro call if the macro table knows m, else a function call
     ret    return             err    error("boom")
   Session state: g (-1 = not set), f, fc (f was built from a copied tree), m (macro table: 0 = not
   defined), mf (the global m is a function), out (sequence of printed numbers; a printed function
   text is the number Text(s) >= 1000).

   Function bodies.  def1 / def2 stand for `f = <a function that returns g + 10 / g + 20>`; HOW the
   body is written is the script's `form`, one of Forms (a subset of DOMAIN FormTable).  The
   semantics above does not depend on it - that is the point: whatever syntax a function is made
   of, its value and its text are the same in every split.  FormTable names, per form, the node
   kinds (vocabulary of the harness' AST dump plus refinements like "fn.lambda", "fn.nested")
   that the form's source must contain; CopyKinds is the list of node kinds the expansion pass
   copies (one per case of ast.Modify, plus the fields a copy has to carry over), and
   FormsCoverCopy demands that the forms of a run with all forms exercise every one of them.
   The harness owns the source text of each form and checks it against FormTable (the parsed
   source must contain every kind the table claims).

   Submit(s, chunk) is one input.  The law behind the property is
       Submit(Submit(s, a), b) = Submit(s, a \o b)       (when a does not end in an error / return)
   and ChunkingIsInvisible states its consequence: for an eligible script EVERY one of the 2^(n-1)
   splits into consecutive chunks yields the observation of the whole script.  RestIsWhole is the
   inductive form (from every reachable intermediate session, submitting the rest in one go gives
   the whole script's observation).

   TLC explores, for every eligible script of up to MaxN statements over Kinds and for the
   canonical scripts of length MaxN+1..SplitN, every split (the chunk boundaries chosen so far are
   part of the state), checks the invariants, and emits every complete split as
       [script, form, kinds, cuts, out, g, f, err, hoistsens, hoisted]
   (hoistsens = HoistSensitive(script), hoisted = what the whole script prints under hoisting)
   which the harness (a) replays on the real interpreter (script instantiated as grol source,
   chunk by chunk through repl.EvalOne on one persistent eval.State versus at once on a fresh one)
   and (b) uses as THE generator of splits for random scripts of n <= SplitN statements.

   Relax drops one precondition at a time (under the implementation's semantics, Dev =
   {"hoist-definitions"}); TLC then finds the counterexample that shows why the property states it:
   "errors" (whole stops at the error, chunks go on), "return" (same for a top-level return),
   "use-before-def" (the whole script hoists the definition in front of the use, a session that
   has not seen it yet fails).                                                                   *)
EXTENDS Integers, Sequences, FiniteSets, TLC, Json, GrolPrims

CONSTANTS Kinds,    \* abstract statement kinds used for the exhaustive scripts
          MaxN,     \* exhaustive scripts up to this length
          SplitN,   \* canonical scripts up to this length (all splits)
          Relax,    \* subset of {"errors", "return", "use-before-def", "redef-after-use"}
          Forms,    \* how the bodies of def1 / def2 are written: subset of DOMAIN FormTable
          Dev,      \* subset of {"copy-alters-text"}: deviations of the expansion pass
          EmitOn

VARIABLES script, form, pos, sess, anyErr, cuts
vars == <<script, form, pos, sess, anyErr, cuts>>

AllKinds == {"set", "inc", "print", "def1", "def2", "call", "show", "mdef1", "mdef2", "mfun", "muse", "ret", "err"}
MDefs == {"mdef1", "mdef2"}
FDefs == {"def1", "def2"}
MVer(k) == IF k = "mdef1" THEN 1 ELSE 2

\* ------------------------------------------------------------------ the forms of a function body
\* node kinds the expansion pass copies (ast.Modify: one per case, plus the fields that a copy must carry over)
CopyKinds == {"id", "int", "float", "bool", "str", "cmt", "brk", "cnt", "ret", "ret.bare", "pre", "post",
              "inf", "asg", "asg.def", "if", "if.else", "if.elseif", "for", "fn", "fn.lambda", "fn.named", "fn.variadic",
              "fn.nested", "fn.params", "call", "call.expr", "arr", "map", "map.multi", "dot", "idx", "idx.slice", "bi"}
FormTable == [
  plain    |-> {"fn", "inf", "id", "int", "asg"},            \* func() {g + 10}
  curried  |-> {"fn.lambda", "fn.nested", "fn.params", "call.expr"},   \* a => b => a + b, add(g)(10)
  lamblock |-> {"fn.lambda", "fn.nested", "fn.params"},       \* (a, b) => {a + b}
  lambda0  |-> {"fn.lambda", "fn.nested"},                     \* f itself is () => .. holding another () => ..
  named    |-> {"fn.named", "fn.nested", "fn.params"},         \* func inner(a) {..} inside the body
  toplevel |-> {"fn.named"},                                   \* func f() {..} as a statement
  variadic |-> {"fn.variadic", "fn.nested", "bi"},             \* func(a, ..) {.. len(..)}
  closure  |-> {"fn.nested", "call.expr", "fn.params"},        \* mk = func(v) {func(y) {y + v}}; mk(10)(g)
  iife     |-> {"fn.lambda", "fn.nested", "call.expr"},        \* (x => x + 10)(g)
  lamarg   |-> {"fn.lambda", "fn.nested", "call"},             \* ap(x => x + 10, g)
  recur    |-> {"fn.named", "fn.nested", "ret", "if"},         \* func fact(n) {if n <= 1 {return 1}; n * fact(n - 1)}
  mapfn    |-> {"map", "fn.lambda", "fn.nested", "dot"},       \* {"h": x => x + 10}.h(g)
  maplit   |-> {"map", "map.multi", "arr", "float", "bool", "str", "idx"},
  dotted   |-> {"map", "dot"},                                 \* m.k.j
  indexed  |-> {"arr", "idx", "pre"},                          \* a[1], a[-1][0]
  sliced   |-> {"arr", "idx.slice", "bi"},                     \* a[2:], a[0:1], a[1:2]
  ifelse   |-> {"if", "if.else", "if.elseif"},
  forcount |-> {"for", "brk", "cnt", "post"},                  \* for i = 10 {.. break .. continue}
  forcond  |-> {"for", "post"},                                \* for n < 10 {n++}
  returns  |-> {"ret", "ret.bare", "if"},
  prefixes |-> {"pre", "bool", "if.else"},                     \* -x, !b
  postfix  |-> {"post"},                                       \* x++, x--
  strings  |-> {"str", "bi"},                                  \* escapes, a raw string
  floats   |-> {"float", "call"},
  parens   |-> {"inf"},                                        \* (g + 5) * 2 - g: grouping must survive
  comments |-> {"cmt"},                                        \* block and line comments inside the body
  builtins |-> {"bi", "arr"},                                  \* first rest len
  quoted   |-> {"bi", "fn.lambda"},                            \* q = quote(a => a + 1)
  defines  |-> {"asg.def", "asg", "idx", "dot"},               \* x := g; a[0] = ..; m.k = ..
  logic    |-> {"inf", "bool", "pre"}                          \* && || == != <= with !
]
AllForms == DOMAIN FormTable
KindsOf(fs) == UNION {FormTable[fm] : fm \in fs}
FormsCoverCopy == (Forms = AllForms) => CopyKinds \subseteq KindsOf(Forms)
ASSUME Forms \subseteq AllForms /\ Forms # {}
ASSUME FormsCoverCopy
ASSUME Dev \subseteq {"hoist-definitions", "copy-alters-text"}
ASSUME Relax \subseteq {"errors", "return", "use-before-def"}
Hoist == "hoist-definitions" \in Dev

\* ------------------------------------------------------------------ abstract session semantics
\* m: the macro table's entry for the name m (0 = none; it is never removed); mf: the GLOBAL m is an ordinary function
S0 == [g |-> -1, f |-> 0, fc |-> FALSE, m |-> 0, mf |-> 0, out |-> <<>>]

\* the text of the function value as an observer reads it (println(f), the saved globals): which definition it is.
\* By design it does not depend on fc (the copy made by the expansion pass prints like the original).
Text(s) == IF s.f = 0 THEN 0 ELSE 1000 + 10 * s.f + (IF s.fc /\ "copy-alters-text" \in Dev THEN 1 ELSE 0)

\* one statement: [s |-> new session, c |-> "ok" | "err" | "ret"]; x = the statement went through the expansion pass
Exec(s, k, x) ==
  CASE k = "set"   -> [s |-> [s EXCEPT !.g = 1], c |-> "ok"]
    [] k = "inc"   -> IF s.g < 0 THEN [s |-> s, c |-> "err"] ELSE [s |-> [s EXCEPT !.g = @ + 1], c |-> "ok"]
    [] k = "print" -> IF s.g < 0 THEN [s |-> s, c |-> "err"] ELSE [s |-> [s EXCEPT !.out = Append(@, s.g)], c |-> "ok"]
    [] k = "def1"  -> [s |-> [s EXCEPT !.f = 1, !.fc = x], c |-> "ok"]
    [] k = "def2"  -> [s |-> [s EXCEPT !.f = 2, !.fc = x], c |-> "ok"]
    [] k = "show"  -> IF s.f = 0 THEN [s |-> s, c |-> "err"] ELSE [s |-> [s EXCEPT !.out = Append(@, Text(s))], c |-> "ok"]
    [] k = "call"  -> IF s.f = 0 \/ s.g < 0 THEN [s |-> s, c |-> "err"]
                      ELSE [s |-> [s EXCEPT !.out = Append(@, s.g + 10 * s.f)], c |-> "ok"]
    [] k = "mfun"  -> [s |-> [s EXCEPT !.mf = 1], c |-> "ok"]
    \* m(g): a macro call when the macro table knows m (whatever the global m is), else a call of the function m
    [] k = "muse"  -> IF s.g < 0 \/ (s.m = 0 /\ s.mf = 0) THEN [s |-> s, c |-> "err"]
                      ELSE [s |-> [s EXCEPT !.out = Append(@, s.g + (IF s.m # 0 THEN 100 * s.m ELSE 300))], c |-> "ok"]
    [] k = "ret"   -> [s |-> s, c |-> "ret"]
    [] k = "err"   -> [s |-> s, c |-> "err"]

\* the statements of a chunk in source order, until an error or a return.  A macro definition takes effect where it
\* stands; every other statement goes through the expansion pass iff the macro table is not empty at that point.
RECURSIVE Run(_, _)
Run(s, ks) ==
  IF ks = <<>> THEN [s |-> s, err |-> FALSE]
  ELSE IF Head(ks) \in MDefs THEN Run([s EXCEPT !.m = MVer(Head(ks))], Tail(ks))
  ELSE LET r == Exec(s, Head(ks), s.m # 0) IN
       IF r.c = "err" THEN [s |-> r.s, err |-> TRUE]
       ELSE IF r.c = "ret" THEN [s |-> r.s, err |-> FALSE]
       ELSE Run(r.s, Tail(ks))

RECURSIVE LastMacro(_, _)  \* DefineMacros: every definition of the chunk, in order, the last one wins
LastMacro(m, ks) == IF ks = <<>> THEN m ELSE LastMacro(IF Head(ks) \in MDefs THEN MVer(Head(ks)) ELSE m, Tail(ks))
NotMDef(k) == k \notin MDefs

\* one input.
\*   by design (hoist = FALSE): definition and expansion proceed in source order - exactly what feeding the statements
\*     of the chunk one at a time does, so chunking cannot be seen;
\*   the implementation (hoist = TRUE; eval.DefineMacros, then eval.ExpandMacros over the whole chunk): EVERY macro
\*     definition of the chunk is collected and removed first (the last one of a name wins), then the remaining
\*     statements are expanded and evaluated.  A chunk of one statement is the same under both.
SubmitD(s, chunk, hoist) ==
  IF hoist THEN Run([s EXCEPT !.m = LastMacro(s.m, chunk)], SelectSeq(chunk, NotMDef))
  ELSE Run(s, chunk)
Submit(s, chunk) == SubmitD(s, chunk, Hoist)

\* what an observer compares: printed output, whether any input failed, the saved globals (g, f as its text, whether
\* m is a function; macros are not saved)
Obs(s, e) == [out |-> s.out, err |-> e, g |-> s.g, f |-> Text(s), mf |-> s.mf]
WholeD(sc, hoist) == LET r == SubmitD(S0, sc, hoist) IN Obs(r.s, r.err)
Whole(sc) == WholeD(sc, Hoist)

\* ------------------------------------------------------------------ the property's preconditions
ErrorFree(sc)  == ~Submit(S0, sc).err
NoReturn(sc)   == \A i \in 1..Len(sc) : sc[i] # "ret"
\* "macros defined before use": a call of m comes after something that defines m (with in-order definition this is
\* implied by ErrorFree; it is a precondition of its own because hoisting makes a use before the definition work)
DefBeforeUse(sc) == \A i \in 1..Len(sc) : sc[i] = "muse" => \E j \in 1..i - 1 : sc[j] \in MDefs \cup {"mfun"}
Eligible(sc) ==
  /\ ("errors" \in Relax \/ ErrorFree(sc))
  /\ ("return" \in Relax \/ NoReturn(sc))
  /\ ("use-before-def" \in Relax \/ DefBeforeUse(sc))

\* where hoisting can be seen in an eligible script: a macro definition FOLLOWS a use of the name that was expanded by
\* another definition (or called the function m).  Every use is preceded by a definition, so the statement covers
\* these scripts; the implementation's whole-script evaluation applies the later definition to the earlier use.
HoistSensitive(sc) == \E i, j \in 1..Len(sc) : /\ i < j /\ sc[i] = "muse" /\ sc[j] \in MDefs
                                               /\ LastMacro(0, SubSeq(sc, 1, i - 1)) # MVer(sc[j])

\* canonical long script: a function defined before the first macro definition, read as text and called after it,
\* redefined later
Canon == <<"set", "def1", "mdef1", "show", "call", "muse", "inc", "def2", "show", "call">>
Scripts == {sc \in UNION {[1..n -> Kinds] : n \in 1..MaxN} : Eligible(sc)}
           \cup {SubSeq(Canon, 1, n) : n \in (MaxN + 1)..SplitN}
HasFDef(sc) == \E i \in 1..Len(sc) : sc[i] \in FDefs

\* ------------------------------------------------------------------ the machine: choose the next chunk boundary
Init == /\ script \in Scripts
        /\ form \in (IF HasFDef(script) THEN Forms ELSE {CHOOSE fm \in Forms : TRUE})   \* a script without a function has no form
        /\ pos = 0 /\ sess = S0 /\ anyErr = FALSE /\ cuts = <<>>

Chunk(k) ==
  LET r == Submit(sess, SubSeq(script, pos + 1, k)) IN
  /\ sess' = r.s
  /\ anyErr' = (anyErr \/ r.err)
  /\ pos' = k
  /\ cuts' = Append(cuts, k)
  /\ UNCHANGED <<script, form>>
  /\ (EmitOn /\ k = Len(script)) =>
        EmitLine(ToJson([script |-> script, form |-> form, kinds |-> FormTable[form], cuts |-> cuts', out |-> r.s.out,
                         g |-> r.s.g, f |-> r.s.f, err |-> (anyErr \/ r.err),
                         hoistsens |-> HoistSensitive(script), hoisted |-> WholeD(script, TRUE).out]))

Next == \E k \in (pos + 1)..Len(script) : Chunk(k)
Spec == Init /\ [][Next]_vars

\* ------------------------------------------------------------------ properties
TypeOK == /\ pos \in 0..Len(script) /\ anyErr \in BOOLEAN /\ form \in Forms /\ sess.fc \in BOOLEAN /\ sess.mf \in 0..1 /\ sess.m \in 0..2
          /\ \A i \in 1..Len(cuts) : cuts[i] \in 1..Len(script) /\ (i > 1 => cuts[i - 1] < cuts[i])
          /\ (Len(cuts) > 0 => cuts[Len(cuts)] = pos)

\* every split, once complete, shows what the whole script shows
ChunkingIsInvisible == pos = Len(script) => Obs(sess, anyErr) = Whole(script)

\* inductive form: from every reachable intermediate session the rest, submitted in one go, completes to the whole
RestIsWhole ==
  LET r == Submit(sess, SubSeq(script, pos + 1, Len(script))) IN
  Obs(r.s, anyErr \/ r.err) = Whole(script)

\* an eligible script never fails in any chunk
NoChunkFails == (Relax = {}) => ~anyErr

\* the two ways of handling definitions agree on every eligible script in which no definition follows a use it changes
HoistingSeenOnlyThere == (Relax = {} /\ ~HoistSensitive(script)) => WholeD(script, TRUE) = WholeD(script, FALSE)
=============================================================================
