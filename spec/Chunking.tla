------------------------------- MODULE Chunking -------------------------------
(* C15 (clause 3) - chunking a script is invisible.

   "Feeding the top-level statements of an error-free script (macros defined before use, no
   top-level return) one at a time to a persistent session produces the same output and the same
   final globals as evaluating the script in one go."

   Session-level model, stated over an abstract deterministic session semantics that keeps exactly
   the mechanisms that make the preconditions necessary (repl.evalOne / eval.DefineMacros):

     * one input = one chunk of consecutive top-level statements;
     * DefineMacros first collects EVERY macro definition of the chunk (they are removed from the
       program), then the remaining statements are evaluated in order  -> macro definitions are
       hoisted to the start of their chunk;
     * evaluation of a chunk stops at the first error and at a top-level return; the session
       (globals, macros, output so far) persists and the next chunk is evaluated regardless.

   Abstract statements (the harness instantiates them as grol source):
     set    g = 1              inc    g = g + 1            print  println(g)
     def1   f = func() {g+10}  def2   f = func() {g+20}    call   println(f())
     mdef1  m = macro(x) {quote(unquote(x)+100)}           mdef2  .. +200
     muse   println(m(g))      ret    return               err    error("boom")
   Session state: g (-1 = not set), f, m (0 = not defined), out (sequence of printed numbers).

   Submit(s, chunk) is one input.  The law behind the property is
       Submit(Submit(s, a), b) = Submit(s, a \o b)       (when a does not end in an error / return
                                                          and b defines no macro that a already uses)
   and ChunkingIsInvisible states its consequence: for an eligible script EVERY one of the 2^(n-1)
   splits into consecutive chunks yields the observation of the whole script.  RestIsWhole is the
   inductive form (from every reachable intermediate session, submitting the rest in one go gives
   the whole script's observation).

   TLC explores, for every eligible script of up to MaxN statements over Kinds and for the
   canonical scripts of length MaxN+1..SplitN, every split (the chunk boundaries chosen so far are
   part of the state), checks the invariants, and emits every complete split as
       [script, cuts, out, g, f]
   which the harness (a) replays on the real interpreter (script instantiated as grol source,
   chunk by chunk through repl.EvalOne on one persistent eval.State versus at once on a fresh one)
   and (b) uses as THE generator of splits for random scripts of n <= SplitN statements.

   Relax drops one precondition at a time; TLC then finds the counterexample that shows why the
   property states it: "errors" (whole stops at the error, chunks go on), "return" (same for a
   top-level return), "use-before-def" (the whole script hoists the definition in front of the use,
   a session that has not seen it yet fails), "redef-after-use" (the whole script hoists the second
   definition in front of the first use).                                                         *)
EXTENDS Integers, Sequences, FiniteSets, TLC, Json, GrolPrims

CONSTANTS Kinds,    \* abstract statement kinds used for the exhaustive scripts
          MaxN,     \* exhaustive scripts up to this length
          SplitN,   \* canonical scripts up to this length (all splits)
          Relax,    \* subset of {"errors", "return", "use-before-def", "redef-after-use"}
          EmitOn

VARIABLES script, pos, sess, anyErr, cuts
vars == <<script, pos, sess, anyErr, cuts>>

AllKinds == {"set", "inc", "print", "def1", "def2", "call", "mdef1", "mdef2", "muse", "ret", "err"}
MDefs == {"mdef1", "mdef2"}
MVer(k) == IF k = "mdef1" THEN 1 ELSE 2

\* ------------------------------------------------------------------ abstract session semantics
S0 == [g |-> -1, f |-> 0, m |-> 0, out |-> <<>>]

\* one statement: [s |-> new session, c |-> "ok" | "err" | "ret"]
Exec(s, k) ==
  CASE k = "set"   -> [s |-> [s EXCEPT !.g = 1], c |-> "ok"]
    [] k = "inc"   -> IF s.g < 0 THEN [s |-> s, c |-> "err"] ELSE [s |-> [s EXCEPT !.g = @ + 1], c |-> "ok"]
    [] k = "print" -> IF s.g < 0 THEN [s |-> s, c |-> "err"] ELSE [s |-> [s EXCEPT !.out = Append(@, s.g)], c |-> "ok"]
    [] k = "def1"  -> [s |-> [s EXCEPT !.f = 1], c |-> "ok"]
    [] k = "def2"  -> [s |-> [s EXCEPT !.f = 2], c |-> "ok"]
    [] k = "call"  -> IF s.f = 0 \/ s.g < 0 THEN [s |-> s, c |-> "err"]
                      ELSE [s |-> [s EXCEPT !.out = Append(@, s.g + 10 * s.f)], c |-> "ok"]
    [] k = "muse"  -> IF s.m = 0 \/ s.g < 0 THEN [s |-> s, c |-> "err"]
                      ELSE [s |-> [s EXCEPT !.out = Append(@, s.g + 100 * s.m)], c |-> "ok"]
    [] k = "ret"   -> [s |-> s, c |-> "ret"]
    [] k = "err"   -> [s |-> s, c |-> "err"]

RECURSIVE Run(_, _)       \* the statements of a chunk in order, until an error or a return
Run(s, ks) ==
  IF ks = <<>> THEN [s |-> s, err |-> FALSE]
  ELSE LET r == Exec(s, Head(ks)) IN
       IF r.c = "err" THEN [s |-> r.s, err |-> TRUE]
       ELSE IF r.c = "ret" THEN [s |-> r.s, err |-> FALSE]
       ELSE Run(r.s, Tail(ks))

RECURSIVE LastMacro(_, _)  \* DefineMacros: every definition of the chunk, in order, the last one wins
LastMacro(m, ks) == IF ks = <<>> THEN m ELSE LastMacro(IF Head(ks) \in MDefs THEN MVer(Head(ks)) ELSE m, Tail(ks))
NotMDef(k) == k \notin MDefs

Submit(s, chunk) == Run([s EXCEPT !.m = LastMacro(s.m, chunk)], SelectSeq(chunk, NotMDef))

\* what an observer compares: printed output, whether any input failed, the saved globals (macros are not saved)
Obs(s, e) == [out |-> s.out, err |-> e, g |-> s.g, f |-> s.f]
Whole(sc) == LET r == Submit(S0, sc) IN Obs(r.s, r.err)

\* ------------------------------------------------------------------ the property's preconditions
ErrorFree(sc)  == ~Submit(S0, sc).err
NoReturn(sc)   == \A i \in 1..Len(sc) : sc[i] # "ret"
DefBeforeUse(sc) == \A i \in 1..Len(sc) : sc[i] = "muse" => \E j \in 1..i - 1 : sc[j] \in MDefs
NoRedefAfterUse(sc) == \A i, j \in 1..Len(sc) : (i < j /\ sc[i] = "muse" /\ sc[j] \in MDefs) =>
                          \A h \in 1..i - 1 : sc[h] \in MDefs => sc[h] = sc[j]     \* the same definition again is harmless
Eligible(sc) ==
  /\ ("errors" \in Relax \/ ErrorFree(sc))
  /\ ("return" \in Relax \/ NoReturn(sc))
  /\ ("use-before-def" \in Relax \/ DefBeforeUse(sc))
  /\ ("redef-after-use" \in Relax \/ NoRedefAfterUse(sc))

Canon == <<"set", "mdef1", "def1", "muse", "inc", "call", "def2", "print", "muse", "call">>
Scripts == {sc \in UNION {[1..n -> Kinds] : n \in 1..MaxN} : Eligible(sc)}
           \cup {SubSeq(Canon, 1, n) : n \in (MaxN + 1)..SplitN}

\* ------------------------------------------------------------------ the machine: choose the next chunk boundary
Init == /\ script \in Scripts
        /\ pos = 0 /\ sess = S0 /\ anyErr = FALSE /\ cuts = <<>>

Chunk(k) ==
  LET r == Submit(sess, SubSeq(script, pos + 1, k)) IN
  /\ sess' = r.s
  /\ anyErr' = (anyErr \/ r.err)
  /\ pos' = k
  /\ cuts' = Append(cuts, k)
  /\ UNCHANGED script
  /\ (EmitOn /\ k = Len(script)) =>
        EmitLine(ToJson([script |-> script, cuts |-> cuts', out |-> r.s.out, g |-> r.s.g, f |-> r.s.f, err |-> (anyErr \/ r.err)]))

Next == \E k \in (pos + 1)..Len(script) : Chunk(k)
Spec == Init /\ [][Next]_vars

\* ------------------------------------------------------------------ properties
TypeOK == /\ pos \in 0..Len(script) /\ anyErr \in BOOLEAN
          /\ \A i \in 1..Len(cuts) : cuts[i] \in 1..Len(script) /\ (i > 1 => cuts[i - 1] < cuts[i])
          /\ (Len(cuts) > 0 => cuts[Len(cuts)] = pos)

\* every split, once complete, shows what the whole script shows
ChunkingIsInvisible == pos = Len(script) => Obs(sess, anyErr) = Whole(script)

\* inductive form: from every reachable intermediate session the rest, submitted in one go, completes to the whole
RestIsWhole ==
  LET r == Submit(sess, SubSeq(script, pos + 1, Len(script))) IN
  Obs(r.s, anyErr \/ r.err) = Whole(script)

\* an eligible script never fails in any chunk
NoChunkFails == (Relax = {}) => ~anyErr
=============================================================================
