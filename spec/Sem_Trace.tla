------------------------------ MODULE Sem_Trace ------------------------------
(* Trace validation for C01 (and the model-prediction side of other checks): every line of
   sem_trace.ndjson is one program run by the REAL interpreter,
     {"id": n, "prog": [statement ASTs], "obs": {"out": text, "val": value, "err": bool, "panicked": bool}}
   and is checked against the reference semantics: Submit on a fresh session must produce the
   same printed text, the same final value (structurally and by type) and the same
   error / non-error outcome.  One verdict line per program is emitted, so one disagreement
   does not hide the rest of the batch.

   Two levels so that all TLC workers evaluate programs in parallel: the root state fans out
   to one cheap state per program; the evaluation happens in the successor of that state.     *)
EXTENDS GrolSem, Json

CONSTANT Fuel
T == ndJsonDeserialize("sem_trace.ndjson")

VARIABLE idx
Init == idx = 0

RECURSIVE ObsEq(_, _)
ObsEq(a, b) ==
  /\ a.t = b.t
  /\ CASE a.t \in {"int", "float", "str"} -> a.v = b.v
       [] a.t = "bool" -> a.v = b.v
       [] a.t = "arr"  -> Len(a.e) = Len(b.e) /\ \A i \in 1..Len(a.e) : ObsEq(a.e[i], b.e[i])
       [] a.t = "map"  -> Len(a.p) = Len(b.p) /\ \A i \in 1..Len(a.p) : ObsEq(a.p[i][1], b.p[i][1]) /\ ObsEq(a.p[i][2], b.p[i][2])
       [] a.t = "func" -> a.ck = b.ck
       [] OTHER        -> TRUE

Verdict(i) ==
  LET t   == T[i]
      res == Submit(InitState(Fuel), t.prog, Fuel)
      why == IF res.fuel THEN "fuel"
             ELSE IF t.obs.panicked THEN "panic"
             ELSE IF res.err # t.obs.err THEN "err"
             ELSE IF res.out # t.obs.out THEN "out"
             ELSE IF ~res.err /\ ~ObsEq(Obs(res.val), t.obs.val) THEN "val"
             ELSE "ok"
  IN IF why \in {"ok", "fuel"}
     THEN EmitLine(ToJson([id |-> t.id, v |-> why]))
     ELSE EmitLine(ToJson([id |-> t.id, v |-> why, err |-> res.err,
                           out |-> StrBytes(res.out),
                           val |-> StrBytes(IF res.err THEN res.val.m ELSE Inspect(res.val))]))

Fan  == idx = 0 /\ \E i \in 1..Len(T) : idx' = 0 - i
Work == idx < 0 /\ Verdict(0 - idx) /\ idx' = 0 - idx
Next == Fan \/ Work
=============================================================================
