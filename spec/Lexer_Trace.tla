----------------------------- MODULE Lexer_Trace -----------------------------
(* Trace validation for C16: token streams recorded from the real lexer
   (lexer.New / lexer.NewLineMode, NextToken, Pos() before and after each call) are
   judged with the guards of Lexer.tla.  File lexer_trace.ndjson, one record per line:

     {"k":"tr","id":N,"m":"file"|"line"|"both","inp":[bytes],"p":0|1,
      "t":[[type name, [literal bytes], pointer id, pos before, pos after], ...],"le":[type name, pointer id]}
         one input lexed by one fresh lexer: the harness calls NextToken until it has seen
         an end marker with Pos() >= n or made n+2 calls, then 3 more times.  p = 1: the
         lexer panicked (t holds what was delivered before).
         m = "both" is a lossless compression of two recordings of the same input: t is the
         file-mode stream, and the line-mode stream is t with every end-marker token replaced
         by the token (type, pointer id) = le (same positions); le = [] otherwise.
     {"k":"tab","g":[[type name, [[literal bytes, pointer id], ...]], ...]}
         the distinct (pointer id, type, literal) triples of the whole batch, grouped by
         type, literals in byte order (pure recording; the order is CHECKED here, not trusted).

   Every trace is evaluated in ONE step (TraceNext), which emits one verdict line per
   trace that is rejected or disagrees with the reference grammar, and a summary line at
   the end; so one bad trace never hides the rest of the batch:
     {"id":N,"sig":[per token: "" | "md" | "dev:<finding>" | "bad:<rule>"],"tl":trace-level rule or ""}
   "dev:<finding>"  the property's guard refused the token AND the token is exactly what
                    RefTok(.., D) - the grammar with one named deviation D of this tree (or all of
                    them) - produces from that position; the finding names the deviation;
   "bad:<rule>"     the guard refused it and no named deviation explains it;
   "md"             the guards accept the token but the maximal-munch reference grammar would
                    have produced another one (diagnostic only, not part of the property).  *)
EXTENDS Lexer

VARIABLES l, nok, nbad, nmd
tvars == <<vars, l, nok, nbad, nmd>>

Trace == ndJsonDeserialize("lexer_trace.ndjson")

\* ------------------------------------------------------------------ one trace
DevSig(inp, m) ==
  CASE m.why = "exp"        -> "lexer-malformed-exponent-loses-bytes"
    [] m.why = "dot2"       -> "lexer-second-dot-loses-byte"
    [] m.why = "nul-top"    -> IF SkipWS(inp, m.e) >= Len(inp) THEN "lexer-trailing-NUL-in-no-token"
                               ELSE "lexer-embedded-NUL-nonfinal-end"
    [] m.why = "nul-str"    -> "lexer-NUL-in-string-yields-end-marker"
    [] m.why \in {"nul-lc", "nul-bc"} -> "lexer-NUL-cuts-comment"
    [] m.why = "unterm-str" -> "lexer-unterminated-string-bytes-in-no-token"
    [] OTHER                -> "lexer-unnamed-deviation"

\* does the observed token o = [type, lit, id, b, a] equal the model token m produced from o.b ?
ObsMatch(inp, md, m, o) ==
  IF m.type = "END"
  THEN /\ o.type \in EndTypes
       /\ (m.why = "" => o.type = EndType(md))
       /\ IF m.why \in {"nul-top", "nul-str"} THEN o.a = m.e ELSE o.a >= Len(inp)
  ELSE /\ o.type = m.type
       /\ o.a = m.e
       /\ CASE Class(m.type) = "text" -> o.lit = Bytes(inp, m.s, m.te)
            [] Class(m.type) \in {"lcomment", "bcomment"} -> TrimEq(o.lit, Bytes(inp, m.s, m.te))
            [] OTHER -> TRUE

\* deviations tried, in this order, to explain a token the guards refuse (one deviation per token, then all together)
DevOrder == <<{"ExpLosesBytes"}, {"SecondDotLosesByte"}, {"NulIsEnd"}, {"UntermStrIsEnd"}, AllDev>>

\* an end marker is justified when nothing but whitespace is left
FinalTok(inp, t) == t[1] \in EndTypes /\ t[4] >= 0 /\ EndOK(inp, t[4])

RECURSIVE FirstFinal(_, _, _)      \* index of the first justified end marker, 0 if none
FirstFinal(inp, T, k) ==
  IF k > Len(T) THEN 0 ELSE IF FinalTok(inp, T[k]) THEN k ELSE FirstFinal(inp, T, k + 1)

(* verdict on token k: "" accepted and equal to the reference token, "md" accepted but not the
   token of the maximal-munch reference grammar (diagnostic), "dev:<finding>", "bad:<rule>"      *)
TokCode(inp, md, T, FF, k) ==
  LET t == T[k]
      o == [type |-> t[1], lit |-> t[2], id |-> t[3], b |-> t[4], a |-> t[5]]
  IN IF o.b < 0 \/ (k = 1 /\ o.b # 0) \/ (k > 1 /\ o.b # T[k - 1][5]) THEN "bad:pos-discontinuity"
     ELSE IF FF # 0 /\ k > FF
          THEN (IF o.id = T[FF][3] /\ o.type = T[FF][1] THEN "" ELSE "bad:end-marker-not-sticky")
     ELSE LET r == IF o.type \in EndTypes
                   THEN (IF k = FF \/ FinalTok(inp, t) THEN "" ELSE "end-marker-before-end-of-input")
                   ELSE EmitRule(inp, o.b, [type |-> o.type, lit |-> o.lit, s |-> SkipWS(inp, o.b), e |-> o.a])
          IN IF r = ""
             THEN (IF ObsMatch(inp, md, RefTok(inp, o.b, {}), o) THEN "" ELSE "md")
             ELSE LET Explains(D) == LET m == RefTok(inp, o.b, D) IN m.why # "" /\ ObsMatch(inp, md, m, o) IN
                  IF \E i \in 1..Len(DevOrder) : Explains(DevOrder[i])
                  THEN LET i == CHOOSE i \in 1..Len(DevOrder) : Explains(DevOrder[i]) /\ \A j \in 1..i - 1 : ~Explains(DevOrder[j])
                       IN "dev:" \o DevSig(inp, RefTok(inp, o.b, DevOrder[i]))
                  ELSE "bad:" \o r

RECURSIVE TokCodes(_, _, _, _, _)
TokCodes(inp, md, T, FF, k) ==
  IF k > Len(T) THEN <<>> ELSE <<TokCode(inp, md, T, FF, k)>> \o TokCodes(inp, md, T, FF, k + 1)

Verdict(tr) ==
  LET inp == tr.inp
      T   == tr.t
      K   == Len(T)
      FF  == FirstFinal(inp, T, 1)
      sig == TokCodes(inp, tr.m, T, FF, 1)
      \* equal (type, literal) <=> same pointer id, inside the trace: as many keys as ids as (key, id) pairs
      Interned == LET keys == {<<T[i][1], T[i][2]>> : i \in 1..K}
                      ids  == {T[i][3] : i \in 1..K}
                      both == {<<T[i][1], T[i][2], T[i][3]>> : i \in 1..K}
                  IN Cardinality(keys) = Cardinality(both) /\ Cardinality(ids) = Cardinality(both)
      TL == IF tr.p = 1 THEN "panic"
            ELSE IF FF = 0 THEN "no-final-end-marker"
            ELSE IF FF > Len(inp) + 1 THEN "end-marker-after-more-than-n+1-tokens"
            ELSE IF ~Interned THEN "interning-within-trace"
            ELSE IF tr.m = "both" /\ tr.le[1] \notin EndTypes THEN "line-mode-end-marker-type"
            ELSE ""
  IN [id |-> tr.id, sig |-> sig, tl |-> TL,
      bad   |-> (TL # "" \/ \E k \in 1..K : sig[k] \notin {"", "md"}),
      hasmd |-> (\E k \in 1..K : sig[k] = "md") \/ (tr.m = "both" /\ tr.le[1] # "EOL")]

\* ------------------------------------------------------------------ the interning table of the batch
RECURSIVE LexLess(_, _)
LexLess(a, b) ==
  IF a = <<>> THEN b # <<>>
  ELSE IF b = <<>> THEN FALSE
  ELSE IF Head(a) # Head(b) THEN Head(a) < Head(b)
  ELSE LexLess(Tail(a), Tail(b))

RECURSIVE SumLens(_, _)
SumLens(G, i) == IF i = 0 THEN 0 ELSE Len(G[i][2]) + SumLens(G, i - 1)

(* equal (type, literal) <=> same pointer, over the whole batch: type names pairwise distinct,
   literals strictly increasing inside a type (so every (type, literal) occurs once), and all
   pointer ids distinct.  Returns "" or what is wrong.                                        *)
TableVerdict(tab) ==
  LET G  == tab.g
      NG == Len(G)
      rows(i) == G[i][2]
      total == SumLens(G, NG)
      ids == UNION {{rows(i)[j][2] : j \in 1..Len(rows(i))} : i \in 1..NG}
  IN IF Cardinality({G[i][1] : i \in 1..NG}) # NG THEN "table-type-groups-not-distinct"
     ELSE IF \E i \in 1..NG : \E j \in 1..Len(rows(i)) - 1 : ~LexLess(rows(i)[j][1], rows(i)[j + 1][1])
          THEN "interning-equal-tokens-two-pointers"
     ELSE IF Cardinality(ids) # total THEN "interning-one-pointer-two-tokens"
     ELSE ""

\* ------------------------------------------------------------------ the trace machine
TraceInit ==
  /\ input = <<>> /\ mode = "file" /\ pos = 0 /\ done = FALSE /\ ntok = 0 /\ spans = <<>> /\ stuck = FALSE
  /\ l = 1 /\ nok = 0 /\ nbad = 0 /\ nmd = 0

Summary(a, b, c) ==
  l = Len(Trace) => EmitLine(ToJson([summary |-> 1, records |-> Len(Trace), ok |-> a, bad |-> b, md |-> c]))

TraceStep ==
  /\ l <= Len(Trace) /\ Trace[l].k = "tr"
  /\ LET tr == Trace[l]
         v  == Verdict(tr)
         hasmd == v.hasmd
     IN /\ input' = tr.inp /\ mode' = tr.m
        /\ pos' = IF Len(tr.t) = 0 THEN 0 ELSE tr.t[Len(tr.t)][5]
        /\ done' = ~v.bad /\ stuck' = v.bad
        /\ ntok' = Len(tr.t) /\ spans' = <<>>
        /\ nok'  = IF v.bad THEN nok ELSE nok + 1
        /\ nbad' = IF v.bad THEN nbad + 1 ELSE nbad
        /\ nmd'  = IF hasmd THEN nmd + 1 ELSE nmd
        /\ ((v.bad \/ hasmd) => EmitLine(ToJson([id |-> v.id, sig |-> v.sig, tl |-> v.tl])))
        /\ Summary(nok', nbad', nmd')
  /\ l' = l + 1

TableStep ==
  /\ l <= Len(Trace) /\ Trace[l].k = "tab"
  /\ LET r == TableVerdict(Trace[l]) IN
     /\ EmitLine(ToJson([table |-> 1, verdict |-> r]))
     /\ nok'  = IF r = "" THEN nok + 1 ELSE nok
     /\ nbad' = IF r = "" THEN nbad ELSE nbad + 1
     /\ Summary(nok', nbad', nmd)
  /\ l' = l + 1
  /\ UNCHANGED <<vars, nmd>>

TraceNext == TraceStep \/ TableStep
TraceSpec == TraceInit /\ [][TraceNext]_tvars

\* every record was consumed (a record no action accepts stops the run early)
TraceAccepted ==
  IF TLCGet("stats").diameter - 1 = Len(Trace) THEN TRUE
  ELSE PrintT(<<"TRACE_STOPPED_AT_LINE", TLCGet("stats").diameter>>) /\ FALSE
=============================================================================
