----------------------------- MODULE Macro_Trace -----------------------------
(* Trace validation for C13: macro_trace.ndjson holds one line per case run on the REAL code,
     {"id": n, "defs": [{"name", "ps", "tpl"}, ..], "prog": [statements], "real": [statements]}
   defs = the definitions recorded in the session before the program was submitted (in order,
   a later definition of a name replaces an earlier one), prog = the submitted program without
   its definition statements, real = the canonical dump of the tree eval.State.ExpandMacros
   returned.  The verdict is the property's relation: real = Macro!ExpandStmts(prog, store)
   with no deviation.  When that fails the named known deviations are tried, so that a case is
   attributed to a known finding only if that deviation explains the tree EXACTLY; any other
   difference stays unexplained (dev = "").  One verdict line per case is emitted.            *)
EXTENDS Macro

Tr == ndJsonDeserialize("macro_trace.ndjson")
VARIABLE idx
TInit == macros = NoMacros /\ hist = <<>> /\ idx = 0

StoreOf(defs) ==
  [n \in {defs[i].name : i \in 1..Len(defs)} |->
     LET j == CHOOSE j \in 1..Len(defs) : defs[j].name = n /\ \A q \in (j + 1)..Len(defs) : defs[q].name # n
     IN [ps |-> defs[j].ps, tpl |-> defs[j].tpl]]

KnownDevs == << {"CalleeNotRewritten"}, {"SharedArgAsMapKey"}, {"CalleeNotRewritten", "SharedArgAsMapKey"} >>
DevName(i) == CASE i = 1 -> "CalleeNotRewritten" [] i = 2 -> "SharedArgAsMapKey" [] i = 3 -> "CalleeNotRewritten+SharedArgAsMapKey"

Verdict(i) ==
  LET t  == Tr[i]
      M  == StoreOf(t.defs)
      ok == ExpandStmts(t.prog, M, {}).t = t.real
      ex == IF ok THEN {} ELSE {d \in 1..Len(KnownDevs) : ExpandStmts(t.prog, M, KnownDevs[d]).t = t.real}
      dv == IF ex = {} THEN "" ELSE DevName(CHOOSE d \in ex : \A e \in ex : d <= e)
  IN EmitLine(ToJson([id |-> t.id, ok |-> ok, dev |-> dv]))

TNext == idx < Len(Tr) /\ Verdict(idx + 1) /\ idx' = idx + 1 /\ UNCHANGED <<macros, hist>>
=============================================================================
