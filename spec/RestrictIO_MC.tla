--------------------------- MODULE RestrictIO_MC ---------------------------
(* Model-checking front end of RestrictIO.tla: the 10-symbol alphabet of property C17,
   the pinned names beyond the exhaustive bound, and the image names.  The harness
   (harness/c17.go) writes the .cfg (Configs, Trees, MaxLen, MaxOps, Deviation, EmitOn). *)
EXTENDS RestrictIO

\* a letter, a digit, '_', '.', '/', '\', NUL, space, '~', a non-ASCII byte
Alphabet10 == {97, 48, 95, 46, 47, 92, 0, 32, 126, 233}
\* small alphabet for the deeper history runs
Alphabet3  == {97, 46, 47}

Pinned ==
  { B("/a.gr"), B("/a"), B("/.gr"), B("/l1/l2/cwd/a.gr"), B("/l1/l2/cwd/a"), B("/l1/l2/cwd/sub/a.gr"),
    B("/l1/l2/a.gr"), B("/l1/a"), B("../a.gr"), B("../../a.gr"), B("../../../a.gr"), B("../../../../a"),
    B("./a.gr"), B("./a"), B("sub/a"), B("sub/a.gr"), B("sub/../a"), B("sub/../../a.gr"), B("a.gr/"), B("a.gr/."),
    B("a/../a"), B("."), B(".."), B("/"), B("a.gr.gr"), B("a.gr.gr.gr"), B(".gr.gr"), B("a.GR"), B("A.gr"),
    B("aZ09_"), B("Az_09.gr"), B("grol.png"), B("grol"), B("/dev/null"), B("/etc/passwd"), B("/proc/self/environ"),
    B("$HOME/a"), B("~/a"), B("~root/a"), B("a;b"), B("a*"), B("a?"), B("a b"), B("a'b"), B("a-b"), B("a+b"),
    B("a.b"), B("a.b.gr"), B(".a"), B(".a.gr"), B("a."), B("a..gr"), B("..gr"), B("...gr"), B("a~"), B("gr"), B(".g"),
    <<97, 0, 46, 103, 114>>, <<0>>, <<97, 0>>, <<46, 46, 47, 97, 0, 46, 103, 114>>,   \* NUL inside
    <<97, 10>>, <<97, 13, 10, 98>>, <<97, 34, 98>>, <<97, 92, 110>>,                  \* newline, quote, backslash-n
    <<195, 169>>, <<195, 169, 46, 103, 114>>, <<255>>, <<128, 46, 103, 114>>,          \* UTF-8 and stray high bytes
    [i \in 1..100 |-> 97] }                                                          \* a long identifier

\* pinned names of the history runs
PinnedSmall == { B("a.gr.gr"), B("../a"), B("/a.gr"), B("a.b"), B("A_0") }

Images == { B("img"), B("../x"), B("/a.gr"), B("a.gr"), B("sub/a.png"), <<>> }
=============================================================================
