--------------------------- MODULE RestrictIO_MC ---------------------------
(* Model-checking front end of RestrictIO.tla: the 10-symbol alphabet of property C17,
   the pinned names beyond the exhaustive bound, and the image names.  The harness
   (harness/c17.go) writes the .cfg (Configs, Trees, MaxLen, MaxOps, Deviation, EmitOn). *)
EXTENDS RestrictIO

\* a letter, a digit, '_', '.', '/', '\', NUL, space, '~', a non-ASCII byte
Alphabet10 == {97, 48, 95, 46, 47, 92, 0, 32, 126, 233}
\* small alphabet for the deeper history runs
Alphabet3  == {97, 46, 47}

Pinned ==
  { B("/a.gr"), B("/a"), B("/.gr"), B("/l1/l2/cwd/a.gr"), B("/l1/l2/cwd/a"), B("/l1/l2/cwd/sub/a.gr"),
    B("/l1/l2/a.gr"), B("/l1/a"), B("../a.gr"), B("../../a.gr"), B("../../../a.gr"), B("../../../../a"),
    B("./a.gr"), B("./a"), B("sub/a"), B("sub/a.gr"), B("sub/../a"), B("sub/../../a.gr"), B("a.gr/"), B("a.gr/."),
    B("a/../a"), B("."), B(".."), B("/"), B("a.gr.gr"), B("a.gr.gr.gr"), B(".gr.gr"), B("a.GR"), B("A.gr"),
    B("aZ09_"), B("Az_09.gr"), B("grol.png"), B("grol"), B("/dev/null"), B("/etc/passwd"), B("/proc/self/environ"),
    B("$HOME/a"), B("~/a"), B("~root/a"), B("a;b"), B("a*"), B("a?"), B("a b"), B("a'b"), B("a-b"), B("a+b"),
    B("a.b"), B("a.b.gr"), B(".a"), B(".a.gr"), B("a."), B("a..gr"), B("..gr"), B("...gr"), B("a~"), B("gr"), B(".g"),
    <<97, 0, 46, 103, 114>>, <<0>>, <<97, 0>>, <<46, 46, 47, 97, 0, 46, 103, 114>>,   \* NUL inside
    <<97, 10>>, <<97, 13, 10, 98>>, <<97, 34, 98>>, <<97, 92, 110>>,                  \* newline, quote, backslash-n
    <<195, 169>>, <<195, 169, 46, 103, 114>>, <<255>>, <<128, 46, 103, 114>>,          \* UTF-8 and stray high bytes
    [i \in 1..100 |-> 97] }                                                          \* a long identifier

\* ---- valid multi-byte UTF-8 characters.  The sanitiser works on BYTES, so every one of these names is refused;
\* an implementation that ranges over runes and narrows them to a byte would accept the first group.
Utf8(cp) == IF cp < 128 THEN <<cp>>
            ELSE IF cp < 2048 THEN <<192 + (cp \div 64), 128 + (cp % 64)>>
            ELSE IF cp < 65536 THEN <<224 + (cp \div 4096), 128 + ((cp \div 64) % 64), 128 + (cp % 64)>>
            ELSE <<240 + (cp \div 262144), 128 + ((cp \div 4096) % 64), 128 + ((cp \div 64) % 64), 128 + (cp % 64)>>
CodePoints ==
  { 321, 353, 304, 351, 378, 8257, 12354, 65345, 65601,    \* code point mod 256 is a letter, digit or '_': U+0141 U+0161 U+0130 U+015F U+017A U+2041 U+3042 U+FF41 U+10041
    233, 8364, 256, 303, 302, 65295, 128512 }                \* mod 256 is not: U+00E9 U+20AC, U+0100 (NUL), U+012F ('/'), U+012E ('.'), U+FF0F, U+1F600
NamesWith(u) == {u, u \o Gr, <<97>> \o u, u \o <<97>> \o Gr, u \o u}
Utf8Names == UNION { NamesWith(Utf8(cp)) : cp \in CodePoints }
ASSUME \A n \in Utf8Names : \E i \in 1..Len(n) : n[i] > 127

\* ---- accepted names whose request fails in the operating system: targets that are directories in tree 2,
\* and an identifier one byte too long for a file name (253 + ".gr" = 256 > NAME_MAX)
FaultNames == { B("d"), B("d.gr"), B("e"), B("e.gr"), [i \in 1..253 |-> 97], [i \in 1..252 |-> 97] }

AllPinned == Pinned \cup Utf8Names \cup FaultNames

\* ---- the single-byte dimension, complete: every one of the 256 byte values alone and first / in the middle / last in a
\* short identifier-like name, each plain and with ".gr" appended (2 048 names).  San refuses every name holding a byte
\* outside [A-Za-z0-9_]; NUL and '/' are also refused by the OS model, as before.
ByteSweep == UNION { { <<b>>, <<b>> \o Gr, <<b, 97>>, <<b, 97>> \o Gr, <<97, b>>, <<97, b>> \o Gr, <<97, b, 98>>, <<97, b, 98>> \o Gr }
                     : b \in 0..255 }
NoSweep == {}

\* pinned names of the history runs
PinnedSmall == { B("a.gr.gr"), B("../a"), B("/a.gr"), B("a.b"), B("A_0") }

Images == { B("img"), B("../x"), B("/a.gr"), B("a.gr"), B("sub/a.png"), <<>> }
=============================================================================
