--------------------------- MODULE MapRep_Trace ---------------------------
(* Trace validation for C11: operation sequences run on the real object.Map (public Go API)
   or through grol source on one persistent interpreter state, recorded by the Go harness in
   maprep_trace.ndjson, are checked against the ABSTRACT level of MapRep.tla.

     line 1   {"e":"universe","keys":[key records],"vals":[value records]}
              the key order is NOT recorded: it is computed here from the key records by
              MapRep!KCmp (the documented order), so a map that iterates in another order
              is rejected.
     {"e":"new"}                          a fresh empty map (traces are concatenated)
     {"e":"op","op":{"o":..,"a":..,"b":..,"j":..,"es":[[k,v]..]},"ch":0|1|2,"it":s,
      "obs":{"len":n,"printed":s,"iter":s,"first":s,"rest":s,"get":s},"gk":[k..],"eq":1,"neq":0}
              after the real operation: what the real map shows (length, printed form,
              iteration by First/Rest or by a for loop, first, rest, lookups of the keys gk,
              equality with an equal map built in another order / with a different map).

   An event is accepted when the spec's action for the operation is enabled and every
   recorded observation equals the abstract prediction.  The implementation-shaped state `m`
   is carried along by the same actions, so RepOK/AbsOK are evaluated at every step of
   the real histories too (universe of ~36 keys, long histories).                        *)
EXTENDS MapRep

VARIABLE l
Trace == ndJsonDeserialize("maprep_trace.ndjson")
Univ  == ndJsonDeserialize("maprep_universe.ndjson")    \* a copy of line 1 (small file: cheap to re-read)
TKeys == Univ[1].keys
TVals == Univ[1].vals
NoLits == <<>>

TraceInit == /\ m = EmptySmall /\ abs = {} /\ hist = <<>> /\ l = 2

ObsMatch(ev, S) ==
  LET ps == APairs(S) IN
  /\ ev.obs.len = Len(ps)
  /\ ev.obs.printed = Printed(ps)
  /\ ev.obs.iter = IterTxt(ps)
  /\ ev.obs.first = FirstTxt(ps)
  /\ ev.obs.rest = (IF Len(ps) <= 1 THEN "nil" ELSE Printed(Tail(ps)))
  /\ ev.obs.get = GetTxt([i \in 1..Len(ev.gk) |-> ALookup(S, ev.gk[i])])
  /\ ev.eq = 1 /\ ev.neq = 0

TraceOp ==
  /\ l <= Len(Trace) /\ Trace[l].e = "op"
  /\ LET ev == Trace[l]
         r  == ev.op                              \* JSON record [o, a, b, j (, es)]
         op == <<r.o, r.a, r.b, r.j>>             \* the spec's operation tuple
     IN /\ CASE r.j > 0       -> \* a loop whose body changes the map at iteration j: the loop saw the old value
                                 /\ r.j <= Cardinality(abs) /\ ev.it = IterTxt(APairs(abs))
                                 /\ IF r.o = "set" THEN SetA(op, r.a, r.b)
                                    ELSE DelA(op, r.a) /\ ev.ch = (IF AHas(abs, r.a) THEN 1 ELSE 0)
             [] r.o = "lit"   -> LitA(op, r.es)
             [] r.o = "set"   -> SetA(op, r.a, r.b)
             [] r.o = "del"   -> DelA(op, r.a) /\ ev.ch = (IF AHas(abs, r.a) THEN 1 ELSE 0)
             [] r.o = "rest"  -> RestA(op)
             [] r.o = "range" -> RangeA(op, r.a, r.b)
             [] r.o = "appr"  -> AppRA(op, r.es)
             [] r.o = "appl"  -> AppLA(op, r.es)
             [] r.o = "self"  -> SelfA(op)
        /\ ObsMatch(ev, abs')
  /\ l' = l + 1

TraceNew ==
  /\ l <= Len(Trace) /\ Trace[l].e = "new"
  /\ m' = EmptySmall /\ abs' = {} /\ hist' = <<>>
  /\ l' = l + 1

TraceNext == TraceOp \/ TraceNew
TraceSpec == TraceInit /\ [][TraceNext]_<<vars, l>>

\* l starts at line 2 and every accepted event is one step
TraceAccepted ==
  IF TLCGet("stats").diameter = Len(Trace) THEN TRUE
  ELSE PrintT(<<"TRACE_REJECTED_AT_LINE", TLCGet("stats").diameter + 1>>) /\ FALSE
=============================================================================
