package tlc2.module;

// TLC module override for GrolPrims.tla: machine arithmetic (int64 wrap-around, IEEE binary64),
// Go-compatible number/string formatting, byte-string helpers and the Emit operator.
// No grol code is used here; this is the trusted scalar base of the reference semantics
// (same relationship the Integers module has with TLC's Java implementation).
//
// Representation: int64 = decimal string; float64 = 16 lower-case hex digits of the IEEE bits;
// grol strings = TLA+ strings whose chars are the bytes (Latin-1: char code = byte value).

import java.io.FileOutputStream;
import java.io.IOException;
import java.io.OutputStreamWriter;
import java.io.Writer;
import java.math.BigDecimal;
import java.math.MathContext;
import java.math.RoundingMode;
import java.nio.charset.StandardCharsets;

import tlc2.value.impl.BoolValue;
import tlc2.value.impl.IntValue;
import tlc2.value.impl.StringValue;
import tlc2.value.impl.Value;
import tlc2.value.impl.TupleValue;

public class GrolPrims {
    public static final long serialVersionUID = 20261002L;

    // ---------------------------------------------------------------- helpers
    private static String str(final Value v) {
        if (v instanceof StringValue) {
            return ((StringValue) v).getVal().toString();
        }
        throw new RuntimeException("GrolPrims: expected string, got " + v);
    }

    private static long l(final Value v) {
        if (v instanceof IntValue) {
            return ((IntValue) v).val;
        }
        return Long.parseLong(str(v));
    }

    private static Value L(final long x) {
        return new StringValue(Long.toString(x));
    }

    private static double d(final Value v) {
        return Double.longBitsToDouble(Long.parseUnsignedLong(str(v), 16));
    }

    private static Value D(final double x) {
        // Go arithmetic does not canonicalise NaN payloads either, but printing/comparison never
        // distinguishes them; canonicalise so model values are comparable.
        long bits = Double.isNaN(x) ? 0x7ff8000000000001L : Double.doubleToRawLongBits(x);
        return new StringValue(String.format("%016x", bits));
    }

    private static Value B(final boolean b) {
        return b ? BoolValue.ValTrue : BoolValue.ValFalse;
    }

    // ---------------------------------------------------------------- emit
    private static Writer emitter;

    public static synchronized Value EmitLine(final Value line) throws IOException {
        if (emitter == null) {
            String path = System.getProperty("verif.emit");
            if (path == null) {
                throw new RuntimeException("GrolPrims!EmitLine: -Dverif.emit=<file> not set");
            }
            emitter = new OutputStreamWriter(new FileOutputStream(path, true), StandardCharsets.UTF_8);
            final Writer w = emitter;
            Runtime.getRuntime().addShutdownHook(new Thread(() -> {
                try {
                    synchronized (GrolPrims.class) {
                        w.flush();
                    }
                } catch (IOException e) {
                    // ignore
                }
            }));
        }
        emitter.write(str(line));
        emitter.write('\n');
        return BoolValue.ValTrue;
    }

    public static synchronized Value EmitFlush() throws IOException {
        if (emitter != null) {
            emitter.flush();
        }
        return BoolValue.ValTrue;
    }

    // ---------------------------------------------------------------- int64
    public static Value I64Add(final Value a, final Value b) { return L(l(a) + l(b)); }
    public static Value I64Sub(final Value a, final Value b) { return L(l(a) - l(b)); }
    public static Value I64Mul(final Value a, final Value b) { return L(l(a) * l(b)); }
    // Go: truncated division; MinInt64 / -1 wraps to MinInt64 (no panic), x % -1 = 0. Divisor 0 is the caller's case.
    public static Value I64Div(final Value a, final Value b) {
        long x = l(a), y = l(b);
        if (y == 0) { throw new RuntimeException("I64Div by zero"); }
        if (y == -1) { return L(-x); }
        return L(x / y);
    }
    public static Value I64Mod(final Value a, final Value b) {
        long x = l(a), y = l(b);
        if (y == 0) { throw new RuntimeException("I64Mod by zero"); }
        if (y == -1) { return L(0); }
        return L(x % y);
    }
    // Go: shift count >= 64 gives 0 (<<) / 0 (logical >>); negative count is the caller's case.
    public static Value I64Shl(final Value a, final Value b) {
        long x = l(a), y = l(b);
        if (y < 0) { throw new RuntimeException("I64Shl negative count"); }
        return L(y >= 64 ? 0 : x << y);
    }
    public static Value I64Shr(final Value a, final Value b) { // logical, as uint64
        long x = l(a), y = l(b);
        if (y < 0) { throw new RuntimeException("I64Shr negative count"); }
        return L(y >= 64 ? 0 : x >>> y);
    }
    public static Value I64And(final Value a, final Value b) { return L(l(a) & l(b)); }
    public static Value I64Or(final Value a, final Value b) { return L(l(a) | l(b)); }
    public static Value I64Xor(final Value a, final Value b) { return L(l(a) ^ l(b)); }
    public static Value I64Neg(final Value a) { return L(-l(a)); }
    public static Value I64Not(final Value a) { return L(~l(a)); }
    public static Value I64Cmp(final Value a, final Value b) { return IntValue.gen(Long.compare(l(a), l(b))); }
    public static Value I64Fits(final Value a) { long x = l(a); return B(x >= -1000000000L && x <= 1000000000L); }
    public static Value I64ToInt(final Value a) {
        long x = l(a);
        if (x < Integer.MIN_VALUE || x > Integer.MAX_VALUE) { throw new RuntimeException("I64ToInt out of range " + x); }
        return IntValue.gen((int) x);
    }
    public static Value IntToI64(final Value a) { return L(l(a)); }

    // ---------------------------------------------------------------- float64
    public static Value F64Add(final Value a, final Value b) { return D(d(a) + d(b)); }
    public static Value F64Sub(final Value a, final Value b) { return D(d(a) - d(b)); }
    public static Value F64Mul(final Value a, final Value b) { return D(d(a) * d(b)); }
    public static Value F64Div(final Value a, final Value b) { return D(d(a) / d(b)); }
    // Go math.Mod == C fmod == Java % on doubles (sign of the dividend, NaN for y = 0 or x = Inf).
    public static Value F64Mod(final Value a, final Value b) { return D(d(a) % d(b)); }
    public static Value F64Neg(final Value a) { return D(-d(a)); }
    public static Value F64FromI64(final Value a) { return D((double) l(a)); }
    // Go cmp.Compare on float64: NaN is less than any non-NaN and equal to NaN; -0 == +0.
    public static Value F64Cmp(final Value a, final Value b) {
        double x = d(a), y = d(b);
        boolean xn = Double.isNaN(x), yn = Double.isNaN(y);
        if (xn && yn) { return IntValue.gen(0); }
        if (xn || x < y) { return IntValue.gen(-1); }
        if (yn || x > y) { return IntValue.gen(1); }
        return IntValue.gen(0);
    }
    // exact mathematical comparison of an int64 with a float64 (the documented order), NaN lowest.
    public static Value NumCmpExact(final Value i, final Value f) {
        double y = d(f);
        if (Double.isNaN(y)) { return IntValue.gen(1); }
        if (Double.isInfinite(y)) { return IntValue.gen(y > 0 ? -1 : 1); }
        return IntValue.gen(new BigDecimal(l(i)).compareTo(new BigDecimal(y)));
    }
    public static Value F64IsNaN(final Value a) { return B(Double.isNaN(d(a))); }

    static String fmtFloat(final double x) {
        if (Double.isNaN(x)) { return "NaN"; }
        if (Double.isInfinite(x)) { return x > 0 ? "+Inf" : "-Inf"; }
        if (x == 0) { return (Double.doubleToRawLongBits(x) != 0) ? "-0" : "0"; }
        BigDecimal exact = new BigDecimal(x);
        for (int p = 1; p <= 17; p++) {
            BigDecimal best = null;
            for (RoundingMode rm : new RoundingMode[] {RoundingMode.HALF_EVEN, RoundingMode.DOWN, RoundingMode.UP}) {
                BigDecimal c = exact.round(new MathContext(p, rm));
                if (c.doubleValue() == x) {
                    if (best == null || c.subtract(exact).abs().compareTo(best.subtract(exact).abs()) < 0) {
                        best = c;
                    }
                }
            }
            if (best != null) {
                if (best.signum() == 0) { return "0"; }
                return best.stripTrailingZeros().toPlainString();
            }
        }
        return exact.toPlainString();
    }

    public static Value F64Fmt(final Value a) { return new StringValue(fmtFloat(d(a))); }

    // ---------------------------------------------------------------- byte strings (Latin-1 carried)
    public static Value StrByteAt(final Value a, final Value i) { // 1-based
        String x = str(a);
        return IntValue.gen(x.charAt((int) l(i) - 1) & 0xff);
    }
    public static Value StrSub(final Value a, final Value from, final Value to) { // 1-based inclusive, like SubSeq
        String x = str(a);
        int f = (int) l(from), t = (int) l(to);
        if (t < f) { return new StringValue(""); }
        return new StringValue(x.substring(f - 1, t));
    }
    public static Value StrLen(final Value a) { return IntValue.gen(str(a).length()); }
    public static Value StrCat(final Value a, final Value b) { return new StringValue(str(a) + str(b)); }
    public static Value StrRepeat(final Value a, final Value n) {
        String x = str(a);
        long k = l(n);
        if ((long) x.length() * k > 1000000L) { throw new RuntimeException("StrRepeat too large"); }
        StringBuilder sb = new StringBuilder();
        for (long i = 0; i < k; i++) { sb.append(x); }
        return new StringValue(sb.toString());
    }
    public static Value StrCmp(final Value a, final Value b) {
        int c = str(a).compareTo(str(b));
        return IntValue.gen(c < 0 ? -1 : (c > 0 ? 1 : 0));
    }
    public static Value StrOfByte(final Value b) { return new StringValue(String.valueOf((char) (l(b) & 0xff))); }

    // Go utf8.DecodeRune on bytes x[i..]: returns {rune, width}; invalid -> {0xFFFD, 1}.
    private static int[] decodeRune(final String x, final int i) {
        int n = x.length() - i;
        int b0 = x.charAt(i) & 0xff;
        if (b0 < 0x80) { return new int[] {b0, 1}; }
        if (b0 < 0xC2 || b0 > 0xF4) { return new int[] {0xFFFD, 1}; }
        int need = b0 < 0xE0 ? 2 : (b0 < 0xF0 ? 3 : 4);
        if (n < need) { return new int[] {0xFFFD, 1}; }
        int b1 = x.charAt(i + 1) & 0xff;
        int lo = 0x80, hi = 0xBF;
        if (b0 == 0xE0) { lo = 0xA0; } else if (b0 == 0xED) { hi = 0x9F; } else if (b0 == 0xF0) { lo = 0x90; } else if (b0 == 0xF4) { hi = 0x8F; }
        if (b1 < lo || b1 > hi) { return new int[] {0xFFFD, 1}; }
        if (need == 2) { return new int[] {((b0 & 0x1F) << 6) | (b1 & 0x3F), 2}; }
        int b2 = x.charAt(i + 2) & 0xff;
        if (b2 < 0x80 || b2 > 0xBF) { return new int[] {0xFFFD, 1}; }
        if (need == 3) { return new int[] {((b0 & 0x0F) << 12) | ((b1 & 0x3F) << 6) | (b2 & 0x3F), 3}; }
        int b3 = x.charAt(i + 3) & 0xff;
        if (b3 < 0x80 || b3 > 0xBF) { return new int[] {0xFFFD, 1}; }
        return new int[] {((b0 & 0x07) << 18) | ((b1 & 0x3F) << 12) | ((b2 & 0x3F) << 6) | (b3 & 0x3F), 4};
    }

    private static void encodeRune(final StringBuilder sb, final int r) {
        if (r < 0x80) { sb.append((char) r); }
        else if (r < 0x800) { sb.append((char) (0xC0 | (r >> 6))).append((char) (0x80 | (r & 0x3F))); }
        else if (r < 0x10000) { sb.append((char) (0xE0 | (r >> 12))).append((char) (0x80 | ((r >> 6) & 0x3F))).append((char) (0x80 | (r & 0x3F))); }
        else { sb.append((char) (0xF0 | (r >> 18))).append((char) (0x80 | ((r >> 12) & 0x3F))).append((char) (0x80 | ((r >> 6) & 0x3F))).append((char) (0x80 | (r & 0x3F))); }
    }

    // Go: string([]rune(s)[:1]) - invalid bytes become U+FFFD (re-encoded as EF BF BD).
    public static Value StrFirstRune(final Value a) {
        String x = str(a);
        if (x.isEmpty()) { return new StringValue(""); }
        int[] rw = decodeRune(x, 0);
        StringBuilder sb = new StringBuilder();
        encodeRune(sb, rw[0]);
        return new StringValue(sb.toString());
    }
    // Go: string([]rune(s)[1:])
    public static Value StrRestRunes(final Value a) {
        String x = str(a);
        StringBuilder sb = new StringBuilder();
        int i = 0;
        boolean first = true;
        while (i < x.length()) {
            int[] rw = decodeRune(x, i);
            if (!first) { encodeRune(sb, rw[0]); }
            first = false;
            i += rw[1];
        }
        return new StringValue(sb.toString());
    }

    private static boolean isPrint(final int r) {
        if (r < 0x80) { return r >= 0x20 && r < 0x7f; }
        switch (Character.getType(r)) {
            case Character.UPPERCASE_LETTER: case Character.LOWERCASE_LETTER: case Character.TITLECASE_LETTER:
            case Character.MODIFIER_LETTER: case Character.OTHER_LETTER:
            case Character.NON_SPACING_MARK: case Character.ENCLOSING_MARK: case Character.COMBINING_SPACING_MARK:
            case Character.DECIMAL_DIGIT_NUMBER: case Character.LETTER_NUMBER: case Character.OTHER_NUMBER:
            case Character.CONNECTOR_PUNCTUATION: case Character.DASH_PUNCTUATION: case Character.START_PUNCTUATION:
            case Character.END_PUNCTUATION: case Character.INITIAL_QUOTE_PUNCTUATION: case Character.FINAL_QUOTE_PUNCTUATION:
            case Character.OTHER_PUNCTUATION:
            case Character.MATH_SYMBOL: case Character.CURRENCY_SYMBOL: case Character.MODIFIER_SYMBOL: case Character.OTHER_SYMBOL:
                return true;
            default:
                return false;
        }
    }

    static String quote(final String x) {
        StringBuilder sb = new StringBuilder();
        sb.append('"');
        int i = 0;
        while (i < x.length()) {
            int[] rw = decodeRune(x, i);
            int r = rw[0], w = rw[1];
            if (w == 1 && r == 0xFFFD) {
                sb.append(String.format("\\x%02x", x.charAt(i) & 0xff));
                i += 1;
                continue;
            }
            i += w;
            if (r == '"' || r == '\\') { sb.append('\\').append((char) r); continue; }
            if (isPrint(r)) { encodeRune(sb, r); continue; }
            switch (r) {
                case 7: sb.append("\\a"); break;
                case 8: sb.append("\\b"); break;
                case 12: sb.append("\\f"); break;
                case 10: sb.append("\\n"); break;
                case 13: sb.append("\\r"); break;
                case 9: sb.append("\\t"); break;
                case 11: sb.append("\\v"); break;
                default:
                    if (r < ' ' || r == 0x7f) { sb.append(String.format("\\x%02x", r)); }
                    else if (r > 0x10FFFF || (r >= 0xD800 && r < 0xE000)) { sb.append("\\ufffd"); }
                    else if (r < 0x10000) { sb.append(String.format("\\u%04x", r)); }
                    else { sb.append(String.format("\\U%08x", r)); }
            }
        }
        sb.append('"');
        return sb.toString();
    }

    public static Value StrQuote(final Value a) { return new StringValue(quote(str(a))); }

    // Splits a (Latin-1 carried) string into a tuple of one-char strings; handy for specs that scan bytes.
    public static Value StrChars(final Value a) {
        String x = str(a);
        Value[] vs = new Value[x.length()];
        for (int i = 0; i < x.length(); i++) { vs[i] = new StringValue(String.valueOf(x.charAt(i))); }
        return new TupleValue(vs);
    }
    public static Value StrBytes(final Value a) {
        String x = str(a);
        Value[] vs = new Value[x.length()];
        for (int i = 0; i < x.length(); i++) { vs[i] = IntValue.gen(x.charAt(i) & 0xff); }
        return new TupleValue(vs);
    }

    // ================================================================ C14 block (SaveLoad.tla) - begin
    // Go strconv.ParseInt(s, 0, 64) restricted to what a saved file can contain: an unsigned run of
    // decimal digits (a leading 0 followed by more digits is octal in base 0). "" when it fails
    // (syntax or range), else the canonical decimal string.
    private static String parseIntGo(final String x) {
        if (x.isEmpty()) { return ""; }
        for (int i = 0; i < x.length(); i++) { char c = x.charAt(i); if (c < '0' || c > '9') { return ""; } }
        try {
            if (x.length() > 1 && x.charAt(0) == '0') { return Long.toString(Long.parseLong(x.substring(1), 8)); }
            return Long.toString(Long.parseLong(x, 10));
        } catch (NumberFormatException e) {
            return "";
        }
    }
    public static Value I64ParseOk(final Value a) { return B(!parseIntGo(str(a)).isEmpty()); }
    public static Value I64Parse(final Value a) { return new StringValue(parseIntGo(str(a))); }
    // Go strconv.ParseFloat(s, 64) of digits with an optional '.' (correctly rounded); "" on failure.
    public static Value F64Parse(final Value a) {
        String x = str(a);
        boolean digit = false;
        for (int i = 0; i < x.length(); i++) {
            char c = x.charAt(i);
            if (c >= '0' && c <= '9') { digit = true; } else if (c != '.') { return new StringValue(""); }
        }
        if (!digit || x.indexOf('.') != x.lastIndexOf('.')) { return new StringValue(""); }
        double v = Double.parseDouble(x);
        if (Double.isInfinite(v)) { return new StringValue(""); }
        return D(v);
    }
    // smallest j >= i (1-based) with s[j] one of the chars of `set`, Len(s)+1 when there is none
    public static Value StrIndexAny(final Value a, final Value from, final Value set) {
        String x = str(a), cs = str(set);
        int i = (int) l(from);
        if (i < 1) { i = 1; }
        for (int j = i - 1; j < x.length(); j++) { if (cs.indexOf(x.charAt(j)) >= 0) { return IntValue.gen(j + 1); } }
        return IntValue.gen(x.length() + 1);
    }
    public static Value StrFromBytes(final Value seq) {
        TupleValue t = (TupleValue) seq.toTuple();
        StringBuilder sb = new StringBuilder();
        for (Value v : t.elems) { sb.append((char) (l(v) & 0xff)); }
        return new StringValue(sb.toString());
    }
    // run-length form of a byte string: tuple of <<byte, count>> (compact JSON for very long repetitive lines)
    public static Value StrRLE(final Value a) {
        String x = str(a);
        java.util.ArrayList<Value> runs = new java.util.ArrayList<>();
        int i = 0;
        while (i < x.length()) {
            int j = i;
            while (j < x.length() && x.charAt(j) == x.charAt(i)) { j++; }
            runs.add(new TupleValue(new Value[] {IntValue.gen(x.charAt(i) & 0xff), IntValue.gen(j - i)}));
            i = j;
        }
        return new TupleValue(runs.toArray(new Value[0]));
    }
    // ================================================================ C14 block - end

    // ---- GrolLib block (extension functions of the reference semantics) - begin
    public static Value F64Floor(final Value a) { return D(Math.floor(d(a))); }
    public static Value F64Ceil(final Value a) { return D(Math.ceil(d(a))); }
    public static Value F64Trunc(final Value a) { double x = d(a); return D(x < 0 ? Math.ceil(x) : Math.floor(x)); }
    public static Value F64Sqrt(final Value a) { return D(Math.sqrt(d(a))); } // correctly rounded in Java and in Go
    // Go math.Round: half away from zero
    private static double goRound(final double x) {
        if (Double.isNaN(x) || Double.isInfinite(x)) { return x; }
        double t = x < 0 ? Math.ceil(x) : Math.floor(x);
        if (Math.abs(x - t) >= 0.5) { t += Math.copySign(1.0, x); }
        return t;
    }
    // safecast.Convert[int64](t): "" when out of range / NaN, else the decimal string
    private static Value toI64(final double t) {
        if (Double.isNaN(t) || t >= 9223372036854775808.0 || t < -9223372036854775808.0) { return new StringValue(""); }
        return L((long) t);
    }
    public static Value F64TruncToI64(final Value a) { double x = d(a); return toI64(x < 0 ? Math.ceil(x) : Math.floor(x)); }
    public static Value F64RoundToI64(final Value a) { return toI64(goRound(d(a))); }
    // Go strconv.ParseInt(s, 0, 64): sign, 0x 0o 0b 0 prefixes, underscores as digit separators; "" when it fails
    private static boolean underscoreOK(String s) {
        char i = '^';
        if (s.length() >= 1 && (s.charAt(0) == '-' || s.charAt(0) == '+')) { s = s.substring(1); }
        boolean hex = false;
        if (s.length() >= 2 && s.charAt(0) == '0') {
            char c = Character.toLowerCase(s.charAt(1));
            if (c == 'b' || c == 'o' || c == 'x') { i = '0'; hex = c == 'x'; s = s.substring(2); }
        }
        for (int k = 0; k < s.length(); k++) {
            char c = s.charAt(k), lc = Character.toLowerCase(c);
            if ((c >= '0' && c <= '9') || (hex && lc >= 'a' && lc <= 'f')) { i = '0'; continue; }
            if (c == '_') { if (i != '0') { return false; } i = '_'; continue; }
            if (i == '_') { return false; }
            i = '!';
        }
        return i != '_';
    }
    public static Value I64ParseBase0(final Value a) {
        String x = str(a);
        try {
            if (x.isEmpty()) { return new StringValue(""); }
            boolean neg = false;
            int i = 0;
            if (x.charAt(0) == '+' || x.charAt(0) == '-') { neg = x.charAt(0) == '-'; i = 1; }
            String body = x.substring(i);
            if (body.isEmpty()) { return new StringValue(""); }
            int radix = 10;
            if (body.charAt(0) == '0') {
                char c = body.length() >= 3 ? Character.toLowerCase(body.charAt(1)) : ' ';
                if (c == 'x') { radix = 16; body = body.substring(2); }
                else if (c == 'b') { radix = 2; body = body.substring(2); }
                else if (c == 'o') { radix = 8; body = body.substring(2); }
                else if (body.length() > 1) { radix = 8; body = body.substring(1); }
            }
            if (body.indexOf('_') >= 0) {
                if (!underscoreOK(x)) { return new StringValue(""); }
                body = body.replace("_", "");
            }
            if (body.isEmpty()) { return new StringValue(""); }
            for (int k = 0; k < body.length(); k++) { if (body.charAt(k) > 0x7f || Character.digit(body.charAt(k), radix) < 0) { return new StringValue(""); } }
            java.math.BigInteger v = new java.math.BigInteger(body, radix);
            if (neg) { v = v.negate(); }
            if (v.bitLength() > 63) { return new StringValue(""); }
            return L(v.longValue());
        } catch (RuntimeException e) {
            return new StringValue("");
        }
    }
    // Go []rune(s) re-encoded one by one (invalid bytes become U+FFFD)
    public static Value StrRunes(final Value a) {
        String x = str(a);
        java.util.ArrayList<Value> out = new java.util.ArrayList<>();
        int i = 0;
        while (i < x.length()) {
            int[] rw = decodeRune(x, i);
            StringBuilder sb = new StringBuilder();
            encodeRune(sb, rw[0]);
            out.add(new StringValue(sb.toString()));
            i += rw[1];
        }
        return new TupleValue(out.toArray(new Value[0]));
    }
    public static Value StrRuneValues(final Value a) {
        String x = str(a);
        java.util.ArrayList<Value> out = new java.util.ArrayList<>();
        int i = 0;
        while (i < x.length()) { int[] rw = decodeRune(x, i); out.add(IntValue.gen(rw[0])); i += rw[1]; }
        return new TupleValue(out.toArray(new Value[0]));
    }
    // Go strings.Split(s, sep): sep "" explodes into UTF-8 sequences (invalid bytes one by one, kept as they are)
    public static Value StrSplit(final Value a, final Value b) {
        String x = str(a), sep = str(b);
        java.util.ArrayList<Value> out = new java.util.ArrayList<>();
        if (sep.isEmpty()) {
            int i = 0;
            while (i < x.length()) { int[] rw = decodeRune(x, i); out.add(new StringValue(x.substring(i, i + rw[1]))); i += rw[1]; }
            return new TupleValue(out.toArray(new Value[0]));
        }
        int from = 0;
        while (true) {
            int k = x.indexOf(sep, from);
            if (k < 0) { out.add(new StringValue(x.substring(from))); break; }
            out.add(new StringValue(x.substring(from, k)));
            from = k + sep.length();
        }
        return new TupleValue(out.toArray(new Value[0]));
    }
    // Go strings.Trim / TrimLeft / TrimRight (mode 0 / 1 / 2): cutset is a set of runes
    public static Value StrTrim(final Value a, final Value cut, final Value mode) {
        String x = str(a), c = str(cut);
        java.util.HashSet<Integer> set = new java.util.HashSet<>();
        for (int i = 0; i < c.length();) { int[] rw = decodeRune(c, i); set.add(rw[0]); i += rw[1]; }
        int m = (int) l(mode);
        int start = 0, end = x.length();
        if (m == 0 || m == 1) {
            while (start < end) { int[] rw = decodeRune(x, start); if (!set.contains(rw[0])) { break; } start += rw[1]; }
        }
        if (m == 0 || m == 2) {
            while (end > start) {
                // last rune: scan back over continuation bytes (at most 3)
                int k = end - 1, lim = Math.max(start, end - 4);
                while (k > lim && (x.charAt(k) & 0xC0) == 0x80) { k--; }
                int[] rw = decodeRune(x, k);
                if (k + rw[1] != end) { k = end - 1; rw = new int[] {0xFFFD, 1}; }
                if (!set.contains(rw[0])) { break; }
                end = k;
            }
        }
        return new StringValue(x.substring(start, end));
    }
    // ---- GrolLib block - end
}
