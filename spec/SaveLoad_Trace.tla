--------------------------- MODULE SaveLoad_Trace ---------------------------
(* Trace validation for C14: one record per case, written by the Go harness from what the real code
   did (c14_trace.ndjson); this module decides each case and emits one verdict per case.

   A record (strings are byte strings carried as code points 0..255; values are in the observation
   form of GrolValues: [t, v] / [t, e] / [t, p]):
     k              "case": a saved environment, all of the fields below are judged;
                    "sess": a history of several sessions sharing one directory (each: auto-load, inputs, auto-save):
                    b = the data globals the LAST session held when it ended (a name only the fresh session has
                    carries the value [t |-> "absent"]), a.vals = a fresh session after auto-load; only these are judged
     id, lim        the case and the MaxValueLen it was saved with
     n, lines       what State.SaveGlobals returned and wrote (split at newlines)
     nu, linesu     the same with the limit off (equal to n, lines when lim = 0)
     names          the names of the session's top-level bindings that are subject to saving, in name order
     saveext, autosave   the real save() extension (into ./.gr and into a file with a name, each time over what the
                    history of the session had left in the file) / repl.AutoSave left exactly the same bytes in the file
     b              <<name, kind, value>> for every saved binding that holds data or grol functions,
                    value as observed in the SAVING session
     a, w           the fresh session after repl.AutoLoad / after load():
                      vals   <<name, present, value>> aligned with b
                      idem   saving the reloaded session gave the same bytes
                      calls  <<expr, o0, o1>>: the same call in the saving session and in the reloaded one,
                             o = <<output, value, is-error, timed-out>>
     hs, hserr      the history the saving session ran before its final save, at each of its "session" steps
                    (auto-save, fresh session, auto-load): <<step, name, present, v0, v1>> for every data global the
                    ending session's auto-save writes - v0 there, v1 in the next session; hserr: steps whose auto-save failed

   The verdict is the property's own relation (self-relative): nothing here compares with the model's
   prediction.  The operators of SaveLoad are reused for the line structure (LineName) and the value
   relation (same type at every level, order-equal scalars).                                         *)
EXTENDS SaveLoad

VARIABLE l
Trace == ndJsonDeserialize("c14_trace.ndjson")

DataT == {"int", "float", "bool", "nil", "str"}
RECURSIVE TSame(_, _)
TSame(a, b) ==
  /\ a.t = b.t
  /\ CASE a.t = "arr"  -> Len(a.e) = Len(b.e) /\ \A i \in 1..Len(a.e) : TSame(a.e[i], b.e[i])
       [] a.t = "map"  -> Len(a.p) = Len(b.p) /\ \A i \in 1..Len(a.p) : TSame(a.p[i][1], b.p[i][1]) /\ TSame(a.p[i][2], b.p[i][2])
       [] a.t \in DataT -> Cmp(a, b) = 0
       [] OTHER        -> TRUE        \* functions: their calls decide; anything else is not in the property

\* o = <<output, value, is-error, timed-out>>; a call that hit the harness deadline on either side is not compared
ObsSame(x, y) == x[4] \/ y[4] \/ (x[1] = y[1] /\ x[3] = y[3] /\ TSame(x[2], y[2]))

IsFuncLine(line) == StartsWith(line, 1, "func ") /\ IsLetterB(At(line, 6))
ValueLen(line) == IF IsFuncLine(line) THEN StrLen(line) ELSE StrLen(line) - StrLen(LineName(line)) - 1

Idx(n) == [i \in 1..n |-> i]
Tag3(a, b, c) == Cat3(a, b, StrCat(":", c))

\* every binding is exactly one line, in name order (judged on the unlimited file), and the count returned is the line count
OneLineOK(r) ==
  /\ r.nu = Len(r.linesu) /\ r.n = Len(r.lines)
  /\ Len(r.names) = Len(r.linesu)
  /\ \A i \in 1..Len(r.names) : i <= Len(r.linesu) => LineName(r.linesu[i]) = r.names[i]
  /\ \A i \in 1..(Len(r.names) - 1) : StrCmp(r.names[i], r.names[i + 1]) < 0

\* with a limit: exactly the lines whose value is longer are gone, the others are there unchanged and in order
SkippedOK(r) ==
  r.lim > 0 => r.lines = SelectSeq(r.linesu, LAMBDA x : ValueLen(x) <= r.lim)

RtFails(r, p, tag) ==
  LET bad == SelectSeq(Idx(Len(r.b)), LAMBDA i : ~(p.vals[i][2] /\ TSame(r.b[i][3], p.vals[i][3])))
  IN [k \in 1..Len(bad) |-> Tag3("rt:", tag, r.b[bad[k]][1])]
CallFails(p, tag) ==
  LET bad == SelectSeq(Idx(Len(p.calls)), LAMBDA i : ~ObsSame(p.calls[i][2], p.calls[i][3]))
  IN [k \in 1..Len(bad) |-> Tag3("call:", tag, p.calls[bad[k]][1])]
Flag(ok, tag) == IF ok THEN <<>> ELSE <<tag>>

PathFails(r, p, tag) == RtFails(r, p, tag) \o CallFails(p, tag) \o Flag(p.idem, StrCat("idem:", tag))

\* the "session" steps of a history: every data global the ending session's auto-save writes is back in the next session
\* (hs: <<step, name, present, value before, value after>>), and no auto-save failed (hserr: steps)
HsFails(r) ==
  LET bad == SelectSeq(Idx(Len(r.hs)), LAMBDA i : ~(r.hs[i][3] /\ TSame(r.hs[i][4], r.hs[i][5])))
  IN [k \in 1..Len(bad) |-> Tag3("hrt:", r.hs[bad[k]][1], r.hs[bad[k]][2])]
     \o [k \in 1..Len(r.hserr) |-> StrCat("step:", r.hserr[k])]

Verdict(r) ==
  IF r.k = "sess" THEN [id |-> r.id, lim |-> r.lim, fails |-> RtFails(r, r.a, "A")] ELSE
  [id |-> r.id, lim |-> r.lim,
   fails |-> Flag(OneLineOK(r), "oneline") \o Flag(SkippedOK(r), "skipped")
             \o Flag(r.saveext, "saveext") \o Flag(r.autosave, "autosave")
             \o PathFails(r, r.a, "A") \o PathFails(r, r.w, "W") \o HsFails(r)]

TraceInit ==
  /\ l = 0
  /\ globals = <<>> /\ file = <<>> /\ saved = <<>> /\ phase = "trace" /\ meta = [id |-> "", src |-> "", api |-> <<>>] /\ limit = 0
  /\ todo = <<>> /\ texts = <<>> /\ dirty = FALSE

TraceNext ==
  /\ l < Len(Trace)
  /\ l' = l + 1
  /\ EmitLine(ToJson(Verdict(Trace[l + 1])))
  /\ UNCHANGED vars

\* every record got its verdict
TraceAccepted ==
  IF TLCGet("stats").diameter - 1 = Len(Trace) THEN TRUE
  ELSE PrintT(<<"TRACE_NOT_CONSUMED", TLCGet("stats").diameter>>) /\ FALSE
=============================================================================
