----------------------------- MODULE Equiv_Trace -----------------------------
(* Observational equivalence of two runs of the implementation (the verdict relation of
   C04, C05, C10, C15(3), C19 - DESIGN.md 2.3): equiv_trace.ndjson holds one line per case,
     {"id": n, "a": [obs, ..], "b": [obs, ..]}
   where a and b are the per-input observations {"out": text, "err": bool, "val": text} of the
   same session history run in the two configurations (cache on/off, registers on/off,
   with/without the failing inputs, chunked/whole).  The property's relation is: same number
   of observations and, input by input, the same printed text, the same error / non-error
   outcome and the same result.  One verdict per case is emitted.                            *)
EXTENDS Integers, Sequences, TLC, Json, GrolPrims

T == ndJsonDeserialize("equiv_trace.ndjson")
VARIABLE idx
Init == idx = 0

SameObs(x, y) == x.out = y.out /\ x.err = y.err /\ x.val = y.val

FirstDiff(a, b) ==
  IF Len(a) # Len(b) THEN 0
  ELSE LET bad == {i \in 1..Len(a) : ~SameObs(a[i], b[i])} IN
       IF bad = {} THEN -1 ELSE CHOOSE i \in bad : \A j \in bad : i <= j

Verdict(i) ==
  LET d == FirstDiff(T[i].a, T[i].b) IN
  EmitLine(ToJson([id |-> T[i].id, ok |-> (d = -1), at |-> d]))

Next == idx < Len(T) /\ Verdict(idx + 1) /\ idx' = idx + 1
Equivalent == \A i \in 1..Len(T) : FirstDiff(T[i].a, T[i].b) = -1   \* as an invariant-style summary (not used as verdict)
=============================================================================
