-------------------------------- MODULE Lexer --------------------------------
(* C16 - the lexer is lossless: tokens tile the input.

   Three layers.

   1. The PROPERTY as a state machine.  State: input (sequence of byte values), mode
      ("file" / "line"), pos (offset of the next unread byte), done; history: ntok and
      spans.  Two actions:
        Emit(tok)  enabled only if, after skipping whitespace from pos, the token's span
                   [tok.s, tok.e) lies in the input, is not empty, and matches the input:
                   identifier / number / operator / keyword text = the bytes spanned; a
                   string spans exactly its delimiters and content; a comment spans
                   exactly its delimiters and content and its text is the span modulo
                   trailing whitespace (the code TrimSpace's line comments); an
                   identifier is never a keyword.
        End        enabled only if nothing but whitespace is left; idempotent.
      Invariants Ordered / Tiled / DoneAll / EndBound and the action property Sticky say
      what "lossless" means: tokens in input order, every consumed byte is whitespace or
      in exactly one token, the end marker comes after at most n tokens (so within n+1
      calls) and stays.

   2. The reference token grammar of grol (maximal munch), RefTok / RefTokens, as pure
      operators: numbers (0x.., 0b.., digits with '_', fraction, exponent), identifiers
      and keywords, one and two character operators, strings (double quote with
      backslash escapes where \x \u \U take the next 2/4/8 bytes, back quote raw), line
      and block comments, ILLEGAL for every other byte.  With Dev = {} the grammar is
      lossless; each element of Dev switches on one NAMED DEVIATION that transcribes
      what lexer/lexer.go does on this tree:
        "ExpLosesBytes"      malformed exponent: the number token ends before 'e' but the
                             position has already moved over 'e' and the sign
        "SecondDotLosesByte" '.5.3': second dot after a leading-dot number: text is cut one
                             byte short, the position is not
        "NulIsEnd"           a NUL byte is taken for the end of the input: end marker at top
                             level and inside a string, comments stop in front of it
        "UntermStrIsEnd"     an unterminated string yields the end marker; its bytes are in
                             no token
      RefNext runs RefTok(.., Dev) as a lexer through Emit/End; `stuck` records that the
      property's guards refused the token.  TLC checks NotStuck and the tiling invariants
      for Dev = {} on every input up to MaxLen over Sigma and FINDS the counterexample for
      every deviation.  AnyNext explores every behaviour the guards allow (any tiling
      lexer, not only maximal munch).

   3. Lexer_Trace.tla validates token streams recorded from the real lexer with the
      same guards (EmitRule, Final) and uses RefTok(.., AllDev) only to NAME a rejected
      token after the deviation that explains it.                                      *)
EXTENDS Integers, Sequences, FiniteSets, TLC, Json, GrolPrims

CONSTANTS Sigma,    \* set of byte values the model checker builds inputs from
          MaxLen,   \* maximal input length for model checking
          Dev       \* set of deviation names switched on in RefNext

VARIABLES input, mode, pos, done, ntok, spans, stuck
vars == <<input, mode, pos, done, ntok, spans, stuck>>

AllDev == {"ExpLosesBytes", "SecondDotLosesByte", "NulIsEnd", "UntermStrIsEnd"}
Modes  == {"file", "line"}

\* ------------------------------------------------------------------ bytes and classes
WS      == {32, 9, 10, 13}            \* what the lexer skips between tokens
TrimWS  == {9, 13, 32}    \* the trailing bytes a line comment may leave out of its text: what the lexer itself skips as white space (tab, CR, blank)
DigitS  == 48..57
DigUS   == DigitS \cup {95}
HexS    == DigUS \cup (97..102) \cup (65..70)
BinS    == {48, 49, 95}
LetterS == (97..122) \cup (65..90) \cup {95}
AlNumS  == LetterS \cup DigitS
EndTypes == {"EOF", "EOL"}
EndType(m) == IF m = "line" THEN "EOL" ELSE "EOF"     \* ("both": a file-mode stream, see Lexer_Trace)

\* byte at 0-based offset q, -1 outside the input (so a real NUL is not the end)
At(inp, q) == IF q >= 0 /\ q < Len(inp) THEN inp[q + 1] ELSE -1
Bytes(inp, s, e) == SubSeq(inp, s + 1, e)          \* the bytes at offsets s .. e-1

RECURSIVE RunIn(_, _, _)      \* first offset >= q whose byte is not in S (or the end)
RunIn(inp, q, S) == IF q < Len(inp) /\ inp[q + 1] \in S THEN RunIn(inp, q + 1, S) ELSE q
RECURSIVE RunNot(_, _, _)     \* first offset >= q whose byte is in S (or the end)
RunNot(inp, q, S) == IF q < Len(inp) /\ inp[q + 1] \notin S THEN RunNot(inp, q + 1, S) ELSE q

SkipWS(inp, p) == RunIn(inp, p, WS)

\* ------------------------------------------------------------------ token tables
Kw == { <<"func", "FUNC">>, <<"true", "TRUE">>, <<"false", "FALSE">>, <<"if", "IF">>,
        <<"else", "ELSE">>, <<"return", "RETURN">>, <<"for", "FOR">>, <<"break", "BREAK">>,
        <<"continue", "CONTINUE">>, <<"macro", "MACRO">>, <<"quote", "QUOTE">>,
        <<"unquote", "UNQUOTE">>, <<"len", "LEN">>, <<"first", "FIRST">>, <<"rest", "REST">>,
        <<"print", "PRINT">>, <<"println", "PRINTLN">>, <<"log", "LOG">>, <<"error", "ERROR">>,
        <<"catch", "CATCH">>, <<"del", "DEL">> }
KwTab   == {<<StrBytes(p[1]), p[2]>> : p \in Kw}
KwBytes == {p[1] : p \in KwTab}
KwType(b) == (CHOOSE p \in KwTab : p[1] = b)[2]

Op1 == (61 :> "ASSIGN") @@ (43 :> "PLUS") @@ (45 :> "MINUS") @@ (33 :> "BANG") @@ (42 :> "ASTERISK")
    @@ (47 :> "SLASH") @@ (37 :> "PERCENT") @@ (60 :> "LT") @@ (62 :> "GT") @@ (38 :> "BITAND")
    @@ (124 :> "BITOR") @@ (94 :> "BITXOR") @@ (126 :> "BITNOT") @@ (44 :> "COMMA") @@ (59 :> "SEMICOLON")
    @@ (40 :> "LPAREN") @@ (41 :> "RPAREN") @@ (123 :> "LBRACE") @@ (125 :> "RBRACE")
    @@ (91 :> "LBRACKET") @@ (93 :> "RBRACKET") @@ (58 :> "COLON") @@ (46 :> "DOT")
Op2 == (<<60, 61>> :> "LTEQ") @@ (<<62, 61>> :> "GTEQ") @@ (<<61, 61>> :> "EQ") @@ (<<33, 61>> :> "NOTEQ")
    @@ (<<43, 43>> :> "INCR") @@ (<<45, 45>> :> "DECR") @@ (<<46, 46>> :> "DOTDOT") @@ (<<124, 124>> :> "OR")
    @@ (<<38, 38>> :> "AND") @@ (<<60, 60>> :> "LEFTSHIFT") @@ (<<62, 62>> :> "RIGHTSHIFT")
    @@ (<<61, 62>> :> "LAMBDA") @@ (<<58, 61>> :> "DEFINE")
Op1Dom == DOMAIN Op1
Op2Dom == DOMAIN Op2

\* which clause of the property speaks about a token of this type
Class(type) ==
  CASE type = "STRING"       -> "string"
    [] type = "LINECOMMENT"  -> "lcomment"
    [] type = "BLOCKCOMMENT" -> "bcomment"
    [] type = "ILLEGAL"      -> "illegal"
    [] type \in EndTypes \cup {"END"} -> "end"
    [] OTHER                 -> "text"     \* identifiers, numbers, operators, keywords

\* ------------------------------------------------------------------ the grammar of spans
(* String starting with the quote byte q; i is the offset after the opening quote.  Returns
   k = "closed" (e = offset after the closing quote), "unterm" (ran off the input) or, with the
   NulIsEnd deviation, "nul" (e = offset after the NUL that stopped the scan).               *)
RECURSIVE StrScan(_, _, _, _)
StrScan(inp, i, q, dev) ==
  IF i >= Len(inp) THEN [k |-> "unterm", e |-> Len(inp)]
  ELSE LET c == inp[i + 1] IN
       IF q = 34 /\ c = 92
       THEN LET d == At(inp, i + 1)
                w == IF d = 120 THEN 4 ELSE IF d = 117 THEN 6 ELSE IF d = 85 THEN 10 ELSE 2
            IN StrScan(inp, i + w, q, dev)
       ELSE IF c = q THEN [k |-> "closed", e |-> i + 1]
       ELSE IF c = 0 /\ "NulIsEnd" \in dev THEN [k |-> "nul", e |-> i + 1]
       ELSE StrScan(inp, i + 1, q, dev)

\* line comment starting at s: offset of the newline that ends it (or the end of the input)
LineEnd(inp, s, dev) == RunNot(inp, s, IF "NulIsEnd" \in dev THEN {10, 0} ELSE {10})

\* block comment starting at s ("/*"): offset after the first "*/" at or after s+2, else the end of the input
RECURSIVE BlockScan(_, _, _)
BlockScan(inp, i, dev) ==
  IF i >= Len(inp) THEN Len(inp)
  ELSE IF inp[i + 1] = 42 /\ At(inp, i + 1) = 47 THEN i + 2
  ELSE IF inp[i + 1] = 0 /\ "NulIsEnd" \in dev THEN i
  ELSE BlockScan(inp, i + 1, dev)
BlockEnd(inp, s, dev) == BlockScan(inp, s + 2, dev)

(* Number starting at s (a digit, or '.' followed by a digit): [type, te, e] where the text is
   [s, te) and the position after the token is e (te = e unless a deviation is on).          *)
NumScan(inp, s, dev) ==
  LET c  == inp[s + 1]
      c1 == At(inp, s + 1)
  IN IF c = 48 /\ c1 = 120 THEN LET e == RunIn(inp, s + 2, HexS) IN [type |-> "INT", te |-> e, e |-> e, why |-> ""]
     ELSE IF c = 48 /\ c1 = 98 THEN LET e == RunIn(inp, s + 2, BinS) IN [type |-> "INT", te |-> e, e |-> e, why |-> ""]
     ELSE
       LET lead == (c = 46)
           i1   == RunIn(inp, s + 1, DigUS)
       IN IF lead /\ At(inp, i1) = 46
          THEN \* a second dot ends a number that began with a dot
               IF "SecondDotLosesByte" \in dev
               THEN [type |-> "FLOAT", te |-> i1 - 1, e |-> i1, why |-> "dot2"]
               ELSE [type |-> "FLOAT", te |-> i1, e |-> i1, why |-> ""]
          ELSE
            LET frac == ~lead /\ At(inp, i1) = 46
                i2   == IF frac THEN RunIn(inp, i1 + 1, DigUS) ELSE i1
                t0   == IF lead \/ frac THEN "FLOAT" ELSE "INT"
            IN IF At(inp, i2) \notin {101, 69} THEN [type |-> t0, te |-> i2, e |-> i2, why |-> ""]
               ELSE LET i3 == IF At(inp, i2 + 1) \in {43, 45} THEN i2 + 2 ELSE i2 + 1 IN
                    IF At(inp, i3) \in DigitS
                    THEN LET e == RunIn(inp, i3, DigUS) IN [type |-> "FLOAT", te |-> e, e |-> e, why |-> ""]
                    ELSE \* malformed exponent: the number ends in front of the 'e'
                         IF "ExpLosesBytes" \in dev
                         THEN [type |-> t0, te |-> i2, e |-> i3, why |-> "exp"]
                         ELSE [type |-> t0, te |-> i2, e |-> i2, why |-> ""]

(* The next token of inp from offset p: [type, s, te, e, why]; text = bytes [s, te), position
   afterwards e; type "END" when nothing but whitespace is left (or a deviation ends early);
   why = "" for the lossless grammar, else the tag of the deviation that shaped this token.   *)
MkTok(type, s, e) == [type |-> type, s |-> s, te |-> e, e |-> e, why |-> ""]
RefTok(inp, p, dev) ==
  LET n == Len(inp)
      s == SkipWS(inp, p)
  IN IF s >= n THEN MkTok("END", s, s)
     ELSE
      LET c  == inp[s + 1]
          c1 == At(inp, s + 1)
      IN
      CASE c = 0 ->
             IF "NulIsEnd" \in dev THEN [type |-> "END", s |-> s, te |-> s, e |-> s + 1, why |-> "nul-top"]
             ELSE MkTok("ILLEGAL", s, s + 1)
        [] c \in {34, 96} ->
             LET r == StrScan(inp, s + 1, c, dev) IN
             IF r.k = "closed" THEN MkTok("STRING", s, r.e)
             ELSE IF r.k = "nul" THEN [type |-> "END", s |-> s, te |-> s, e |-> r.e, why |-> "nul-str"]
             ELSE IF "UntermStrIsEnd" \in dev THEN [type |-> "END", s |-> s, te |-> s, e |-> n, why |-> "unterm-str"]
             ELSE MkTok("ILLEGAL", s, n)   \* lossless choice: one ILLEGAL token holds the unterminated rest
        [] c = 47 /\ c1 = 47 ->
             LET e == LineEnd(inp, s, dev) IN
             [type |-> "LINECOMMENT", s |-> s, te |-> e, e |-> e,
              why |-> IF e # LineEnd(inp, s, {}) THEN "nul-lc" ELSE ""]
        [] c = 47 /\ c1 = 42 ->
             LET e == BlockEnd(inp, s, dev) IN
             [type |-> "BLOCKCOMMENT", s |-> s, te |-> e, e |-> e,
              why |-> IF e # BlockEnd(inp, s, {}) THEN "nul-bc" ELSE ""]
        [] c \in DigitS \/ (c = 46 /\ c1 \in DigitS) ->
             LET r == NumScan(inp, s, dev) IN [type |-> r.type, s |-> s, te |-> r.te, e |-> r.e, why |-> r.why]
        [] c \in LetterS ->
             LET e == RunIn(inp, s + 1, AlNumS)
                 b == Bytes(inp, s, e)
             IN MkTok(IF b \in KwBytes THEN KwType(b) ELSE "IDENT", s, e)
        [] <<c, c1>> \in Op2Dom -> MkTok(Op2[<<c, c1>>], s, s + 2)
        [] c \in Op1Dom -> MkTok(Op1[c], s, s + 1)
        [] OTHER -> MkTok("ILLEGAL", s, s + 1)

\* the whole token sequence of the lossless grammar (generator for other checks): <<[type, s, e], ..>> without the end marker
RECURSIVE RefTokens(_, _)
RefTokens(inp, p) ==
  LET m == RefTok(inp, p, {}) IN
  IF m.type = "END" THEN <<>> ELSE <<[type |-> m.type, s |-> m.s, e |-> m.e]>> \o RefTokens(inp, m.e)

\* ------------------------------------------------------------------ the property's guards
\* literal equals span up to trailing whitespace of the span
TrimEq(lit, span) ==
  /\ Len(lit) <= Len(span)
  /\ SubSeq(span, 1, Len(lit)) = lit
  /\ \A i \in Len(lit) + 1 .. Len(span) : span[i] \in TrimWS

(* "" when Emit(tok) is allowed at offset p of inp, else the name of the first clause that refuses it.
   tok = [type, lit, s, e].                                                                      *)
EmitRule(inp, p, tok) ==
  LET n   == Len(inp)
      s   == SkipWS(inp, p)
      cls == Class(tok.type)
      e   == tok.e
  IN IF cls = "end" THEN "end-marker-emitted-as-token"
     ELSE IF tok.s # s THEN "token-does-not-start-after-whitespace"
     ELSE IF s >= n THEN "token-at-end-of-input"
     ELSE IF e <= s \/ e > n THEN "span-empty-or-beyond-input"
     ELSE CASE cls = "text" ->
                 IF tok.lit # Bytes(inp, s, e) THEN "text-ne-span"
                 ELSE IF tok.type = "IDENT" /\ tok.lit \in KwBytes THEN "keyword-as-ident"
                 ELSE ""
            [] cls = "string" ->
                 IF At(inp, s) \notin {34, 96} THEN "string-span"
                 ELSE LET r == StrScan(inp, s + 1, inp[s + 1], {}) IN
                      IF r.k = "closed" /\ r.e = e THEN "" ELSE "string-span"
            [] cls = "lcomment" ->
                 IF ~(At(inp, s) = 47 /\ At(inp, s + 1) = 47 /\ e = LineEnd(inp, s, {})) THEN "comment-span"
                 ELSE IF ~TrimEq(tok.lit, Bytes(inp, s, e)) THEN "comment-text" ELSE ""
            [] cls = "bcomment" ->
                 IF ~(At(inp, s) = 47 /\ At(inp, s + 1) = 42 /\ e = BlockEnd(inp, s, {})) THEN "comment-span"
                 ELSE IF ~TrimEq(tok.lit, Bytes(inp, s, e)) THEN "comment-text" ELSE ""
            [] OTHER -> ""     \* ILLEGAL: any non-empty span

EmitOK(inp, p, tok) == EmitRule(inp, p, tok) = ""
EndOK(inp, p) == SkipWS(inp, p) >= Len(inp)

\* ------------------------------------------------------------------ the machine
Inputs == UNION {[1..k -> Sigma] : k \in 0..MaxLen}

Init == /\ input \in Inputs /\ mode \in Modes
        /\ pos = 0 /\ done = FALSE /\ ntok = 0 /\ spans = <<>> /\ stuck = FALSE

Emit(tok) ==
  /\ ~done /\ ~stuck
  /\ EmitOK(input, pos, tok)
  /\ pos' = tok.e
  /\ ntok' = ntok + 1
  /\ spans' = Append(spans, <<tok.s, tok.e>>)
  /\ UNCHANGED <<input, mode, done, stuck>>

End ==
  /\ ~stuck
  /\ EndOK(input, pos)
  /\ done' = TRUE
  /\ UNCHANGED <<input, mode, pos, ntok, spans, stuck>>

Stuck == /\ ~done /\ ~stuck /\ stuck' = TRUE /\ UNCHANGED <<input, mode, pos, done, ntok, spans>>

AsTok(inp, m) == [type |-> m.type, lit |-> Bytes(inp, m.s, m.te), s |-> m.s, e |-> m.e]

\* the reference tokenizer (with the deviations in Dev) run through the property's guards
RefNext ==
  LET m == RefTok(input, pos, Dev) IN
  IF done THEN End
  ELSE IF m.type = "END" THEN (IF EndOK(input, pos) THEN End ELSE Stuck)
  ELSE IF EmitOK(input, pos, AsTok(input, m)) THEN Emit(AsTok(input, m)) ELSE Stuck

\* every lexer the guards allow: any type class, any span
AnyTypes == {"IDENT", "INT", "PLUS", "STRING", "LINECOMMENT", "BLOCKCOMMENT", "ILLEGAL"}
AnyNext ==
  \/ \E t \in AnyTypes, e \in 1..Len(input) :
        LET s == SkipWS(input, pos) IN
        Emit([type |-> t, lit |-> Bytes(input, s, e), s |-> s, e |-> e])
  \/ End

RefSpec == Init /\ [][RefNext]_vars /\ WF_vars(RefNext)
AnySpec == Init /\ [][AnyNext]_vars

\* ------------------------------------------------------------------ properties
\* tokens are delivered in input order, none empty, none overlapping, all inside the input
Ordered ==
  /\ \A i \in 1..Len(spans) :
        /\ spans[i][1] < spans[i][2] /\ spans[i][2] <= Len(input)
        /\ (i > 1 => spans[i - 1][2] <= spans[i][1])
  /\ (Len(spans) > 0 => spans[Len(spans)][2] = pos)
\* every consumed byte is whitespace or belongs to exactly one token
Tiled ==
  \A q \in 0..pos - 1 :
     LET c == Cardinality({i \in 1..Len(spans) : spans[i][1] <= q /\ q < spans[i][2]}) IN
     c = 1 \/ (c = 0 /\ input[q + 1] \in WS)
\* at the end marker nothing but whitespace is left
DoneAll  == done => \A q \in pos..Len(input) - 1 : input[q + 1] \in WS
\* at most n tokens before the end marker, i.e. the end marker within n+1 calls
EndBound == ntok <= Len(input) /\ ntok = Len(spans)
NotStuck == ~stuck
\* the end marker is final
Sticky     == [][done => UNCHANGED vars]_vars
Terminates == <>done
=============================================================================
