-------------------------------- MODULE Trie --------------------------------
(* C20 - the completion index behaves as a set of words.

   Two levels.
   Abstract: `set`, the set of inserted non-empty words (sequences of byte values).
   Implementation-shaped: `nodes`, a transcription of trie/trie.go.  A node is
   identified by its path from the root (so the state is canonical whatever the
   insertion order was); each node has the code's fields valid / min / max and a
   child table whose entries are "nil", "end" (the *shared* end marker of the code:
   valid, leaf, no children) or "node" (the node at path \o <<b>>).

   Insert(w) transcribes trie.Insert byte by byte, including the upgrade of the end
   marker to a real node when a longer word arrives.  MarkPrefixValid = TRUE is the
   code after the repair "a word that ends on an existing inner node makes that
   node valid"; FALSE is the code before it (TLC then finds MembershipOK violated
   by <<a,b>> followed by <<a>>).

   Properties (checked in every reachable state):
     MembershipOK  Contains(w) <=> w \in set                     for every word
     PrefixOK      PrefixAll(p) = the words of `set` starting with p, each once,
                   in byte order, with the length of their longest common prefix
     MinMaxOK      min/max bound exactly the non-nil children (what enumeration relies on)

   `hist` is a history variable (one witness history per canonical state: a sequence of
   [op, w] with op = "ins" for a plain Insert(w), "var" / "func" for a name recorded by the
   evaluator); it is excluded from the VIEW and emitted with every transition so the Go
   harness can replay the transition on the real trie.

   Recorded names (Names # {}).  The index of a REPL session is fed from two sides:
   repl.Interactive inserts words itself (keyword + " ", builtin + "(", the bare word
   history) and object/state.go record() inserts, for every top-level definition of
   `name`, the words name + " " (name + "(" for a function) and name.  Record(n, k)
   transcribes record(): two insertions from the root.  In that mode the plain
   insertions range over the words of that vocabulary (a name, bare or with one of
   the two suffixes), so that every way a definition can meet what the index already
   holds is enumerated: the name is a bare leaf, an inner node, has one suffix and gets
   the other, is a prefix / an extension of another name, was defined before.           *)
EXTENDS Integers, Sequences, FiniteSets, SequencesExt, TLC, Json, GrolPrims

CONSTANTS Alphabet,        \* set of byte values
          MaxLen,          \* maximal word length
          MaxSet,          \* state constraint: explore sets up to this cardinality
          MarkPrefixValid, \* BOOLEAN, see above
          EmitOn,          \* BOOLEAN: emit every transition (GEN)
          Names            \* set of strings: the identifiers the evaluator may define ({} = plain insertions only)

VARIABLES nodes, set, hist
vars == <<nodes, set, hist>>
view == <<nodes, set>>

Words    == UNION {[1..n -> Alphabet] : n \in 1..MaxLen}
Prefixes0 == UNION {[1..n -> Alphabet] : n \in 0..MaxLen}   \* query prefixes, incl. empty

\* the vocabulary of a session: names, and what record() derives from them
Space == 32
Paren == 40
NameWords   == {StrBytes(n) : n \in Names}
Suffix(k)   == IF k = "func" THEN <<Paren>> ELSE <<Space>>
RecWords    == NameWords \cup {n \o <<Space>> : n \in NameWords} \cup {n \o <<Paren>> : n \in NameWords}
PlainWords  == IF Names = {} THEN Words ELSE RecWords
ASSUME Names # {} => RecWords \subseteq Words

\* byte order on words = Go string order
RECURSIVE LexLess(_, _)
LexLess(a, b) ==
  IF a = <<>> THEN b # <<>>
  ELSE IF b = <<>> THEN FALSE
  ELSE IF Head(a) # Head(b) THEN Head(a) < Head(b)
  ELSE LexLess(Tail(a), Tail(b))

Sorted(S) == SetToSortSeq(S, LexLess)

\* ---------------------------------------------------------------- abstract level
StartsWith(w, p) == Len(p) <= Len(w) /\ SubSeq(w, 1, Len(p)) = p
Matches(S, p) == {w \in S : StartsWith(w, p)}
RECURSIVE LcpLen(_, _)
LcpLen(S, n) ==  \* length of the longest common prefix of the non-empty word set S, knowing the first n bytes agree
  LET w == CHOOSE x \in S : TRUE IN
  IF \A x \in S : Len(x) > n /\ x[n+1] = w[n+1] THEN LcpLen(S, n + 1) ELSE n

\* ---------------------------------------------------------------- implementation level
NilCh == [b \in Alphabet |-> "nil"]
NewNode(valid) == [valid |-> valid, min |-> 255, max |-> 0, ch |-> NilCh]

Min2(a, b) == IF a < b THEN a ELSE b
Max2(a, b) == IF a > b THEN a ELSE b

(* One loop iteration of trie.Insert at node `path` for byte w[i]; returns the new node table. *)
RECURSIVE Ins(_, _, _, _)
Ins(ns, path, w, i) ==
  IF i > Len(w) THEN ns
  ELSE
    LET c     == w[i]
        t     == ns[path]
        kind  == t.ch[c]
        last  == (i = Len(w))
        child == Append(path, c)
        \* case endMarker / nil: (re)create the child and update min/max
        created ==
          IF kind \in {"end", "nil"}
          THEN LET t2 == [t EXCEPT !.ch[c] = IF last THEN "end" ELSE "node",
                                   !.min   = Min2(@, c),
                                   !.max   = Max2(@, c)]
                   ns2 == [ns EXCEPT ![path] = t2]
               IN IF last THEN ns2
                  ELSE (child :> NewNode(kind = "end")) @@ ns2
          ELSE ns
        \* the repair: a word ending on an existing inner node marks it valid
        marked ==
          IF last /\ kind = "node" /\ MarkPrefixValid
          THEN [created EXCEPT ![child].valid = TRUE]
          ELSE created
    IN IF last THEN marked ELSE Ins(marked, child, w, i + 1)

\* trie.Prefix: the node reached by `w`: "nil", "end" or a path
RECURSIVE Walk(_, _, _, _)
Walk(ns, path, w, i) ==
  IF i > Len(w) THEN <<"node", path>>
  ELSE LET k == ns[path].ch[w[i]] IN
       IF k = "nil" THEN <<"nil", <<>>>>
       ELSE IF k = "end" THEN (IF i = Len(w) THEN <<"end", <<>>>> ELSE <<"nil", <<>>>>)
       ELSE Walk(ns, Append(path, w[i]), w, i + 1)

ImplContains(ns, w) ==
  LET r == Walk(ns, <<>>, w, 1) IN
  CASE r[1] = "nil" -> FALSE
    [] r[1] = "end" -> TRUE
    [] OTHER        -> ns[r[2]].valid

(* trie.AllBytes from a node: returns <<longest, sequence of words>>, transcribed:
   the loop runs over min..max, skipping nil children.                              *)
RECURSIVE ImplAll(_, _, _)
ImplAll(ns, path, prefix) ==
  LET t    == ns[path]
      a0   == [longest |-> Len(prefix),
               res     |-> IF t.valid THEN <<prefix>> ELSE <<>>,
               num     |-> IF t.valid THEN 1 ELSE 0]
      \* for i := t.min; i <= t.max; i++  (a fold, not a recursion: TLC's cost of a recursion grows with its depth,
      \* and a full node has 256 children)
      range == IF t.max < t.min THEN <<>> ELSE [i \in 1..(t.max - t.min + 1) |-> t.min + i - 1]
      Step(acc, b) ==  \* acc = [longest, res, num]
        IF b \notin Alphabet \/ t.ch[b] = "nil" THEN acc
        ELSE LET np  == Append(prefix, b)
                 sub == IF t.ch[b] = "end" THEN <<Len(np), <<np>>>> ELSE ImplAll(ns, Append(path, b), np)
             IN [longest |-> Max2(acc.longest, sub[1]), res |-> acc.res \o sub[2], num |-> acc.num + 1]
      a    == FoldLeft(Step, a0, range)
  IN <<IF a.num > 1 THEN Len(prefix) ELSE a.longest, a.res>>

ImplPrefixAll(ns, p) ==
  LET r == Walk(ns, <<>>, p, 1) IN
  CASE r[1] = "nil" -> <<0, <<>>>>
    [] r[1] = "end" -> <<Len(p), <<p>>>>
    [] OTHER        -> ImplAll(ns, r[2], p)

\* ---------------------------------------------------------------- the machine
Init == /\ nodes = (<<>> :> NewNode(FALSE))
        /\ set = {}
        /\ hist = <<>>

AbsLcp(S, p) == IF Matches(S, p) = {} THEN 0 ELSE LcpLen(Matches(S, p), Len(p))

SortedPrefixes == Sorted(Prefixes0)   \* constant: evaluated once

Emit(op, w) ==
  EmitOn => EmitLine(ToJson([h   |-> hist,
                             op  |-> op,
                             w   |-> w,
                             set |-> Sorted(set'),
                             lcp |-> [i \in 1..Len(SortedPrefixes) |->
                                        LET p == SortedPrefixes[i] IN <<p, AbsLcp(set', p)>>]]))

Insert(w) ==
  /\ Cardinality(set) < MaxSet \/ w \in set
  /\ nodes' = Ins(nodes, <<>>, w, 1)
  /\ set'   = set \cup {w}
  /\ hist'  = Append(hist, [op |-> "ins", w |-> w])
  /\ Emit("ins", w)

\* object/state.go record(ids, name, type): ids.Insert(name + "(" or " "); ids.Insert(name)
Record(n, k) ==
  LET ws == n \o Suffix(k) IN
  /\ Cardinality(set \cup {ws, n}) <= MaxSet
  /\ nodes' = Ins(Ins(nodes, <<>>, ws, 1), <<>>, n, 1)
  /\ set'   = set \cup {ws, n}
  /\ hist'  = Append(hist, [op |-> k, w |-> n])
  /\ Emit(k, n)

Next == \/ \E w \in PlainWords : Insert(w)
        \/ \E n \in NameWords, k \in {"var", "func"} : Record(n, k)

Spec == Init /\ [][Next]_vars

\* ---------------------------------------------------------------- properties
MembershipOK == \A w \in Words : ImplContains(nodes, w) <=> (w \in set)

PrefixOK ==
  \A p \in Prefixes0 :
    LET r == ImplPrefixAll(nodes, p)
        m == Matches(set, p)
    IN /\ r[2] = Sorted(m)
       /\ (m # {} => r[1] = LcpLen(m, Len(p)))

MinMaxOK ==
  \A path \in DOMAIN nodes :
    LET t == nodes[path]
        present == {b \in Alphabet : t.ch[b] # "nil"}
    IN IF present = {} THEN t.min = 255 /\ t.max = 0
       ELSE /\ t.min = CHOOSE b \in present : \A x \in present : b <= x
            /\ t.max = CHOOSE b \in present : \A x \in present : b >= x

\* the set only grows and a word, once a member, stays one
GrowOnly == [][set \subseteq set' /\ \A w \in Words : ImplContains(nodes, w) => ImplContains(nodes', w)]_vars
=============================================================================
