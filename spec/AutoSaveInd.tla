----------------------------- MODULE AutoSaveInd -----------------------------
(* C18, optional extra: an inductive invariant of the save path for ANY number of
   bindings, checked with Apalache (harness: thorough tier, under a timeout; not part of
   the verdict).

   Same actions as AutoSave.tla for one session; file contents are abstracted:
     gr       what ./.gr holds: "old" (the complete previous file, possibly no file),
              "new" (the complete new file) or "part" (anything else: a proper prefix of
              the new lines, a torn line, an empty file that is not the new content)
     tmpN     complete lines of `new` in the temp file, tmpTorn: a torn line follows them
     L        number of binding lines of the new content - a CONSTANT ranging over Nat,
              so the result is not limited to the 0..3 bindings TLC enumerates.
   DirectWrite = TRUE is the careless variant; with it IndInv is not inductive.

   apalache-mc check --cinit=CInit --init=Init    --inv=IndInv --length=0 AutoSaveInd.tla   (Init => IndInv)
   apalache-mc check --cinit=CInit --init=IndInit --inv=IndInv --length=1 AutoSaveInd.tla   (IndInv /\ Next => IndInv')
   IndInv => Atomic /\ FailedLeavesOld /\ LoadedOldOrNew holds by its first conjuncts.        *)
EXTENDS Integers

CONSTANTS
  \* @type: Int;
  L,
  \* @type: Bool;
  DirectWrite

VARIABLES
  \* @type: Str;
  gr,
  \* @type: Bool;
  tmpEx,
  \* @type: Int;
  tmpN,
  \* @type: Bool;
  tmpTorn,
  \* @type: Str;
  pc,
  \* @type: Bool;
  alive,
  \* @type: Bool;
  changed,
  \* @type: Str;
  loaded

CInit == L \in Nat /\ DirectWrite = FALSE
CInitDirect == L \in Nat /\ DirectWrite = TRUE

PCs == {"idle", "start", "write", "written", "done", "failed", "end"}

Init ==
  /\ gr = "old" /\ tmpEx = FALSE /\ tmpN = 0 /\ tmpTorn = FALSE
  /\ pc = "idle" /\ alive = TRUE /\ changed \in BOOLEAN /\ loaded = "old"

\* content of the file being written, as a tag
Tag(n, torn) == IF n = L /\ ~torn THEN "new" ELSE "part"

Skip  == alive /\ pc = "idle" /\ ~changed /\ pc' = "done"
         /\ UNCHANGED <<gr, tmpEx, tmpN, tmpTorn, alive, changed, loaded>>
Start == alive /\ pc = "idle" /\ changed /\ pc' = "start"
         /\ UNCHANGED <<gr, tmpEx, tmpN, tmpTorn, alive, changed, loaded>>
CreateTemp ==
  /\ alive /\ pc = "start" /\ pc' = "write"
  /\ tmpEx' = TRUE /\ tmpN' = 0 /\ tmpTorn' = FALSE
  /\ gr' = IF DirectWrite THEN Tag(0, FALSE) ELSE gr
  /\ UNCHANGED <<alive, changed, loaded>>
CreateFails == alive /\ pc = "start" /\ pc' = "failed"
         /\ UNCHANGED <<gr, tmpEx, tmpN, tmpTorn, alive, changed, loaded>>
WriteTorn ==
  /\ alive /\ pc = "write" /\ tmpN < L /\ ~tmpTorn
  /\ tmpTorn' = TRUE
  /\ gr' = IF DirectWrite THEN "part" ELSE gr
  /\ UNCHANGED <<tmpEx, tmpN, pc, alive, changed, loaded>>
WriteBinding ==
  /\ alive /\ pc = "write" /\ tmpN < L
  /\ tmpN' = tmpN + 1 /\ tmpTorn' = FALSE
  /\ gr' = IF DirectWrite THEN Tag(tmpN + 1, FALSE) ELSE gr
  /\ UNCHANGED <<tmpEx, pc, alive, changed, loaded>>
WriteFails == alive /\ pc = "write" /\ pc' = "failed"
         /\ UNCHANGED <<gr, tmpEx, tmpN, tmpTorn, alive, changed, loaded>>
WriteDone == alive /\ pc = "write" /\ tmpN = L /\ ~tmpTorn /\ pc' = "written"
         /\ UNCHANGED <<gr, tmpEx, tmpN, tmpTorn, alive, changed, loaded>>
Rename ==
  /\ alive /\ pc = "written" /\ pc' = "done"
  /\ gr' = IF DirectWrite THEN gr ELSE Tag(tmpN, tmpTorn)
  /\ tmpEx' = FALSE
  /\ UNCHANGED <<tmpN, tmpTorn, alive, changed, loaded>>
RenameFails == alive /\ pc = "written" /\ pc' = "failed"
         /\ UNCHANGED <<gr, tmpEx, tmpN, tmpTorn, alive, changed, loaded>>
Crash == alive /\ alive' = FALSE
         /\ UNCHANGED <<gr, tmpEx, tmpN, tmpTorn, pc, changed, loaded>>
Restart == ~alive /\ pc # "end" /\ loaded' = gr /\ pc' = "end"
         /\ UNCHANGED <<gr, tmpEx, tmpN, tmpTorn, alive, changed>>

Next == \/ Skip \/ Start \/ CreateTemp \/ CreateFails \/ WriteTorn \/ WriteBinding \/ WriteFails
        \/ WriteDone \/ Rename \/ RenameFails \/ Crash \/ Restart

Atomic          == gr \in {"old", "new"}
FailedLeavesOld == pc = "failed" => gr = "old"
LoadedOldOrNew  == loaded \in {"old", "new"}

IndInv ==
  /\ Atomic /\ FailedLeavesOld /\ LoadedOldOrNew
  /\ pc \in PCs /\ tmpN >= 0 /\ tmpN <= L
  /\ (tmpTorn => tmpN < L)
  /\ (pc \in {"idle", "start"} => ~tmpEx /\ gr = "old")
  /\ (pc \in {"write", "written"} => tmpEx /\ gr = "old" /\ changed)
  /\ (pc = "written" => tmpN = L /\ ~tmpTorn)
  /\ (pc = "start" => changed)
  /\ (pc = "done" /\ ~changed => gr = "old")

\* "any state satisfying IndInv" as an initial predicate Apalache accepts
IndInit ==
  /\ gr \in {"old", "new", "part"} /\ tmpEx \in BOOLEAN /\ tmpN \in Int /\ tmpTorn \in BOOLEAN
  /\ pc \in PCs /\ alive \in BOOLEAN /\ changed \in BOOLEAN /\ loaded \in {"old", "new", "part"}
  /\ IndInv
=============================================================================
