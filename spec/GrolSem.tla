------------------------------- MODULE GrolSem -------------------------------
(* Reference semantics of the grol core language: a definitional, big-step,
   state-passing interpreter written as RECURSIVE TLA+ operators and executed by TLC.

   It is an *independent* statement of the documented semantics (README + the rules
   digest in DESIGN.md appendix A), not a transcription of eval/eval.go:
     - containers are plain values (no aliasing), there are no registers, no references
       and no memoization cache - exactly what C04/C05/C06 say must be unobservable;
     - identifier lookup is a dynamic walk of the environment chain;
     - every node short-circuits on an error object.

   Programs are abstract syntax trees in the JSON form of DESIGN.md appendix D (records
   with a kind field `k`), produced by the harness from grol's own parser (the parser is
   checked separately by C02/C08/C15) or by the grammar generators.

   State  st = [envs |-> sequence of environments, cur |-> index of the current one,
                out  |-> sequence of output chunks,  fuel |-> remaining node visits]
   Env       = [vars |-> [names -> values], outer |-> env index or 0,
                fn |-> the function value being executed or Nil, key |-> its code identity]
   Eval*(node, st) return [v |-> value | error | control, st |-> st'].

   `fuel` makes every evaluation total: when it runs out the result is Err("FUEL") and the
   case is not counted.                                                                  *)
EXTENDS GrolValues, TLC

R(v, st) == [v |-> v, st |-> st]
FuelErr  == Err("FUEL")
IsFuel(v)  == v.t = "err" /\ v.m = "FUEL"
IsTrue(v)  == v.t = "bool" /\ v.v
IsFalse(v) == v.t = "bool" /\ ~v.v

\* names of the extension functions: found before any variable, never assignable.  ExtSigs (below) gives the ones whose
\* meaning is modelled; calling another one is outside the modelled fragment.
ExtModelled == {"sqrt", "floor", "ceil", "trunc", "round", "runes", "rune_len", "split", "join",
                "trim", "trim_left", "trim_right", "min", "max", "int"}
ExtNameSet == ExtModelled \cup
              {"acos", "asin", "atan", "atan2", "base64", "cos", "defun", "eof", "eval", "exec", "exp", "format", "json",
               "json_go", "ln", "load", "log10", "pow", "rand", "read", "regexp", "regsub", "run", "save", "sin", "sleep",
               "sprintf", "tan", "type", "unjson", "width"}

\* ---------------------------------------------------------------- environments
RECURSIVE FindEnv(_, _, _)
FindEnv(st, e, name) ==
  IF e = 0 THEN 0
  ELSE IF name \in DOMAIN st.envs[e].vars THEN e
  ELSE FindEnv(st, st.envs[e].outer, name)

\* <<found, value>>
GetVar(st, name) ==
  LET cur == st.envs[st.cur] IN
  IF name = "self" /\ name \notin DOMAIN cur.vars      \* (a parameter named self is what the body reads)
  THEN (IF cur.fn.t = "func" THEN <<TRUE, cur.fn>> ELSE <<FALSE, Nil>>)
  ELSE IF name # "self" /\ cur.fn.t = "func" /\ cur.fn.name # "" /\ cur.fn.name = name THEN <<TRUE, cur.fn>>
  ELSE LET e == FindEnv(st, st.cur, name) IN
       IF e = 0 THEN <<FALSE, Nil>> ELSE <<TRUE, st.envs[e].vars[name]>>

\* what an assignment to name replaces: the binding, without self and the function's own name
GetBinding(st, name) ==
  LET e == FindEnv(st, st.cur, name) IN
  IF e = 0 THEN <<FALSE, Nil>> ELSE <<TRUE, st.envs[e].vars[name]>>

PutIn(st, e, name, val) ==
  LET env == st.envs[e]
      nv  == (name :> val) @@ env.vars
  IN [st EXCEPT !.envs = [st.envs EXCEPT ![e] = [env EXCEPT !.vars = nv]]]

(* `=` (create = FALSE): update the binding found walking outwards, else create locally;
   `:=` and parameters (create = TRUE): always local.  All-caps names are constants:
   rebinding an existing one to a value that is not identical (same types all the way down,
   same float bits, same closure) is an error.                                           *)
SetVar(st, name, val, create) ==
  LET g == GetBinding(st, name) IN
  IF IsConstName(name) /\ g[1] /\ g[2] # val
  THEN R(Err("attempt to change constant"), st)
  ELSE IF name \in ExtNameSet THEN R(Err("attempt to change internal function"), st)
  ELSE IF create THEN R(val, PutIn(st, st.cur, name, val))
  ELSE LET e == FindEnv(st, st.cur, name) IN
       R(val, PutIn(st, IF e = 0 THEN st.cur ELSE e, name, val))

RECURSIVE DelVar(_, _, _)
DelVar(st, e, name) ==   \* del(x): remove the first binding found walking outwards
  IF e = 0 THEN R(Bool(FALSE), st)
  ELSE IF name \in DOMAIN st.envs[e].vars
       THEN LET env == st.envs[e]
                nv  == [x \in (DOMAIN env.vars) \ {name} |-> env.vars[x]]
            IN R(Bool(TRUE), [st EXCEPT !.envs = [st.envs EXCEPT ![e] = [env EXCEPT !.vars = nv]]])
       ELSE DelVar(st, st.envs[e].outer, name)

\* ---------------------------------------------------------------- operators
One == "1"
IsNum(v) == v.t \in {"int", "float"}
ToF(v) == IF v.t = "int" THEN F64FromI64(v.v) ELSE v.v

RECURSIVE RangeSeq(_, _)
RangeSeq(a, b) == IF I64Cmp(a, b) >= 0 THEN <<>> ELSE <<IntV(a)>> \o RangeSeq(I64Add(a, One), b)

RECURSIVE RepSeq(_, _)
RepSeq(e, n) == IF n <= 0 THEN <<>> ELSE e \o RepSeq(e, n - 1)

MaxCallDepth == 120
MaxBuild == 4000   \* containers / strings larger than this are outside the modelled fragment

IntOp(op, a, b) ==
  CASE op = "+"  -> IntV(I64Add(a, b))
    [] op = "-"  -> IntV(I64Sub(a, b))
    [] op = "*"  -> IntV(I64Mul(a, b))
    [] op = "/"  -> IF b = "0" THEN Err("division by zero") ELSE IntV(I64Div(a, b))
    [] op = "%"  -> IF b = "0" THEN Err("division by zero") ELSE IntV(I64Mod(a, b))
    [] op = "<<" -> IF I64Cmp(b, "0") < 0 THEN Err("negative shift") ELSE IntV(I64Shl(a, b))
    [] op = ">>" -> IF I64Cmp(b, "0") < 0 THEN Err("negative shift") ELSE IntV(I64Shr(a, b))
    [] op = "&"  -> IntV(I64And(a, b))
    [] op = "|"  -> IntV(I64Or(a, b))
    [] op = "^"  -> IntV(I64Xor(a, b))
    [] op = ":"  -> \* the length b - a is computed in 64-bit arithmetic; negative (or wrapped) is an error
                    IF I64Cmp(I64Sub(b, a), "0") < 0 THEN Err("range index invalid")
                    ELSE IF I64Cmp(I64Sub(b, a), IntToI64(MaxBuild)) > 0 THEN FuelErr
                    ELSE Arr(RangeSeq(a, b))
    [] OTHER     -> Err("unknown operator")

FloatOp(op, a, b) ==
  IF ~IsNum(a) \/ ~IsNum(b) THEN Err("not converting to float")
  ELSE LET x == ToF(a) y == ToF(b) IN
       CASE op = "+" -> Flt(F64Add(x, y))
         [] op = "-" -> Flt(F64Sub(x, y))
         [] op = "*" -> Flt(F64Mul(x, y))
         [] op = "/" -> Flt(F64Div(x, y))
         [] op = "%" -> Flt(F64Mod(x, y))
         [] OTHER    -> Err("unknown operator")

StrOp(op, a, b) ==
  IF op = "+" /\ b.t = "str" THEN
       (IF StrLen(a.v) + StrLen(b.v) > 100000 THEN FuelErr ELSE Str(StrCat(a.v, b.v)))
  ELSE IF op = "*" /\ b.t = "int" THEN
       (IF I64Cmp(b.v, "0") < 0 THEN Err("negative repeat")
        ELSE IF ~I64Fits(b.v) \/ StrLen(a.v) * I64ToInt(b.v) > 100000 THEN FuelErr
        ELSE Str(StrRepeat(a.v, I64ToInt(b.v))))
  ELSE Err("unknown operator on string")

ArrOp(op, a, b) ==
  IF op = "*" THEN
       (IF b.t # "int" THEN Err("repeat needs integer")
        ELSE IF I64Cmp(b.v, "0") < 0 THEN Err("negative repeat")
        ELSE IF ~I64Fits(b.v) \/ Len(a.e) * I64ToInt(b.v) > MaxBuild THEN FuelErr
        ELSE Arr(RepSeq(a.e, I64ToInt(b.v))))
  ELSE IF op = "+" THEN (IF b.t = "arr" THEN Arr(a.e \o b.e) ELSE Arr(Append(a.e, b)))
  ELSE Err("unknown operator on array")

InfixOp(op, a, b) ==
  CASE op = "==" -> Bool(Eq(a, b))
    [] op = "!=" -> Bool(~Eq(a, b))
    [] op = ">"  -> Bool(Cmp(a, b) = 1)
    [] op = "<"  -> Bool(Cmp(a, b) = -1)
    [] op = ">=" -> Bool(Cmp(a, b) >= 0)
    [] op = "<=" -> Bool(Cmp(a, b) <= 0)
    [] op = "&&" -> Bool(IsTrue(a) /\ IsTrue(b))
    [] op = "||" -> Bool(IsTrue(a) \/ IsTrue(b))
    [] OTHER ->
       IF a.t = "int" /\ b.t = "int" THEN IntOp(op, a.v, b.v)
       ELSE IF a.t = "float" \/ b.t = "float" THEN FloatOp(op, a, b)
       ELSE IF a.t = "str" THEN StrOp(op, a, b)
       ELSE IF a.t = "arr" THEN ArrOp(op, a, b)
       ELSE IF a.t = "map" /\ b.t = "map" THEN
            (IF op = "+" THEN Map(MapMerge(a.p, b.p, 1)) ELSE Err("unknown operator on map"))
       ELSE Err("no such operator on these operands")

PrefixOp(op, v) ==
  CASE op = "!" -> IF v.t = "bool" THEN Bool(~v.v) ELSE IF v.t = "nil" THEN Bool(TRUE) ELSE Err("not of non boolean")
    [] op = "-" -> IF v.t = "int" THEN IntV(I64Neg(v.v)) ELSE IF v.t = "float" THEN Flt(F64Neg(v.v)) ELSE Err("minus of non number")
    [] op = "~" -> IF v.t = "int" THEN IntV(I64Not(v.v)) ELSE Err("bitwise not of non integer")
    [] op = "^" -> IF v.t = "int" THEN IntV(I64Not(v.v)) ELSE Err("bitwise not of non integer")
    [] op = "+" -> v
    [] OTHER    -> Err("unknown prefix operator")

\* ---------------------------------------------------------------- containers: len / first / rest / index / slice
VLen(v) == CASE v.t = "str" -> StrLen(v.v)
             [] v.t = "arr" -> Len(v.e)
             [] v.t = "map" -> Len(v.p)
             [] v.t = "nil" -> 0
             [] OTHER       -> -1

KeyStr == Str("key")
ValStr == Str("value")
FirstPair(kv) == Map(<< <<KeyStr, kv[1]>>, <<ValStr, kv[2]>> >>)

VFirst(v) ==
  CASE v.t = "nil" -> Nil
    [] v.t = "arr" -> IF Len(v.e) = 0 THEN Nil ELSE v.e[1]
    [] v.t = "map" -> IF Len(v.p) = 0 THEN Nil ELSE FirstPair(v.p[1])
    [] v.t = "str" -> IF v.v = "" THEN Nil ELSE Str(StrFirstRune(v.v))
    [] v.t = "func" -> Arr([i \in 1..Len(v.ps) |-> Str(v.ps[i])])   \* parameter names
    [] OTHER       -> Err("first() not supported")

VRest(v) ==
  CASE v.t = "nil" -> Nil
    [] v.t = "arr" -> IF Len(v.e) <= 1 THEN Nil ELSE Arr(Tail(v.e))
    [] v.t = "map" -> IF Len(v.p) <= 1 THEN Nil ELSE Map(Tail(v.p))
    [] v.t = "str" -> IF StrLen(v.v) <= 1 THEN Nil ELSE Str(StrRestRunes(v.v))
    [] v.t = "func" -> FuelErr   \* body statements as printed text: outside the modelled fragment
    [] OTHER       -> Err("rest() not supported")

\* index with a non-slice index value; nil as index is 0
IndexVal(left, index) ==
  LET isInt == index.t \in {"int", "nil"}
      raw   == IF index.t = "int" THEN index.v ELSE "0"
  IN
  IF left.t = "str" /\ isInt THEN
       LET n == StrLen(left.v)
           i == IF I64Cmp(raw, "0") < 0 THEN I64Add(raw, IntToI64(n)) ELSE raw
       IN IF I64Cmp(i, "0") < 0 \/ I64Cmp(i, IntToI64(n)) >= 0 THEN Nil
          ELSE IntN(StrByteAt(left.v, I64ToInt(i) + 1))
  ELSE IF left.t = "arr" /\ isInt THEN
       LET n == Len(left.e)
           i == IF I64Cmp(raw, "0") < 0 THEN I64Add(raw, IntToI64(n)) ELSE raw
       IN IF I64Cmp(i, "0") < 0 \/ I64Cmp(i, IntToI64(n)) >= 0 THEN Nil
          ELSE left.e[I64ToInt(i) + 1]
  ELSE IF left.t = "map" THEN MapGet(left.p, index)[2]
  ELSE IF left.t = "nil" THEN Nil
  ELSE Err("index operator not supported")

Min2(a, b) == IF I64Cmp(a, b) <= 0 THEN a ELSE b
Max2(a, b) == IF I64Cmp(a, b) >= 0 THEN a ELSE b

(* left[l:r] (r = Nil for "to the end"): negative bounds count from the end, l > r is an
   error, both bounds are clamped into 0..len.                                            *)
SliceVal(left, l0, r0, noRight) ==
  IF l0.t # "int" \/ (~noRight /\ r0.t # "int") THEN Err("range index not integer")
  ELSE LET n  == VLen(left)
           ns == IntToI64(n)
           l1 == IF I64Cmp(l0.v, "0") < 0 THEN I64Add(l0.v, ns) ELSE l0.v
           r1 == IF noRight THEN ns ELSE IF I64Cmp(r0.v, "0") < 0 THEN I64Add(r0.v, ns) ELSE r0.v
       IN IF I64Cmp(l1, r1) > 0 THEN Err("range index invalid: left greater than right")
          ELSE LET l == I64ToInt(Max2("0", Min2(l1, ns)))
                   r == I64ToInt(Max2("0", Min2(r1, ns)))
               IN CASE left.t = "str" -> Str(StrSub(left.v, l + 1, r))
                    [] left.t = "arr" -> Arr(SubSeq(left.e, l + 1, r))
                    [] left.t = "map" -> Map(SubSeq(left.p, l + 1, r))
                    [] left.t = "nil" -> Nil
                    [] OTHER          -> Err("range index operator not supported")

\* ---------------------------------------------------------------- library (extension functions)
(* The part of the standard library that has a closed, deterministic meaning: each function is
   an "extension" value found BEFORE the environment is searched (so a local variable cannot
   shadow it and assigning to its name is an error), applied by the protocol of
   eval.applyExtension: a true variadic (max = -1) spreads an array given as last argument,
   then the argument count is checked, then each declared argument type (an integer is promoted
   where a float is declared; "any" accepts everything), then the callback runs.
   abs and keys are defined in grol itself in the root environment (plain values there).     *)
ExtSigs ==
  [sqrt  |-> [mn |-> 1, mx |-> 1,  ty |-> <<"float">>],
   floor |-> [mn |-> 1, mx |-> 1,  ty |-> <<"float">>],
   ceil  |-> [mn |-> 1, mx |-> 1,  ty |-> <<"float">>],
   trunc |-> [mn |-> 1, mx |-> 1,  ty |-> <<"float">>],
   round |-> [mn |-> 1, mx |-> 1,  ty |-> <<"float">>],
   runes |-> [mn |-> 1, mx |-> 2,  ty |-> <<"str", "bool">>],
   rune_len   |-> [mn |-> 1, mx |-> 1, ty |-> <<"str">>],
   split      |-> [mn |-> 1, mx |-> 2, ty |-> <<"str", "str">>],
   join       |-> [mn |-> 1, mx |-> 2, ty |-> <<"arr", "str">>],
   trim       |-> [mn |-> 1, mx |-> 2, ty |-> <<"str", "str">>],
   trim_left  |-> [mn |-> 1, mx |-> 2, ty |-> <<"str", "str">>],
   trim_right |-> [mn |-> 1, mx |-> 2, ty |-> <<"str", "str">>],
   min   |-> [mn |-> 1, mx |-> -1, ty |-> <<"any">>],
   max   |-> [mn |-> 1, mx |-> -1, ty |-> <<"any">>],
   int   |-> [mn |-> 1, mx |-> 1,  ty |-> <<"any">>]]
ExtNames == DOMAIN ExtSigs
ASSUME ExtNames = ExtModelled
Ext(name) == [t |-> "ext", n |-> name]
DefaultTrimSet == " \r\n\t"

RECURSIVE ExtremeOf(_, _, _, _)
ExtremeOf(args, i, best, sign) ==    \* sign = -1: min, 1: max; the first of equivalent values is kept
  IF i > Len(args) THEN best
  ELSE ExtremeOf(args, i + 1, IF Cmp(args[i], best) = sign THEN args[i] ELSE best, sign)

StrsOf(ss) == Arr([i \in 1..Len(ss) |-> Str(ss[i])])
RECURSIVE JoinVals(_, _, _)
JoinVals(e, sep, i) ==
  IF i > Len(e) THEN "" ELSE StrCat(IF i > 1 THEN sep ELSE "", StrCat(Display(e[i]), JoinVals(e, sep, i + 1)))

IntOf(o) ==
  CASE o.t = "int"   -> o
    [] o.t = "nil"   -> IntV("0")
    [] o.t = "bool"  -> IntV(IF o.v THEN "1" ELSE "0")
    [] o.t = "float" -> (LET r == F64TruncToI64(o.v) IN IF r = "" THEN Err("out of range") ELSE IntV(r))
    [] o.t = "str"   -> (IF o.v = "" THEN IntV("0")
                         ELSE LET r == I64ParseBase0(o.v) IN IF r = "" THEN Err("strconv.ParseInt") ELSE IntV(r))
    [] OTHER         -> Err("cannot convert to int")

ExtCallback(name, a) ==
  LET opt2 == IF Len(a) = 2 THEN a[2].v ELSE "" IN
  CASE name = "sqrt"  -> Flt(F64Sqrt(a[1].v))
    [] name = "floor" -> Flt(F64Floor(a[1].v))
    [] name = "ceil"  -> Flt(F64Ceil(a[1].v))
    [] name = "trunc" -> Flt(F64Trunc(a[1].v))
    [] name = "round" -> (LET r == F64RoundToI64(a[1].v) IN IF r = "" THEN Err("out of range") ELSE IntV(r))
    [] name = "runes" -> (IF Len(a) = 2 /\ a[2].v
                          THEN LET cps == StrRuneValues(a[1].v) IN Arr([i \in 1..Len(cps) |-> IntN(cps[i])])
                          ELSE StrsOf(StrRunes(a[1].v)))
    [] name = "rune_len" -> IntN(Len(StrRuneValues(a[1].v)))
    [] name = "split" -> StrsOf(StrSplit(a[1].v, opt2))
    [] name = "join"  -> Str(JoinVals(a[1].e, opt2, 1))
    [] name = "trim"       -> Str(StrTrim(a[1].v, IF Len(a) = 2 THEN opt2 ELSE DefaultTrimSet, 0))
    [] name = "trim_left"  -> Str(StrTrim(a[1].v, IF Len(a) = 2 THEN opt2 ELSE DefaultTrimSet, 1))
    [] name = "trim_right" -> Str(StrTrim(a[1].v, IF Len(a) = 2 THEN opt2 ELSE DefaultTrimSet, 2))
    [] name = "min"   -> ExtremeOf(a, 2, a[1], -1)
    [] name = "max"   -> ExtremeOf(a, 2, a[1], 1)
    [] name = "int"   -> IntOf(a[1])
    [] OTHER          -> Err("extension outside the modelled fragment")

ApplyExt(name, args0) ==
  LET sig  == ExtSigs[name]
      n0   == Len(args0)
      args == IF sig.mx = -1 /\ n0 > 0 /\ args0[n0].t = "arr"
              THEN SubSeq(args0, 1, n0 - 1) \o args0[n0].e ELSE args0
      l    == Len(args)
      nt   == IF l < Len(sig.ty) THEN l ELSE Len(sig.ty)
      Conv[i \in 1..l] ==
        IF i <= nt /\ sig.ty[i] = "float" /\ args[i].t = "int" THEN Flt(F64FromI64(args[i].v)) ELSE args[i]
  IN IF l < sig.mn \/ (sig.mx # -1 /\ l > sig.mx) THEN Err("wrong number of arguments")
     ELSE IF \E i \in 1..nt : sig.ty[i] # "any" /\ Conv[i].t # sig.ty[i] THEN Err("wrong type of argument")
     ELSE ExtCallback(name, Conv)

\* abs and keys: grol functions of the root environment, transcribed
AbsOf(x) == IF Cmp(x, IntV("0")) = -1 THEN PrefixOp("-", x) ELSE x
RECURSIVE KeysOf(_)
KeysOf(m) ==
  IF VLen(m) < 0 THEN Err("len: not supported")
  ELSE IF VLen(m) = 0 THEN Arr(<<>>)
  ELSE LET k == IndexVal(VFirst(m), KeyStr) IN
       IF IsErr(k) THEN k
       ELSE LET r == KeysOf(VRest(m)) IN IF IsErr(r) THEN r ELSE InfixOp("+", Arr(<<k>>), r)


\* ---------------------------------------------------------------- the evaluator
RECURSIVE EvalI(_, _)        \* evaluate a node; control values (return/break/continue) bubble up
RECURSIVE EvalU(_, _)        \* evaluate and unwrap `return` (operand / argument-of-operator position)
RECURSIVE EvalStmts(_, _, _, _)
RECURSIVE EvalList(_, _, _, _)
RECURSIVE EvalPairs(_, _, _, _)
RECURSIVE PrintArgs(_, _, _, _)
RECURSIVE Apply(_, _, _)
RECURSIVE ForInt(_, _, _, _, _, _)
RECURSIVE ForList(_, _, _, _, _)
RECURSIVE ForCond(_, _, _)

EvalBlock(stmts, st) == EvalStmts(stmts, 1, Nil, st)

EvalStmts(stmts, i, last, st) ==
  IF i > Len(stmts) THEN R(last, st)
  ELSE IF stmts[i].k = "cmt" THEN EvalStmts(stmts, i + 1, last, st)
  ELSE LET r == EvalI(stmts[i], st) IN
       IF IsErr(r.v) \/ IsCtl(r.v) THEN r ELSE EvalStmts(stmts, i + 1, r.v, r.st)

EvalU(n, st) ==
  LET r == EvalI(n, st) IN
  IF IsCtl(r.v)
  THEN (IF r.v.c = "return" THEN R(r.v.v, r.st) ELSE R(Err("unexpected control outside of for loops"), r.st))
  ELSE r

\* evaluate expressions left to right (call arguments, array elements); the first error wins
EvalList(ns, i, acc, st) ==
  IF i > Len(ns) THEN R(Arr(acc), st)
  ELSE LET r == EvalU(ns[i], st) IN   \* like operands: `return` unwrapped, break/continue an error
       IF IsErr(r.v) THEN r
       ELSE EvalList(ns, i + 1, Append(acc, r.v), r.st)

\* map literal: pairs in source order, later duplicates overwrite; an error in a key or value is the result
EvalPairs(ps, i, acc, st) ==
  IF i > Len(ps) THEN R(Map(acc), st)
  ELSE LET k == EvalU(ps[i][1], st) IN
       IF IsErr(k.v) THEN k
       ELSE LET v == EvalU(ps[i][2], k.st) IN
            IF IsErr(v.v) THEN v ELSE EvalPairs(ps, i + 1, MapSet(acc, k.v, v.v), v.st)

\* print / println / error: arguments joined by one space; an error argument is returned instead
PrintArgs(ns, i, acc, st) ==
  IF i > Len(ns) THEN R(Str(acc), st)
  ELSE LET r == EvalI(ns[i], st) IN
       IF IsErr(r.v) THEN r
       ELSE IF IsCtl(r.v) THEN R(Err("control value in print"), r.st)
       ELSE PrintArgs(ns, i + 1, StrCat(acc, StrCat(IF i > 1 THEN " " ELSE "", Display(r.v))), r.st)

Emit(st, s) == [st EXCEPT !.out = Append(@, s)]

IndexAssign(which, index, value, st) ==
  IF which.k # "id" THEN R(Err("index assignment to non identifier"), st)
  ELSE IF IsErr(index) THEN R(index, st)
  ELSE LET g == GetVar(st, which.n) IN
       IF ~g[1] THEN R(Err("identifier not found"), st)
       ELSE LET val == g[2] IN
            IF val.t = "arr" THEN
                 (IF index.t # "int" THEN R(Err("index assignment to array with non integer index"), st)
                  ELSE LET n == IntToI64(Len(val.e))
                           i == IF I64Cmp(index.v, "0") < 0 THEN I64Add(index.v, n) ELSE index.v
                       IN IF I64Cmp(i, "0") < 0 \/ I64Cmp(i, n) >= 0 THEN R(Err("index assignment out of bounds"), st)
                          ELSE LET s == SetVar(st, which.n, Arr([val.e EXCEPT ![I64ToInt(i) + 1] = value]), FALSE)
                               IN IF IsErr(s.v) THEN s ELSE R(value, s.st))
            ELSE IF val.t = "map" THEN
                 (LET s == SetVar(st, which.n, Map(MapSet(val.p, index, value)), FALSE)
                  IN IF IsErr(s.v) THEN s ELSE R(value, s.st))
            ELSE R(Err("index assignment to unexpected type"), st)

Assign(n, right, st) ==
  IF IsErr(right) THEN R(right, st)
  ELSE CASE n.l.k = "dot" -> IndexAssign(n.l.l, Str(n.l.n), right, st)
         [] n.l.k = "idx" -> LET ix == EvalU(n.l.i, st) IN IndexAssign(n.l.l, ix.v, right, ix.st)
         [] n.l.k = "id"  -> SetVar(st, n.l.n, right, n.def)
         [] OTHER         -> R(Err("assignment to non identifier"), st)

IncrDecr(name, op, prefix, st) ==
  LET g == GetVar(st, name) IN
  IF ~g[1] THEN R(Err("identifier not found"), st)
  ELSE LET old == g[2]
           d   == IF op = "++" THEN "1" ELSE "-1"
           new == IF old.t = "int" THEN IntV(I64Add(old.v, d))
                  ELSE IF old.t = "float" THEN Flt(F64Add(old.v, F64FromI64(d)))
                  ELSE Err("can't increment/decrement")
       IN IF IsErr(new) THEN R(new, st)
          ELSE LET s == SetVar(st, name, new, FALSE) IN
               IF IsErr(s.v) THEN s ELSE R(IF prefix THEN new ELSE old, s.st)

DelEntry(left, index, st) ==     \* del(m[k]) / del(m.k)
  IF left.k # "id" THEN R(Err("delete index on non identifier"), st)
  ELSE IF IsErr(index) THEN R(index, st)
  ELSE LET g == GetVar(st, left.n) IN
       IF ~g[1] THEN R(Bool(FALSE), st)
       ELSE IF g[2].t # "map" THEN R(Err("delete index on non map"), st)
       ELSE LET d == MapDel(g[2].p, index) IN
            IF ~d[1] THEN R(Bool(FALSE), st)
            ELSE LET s == SetVar(st, left.n, Map(d[2]), FALSE) IN
                 IF IsErr(s.v) THEN s ELSE R(Bool(TRUE), s.st)

ArgCountOK(name, n) ==
  CASE name \in {"print", "error", "log"} -> n >= 1
    [] name = "println"                   -> TRUE
    [] OTHER                              -> n = 1

Builtin(n, st) ==
  IF ~ArgCountOK(n.n, Len(n.a)) THEN R(Err("wrong number of arguments"), st)
  ELSE CASE n.n = "del" ->
              (LET a == n.a[1] IN
               CASE a.k = "id"  -> DelVar(st, st.cur, a.n)
                 [] a.k = "dot" -> DelEntry(a.l, Str(a.n), st)
                 [] a.k = "idx" -> LET ix == EvalU(a.i, st) IN DelEntry(a.l, ix.v, ix.st)
                 [] OTHER       -> R(Err("delete not supported"), st))
         [] n.n \in {"print", "println", "error"} ->
              (LET r == PrintArgs(n.a, 1, "", st) IN
               IF IsErr(r.v) THEN r
               ELSE IF n.n = "error" THEN R(Err(r.v.v), r.st)
               ELSE R(Nil, Emit(r.st, IF n.n = "println" THEN StrCat(r.v.v, "\n") ELSE r.v.v)))
         [] n.n = "catch" ->
              (LET r == EvalI(n.a[1], st) IN
               IF IsErr(r.v)
               THEN R(Map(<< <<Str("err"), Bool(TRUE)>>, <<ValStr, Str(r.v.m)>> >>), r.st)
               ELSE R(Map(<< <<Str("err"), Bool(FALSE)>>, <<ValStr, r.v>> >>), r.st))
         [] n.n \in {"len", "first", "rest"} ->
              (LET r == EvalI(n.a[1], st) IN
               IF IsErr(r.v) THEN r
               ELSE CASE n.n = "len"   -> (IF VLen(r.v) < 0 THEN R(Err("len: not supported"), r.st) ELSE R(IntN(VLen(r.v)), r.st))
                      [] n.n = "first" -> R(VFirst(r.v), r.st)
                      [] OTHER         -> R(VRest(r.v), r.st))
         [] OTHER -> R(Err("builtin outside the modelled fragment"), st)

MkFunc(n, st) ==
  [t |-> "func", name |-> n.name, ps |-> n.ps, variadic |-> n.variadic, body |-> n.body,
   env |-> st.cur, ck |-> n.ck]

(* Call: arity check (`..` collects the rest; an array as last argument is spread for variadic
   functions), fresh environment whose parent is the definition environment - except that a
   call to the function that is currently executing (same code) is parented on the caller's
   environment (documented in NewFunctionEnvironment) -, parameters bound locally, body
   evaluated, `return` unwrapped, caller's environment restored.                             *)
Apply(fn, args0, st) ==
  LET var   == fn.variadic
      np    == IF var THEN Len(fn.ps) - 1 ELSE Len(fn.ps)
      args1 == IF var /\ Len(args0) > 0 /\ args0[Len(args0)].t = "arr"
               THEN SubSeq(args0, 1, Len(args0) - 1) \o args0[Len(args0)].e ELSE args0
      extra == IF var /\ Len(args1) >= np THEN SubSeq(args1, np + 1, Len(args1)) ELSE <<>>
      args  == IF var /\ Len(args1) >= np THEN SubSeq(args1, 1, np) ELSE args1
  IN
  IF Len(args) # np THEN R(Err("wrong number of arguments"), st)
  ELSE IF st.depth >= MaxCallDepth THEN R(FuelErr, st)   \* deeper recursion is outside the modelled fragment
  ELSE
    LET caller == st.envs[st.cur]
        parent == IF caller.key = fn.ck THEN st.cur ELSE fn.env
        base   == IF var THEN ("..") :> Arr(extra) ELSE [x \in {} |-> Nil]
        newEnv == [vars |-> base, outer |-> parent, fn |-> fn, key |-> fn.ck]
        id     == Len(st.envs) + 1
        st1    == [st EXCEPT !.envs = Append(@, newEnv), !.cur = id, !.depth = @ + 1]
        \* bind parameters one by one (constant check applies to all-caps parameter names)
        Bind[i \in 0..np] ==
          IF i = 0 THEN R(Nil, st1)
          ELSE LET p == Bind[i - 1] IN
               IF IsErr(p.v) THEN p ELSE SetVar(p.st, fn.ps[i], args[i], TRUE)
        b == Bind[np]
    IN IF IsErr(b.v) THEN R(b.v, [b.st EXCEPT !.cur = st.cur, !.depth = st.depth])
       ELSE LET r == EvalU([k |-> "block", s |-> fn.body], b.st)
            IN R(r.v, [r.st EXCEPT !.cur = st.cur, !.depth = st.depth])

LoopStep(v, last) ==   \* <<action, newLast>> for one body result
  IF IsErr(v) THEN <<"stop", v>>
  ELSE IF IsCtl(v) THEN
       (IF v.c = "break" THEN <<"stop", last>>
        ELSE IF v.c = "continue" THEN <<"next", last>>
        ELSE <<"stop", v>>)
  ELSE <<"next", v>>

\* counted loop: i from a to b-1; the loop variable (if named) is assigned before each iteration
ForInt(i, b, name, body, last, st) ==
  IF I64Cmp(i, b) >= 0 THEN R(last, st)
  ELSE LET st1 == IF name = "" THEN st ELSE SetVar(st, name, IntV(i), FALSE).st
           r   == EvalBlock(body, st1)
           s   == LoopStep(r.v, last)
       IN IF s[1] = "stop" THEN R(s[2], r.st) ELSE ForInt(I64Add(i, One), b, name, body, s[2], r.st)

ForList(list, name, body, last, st) ==
  IF VLen(list) <= 0 THEN R(last, st)
  ELSE LET st1 == SetVar(st, name, VFirst(list), FALSE).st
           r   == EvalBlock(body, st1)
           s   == LoopStep(r.v, last)
       IN IF s[1] = "stop" THEN R(s[2], r.st) ELSE ForList(VRest(list), name, body, s[2], r.st)

\* the count b - a is computed in 64-bit arithmetic: a negative (or wrapped-around) count is an error
StartForInt(a, b, name, body, st) ==
  IF I64Cmp(I64Sub(b, a), "0") < 0 THEN R(Err("for loop with negative count"), st)
  ELSE ForInt(a, b, name, body, Nil, st)

\* `for cond {}`: boolean condition re-evaluated each time (nil/false ends); an integer condition is a count
ForCond(n, last, st) ==
  LET c == EvalI(n.c, st) IN
  IF IsTrue(c.v) THEN
       LET r == EvalBlock(n.body, c.st)
           s == LoopStep(r.v, last)
       IN IF s[1] = "stop" THEN R(s[2], r.st) ELSE ForCond(n, s[2], r.st)
  ELSE IF IsFalse(c.v) \/ c.v.t = "nil" THEN R(last, c.st)
  ELSE IF IsErr(c.v) THEN c
  ELSE IF c.v.t = "int" THEN StartForInt("0", c.v.v, "", n.body, c.st)
  ELSE R(Err("for condition is not a boolean nor integer nor assignment"), c.st)

ForLoop(n, st) ==
  IF n.c.k = "asg" THEN
     (IF n.c.l.k # "id" THEN R(Err("for var = ... not a var"), st)
      ELSE IF n.c.r.k = "inf" /\ n.c.r.op = ":" THEN
           LET a == EvalI(n.c.r.l, st) IN
           IF a.v.t # "int" THEN R(Err("for var = n:m n not an integer"), a.st)
           ELSE LET b == EvalI(n.c.r.r, a.st) IN
                IF b.v.t # "int" THEN R(Err("for var = n:m m not an integer"), b.st)
                ELSE StartForInt(a.v.v, b.v.v, n.c.l.n, n.body, b.st)
      ELSE LET v == EvalI(n.c.r, st) IN
           CASE v.v.t = "int" -> StartForInt("0", v.v.v, n.c.l.n, n.body, v.st)
             [] v.v.t = "err" -> v
             [] v.v.t \in {"arr", "map", "str"} -> ForList(v.v, n.c.l.n, n.body, Nil, v.st)
             [] OTHER -> ForCond(n, Nil, v.st))
  ELSE ForCond(n, Nil, st)

EvalI(n, st0) ==
  IF st0.fuel <= 0 THEN R(FuelErr, st0)
  ELSE
  LET st == [st0 EXCEPT !.fuel = @ - 1] IN
  CASE n.k = "int"   -> R(IntV(n.v), st)
    [] n.k = "float" -> R(Flt(n.v), st)
    [] n.k = "bool"  -> R(Bool(n.v), st)
    [] n.k = "str"   -> R(Str(n.v), st)
    [] n.k = "cmt"   -> R(Nil, st)
    [] n.k = "block" -> EvalBlock(n.s, st)
    [] n.k = "id"    -> (IF n.n \in ExtNameSet THEN R(Ext(n.n), st)
                         ELSE LET g == GetVar(st, n.n) IN
                              IF g[1] THEN R(g[2], st) ELSE R(Err("identifier not found"), st))
    [] n.k = "brk"   -> R(Ctl("break", Nil), st)
    [] n.k = "cnt"   -> R(Ctl("continue", Nil), st)
    [] n.k = "ret"   -> (IF n.e.k = "none" THEN R(Ctl("return", Nil), st)
                         ELSE LET r == EvalI(n.e, st) IN
                              IF IsCtl(r.v) THEN r ELSE R(Ctl("return", r.v), r.st))
    [] n.k = "pre"   -> (IF n.op \in {"++", "--"}
                         THEN (IF n.r.k = "id" THEN IncrDecr(n.r.n, n.op, TRUE, st)
                               ELSE R(Err("can't prefix increment/decrement"), st))
                         ELSE LET r == EvalU(n.r, st) IN
                              IF IsErr(r.v) THEN r ELSE R(PrefixOp(n.op, r.v), r.st))
    [] n.k = "post"  -> IncrDecr(n.n, n.op, FALSE, st)
    [] n.k = "asg"   -> (LET r == EvalU(n.r, st) IN Assign(n, r.v, r.st))
    [] n.k = "inf"   -> (LET l == EvalU(n.l, st) IN
                         IF IsErr(l.v) THEN l
                         ELSE IF n.op = "&&" /\ IsFalse(l.v) THEN R(Bool(FALSE), l.st)
                         ELSE IF n.op = "||" /\ IsTrue(l.v) THEN R(Bool(TRUE), l.st)
                         ELSE LET r == EvalU(n.r, l.st) IN
                              IF IsErr(r.v) THEN r ELSE R(InfixOp(n.op, l.v, r.v), r.st))
    [] n.k = "bi"    -> Builtin(n, st)
    [] n.k = "fn"    -> (LET f == MkFunc(n, st) IN
                         IF n.name = "" THEN R(f, st)
                         ELSE LET s == SetVar(st, n.name, f, FALSE) IN
                              IF IsErr(s.v) THEN s ELSE R(f, s.st))
    [] n.k = "call"  -> (LET f == EvalU(n.f, st) IN
                         IF IsErr(f.v) THEN f
                         ELSE LET a == EvalList(n.a, 1, <<>>, f.st) IN
                              IF IsErr(a.v) THEN a
                              ELSE IF f.v.t = "ext" THEN
                                   R(IF f.v.n \in ExtModelled THEN ApplyExt(f.v.n, a.v.e) ELSE Err("extension outside the modelled fragment"), a.st)
                              ELSE IF f.v.t = "lib" THEN
                                   (IF Len(a.v.e) # 1 THEN R(Err("wrong number of arguments"), a.st)
                                    ELSE R(CASE f.v.n = "abs" -> AbsOf(a.v.e[1]) [] f.v.n = "keys" -> KeysOf(a.v.e[1])
                                             [] OTHER -> Err("function outside the modelled fragment"), a.st))
                              ELSE IF f.v.t # "func" THEN R(Err("not a function"), a.st)
                              ELSE Apply(f.v, a.v.e, a.st))
    [] n.k = "arr"   -> EvalList(n.e, 1, <<>>, st)
    [] n.k = "map"   -> EvalPairs(n.p, 1, <<>>, st)
    [] n.k = "dot"   -> (LET l == EvalU(n.l, st) IN
                         IF IsErr(l.v) THEN l ELSE R(IndexVal(l.v, Str(n.n)), l.st))
    [] n.k = "idx"   -> (LET l == EvalU(n.l, st) IN
                         IF IsErr(l.v) THEN l
                         ELSE IF n.i.k = "inf" /\ n.i.op = ":" THEN
                              LET a == EvalU(n.i.l, l.st) IN
                              IF n.i.r.k = "none" THEN R(SliceVal(l.v, a.v, Nil, TRUE), a.st)
                              ELSE LET b == EvalU(n.i.r, a.st) IN R(SliceVal(l.v, a.v, b.v, FALSE), b.st)
                         ELSE LET i == EvalU(n.i, l.st) IN
                              IF IsErr(i.v) THEN i ELSE R(IndexVal(l.v, i.v), i.st))
    [] n.k = "if"    -> (LET c == EvalI(n.c, st) IN
                         IF IsTrue(c.v) THEN EvalBlock(n.t, c.st)
                         ELSE IF IsFalse(c.v) THEN (IF n.he THEN EvalBlock(n.e, c.st) ELSE R(Nil, c.st))
                         ELSE IF IsFuel(c.v) THEN c
                         ELSE R(Err("condition is not a boolean"), c.st))
    [] n.k = "for"   -> ForLoop(n, st)
    [] OTHER         -> R(Err("node outside the modelled fragment"), st)

\* ---------------------------------------------------------------- sessions
RootVars == ("nil" :> Nil) @@ ("null" :> Nil)
            @@ ("abs" :> [t |-> "lib", n |-> "abs"]) @@ ("keys" :> [t |-> "lib", n |-> "keys"])
            @@ ("printf" :> [t |-> "lib", n |-> "printf"]) @@ ("str" :> [t |-> "lib", n |-> "str"]) @@ ("log2" :> [t |-> "lib", n |-> "log2"])
            @@ ("PI" :> Flt("400921fb54442d18")) @@ ("E" :> Flt("4005bf0a8b145769"))
            @@ ("Inf" :> Flt("7ff0000000000000")) @@ ("NaN" :> Flt("7ff8000000000001"))
InitState(fuel) ==
  [envs |-> << [vars |-> RootVars, outer |-> 0, fn |-> Nil, key |-> ""] >>,
   cur |-> 1, out |-> <<>>, fuel |-> fuel, depth |-> 0]

RECURSIVE Join(_, _)
Join(chunks, i) == IF i > Len(chunks) THEN "" ELSE StrCat(chunks[i], Join(chunks, i + 1))

(* One REPL input on a session state: the observation a user can make plus the next
   session state (scope back at the top level, output consumed).                       *)
Submit(st, prog, fuel) ==
  LET r  == EvalU([k |-> "block", s |-> prog], [st EXCEPT !.fuel = fuel, !.out = <<>>, !.cur = 1, !.depth = 0])
  IN [out  |-> Join(r.st.out, 1),
      val  |-> r.v,
      err  |-> IsErr(r.v),
      fuel |-> IsFuel(r.v) \/ r.st.fuel <= 0,
      st   |-> [r.st EXCEPT !.cur = 1, !.out = <<>>]]

\* projection of a value to what an observer can compare (closures by code identity only)
RECURSIVE Obs(_)
Obs(v) ==
  CASE v.t = "arr"  -> [t |-> "arr", e |-> [i \in 1..Len(v.e) |-> Obs(v.e[i])]]
    [] v.t = "map"  -> [t |-> "map", p |-> [i \in 1..Len(v.p) |-> <<Obs(v.p[i][1]), Obs(v.p[i][2])>>]]
    [] v.t = "func" -> [t |-> "func", ck |-> v.ck]
    [] v.t = "err"  -> [t |-> "err"]
    [] OTHER        -> v
=============================================================================
