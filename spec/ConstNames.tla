--------------------------- MODULE ConstNames ---------------------------
(* C19, which names are constants: "all-upper-case identifier" is [A-Z][A-Z0-9_]* (GrolValues!IsConstName, the
   same definition the reference evaluator GrolSem uses). The module classifies every name of up to three
   characters over an alphabet with the letters and digits at both ends of their ranges; the harness binds each
   name that lexes as an identifier and attempts to change it: the attempt fails exactly for the names classified
   constant here (c19.go, section "names").                                                               *)
EXTENDS Integers, Sequences, TLC, Json, GrolPrims, GrolValues

CONSTANTS EmitOn

Alphabet == <<"A", "Z", "K", "a", "z", "0", "8", "9", "_", "5">>
Chars    == {Alphabet[i] : i \in 1..Len(Alphabet)}
Names    == Chars \cup {StrCat(a, b) : a \in Chars, b \in Chars}
                  \cup {StrCat(a, StrCat(b, c)) : a \in Chars, b \in Chars, c \in Chars}
                  \cup {"K_19", "PI2", "X9", "A9B", "Z09_", "K__", "KK", "Kk", "kK", "K9999999999", "ABCDEFGHIJKLMNOPQRSTUVWXYZ0123456789_"}

VARIABLE done
Init == done = FALSE
Next == /\ ~done
        /\ done' = TRUE
        /\ EmitOn => \A n \in Names : EmitLine(ToJson([name |-> n, const |-> IsConstName(n)]))

\* the definition is not vacuous on this universe
Sane == /\ IsConstName("K") /\ IsConstName("K9") /\ IsConstName("Z_0") /\ ~IsConstName("9K") /\ ~IsConstName("_K")
        /\ ~IsConstName("Ka") /\ ~IsConstName("k") /\ ~IsConstName("")
=============================================================================
