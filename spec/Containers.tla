----------------------------- MODULE Containers -----------------------------
(* C06 - arrays and maps are values: no aliasing, at any size.

   Two levels.
   Value level: `val`, each variable holds a sequence of integers (arrays) - assignment
   copies, operations on one variable never change another.  This is what the language
   promises and what every observation is predicted from.
   Implementation-shaped level: `bind` / `stores`, a transcription of how object.go and
   eval.go represent arrays: a small array (<= Small elements) is a struct copied on
   assignment; a large array is a slice header (store id, length) over a backing store
   with a capacity - assignment copies the header and SHARES the store.
     CopyOnWrite  = TRUE : index assignment clones the store first (code after the repair);
                    FALSE: it writes into the shared store (pinned tree: b = a; b[0] = 99
                           changes a once the array is large).
     CopyOnAppend = TRUE : `x + v` always builds a new store;
                    FALSE: when the store has spare capacity the element is written into
                           it (pinned tree: b = a + 11; c = a + 12 share the slot).
   Refinement invariant Refines: the value read through bind/stores equals `val` for every
   variable, in every reachable state.  With both constants TRUE it holds; with either
   FALSE TLC finds the aliasing counterexample.  Maps follow the same scheme in the code
   (SmallMap struct vs *BigMap pointer); the harness instantiates every behaviour for
   arrays and for maps.

   Three further families (added after seeding round 5):
   - elements come in print-alike pairs (an integer and the float of the same numeric value: Retype replaces an
     element by its twin): two containers can print the same and still be different values, so every probe also
     prints, per binding, what a user function applied to the binding says about the kinds of its elements - a
     function of a container follows the container's value, whatever was passed to that function before;
   - a container that is the parameter (or the `..`) of a call is a binding of that call's frame: Frames copies x
     through a function that makes an inner call with the same parameter names (recursively, or a closure made
     inside it) before it hands its own parameter back.  OwnFrames = FALSE: the inner call rebinds the parameter it
     finds in the enclosing frame (the outer call then returns what the inner one was given);
   - maps (Kind = "map") also grow by index assignment under a new key that sorts before the first, between the
     last two or after the last key (Insert), and are asked to delete a key they do not hold that lies next to
     one they hold (DelAbsent, no change).  Which keys are "next to" each other is the harness's key chain: besides
     the plain one (integers with the halves between them) chains of integers and floats around +-2^31, 2^32,
     2^53, 2^63 where neighbouring keys differ by 1 and are told apart only by an exact comparison.
   - sessions (added after seeding round 6): an input can FAIL inside a call - its deadline expires, it is cancelled, the
     depth limit is hit, an ordinary error - after the call changed its own parameters; the inputs that follow are
     evaluated in the session's scope again.  Failed(x, y): the call is f(x) for a function whose parameter is NAMED y
     (one of the session's variables), which appends to its parameter and assigns its first element before it fails.
     FailedLib: the failing call is one of the library's own grol-written functions (keys, log2, printf ..), whose frame
     does not hang off the session's globals.  Nothing changes at the value level.  RestoreOnFailure = FALSE: the session
     goes on in the frame of the call that failed (y is that call's parameter; in a library frame no variable of the
     session is in scope).  How the call fails is the harness's choice of source form.
   Kind also switches off the operations that have no form for the other kind (Concat for maps; Overwrite, Insert,
   DelAbsent for arrays).

   GEN: every explored transition is emitted with its witness history and the predicted
   value of every variable; the harness replays it on the real interpreter at several
   sizes on both sides of the thresholds.                                              *)
EXTENDS Integers, Sequences, FiniteSets, TLC, Json, GrolPrims

CONSTANTS Vars,          \* e.g. {"a", "b", "c"}
          Sizes,         \* initial lengths of variable "a" explored, e.g. {0, 1, 2, 3}
          Small,         \* threshold of the model (code: 8); sizes are scaled in the harness
          MaxOps, CopyOnWrite, CopyOnAppend,
          OwnFrames,     \* TRUE: every call creates its own parameter bindings (the code); FALSE: see Frames
          RestoreOnFailure, \* TRUE: after an input failed inside a call the session is in its own scope again; FALSE: see Failed
          Kind,          \* "arr" or "map": which operations exist
          EmitOn

VARIABLES val,     \* value level: [Vars -> Seq(Int)]
          bind,    \* [Vars -> [id |-> store index, len |-> Nat]]
          stores,  \* sequence of [elems |-> Seq(Int), cap |-> Nat]
          hist
vars == <<val, bind, stores, hist>>
view == <<val, bind, stores, Len(hist)>>

Iota(n) == [i \in 1..n |-> i]

Init ==
  \E n \in Sizes :
    /\ val = [v \in Vars |-> IF v = "a" THEN Iota(n) ELSE <<>>]
    /\ stores = << [elems |-> Iota(n), cap |-> n], [elems |-> <<>>, cap |-> 0] >>
    /\ bind = [v \in Vars |-> IF v = "a" THEN [id |-> 1, len |-> n] ELSE [id |-> 2, len |-> 0]]
    /\ hist = << [op |-> "init", n |-> n] >>

Read(b) == SubSeq(stores[b.id].elems, 1, b.len)
Fresh == 100 + Len(hist)      \* a value not yet in any array

NewStore(elems) == [elems |-> elems, cap |-> Len(elems)]

\* Elements are numbers; -n stands for the float n.0, the twin of the integer n: a different value that prints the same.
Twin(e) == 0 - e
InsertAt(s, i, v) == SubSeq(s, 1, i - 1) \o <<v>> \o SubSeq(s, i, Len(s))

\* bind / stores part of y = x
CopyImpl(x, y) ==
  IF bind[x].len <= Small
  THEN /\ stores' = Append(stores, NewStore(Read(bind[x])))
       /\ bind' = [bind EXCEPT ![y] = [id |-> Len(stores) + 1, len |-> bind[x].len]]
  ELSE /\ bind' = [bind EXCEPT ![y] = bind[x]]
       /\ UNCHANGED stores

\* y = x
Copy(x, y) ==
  /\ x # y
  /\ val' = [val EXCEPT ![y] = val[x]]
  /\ CopyImpl(x, y)                  \* small: struct copy; large: shared backing store
  /\ hist' = Append(hist, [op |-> "copy", x |-> x, y |-> y])

\* y = f(x), f(p) == { g(other container); p } where g's parameter has the same name as f's and g runs in a frame below
\* f's (f itself one level deeper, or a closure made by this call of f): a copy at the value level.
Frames(x, y) ==
  /\ x # y
  /\ val' = [val EXCEPT ![y] = val[x]]
  /\ IF OwnFrames
     THEN CopyImpl(x, y)
     ELSE /\ stores' = Append(stores, NewStore(<<Fresh>>))      \* f's parameter now is what g was given
          /\ bind' = [bind EXCEPT ![y] = [id |-> Len(stores) + 1, len |-> 1]]
  /\ hist' = Append(hist, [op |-> "frames", x |-> x, y |-> y])

\* x[i] = the twin of x[i] (i = 1 first element, i = 2 last element): the printed form of x stays, its value changes
Retype(x, which) ==
  /\ bind[x].len > 0
  /\ LET i == IF which = 1 THEN 1 ELSE bind[x].len
         v == Twin(val[x][i])
     IN /\ val' = [val EXCEPT ![x] = [@ EXCEPT ![i] = v]]
        /\ IF CopyOnWrite \/ bind[x].len <= Small
           THEN /\ stores' = Append(stores, NewStore([Read(bind[x]) EXCEPT ![i] = v]))
                /\ bind' = [bind EXCEPT ![x] = [id |-> Len(stores) + 1, len |-> bind[x].len]]
           ELSE /\ stores' = [stores EXCEPT ![bind[x].id].elems[i] = v]
                /\ UNCHANGED bind
        /\ hist' = Append(hist, [op |-> "twin", x |-> x, which |-> which, v |-> v])

\* maps: x[k] = v for a key k that x does not hold, next to one it holds: which = 1 just below the first key, 2 just
\* below the last key (between the last two), 3 just above the last key.  The map grows by index assignment.
Insert(x, which) ==
  /\ which = 2 => bind[x].len >= 2
  /\ which = 3 => bind[x].len >= 1
  /\ LET n == bind[x].len
         i == CASE which = 1 -> 1 [] which = 2 -> n [] OTHER -> n + 1
         v == Fresh
     IN /\ val' = [val EXCEPT ![x] = InsertAt(@, i, v)]
        /\ IF CopyOnWrite \/ n <= Small
           THEN /\ stores' = Append(stores, NewStore(InsertAt(Read(bind[x]), i, v)))
                /\ bind' = [bind EXCEPT ![x] = [id |-> Len(stores) + 1, len |-> n + 1]]
           ELSE /\ stores' = [stores EXCEPT ![bind[x].id].elems = InsertAt(@, i, v)]   \* into the shared storage
                /\ bind' = [bind EXCEPT ![x].len = n + 1]
  /\ hist' = Append(hist, [op |-> "insert", x |-> x, which |-> which])

\* maps: del(x[k]) for a key k that x does not hold (which = 1 just below the first key - any key when x is empty -,
\* 2 just below the last key): nothing changes.
DelAbsent(x, which) ==
  /\ which = 2 => bind[x].len >= 2
  /\ UNCHANGED <<val, bind, stores>>
  /\ hist' = Append(hist, [op |-> "delabsent", x |-> x, which |-> which])

\* x[i] = v  (i = 1 first element, i = 2 last element)
SetElem(x, which) ==
  /\ bind[x].len > 0
  /\ LET i == IF which = 1 THEN 1 ELSE bind[x].len
         v == Fresh
     IN /\ val' = [val EXCEPT ![x] = [@ EXCEPT ![i] = v]]
        /\ IF CopyOnWrite \/ bind[x].len <= Small
           THEN /\ stores' = Append(stores, NewStore([Read(bind[x]) EXCEPT ![i] = v]))
                /\ bind' = [bind EXCEPT ![x] = [id |-> Len(stores) + 1, len |-> bind[x].len]]
           ELSE /\ stores' = [stores EXCEPT ![bind[x].id].elems[i] = v]
                /\ UNCHANGED bind
  /\ hist' = Append(hist, [op |-> "set", x |-> x, which |-> which])

\* y = x + v (append one element; y may be x itself)
AppendTo(x, y) ==
  /\ LET v  == Fresh
         b  == bind[x]
         s  == stores[b.id]
     IN /\ val' = [val EXCEPT ![y] = Append(val[x], v)]
        /\ IF ~CopyOnAppend /\ b.len > Small /\ s.cap > b.len
           THEN \* spare capacity: the new element lands in the shared store
                /\ stores' = [stores EXCEPT ![b.id].elems =
                                 IF Len(s.elems) > b.len THEN [s.elems EXCEPT ![b.len + 1] = v] ELSE Append(s.elems, v)]
                /\ bind' = [bind EXCEPT ![y] = [id |-> b.id, len |-> b.len + 1]]
           ELSE \* a new store; Go's append doubles the capacity when it grows a large slice
                /\ stores' = Append(stores, [elems |-> Append(Read(b), v),
                                             cap |-> IF b.len + 1 > Small THEN 2 * (b.len + 1) ELSE b.len + 1])
                /\ bind' = [bind EXCEPT ![y] = [id |-> Len(stores) + 1, len |-> b.len + 1]]
  /\ hist' = Append(hist, [op |-> "append", x |-> x, y |-> y])

\* y = x + z (concatenation never modifies x or z)
Concat(x, z, y) ==
  /\ val' = [val EXCEPT ![y] = val[x] \o val[z]]
  /\ stores' = Append(stores, NewStore(Read(bind[x]) \o Read(bind[z])))
  /\ bind' = [bind EXCEPT ![y] = [id |-> Len(stores) + 1, len |-> bind[x].len + bind[z].len]]
  /\ hist' = Append(hist, [op |-> "concat", x |-> x, z |-> z, y |-> y])

\* y = f(x) where f assigns to the first element of its parameter and returns it
CallMutate(x, y) ==
  /\ bind[x].len > 0
  /\ LET v == Fresh IN
     /\ val' = [val EXCEPT ![y] = [val[x] EXCEPT ![1] = v]]
     /\ IF CopyOnWrite \/ bind[x].len <= Small
        THEN /\ stores' = Append(stores, NewStore([Read(bind[x]) EXCEPT ![1] = v]))
             /\ bind' = [bind EXCEPT ![y] = [id |-> Len(stores) + 1, len |-> bind[x].len]]
        ELSE /\ stores' = [stores EXCEPT ![bind[x].id].elems[1] = v]
             /\ bind' = [bind EXCEPT ![y] = bind[x]]
  /\ hist' = Append(hist, [op |-> "call", x |-> x, y |-> y])

\* x loses its last element (arrays: x = x[0:len-1], a slice of the same backing store when it stays large; maps: del of
\* the last key - a large map stays in the large representation however few pairs remain)
Shrink(x) ==
  /\ bind[x].len > 0
  /\ val' = [val EXCEPT ![x] = SubSeq(@, 1, Len(@) - 1)]
  /\ IF bind[x].len - 1 <= Small
     THEN /\ stores' = Append(stores, NewStore(SubSeq(Read(bind[x]), 1, bind[x].len - 1)))
          /\ bind' = [bind EXCEPT ![x] = [id |-> Len(stores) + 1, len |-> bind[x].len - 1]]
     ELSE /\ bind' = [bind EXCEPT ![x].len = @ - 1]        \* same store, spare capacity appears
          /\ UNCHANGED stores
  /\ hist' = Append(hist, [op |-> "shrink", x |-> x])

\* y = x + {k: v} for a key k that x already holds (maps; the harness has no array form): a functional update of one
\* element. The code merges into a copy of x; an implementation that starts from x's own storage (CopyOnAppend = FALSE,
\* large representation) overwrites the element for every binding sharing that storage.
Overwrite(x, y, which) ==
  /\ bind[x].len > 0
  /\ LET i == IF which = 1 THEN 1 ELSE bind[x].len
         v == Fresh
     IN /\ val' = [val EXCEPT ![y] = [val[x] EXCEPT ![i] = v]]
        /\ IF ~CopyOnAppend /\ bind[x].len > Small
           THEN /\ stores' = [stores EXCEPT ![bind[x].id].elems[i] = v]
                /\ bind' = [bind EXCEPT ![y] = bind[x]]
           ELSE /\ stores' = Append(stores, NewStore([Read(bind[x]) EXCEPT ![i] = v]))
                /\ bind' = [bind EXCEPT ![y] = [id |-> Len(stores) + 1, len |-> bind[x].len]]
  /\ hist' = Append(hist, [op |-> "overwrite", x |-> x, y |-> y, which |-> which])

\* an input that fails inside f(x), f's parameter being named y, after f did  y = y + v; y[first] = v
Failed(x, y) ==
  /\ UNCHANGED val
  /\ IF RestoreOnFailure
     THEN UNCHANGED <<bind, stores>>
     ELSE LET m == [Append(Read(bind[x]), Fresh) EXCEPT ![1] = Fresh]
          IN /\ stores' = Append(stores, NewStore(m))
             /\ bind' = [bind EXCEPT ![y] = [id |-> Len(stores) + 1, len |-> Len(m)]]
  /\ hist' = Append(hist, [op |-> "fail", x |-> x, y |-> y])

\* an input that fails inside a function of the library (called directly, or by a function of the session)
FailedLib ==
  /\ UNCHANGED val
  /\ IF RestoreOnFailure
     THEN UNCHANGED <<bind, stores>>
     ELSE /\ stores' = Append(stores, NewStore(<<>>))
          /\ bind' = [v \in Vars |-> [id |-> Len(stores) + 1, len |-> 0]]
  /\ hist' = Append(hist, [op |-> "faillib"])

Emit == EmitOn => EmitLine(ToJson([h |-> hist', val |-> val']))

Next ==
  /\ Len(hist) <= MaxOps
  /\ \/ \E x, y \in Vars : Copy(x, y)
     \/ \E x \in Vars, w \in {1, 2} : SetElem(x, w)
     \/ \E x, y \in Vars : AppendTo(x, y)
     \/ Kind = "arr" /\ \E x, z, y \in Vars : Concat(x, z, y)
     \/ \E x, y \in Vars : CallMutate(x, y)
     \/ \E x \in Vars : Shrink(x)
     \/ Kind = "map" /\ \E x, y \in Vars, w \in {1, 2} : Overwrite(x, y, w)
     \/ \E x \in Vars, w \in {1, 2} : Retype(x, w)
     \/ \E x, y \in Vars : Frames(x, y)
     \/ Kind = "map" /\ \E x \in Vars, w \in {1, 2, 3} : Insert(x, w)
     \/ Kind = "map" /\ \E x \in Vars, w \in {1, 2} : DelAbsent(x, w)
     \/ \E x, y \in Vars : Failed(x, y)
     \/ FailedLib
  /\ Emit

Spec == Init /\ [][Next]_vars

Refines == \A v \in Vars : Read(bind[v]) = val[v]
=============================================================================
