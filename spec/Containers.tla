----------------------------- MODULE Containers -----------------------------
(* C06 - arrays and maps are values: no aliasing, at any size.

   Two levels.
   Value level: `val`, each variable holds a sequence of integers (arrays) - assignment
   copies, operations on one variable never change another.  This is what the language
   promises and what every observation is predicted from.
   Implementation-shaped level: `bind` / `stores`, a transcription of how object.go and
   eval.go represent arrays: a small array (<= Small elements) is a struct copied on
   assignment; a large array is a slice header (store id, length) over a backing store
   with a capacity - assignment copies the header and SHARES the store.
     CopyOnWrite  = TRUE : index assignment clones the store first (code after the repair);
                    FALSE: it writes into the shared store (pinned tree: b = a; b[0] = 99
                           changes a once the array is large).
     CopyOnAppend = TRUE : `x + v` always builds a new store;
                    FALSE: when the store has spare capacity the element is written into
                           it (pinned tree: b = a + 11; c = a + 12 share the slot).
   Refinement invariant Refines: the value read through bind/stores equals `val` for every
   variable, in every reachable state.  With both constants TRUE it holds; with either
   FALSE TLC finds the aliasing counterexample.  Maps follow the same scheme in the code
   (SmallMap struct vs *BigMap pointer); the harness instantiates every behaviour for
   arrays and for maps.

   GEN: every explored transition is emitted with its witness history and the predicted
   value of every variable; the harness replays it on the real interpreter at several
   sizes on both sides of the thresholds.                                              *)
EXTENDS Integers, Sequences, FiniteSets, TLC, Json, GrolPrims

CONSTANTS Vars,          \* e.g. {"a", "b", "c"}
          Sizes,         \* initial lengths of variable "a" explored, e.g. {0, 1, 2, 3}
          Small,         \* threshold of the model (code: 8); sizes are scaled in the harness
          MaxOps, CopyOnWrite, CopyOnAppend, EmitOn

VARIABLES val,     \* value level: [Vars -> Seq(Int)]
          bind,    \* [Vars -> [id |-> store index, len |-> Nat]]
          stores,  \* sequence of [elems |-> Seq(Int), cap |-> Nat]
          hist
vars == <<val, bind, stores, hist>>
view == <<val, bind, stores, Len(hist)>>

Iota(n) == [i \in 1..n |-> i]

Init ==
  \E n \in Sizes :
    /\ val = [v \in Vars |-> IF v = "a" THEN Iota(n) ELSE <<>>]
    /\ stores = << [elems |-> Iota(n), cap |-> n], [elems |-> <<>>, cap |-> 0] >>
    /\ bind = [v \in Vars |-> IF v = "a" THEN [id |-> 1, len |-> n] ELSE [id |-> 2, len |-> 0]]
    /\ hist = << [op |-> "init", n |-> n] >>

Read(b) == SubSeq(stores[b.id].elems, 1, b.len)
Fresh == 100 + Len(hist)      \* a value not yet in any array

NewStore(elems) == [elems |-> elems, cap |-> Len(elems)]

\* y = x
Copy(x, y) ==
  /\ x # y
  /\ val' = [val EXCEPT ![y] = val[x]]
  /\ IF bind[x].len <= Small
     THEN /\ stores' = Append(stores, NewStore(Read(bind[x])))          \* struct copy
          /\ bind' = [bind EXCEPT ![y] = [id |-> Len(stores) + 1, len |-> bind[x].len]]
     ELSE /\ bind' = [bind EXCEPT ![y] = bind[x]]                       \* shared backing store
          /\ UNCHANGED stores
  /\ hist' = Append(hist, [op |-> "copy", x |-> x, y |-> y])

\* x[i] = v  (i = 1 first element, i = 2 last element)
SetElem(x, which) ==
  /\ bind[x].len > 0
  /\ LET i == IF which = 1 THEN 1 ELSE bind[x].len
         v == Fresh
     IN /\ val' = [val EXCEPT ![x] = [@ EXCEPT ![i] = v]]
        /\ IF CopyOnWrite \/ bind[x].len <= Small
           THEN /\ stores' = Append(stores, NewStore([Read(bind[x]) EXCEPT ![i] = v]))
                /\ bind' = [bind EXCEPT ![x] = [id |-> Len(stores) + 1, len |-> bind[x].len]]
           ELSE /\ stores' = [stores EXCEPT ![bind[x].id].elems[i] = v]
                /\ UNCHANGED bind
  /\ hist' = Append(hist, [op |-> "set", x |-> x, which |-> which])

\* y = x + v (append one element; y may be x itself)
AppendTo(x, y) ==
  /\ LET v  == Fresh
         b  == bind[x]
         s  == stores[b.id]
     IN /\ val' = [val EXCEPT ![y] = Append(val[x], v)]
        /\ IF ~CopyOnAppend /\ b.len > Small /\ s.cap > b.len
           THEN \* spare capacity: the new element lands in the shared store
                /\ stores' = [stores EXCEPT ![b.id].elems =
                                 IF Len(s.elems) > b.len THEN [s.elems EXCEPT ![b.len + 1] = v] ELSE Append(s.elems, v)]
                /\ bind' = [bind EXCEPT ![y] = [id |-> b.id, len |-> b.len + 1]]
           ELSE \* a new store; Go's append doubles the capacity when it grows a large slice
                /\ stores' = Append(stores, [elems |-> Append(Read(b), v),
                                             cap |-> IF b.len + 1 > Small THEN 2 * (b.len + 1) ELSE b.len + 1])
                /\ bind' = [bind EXCEPT ![y] = [id |-> Len(stores) + 1, len |-> b.len + 1]]
  /\ hist' = Append(hist, [op |-> "append", x |-> x, y |-> y])

\* y = x + z (concatenation never modifies x or z)
Concat(x, z, y) ==
  /\ val' = [val EXCEPT ![y] = val[x] \o val[z]]
  /\ stores' = Append(stores, NewStore(Read(bind[x]) \o Read(bind[z])))
  /\ bind' = [bind EXCEPT ![y] = [id |-> Len(stores) + 1, len |-> bind[x].len + bind[z].len]]
  /\ hist' = Append(hist, [op |-> "concat", x |-> x, z |-> z, y |-> y])

\* y = f(x) where f assigns to the first element of its parameter and returns it
CallMutate(x, y) ==
  /\ bind[x].len > 0
  /\ LET v == Fresh IN
     /\ val' = [val EXCEPT ![y] = [val[x] EXCEPT ![1] = v]]
     /\ IF CopyOnWrite \/ bind[x].len <= Small
        THEN /\ stores' = Append(stores, NewStore([Read(bind[x]) EXCEPT ![1] = v]))
             /\ bind' = [bind EXCEPT ![y] = [id |-> Len(stores) + 1, len |-> bind[x].len]]
        ELSE /\ stores' = [stores EXCEPT ![bind[x].id].elems[1] = v]
             /\ bind' = [bind EXCEPT ![y] = bind[x]]
  /\ hist' = Append(hist, [op |-> "call", x |-> x, y |-> y])

\* x loses its last element (arrays: x = x[0:len-1], a slice of the same backing store when it stays large; maps: del of
\* the last key - a large map stays in the large representation however few pairs remain)
Shrink(x) ==
  /\ bind[x].len > 0
  /\ val' = [val EXCEPT ![x] = SubSeq(@, 1, Len(@) - 1)]
  /\ IF bind[x].len - 1 <= Small
     THEN /\ stores' = Append(stores, NewStore(SubSeq(Read(bind[x]), 1, bind[x].len - 1)))
          /\ bind' = [bind EXCEPT ![x] = [id |-> Len(stores) + 1, len |-> bind[x].len - 1]]
     ELSE /\ bind' = [bind EXCEPT ![x].len = @ - 1]        \* same store, spare capacity appears
          /\ UNCHANGED stores
  /\ hist' = Append(hist, [op |-> "shrink", x |-> x])

\* y = x + {k: v} for a key k that x already holds (maps; the harness has no array form): a functional update of one
\* element. The code merges into a copy of x; an implementation that starts from x's own storage (CopyOnAppend = FALSE,
\* large representation) overwrites the element for every binding sharing that storage.
Overwrite(x, y, which) ==
  /\ bind[x].len > 0
  /\ LET i == IF which = 1 THEN 1 ELSE bind[x].len
         v == Fresh
     IN /\ val' = [val EXCEPT ![y] = [val[x] EXCEPT ![i] = v]]
        /\ IF ~CopyOnAppend /\ bind[x].len > Small
           THEN /\ stores' = [stores EXCEPT ![bind[x].id].elems[i] = v]
                /\ bind' = [bind EXCEPT ![y] = bind[x]]
           ELSE /\ stores' = Append(stores, NewStore([Read(bind[x]) EXCEPT ![i] = v]))
                /\ bind' = [bind EXCEPT ![y] = [id |-> Len(stores) + 1, len |-> bind[x].len]]
  /\ hist' = Append(hist, [op |-> "overwrite", x |-> x, y |-> y, which |-> which])

Emit == EmitOn => EmitLine(ToJson([h |-> hist', val |-> val']))

Next ==
  /\ Len(hist) <= MaxOps
  /\ \/ \E x, y \in Vars : Copy(x, y)
     \/ \E x \in Vars, w \in {1, 2} : SetElem(x, w)
     \/ \E x, y \in Vars : AppendTo(x, y)
     \/ \E x, z, y \in Vars : Concat(x, z, y)
     \/ \E x, y \in Vars : CallMutate(x, y)
     \/ \E x \in Vars : Shrink(x)
     \/ \E x, y \in Vars, w \in {1, 2} : Overwrite(x, y, w)
  /\ Emit

Spec == Init /\ [][Next]_vars

Refines == \A v \in Vars : Read(bind[v]) = val[v]
=============================================================================
