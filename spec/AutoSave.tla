------------------------------ MODULE AutoSave ------------------------------
(* C18 - auto-save is crash-atomic.

   What is modelled: one directory with the state file ("gr" = ./.gr) and the temporary
   files of repl.AutoSave ("t1", "t2", .. = ./.grol*.tmp in creation order), and the save
   path of repl/repl.go AutoSave + object/state.go SaveGlobals as one action per step
   between two points at which the process can die:

       idle --Skip--------------------------------------------------------> done      (UpdateNumSet: nothing changed)
       idle --Start--> start --CreateTemp--> write --WriteBinding(i)*--WriteDone--> written --Rename--> done
                         |                     |  (WriteTorn(i): a binding line partly on disk)   |
                    CreateFails           WriteFails(i)                                       RenameFails
                         +---------------------+--------------------> failed <----------------+

   Crash is enabled in EVERY state of a live process (alive' = FALSE, nothing else
   changes: what is on disk stays on disk).
   Recovery is part of the specification: after a process is gone the next one is started
   in the same directory (Boot: what the start-up code of a new process does with what it
   finds there - "gr" and the leftover temporary files; the code does nothing, BootDisk(d, t) = d)
   and then auto-loads (Restart/AutoLoad reads "gr" and only "gr").
   Retry is a second AutoSave in the same process after a failed one.  Restart and Retry
   open the next session (up to MaxSessions) with whatever litter the previous one left.

   A file is [ex |-> BOOLEAN, ls |-> sequence of binding lines]; a binding line is
   [k |-> name index, v |-> value version, s |-> shape, t |-> torn?].  The shape (Shape(k)) is the
   branch of SaveGlobals that writes the binding; the actions do not depend on it - it travels with
   `new` so that the generated fault schedules cover a failing write at a binding of every shape,
   with and without further bindings after it.  `old` is the file the session
   found (possibly no file), `new` the lines a complete save of the session's globals
   would write.

   Properties (every reachable state / step):
     Atomic             disk["gr"] \in {old, File(new)}
     FailedLeavesOld    pc = "failed" => disk["gr"] = old
     RestartOldOrNew    a Restart yields loaded' \in {old.ls, new}
     LeftoverNeverRead  a Restart yields exactly the lines of "gr", whatever the temp files hold
     SkipTouchesNothing the nothing-changed path leaves the whole directory as it was
     Atomic also holds in the state after Boot (old/new are still those of the process that is gone):
     starting the next process leaves "gr" the complete previous or the complete new file

   Deliberate deviations (constants), used to show that the invariants bite:
     DirectWrite       create and write "gr" in place (no temp file)       -> Atomic fails
     IgnoreWriteError  carry on to the rename after a failed write         -> Atomic, FailedLeavesOld fail
     RenameEarly       the rename may happen before the last binding is written,
                       the remaining writes go to the renamed file             -> Atomic fails
     PromoteLeftover   the start-up of the next process "finishes" an interrupted save: it renames
                       the temporary file the dead process was writing over "gr" without knowing
                       whether that file is complete                           -> Atomic fails

   `hist` is a history variable outside the VIEW; every transition that ends a session
   (Crash, *Fails, Rename, Skip) is emitted with it (GEN) and replayed by harness/c18.go
   on the real repl.AutoSave in a child process.                                         *)
EXTENDS Integers, Sequences, FiniteSets, TLC, Json, GrolPrims

CONSTANTS N,                \* binding names are 1..N
          Lambdas, Nameds, Aliases,  \* subsets of 1..N: how SaveGlobals writes binding k - "lambda" (name=params=>body),
                            \* "named" (func name(..){..}, its own branch of SaveGlobals), "alias" (name=func other(..){..}),
                            \* every other binding is "data" (name=value)
          MaxOld,           \* the previous file has at most MaxOld lines (N: every content)
          Vals,             \* value versions of a binding (positive integers)
          MaxSessions,      \* sessions (process starts / retries) per behaviour; also the number of temp names
          DirectWrite, IgnoreWriteError, RenameEarly,   \* BOOLEAN deviations, all FALSE = the code
          PromoteLeftover,  \* BOOLEAN deviation of the start-up of the next process
          EmitOn            \* BOOLEAN: emit session-ending transitions (GEN)

VARIABLES disk,     \* file name -> file
          tmp,      \* name of the file AutoSave is writing to, or "none"
          pc, old, new, written, alive,
          changed,  \* did the session set anything (UpdateNumSet)?
          loaded,   \* lines the current process got from AutoLoad
          session, hist
vars == <<disk, tmp, pc, old, new, written, alive, changed, loaded, session, hist>>
view == <<disk, tmp, pc, old, new, written, alive, changed, loaded, session>>

GR        == "gr"
TName(i)  == "t" \o ToString(i)
Temps     == {TName(i) : i \in 1..MaxSessions}
FileNames == {GR} \cup Temps

File(ls) == [ex |-> TRUE, ls |-> ls]
NoFile   == [ex |-> FALSE, ls |-> <<>>]
Shape(k) == IF k \in Nameds THEN "named" ELSE IF k \in Aliases THEN "alias" ELSE IF k \in Lambdas THEN "lambda" ELSE "data"
Line(k, v) == [k |-> k, v |-> v, s |-> Shape(k), t |-> FALSE]
Torn(l)    == [l EXCEPT !.t = TRUE]
IsTorn(f)  == Len(f.ls) > 0 /\ f.ls[Len(f.ls)].t
Whole(f)   == IF IsTorn(f) THEN SubSeq(f.ls, 1, Len(f.ls) - 1) ELSE f.ls   \* the complete lines

\* what SaveGlobals writes for an assignment f : 1..N -> Vals \cup {0} (0 = not bound): names in order
ContentOf(f) == SelectSeq([i \in 1..N |-> Line(i, f[i])], LAMBDA l : l.v # 0)
Contents     == {ContentOf(f) : f \in [1..N -> Vals \cup {0}]}

FirstFree(d) == TName(CHOOSE i \in 1..MaxSessions : ~d[TName(i)].ex /\ \A j \in 1..(i-1) : d[TName(j)].ex)

Init ==
  /\ old \in {NoFile} \cup {File(c) : c \in {x \in Contents : Len(x) <= MaxOld}}
  /\ new \in Contents
  /\ changed \in BOOLEAN
  /\ (~changed => new = old.ls)
  /\ disk = [f \in FileNames |-> IF f = GR THEN old ELSE NoFile]
  /\ tmp = "none" /\ pc = "idle" /\ written = 0 /\ alive = TRUE
  /\ loaded = old.ls /\ session = 1
  /\ hist = <<[a |-> "init", old |-> old, new |-> new, changed |-> changed]>>

\* What the start-up of a new process makes of the directory d it finds; t = the temporary file the
\* previous process was writing when it went away ("none": it was not saving).  The code (main.go, repl)
\* looks at nothing but "gr": leftovers stay where they are and are never promoted.
BootDisk(d, t) ==
  IF PromoteLeftover /\ t \notin {"none", GR} /\ d[t].ex
  THEN [d EXCEPT ![GR] = d[t], ![t] = NoFile]
  ELSE d

\* `boot`: the directory as the next process leaves it after its start-up (prediction for the GEN replay)
Emit(kind) ==
  EmitOn => EmitLine(ToJson([h |-> hist', disk |-> disk', boot |-> BootDisk(disk', tmp'), end |-> kind]))

Log(ev) == hist' = Append(hist, ev)

\* ------------------------------------------------------------------ the save path
Skip ==
  /\ alive /\ pc = "idle" /\ ~changed
  /\ pc' = "done"
  /\ Log([a |-> "skip"])
  /\ UNCHANGED <<disk, tmp, old, new, written, alive, changed, loaded, session>>
  /\ Emit("skip")

Start ==
  /\ alive /\ pc = "idle" /\ changed
  /\ pc' = "start"
  /\ Log([a |-> "start"])
  /\ UNCHANGED <<disk, tmp, old, new, written, alive, changed, loaded, session>>

CreateTemp ==
  /\ alive /\ pc = "start"
  /\ IF DirectWrite
     THEN /\ tmp' = GR
          /\ disk' = [disk EXCEPT ![GR] = File(<<>>)]
     ELSE LET t == FirstFree(disk) IN
          /\ tmp' = t
          /\ disk' = [disk EXCEPT ![t] = File(<<>>)]
  /\ pc' = "write" /\ written' = 0
  /\ Log([a |-> "create"])
  /\ UNCHANGED <<old, new, alive, changed, loaded, session>>

CreateFails ==
  /\ alive /\ pc = "start"
  /\ pc' = "failed"
  /\ Log([a |-> "createfails"])
  /\ UNCHANGED <<disk, tmp, old, new, written, alive, changed, loaded, session>>
  /\ Emit("fail")

\* part of binding written+1 reaches the file (a short write, or death inside write(2))
WriteTorn ==
  /\ alive /\ pc = "write" /\ written < Len(new) /\ ~IsTorn(disk[tmp])
  /\ disk' = [disk EXCEPT ![tmp] = File(Append(disk[tmp].ls, Torn(new[written + 1])))]
  /\ Log([a |-> "torn", i |-> written + 1])
  /\ UNCHANGED <<tmp, pc, old, new, written, alive, changed, loaded, session>>

WriteBinding ==
  /\ alive /\ pc = "write" /\ written < Len(new)
  /\ disk' = [disk EXCEPT ![tmp] = File(Append(Whole(disk[tmp]), new[written + 1]))]
  /\ written' = written + 1
  /\ Log([a |-> "write", i |-> written + 1])
  /\ UNCHANGED <<tmp, pc, old, new, alive, changed, loaded, session>>

\* the write of binding written+1 fails (after a torn part or with nothing written); with
\* written = Len(new) this is any failure after the last write (sync/close)
WriteFails ==
  /\ alive /\ pc = "write"
  /\ pc' = IF IgnoreWriteError THEN "written" ELSE "failed"
  /\ Log([a |-> "writefails", i |-> written])
  /\ UNCHANGED <<disk, tmp, old, new, written, alive, changed, loaded, session>>
  /\ Emit("fail")

WriteDone ==
  /\ alive /\ pc = "write" /\ written = Len(new) /\ ~IsTorn(disk[tmp])
  /\ pc' = "written"
  /\ Log([a |-> "writedone"])
  /\ UNCHANGED <<disk, tmp, old, new, written, alive, changed, loaded, session>>

Rename ==
  /\ alive /\ pc = "written"
  /\ disk' = IF tmp = GR THEN disk ELSE [disk EXCEPT ![GR] = disk[tmp], ![tmp] = NoFile]
  /\ tmp' = "none" /\ pc' = "done"
  /\ Log([a |-> "rename"])
  /\ UNCHANGED <<old, new, written, alive, changed, loaded, session>>
  /\ Emit("done")

\* deviation: the rename is issued while bindings are still missing; later writes follow the file
RenameTooEarly ==
  /\ RenameEarly /\ alive /\ pc = "write" /\ written < Len(new) /\ tmp # GR
  /\ disk' = [disk EXCEPT ![GR] = disk[tmp], ![tmp] = NoFile]
  /\ tmp' = GR
  /\ Log([a |-> "renameearly"])
  /\ UNCHANGED <<pc, old, new, written, alive, changed, loaded, session>>

RenameFails ==
  /\ alive /\ pc = "written"
  /\ pc' = "failed"
  /\ Log([a |-> "renamefails"])
  /\ UNCHANGED <<disk, tmp, old, new, written, alive, changed, loaded, session>>
  /\ Emit("fail")

Crash ==
  /\ alive
  /\ alive' = FALSE
  /\ Log([a |-> "crash"])
  /\ UNCHANGED <<disk, tmp, pc, old, new, written, changed, loaded, session>>
  /\ Emit("crash")

\* ------------------------------------------------------------------ next session
\* session start: a new process is started in the directory of the one that is gone (the crash position
\* kept in pc is forgotten); its start-up code runs before anything is loaded
Boot ==
  /\ ~alive /\ pc \notin {"boot", "end"}
  /\ pc' = "boot"
  /\ disk' = BootDisk(disk, tmp)
  /\ Log([a |-> "boot"])
  /\ UNCHANGED <<tmp, old, new, written, alive, changed, loaded, session>>

\* AutoLoad of the started process: ".gr" and nothing else
Load == ~alive /\ pc = "boot" /\ loaded' = disk[GR].ls

NewSession(nw, ch) ==
  /\ old' = disk[GR] /\ new' = nw /\ changed' = ch
  /\ tmp' = "none" /\ pc' = "idle" /\ written' = 0 /\ alive' = TRUE
  /\ session' = session + 1
  /\ UNCHANGED disk

Restart ==
  /\ Load
  /\ IF session < MaxSessions
     THEN \E nw \in Contents, ch \in BOOLEAN :
            /\ (~ch => nw = loaded')
            /\ NewSession(nw, ch)
            /\ Log([a |-> "restart", new |-> nw, changed |-> ch])
     ELSE /\ pc' = "end" /\ Log([a |-> "load"])
          /\ UNCHANGED <<disk, tmp, old, new, written, alive, changed, session>>

\* after a failed save the same process goes on and auto-saves again; its globals are `new`
Retry ==
  /\ alive /\ pc = "failed" /\ session < MaxSessions
  /\ \E nw \in Contents, ch \in BOOLEAN :
       /\ (~ch => nw = new)
       /\ NewSession(nw, ch)
       /\ Log([a |-> "retry", new |-> nw, changed |-> ch])
  /\ UNCHANGED loaded

Next == \/ Skip \/ Start \/ CreateTemp \/ CreateFails \/ WriteTorn \/ WriteBinding \/ WriteFails
        \/ WriteDone \/ Rename \/ RenameTooEarly \/ RenameFails \/ Crash \/ Boot \/ Restart \/ Retry

Spec == Init /\ [][Next]_vars

\* ------------------------------------------------------------------ properties
TypeOK ==
  /\ DOMAIN disk = FileNames
  /\ \A f \in FileNames : disk[f].ex \in BOOLEAN /\ (~disk[f].ex => disk[f].ls = <<>>)
  /\ tmp \in FileNames \cup {"none"}
  /\ pc \in {"idle", "start", "write", "written", "done", "failed", "boot", "end"}
  /\ written \in 0..N /\ alive \in BOOLEAN /\ changed \in BOOLEAN /\ session \in 1..MaxSessions
  /\ new \in Contents

Atomic          == disk[GR] \in {old, File(new)}
FailedLeavesOld == pc = "failed" => disk[GR] = old
LoadedOldOrNew  == pc = "end" => loaded \in {old.ls, new}
\* the temp file being written never *is* the state file, and the state file is never torn
StateFileWhole  == ~IsTorn(disk[GR])

RestartOldOrNew    == [][(~alive /\ pc = "boot") => loaded' \in {old.ls, new}]_vars
LeftoverNeverRead  == [][(~alive /\ pc = "boot") => loaded' = disk[GR].ls]_vars
\* the start-up of the next process leaves "gr" the complete previous or the complete new file (Atomic in the
\* boot state, stated as a step so that a counterexample names the action)
BootOldOrNew       == [][(~alive /\ pc' = "boot") => disk'[GR] \in {old, File(new)}]_vars
SkipTouchesNothing == [][(alive /\ alive' /\ pc = "idle" /\ ~changed /\ session' = session) => disk' = disk]_vars
\* a step of a live process changes "gr" only by the rename, and then to the complete new content
OnlyRenameCommits  == [][(disk'[GR] # disk[GR]) => (pc = "written" /\ pc' = "done" /\ disk'[GR] = File(new))]_vars
=============================================================================
