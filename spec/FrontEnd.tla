------------------------------ MODULE FrontEnd ------------------------------
(* C08 - the front end is total on arbitrary bytes.

   The outcome protocol of grol's front end as a state machine

        Lex*  ->  Parse  ->  Outcome  ->  Print*

   over an abstract input: a sequence `src` of token-class symbols from the CONSTANT
   Alphabet, a lexer mode (file / line) and a separator discipline (tight: nothing
   between tokens, spaced: white space between tokens; the only thing the parser asks
   the lexer about white space is "was there any before `(` / `[`").

   Lex*     LexSym(a) consumes one symbol and appends its token.  Two symbols swallow
            the rest of the input: an unterminated string (one ILLEGAL token that
            starts with the quote and holds everything up to the end) and an
            unterminated block comment (a BLOCKCOMMENT token without the closing
            mark); after either the lexer returns the end marker EOF/EOL for ever.
   Parse    a transcription of parser/parser.go at token level (Pratt loop with the
            precedence table, every prefix / infix / postfix function, statements,
            blocks, lists, map literals, lambdas, comments).  It threads exactly the
            parser's hidden state: position (cur / peek / prev token), the error list
            (its length), the sticky continuationNeeded flag, and "panicked".  A parse
            function returns the abstract node it built, or Nil where the Go code
            returns nil; a node carries its head token (what ast.Node.Value() returns:
            okParamList and parseMapLiteral look at it) and the number of MISSING
            children below it: nil children at positions the printer dereferences.
   Outcome  the triple the caller sees: Errors(), ContinuationNeeded(), the tree.
   Print*   a tree that is returned clean (no error, no continuation) is printed in
            normal, compact and all-parens mode; the printer dereferences every child
            and looks every operator up in the precedence table (needParen panics on a
            token without precedence).

   Dev names the places where the code on the pinned tree deviates from the design the
   invariants describe (section "known findings" of docs/C08.md).  Dev = {} is the
   repaired design: TLC checks that all invariants hold for every token string.
   Dev = AsIs is the code as it is: TLC finds the counterexamples, and this
   configuration is what predictions for the real parser are generated from (GEN).

   Properties (all are invariants of the state machine; the same predicates are
   reused by FrontEnd_Trace.tla on records observed on the real front end):
     NoPanic                    lexing, parsing and printing never panic
     AtLeastOne                 errors non-empty, or continuation requested, or a tree
     CleanTreeIsComplete        a tree returned with no error and no continuation has
                                no missing child
     CleanTreePrints            ... and prints in all three modes
     FileModeNeverContinuation  in file mode the input is complete: the lexer never
                                yields EOL, so an outcome without errors never asks
                                for more input
     LineCommentEndsLine        (lexer guarantee parseComment relies on) a line comment
                                token is followed by a newline or by the end marker     *)
EXTENDS Integers, Sequences, FiniteSets, TLC, Json, GrolPrims

CONSTANTS Alphabet,   \* set of symbols (strings), subset of Symbols
          MaxLen,     \* maximal length of src
          Modes,      \* subset of {"file", "line"}
          Seps,       \* subset of {"tight", "spaced"}
          Dev,        \* subset of AsIs
          EmitOn      \* BOOLEAN: emit one prediction per (src, mode, sep) (GEN)

Symbols == {"ident", "int", "float", "str", "(", ")", "{", "}", "[", "]", ",", ";", ":", ".", "..",
            "=", ":=", "=>", "+", "-", "!", "*", "/", "<", "==", "&&", "++",
            "if", "else", "for", "func", "return", "break", "true", "len", "print", "macro", "quote",
            "lc", "bc", "ustr", "ubc", "ill"}

AsIs == {"OkParamNilDeref",            \* okParamList calls Value() on a nil parameter node
         "BlockCommentContInFileMode"} \* parseComment asks for continuation whatever the lexer mode

ASSUME Alphabet \subseteq Symbols /\ Dev \subseteq AsIs /\ Modes \subseteq {"file", "line"} /\ Seps \subseteq {"tight", "spaced"}

VARIABLES src,       \* symbols consumed so far
          toks,      \* tokens the lexer produced for them
          swallowed, \* an unterminated string / block comment has eaten the rest
          mode, sep,
          phase,     \* "lex", "outcome", "printed"
          out,       \* the outcome (meaningful when phase # "lex")
          printed    \* results of the print attempts so far (sequence of "ok" / "panic")
vars == <<src, toks, swallowed, mode, sep, phase, out, printed>>

\* ------------------------------------------------------------------ precedence table (ast.Precedences)
PLOWEST == 1
PLAMBDA == 5
PPREFIX == 11
PDOTINDEX == 14
Prec == [t \in {"=", ":=", "&&", ":", "=>", "==", "<", "+", "-", "*", "/", "++", "(", "[", "."} |->
           CASE t \in {"=", ":="} -> 2
             [] t \in {"&&", ":"} -> 4
             [] t = "=>"          -> PLAMBDA
             [] t = "=="          -> 6
             [] t = "<"           -> 7
             [] t \in {"+", "-"}  -> 8
             [] t = "*"           -> 9
             [] t = "/"           -> 10
             [] t = "++"          -> PPREFIX
             [] t = "("           -> 12
             [] t = "["           -> 13
             [] t = "."           -> PDOTINDEX]
PrecOf(t) == IF t \in DOMAIN Prec THEN Prec[t] ELSE PLOWEST    \* peekPrecedence / curPrecedence

PrefixToks == {"ident", "..", "int", "float", "str", "!", "-", "+", "++", "true", "(", "if", "for", "break",
               "func", "len", "print", "quote", "[", "{", "lc", "bc", "ubc", "macro"}
InfixOps   == {"+", "-", "/", "*", "==", "<", "&&", ":", "=", ":="}        \* parseInfixExpression
InfixToks  == InfixOps \cup {"(", "[", ".", "=>"}

\* ------------------------------------------------------------------ abstract nodes
NilN == [k |-> "nil", t |-> "none", miss |-> 0, rnil |-> FALSE, np |-> TRUE]
IsNil(n) == n.k = "nil"
Mk(k, t, miss, np) == [k |-> k, t |-> t, miss |-> miss, rnil |-> FALSE, np |-> np]
Leaf(t) == Mk("leaf", t, 0, TRUE)
M(n)  == IF IsNil(n) THEN 1 ELSE n.miss     \* missing children contributed by a REQUIRED child
MO(n) == IF IsNil(n) THEN 0 ELSE n.miss     \* ... by an optional child
NP(n) == IsNil(n) \/ n.np                   \* every needParen lookup below succeeds
RECURSIVE ListM(_)
ListM(l) == IF l = <<>> THEN 0 ELSE M(Head(l)) + ListM(Tail(l))
ListNP(l) == \A i \in 1..Len(l) : NP(l[i])

\* ------------------------------------------------------------------ parser state
\* c = [t: token sequence, line: BOOLEAN, ws: BOOLEAN, dev: set]   s = [i, err, cont, pan]
Tok(c, i) == IF i >= 1 /\ i <= Len(c.t) THEN c.t[i] ELSE "END"     \* the lexer returns EOF/EOL for ever
Cur(c, s)  == Tok(c, s.i)
Peek(c, s) == Tok(c, s.i + 1)
Adv(s)    == [s EXCEPT !.i = @ + 1]                               \* nextToken
AddErr(s)  == [s EXCEPT !.err = @ + 1]
SetCont(s) == [s EXCEPT !.cont = TRUE]
Panic(s)   == [s EXCEPT !.pan = TRUE]
S0 == [i |-> 1, err |-> 0, cont |-> FALSE, pan |-> FALSE]
R(s, n) == [s |-> s, n |-> n]
IsEOL(c, t) == c.line /\ t = "END"
IsEOF(c, t) == ~c.line /\ t = "END"
\* lexer.HadWhitespace() for the token at position j (a line comment is always followed by a newline)
WsBefore(c, j) == c.ws \/ (j > 1 /\ Tok(c, j - 1) = "lc")
NlBefore(c, j) == j > 1 /\ Tok(c, j - 1) = "lc"     \* the separators of the model are never newlines

ExpectPeek(c, s, t) ==
  IF Peek(c, s) = t THEN [s |-> Adv(s), ok |-> TRUE]
  ELSE IF IsEOL(c, Peek(c, s)) THEN [s |-> SetCont(s), ok |-> FALSE]
  ELSE [s |-> AddErr(s), ok |-> FALSE]                              \* peekError

RECURSIVE ParseExpr(_, _, _), InfixLoop(_, _, _, _), PrefixFn(_, _), InfixFn(_, _, _),
          Grouped(_, _), ExprList(_, _, _), ExprListMore(_, _, _), LambdaMulti(_, _, _, _),
          Block(_, _), BlockLoop(_, _, _, _), Statement(_, _), ReturnStmt(_, _),
          IfExpr(_, _), ForExpr(_, _), FuncLit(_, _), MacroLit(_, _), FuncParams(_, _), ParamsMore(_, _),
          BuiltinCall(_, _), MapLit(_, _), MapLoop(_, _, _, _), ProgLoop(_, _, _, _)

\* parseExpression(precedence)
ParseExpr(c, s, prec) ==
  IF s.pan THEN R(s, NilN)
  ELSE IF IsEOL(c, Cur(c, s)) THEN R(SetCont(s), NilN)
  ELSE IF Cur(c, s) = "ustr" /\ IsEOL(c, Peek(c, s)) THEN R(SetCont(s), NilN)   \* unterminated string, line mode
  ELSE IF Cur(c, s) \notin PrefixToks
       THEN R(IF Peek(c, s) = "=>" THEN s ELSE AddErr(s), NilN)    \* "() => .." makes no error here
  ELSE LET l == PrefixFn(c, s) IN
       IF Peek(c, l.s) = "=>" /\ prec = PLAMBDA
       THEN LambdaMulti(c, Adv(l.s), l.n, <<>>)                    \* lambda chaining a => b => c
       ELSE InfixLoop(c, l.s, l.n, prec)

InfixLoop(c, s, left, prec) ==
  LET pk == Peek(c, s) IN
  IF s.pan \/ pk = ";" \/ ~(prec < PrecOf(pk)) THEN R(s, left)
  ELSE IF pk \notin InfixToks THEN R(s, left)
  ELSE IF pk \in {"(", "["} /\ WsBefore(c, s.i + 1) THEN R(s, left)
  ELSE LET r == InfixFn(c, Adv(s), left) IN InfixLoop(c, r.s, r.n, prec)

PrefixFn(c, s) ==
  LET t == Cur(c, s) IN
  CASE t \in {"ident", ".."} ->                                     \* parseIdentifier (+ postfix)
         IF Peek(c, s) = "++" THEN R(Adv(s), Mk("postfix", "++", 0, "++" \in DOMAIN Prec))
         ELSE R(s, Leaf(t))
    [] t \in {"int", "float", "str", "true", "break"} -> R(s, Leaf(t))
    [] t \in {"!", "-", "+", "++"} ->                               \* parsePrefixExpression
         LET e == ParseExpr(c, Adv(s), PPREFIX) IN R(e.s, Mk("prefix", t, M(e.n), NP(e.n)))
    [] t = "("     -> Grouped(c, s)
    [] t = "if"    -> IfExpr(c, s)
    [] t = "for"   -> ForExpr(c, s)
    [] t = "func"  -> FuncLit(c, s)
    [] t = "macro" -> MacroLit(c, s)
    [] t \in {"len", "print", "quote"} -> BuiltinCall(c, s)
    [] t = "["     -> LET el == ExprList(c, s, "]") IN R(el.s, Mk("array", "[", ListM(el.list), ListNP(el.list)))
    [] t = "{"     -> MapLit(c, s)
    [] t = "ubc"   ->                                               \* parseComment, block comment not closed
         IF ~c.line /\ "BlockCommentContInFileMode" \notin c.dev
         THEN R(AddErr(s), NilN)       \* design: complete input cannot be continued - an error
         ELSE R(SetCont(s), NilN)
    [] t = "bc"    -> R(s, Leaf(t))
    [] t = "lc"    ->                                               \* the explicit panic of parseComment
         IF ~NlBefore(c, s.i + 1) /\ Peek(c, s) # "END" THEN R(Panic(s), NilN) ELSE R(s, Leaf(t))

InfixFn(c, s, left) ==
  LET t == Cur(c, s) IN
  CASE t \in InfixOps ->                                            \* parseInfixExpression
         IF t = ":" /\ Peek(c, s) = "]"                             \* a[n:]
         THEN R(s, [Mk("infix", t, M(left), NP(left)) EXCEPT !.rnil = TRUE])
         ELSE LET e == ParseExpr(c, Adv(s), PrecOf(t)) IN
              R(e.s, [Mk("infix", t, M(left) + (IF t = ":" THEN MO(e.n) ELSE M(e.n)),
                         NP(left) /\ NP(e.n) /\ t \in DOMAIN Prec) EXCEPT !.rnil = IsNil(e.n)])
    [] t = "(" ->                                                   \* parseCallExpression
         LET el == ExprList(c, s, ")") IN
         R(el.s, Mk("call", "(", M(left) + ListM(el.list), NP(left) /\ ListNP(el.list)))
    [] t \in {"[", "."} ->                                          \* parseIndexExpression
         LET e == ParseExpr(c, Adv(s), IF t = "." THEN PDOTINDEX ELSE PLOWEST)
             n == Mk("index", t, M(left) + M(e.n), NP(left) /\ NP(e.n) /\ t \in DOMAIN Prec)
         IN IF t = "." THEN R(e.s, n)
            ELSE LET x == ExpectPeek(c, e.s, "]") IN IF x.ok THEN R(x.s, n) ELSE R(x.s, NilN)
    [] t = "=>" -> LambdaMulti(c, s, left, <<>>)                    \* parseLambdaExpression

\* parseGroupedExpression: ( e ) | ( ) => .. | ( a, b, .. ) => ..
Grouped(c, s) ==
  LET e == ParseExpr(c, Adv(s), PLOWEST) IN
  IF Peek(c, e.s) = "=>" THEN LambdaMulti(c, Adv(e.s), e.n, <<>>)
  ELSE IF Peek(c, e.s) = ","
  THEN LET el == ExprList(c, Adv(e.s), ")") IN
       IF ~el.ok THEN R(el.s, NilN)
       ELSE LET x == ExpectPeek(c, el.s, "=>") IN
            IF ~x.ok THEN R(x.s, NilN) ELSE LambdaMulti(c, x.s, e.n, el.list)
  ELSE LET x == ExpectPeek(c, e.s, ")") IN IF x.ok THEN R(x.s, e.n) ELSE R(x.s, NilN)

\* parseExpressionList(end): [s, ok, list]; the Go code returns a nil slice (no elements) when the
\* closing token is missing, and keeps nil ENTRIES for elements that failed to parse.
ExprListMore(c, s, acc) ==
  IF Peek(c, s) = "," /\ ~s.pan
  THEN LET e == ParseExpr(c, Adv(Adv(s)), PLOWEST) IN ExprListMore(c, e.s, Append(acc, e.n))
  ELSE [s |-> s, list |-> acc]
ExprList(c, s, end) ==
  IF Peek(c, s) = end THEN [s |-> Adv(s), ok |-> TRUE, list |-> <<>>]
  ELSE LET e1 == ParseExpr(c, Adv(s), PLOWEST)
           m  == ExprListMore(c, e1.s, <<e1.n>>)
           x  == ExpectPeek(c, m.s, end)
       IN [s |-> x.s, ok |-> x.ok, list |-> IF x.ok THEN m.list ELSE <<>>]

\* okParamList + parseLambdaMulti; cur token is "=>"
ParamCheck(ps) ==   \* "ok" | "bad" | "nil": first offending parameter decides, as in the Go loop
  LET bad(i) == IF IsNil(ps[i]) THEN "nil"
                ELSE IF i = Len(ps) /\ ps[i].t = ".." THEN "ok"
                ELSE IF ps[i].t # "ident" THEN "bad" ELSE "ok"
      offenders == {i \in 1..Len(ps) : bad(i) # "ok"}
  IN IF offenders = {} THEN "ok"
     ELSE bad(CHOOSE i \in offenders : \A j \in offenders : i <= j)
LambdaMulti(c, s, left, more) ==
  LET ps  == IF IsNil(left) THEN more ELSE <<left>> \o more
      chk == ParamCheck(ps)
  IN IF chk = "nil" /\ "OkParamNilDeref" \in c.dev THEN R(Panic(s), NilN)   \* n.Value() on a nil node
     ELSE IF chk # "ok" THEN R(AddErr(s), NilN)                           \* "lambda parameters must be identifiers"
     ELSE IF Peek(c, s) = "{"
     THEN LET b == Block(c, Adv(s)) IN
          IF b.s.cont THEN R(b.s, NilN)
          ELSE R(b.s, Mk("func", "=>", M(b.n), NP(b.n)))
     ELSE LET e == ParseExpr(c, Adv(s), PrecOf(Cur(c, s))) IN
          R(e.s, Mk("func", "=>", M(e.n), NP(e.n)))                       \* Body = {body}: body may be nil

\* parseBlockStatement; cur token is "{".  Nil (a nil *Statements) only with continuation.
BlockLoop(c, s, miss, np) ==
  IF s.pan \/ Cur(c, s) = "}" \/ IsEOF(c, Cur(c, s)) THEN R(s, Mk("block", "none", miss, np))
  ELSE IF IsEOL(c, Cur(c, s)) THEN R(SetCont(s), NilN)
  ELSE LET st == Statement(c, s) IN BlockLoop(c, Adv(st.s), miss + M(st.n), np /\ NP(st.n))  \* nil statements are appended
Block(c, s) == BlockLoop(c, Adv(s), 0, TRUE)

Statement(c, s) ==
  IF Cur(c, s) = "return" THEN ReturnStmt(c, s)
  ELSE LET e == ParseExpr(c, s, PLOWEST) IN R(IF Peek(c, e.s) = ";" THEN Adv(e.s) ELSE e.s, e.n)
ReturnStmt(c, s) ==
  IF Peek(c, s) \in {";", "}", "END"} THEN R(s, Leaf("return"))
  ELSE LET e == ParseExpr(c, Adv(s), PLOWEST) IN
       R(IF Peek(c, e.s) = ";" THEN Adv(e.s) ELSE e.s, Mk("return", "return", MO(e.n), NP(e.n)))

IfExpr(c, s) ==
  LET cnd == ParseExpr(c, Adv(s), PLOWEST)
      x   == ExpectPeek(c, cnd.s, "{")
  IN IF ~x.ok THEN R(x.s, NilN)
     ELSE LET b == Block(c, x.s) IN
       IF b.s.cont THEN R(b.s, NilN)
       ELSE IF Peek(c, b.s) # "else" THEN R(b.s, Mk("if", "if", M(cnd.n) + M(b.n), NP(cnd.n) /\ NP(b.n)))
       ELSE LET s2 == Adv(b.s) IN
         IF Peek(c, s2) = "if"
         THEN LET alt == IfExpr(c, Adv(s2)) IN      \* Alternative = {parseIfExpression()}, possibly {nil}
              R(alt.s, Mk("if", "if", M(cnd.n) + M(b.n) + M(alt.n), NP(cnd.n) /\ NP(b.n) /\ NP(alt.n)))
         ELSE LET y == ExpectPeek(c, s2, "{") IN
              IF ~y.ok THEN R(y.s, NilN)
              ELSE LET a == Block(c, y.s) IN
                   IF a.s.cont THEN R(a.s, NilN)
                   ELSE R(a.s, Mk("if", "if", M(cnd.n) + M(b.n) + M(a.n), NP(cnd.n) /\ NP(b.n) /\ NP(a.n)))

ForExpr(c, s) ==
  LET cnd == ParseExpr(c, Adv(s), PLOWEST)
      x   == ExpectPeek(c, cnd.s, "{")
  IN IF ~x.ok THEN R(x.s, NilN)
     ELSE LET b == Block(c, x.s) IN
          IF b.s.cont THEN R(b.s, NilN) ELSE R(b.s, Mk("for", "for", M(cnd.n) + M(b.n), NP(cnd.n) /\ NP(b.n)))

\* parseFunctionParameters: identifiers are made from ANY token; cur is "(".  Returns the state only
\* (parameter nodes are never nil).
ParamsMore(c, s) == IF Peek(c, s) = "," THEN ParamsMore(c, Adv(Adv(s))) ELSE s
FuncParams(c, s) ==
  IF Peek(c, s) = ")" THEN Adv(s)
  ELSE ExpectPeek(c, ParamsMore(c, Adv(s)), ")").s

FuncBody(c, s, head) ==      \* after the parameter list: `{` block
  LET y == ExpectPeek(c, s, "{") IN
  IF ~y.ok THEN R(y.s, NilN)
  ELSE LET b == Block(c, y.s) IN
       IF b.s.cont THEN R(b.s, NilN) ELSE R(b.s, Mk("func", head, M(b.n), NP(b.n)))
FuncLit(c, s) ==
  LET s1 == IF Peek(c, s) = "ident" THEN Adv(s) ELSE s
      x  == ExpectPeek(c, s1, "(")
  IN IF ~x.ok THEN R(x.s, NilN) ELSE FuncBody(c, FuncParams(c, x.s), "func")
MacroLit(c, s) ==
  LET x == ExpectPeek(c, s, "(") IN
  IF ~x.ok THEN R(x.s, NilN) ELSE FuncBody(c, FuncParams(c, x.s), "macro")

BuiltinCall(c, s) ==
  LET x == ExpectPeek(c, s, "(") IN
  IF ~x.ok THEN R(x.s, NilN)
  ELSE LET el == ExprList(c, x.s, ")") IN R(el.s, Mk("builtin", Cur(c, s), ListM(el.list), ListNP(el.list)))

\* parseMapLiteral; cur is "{"
MapLoop(c, s, miss, np) ==
  IF Peek(c, s) = "}" THEN R(Adv(s), Mk("map", "{", miss, np))
  ELSE LET s1 == Adv(s) IN
    IF s1.cont \/ s1.pan THEN R(s1, NilN)
    ELSE LET kv == ParseExpr(c, s1, PLOWEST) IN
      IF ~(kv.n.k = "infix" /\ kv.n.t = ":")
      THEN R(IF IsEOL(c, Peek(c, kv.s)) THEN SetCont(kv.s) ELSE AddErr(kv.s), NilN)
      ELSE LET m2 == miss + kv.n.miss + (IF kv.n.rnil THEN 1 ELSE 0)      \* the printer dereferences the value
               n2 == np /\ kv.n.np
           IN IF Peek(c, kv.s) = "}" THEN MapLoop(c, kv.s, m2, n2)
              ELSE LET x == ExpectPeek(c, kv.s, ",") IN
                   IF ~x.ok THEN R(x.s, NilN) ELSE MapLoop(c, x.s, m2, n2)
MapLit(c, s) == MapLoop(c, s, 0, TRUE)

\* ParseProgram: stops at the end marker or at the first nil statement
ProgLoop(c, s, miss, np) ==
  IF s.pan \/ Cur(c, s) = "END" THEN [s |-> s, miss |-> miss, np |-> np]
  ELSE LET st == Statement(c, s) IN
       IF IsNil(st.n) THEN [s |-> st.s, miss |-> miss, np |-> np]
       ELSE ProgLoop(c, Adv(st.s), miss + st.n.miss, np /\ st.n.np)

Ctx(t, m, w, d) == [t |-> t, line |-> (m = "line"), ws |-> (w # "tight"), dev |-> d]
Min2(a, b) == IF a < b THEN a ELSE b
ParseOutcome(c) ==
  LET r == ProgLoop(c, S0, 0, TRUE) IN
  [pan |-> r.s.pan, err |-> IF r.s.pan THEN 0 ELSE Min2(r.s.err, 9), cont |-> ~r.s.pan /\ r.s.cont,
   tree |-> ~r.s.pan,                     \* ParseProgram always returns a (possibly empty) program
   miss |-> IF r.s.pan THEN 0 ELSE Min2(r.miss, 9), np |-> r.np,
   all  |-> r.s.pan \/ Tok(c, r.s.i) = "END"]   \* diagnostic: the whole input was consumed

\* ------------------------------------------------------------------ the outcome protocol
Clean(o) == ~o.pan /\ o.err = 0 /\ ~o.cont /\ o.tree
Class(o) == IF o.pan THEN "panic" ELSE IF o.err > 0 THEN "errors" ELSE IF o.cont THEN "continuation" ELSE "clean"

NoPanicP(o, pr)     == ~o.pan /\ \A k \in DOMAIN pr : pr[k] # "panic"
AtLeastOneP(o)      == o.pan \/ o.err > 0 \/ o.cont \/ o.tree
CompleteP(o)        == Clean(o) => o.miss = 0
PrintsP(o, pr)      == Clean(o) => \A k \in DOMAIN pr : pr[k] = "ok"
FileNoContP(m, o)   == (m = "file" /\ ~o.pan /\ o.err = 0) => ~o.cont
OutcomeReasons(m, o, pr) ==
  (IF NoPanicP(o, pr) THEN {} ELSE {"NoPanic"}) \cup
  (IF AtLeastOneP(o) THEN {} ELSE {"AtLeastOne"}) \cup
  (IF CompleteP(o) THEN {} ELSE {"CleanTreeIsComplete"}) \cup
  (IF PrintsP(o, pr) THEN {} ELSE {"CleanTreePrints"}) \cup
  (IF FileNoContP(m, o) THEN {} ELSE {"FileModeNeverContinuation"})

\* what the printer does with a clean tree
PrintResult(o) == IF o.miss = 0 /\ o.np THEN "ok" ELSE "panic"

\* ------------------------------------------------------------------ the machine
NoOut == [pan |-> FALSE, err |-> 0, cont |-> FALSE, tree |-> FALSE, miss |-> 0, np |-> TRUE, all |-> FALSE]

Init == /\ src = <<>> /\ toks = <<>> /\ swallowed = FALSE
        /\ mode \in Modes /\ sep \in Seps
        /\ phase = "lex" /\ out = NoOut /\ printed = <<>>

LexSym(a) ==
  /\ phase = "lex" /\ Len(src) < MaxLen
  /\ src' = Append(src, a)
  /\ toks' = IF swallowed THEN toks ELSE Append(toks, a)
  /\ swallowed' = (swallowed \/ a \in {"ustr", "ubc"})
  /\ UNCHANGED <<mode, sep, phase, out, printed>>

Emit(o) == EmitOn => EmitLine(ToJson(<<src, IF mode = "line" THEN 1 ELSE 0, IF sep = "tight" THEN 1 ELSE 0, Class(o), o.miss>>))

Parse ==   \* the input ends here: the lexer delivers the end marker, the parser runs
  /\ phase = "lex"
  /\ LET o == ParseOutcome(Ctx(toks, mode, sep, Dev)) IN
     /\ out' = o
     /\ phase' = "outcome"
     /\ Emit(o)
  /\ UNCHANGED <<src, toks, swallowed, mode, sep, printed>>

PrintTree ==   \* normal, compact, all-parens, in this order
  /\ phase = "outcome" /\ Clean(out) /\ Len(printed) < 3
  /\ printed' = Append(printed, PrintResult(out))
  /\ UNCHANGED <<src, toks, swallowed, mode, sep, phase, out>>

Next == (\E a \in Alphabet : LexSym(a)) \/ Parse \/ PrintTree
Spec == Init /\ [][Next]_vars

\* ------------------------------------------------------------------ invariants
Decided == phase # "lex"
NoPanic                   == Decided => NoPanicP(out, printed)
AtLeastOne                == Decided => AtLeastOneP(out)
CleanTreeIsComplete       == Decided => CompleteP(out)
CleanTreePrints           == Decided => PrintsP(out, printed)
FileModeNeverContinuation == Decided => FileNoContP(mode, out)
LineCommentEndsLine       == \A i \in 1..Len(toks) : toks[i] = "lc" => NlBefore(Ctx(toks, mode, sep, Dev), i + 1)
TypeOK == /\ phase \in {"lex", "outcome"} /\ Len(src) <= MaxLen /\ Len(toks) <= Len(src)
          /\ out.err \in 0..9 /\ out.miss \in 0..9 /\ Len(printed) <= 3
=============================================================================
