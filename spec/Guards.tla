------------------------------- MODULE Guards -------------------------------
(* C09 - Execution is bounded: depth, time and memory guards always hold.

   An abstract evaluator as a step machine over program SKELETONS.  A skeleton is a
   short program over the abstract instructions below; the machine is deterministic
   except for (a) the initial choice of skeleton / depth limit / memory budget and
   (b) Cancel, which is enabled in EVERY state of a running evaluation - that is the
   quantifier "all cancellation instants relative to evaluation progress" (a deadline
   expiring is the same event: context.WithTimeout cancels the context).

   Correspondence with the code (eval/eval_api.go, eval/eval.go, object/memory.go,
   repl/repl.go):

     node      evalInternal(node): checks `cancelled` FIRST (s.Context.Err() != nil ->
               error object, which then propagates = status "unwind")
     tick      a node whose evaluation has a user-visible effect (the harness's vtick())
     call      applyFunction -> s.Eval(body): the depth check `depth > MaxDepth -> panic
               "max depth"`, then depth++, one more Go stack frame, new scope
     alloc     object.MustBeOk(n) / MakeObjectSlice(n): refused BEFORE anything is
               allocated when it does not fit the budget (panic "would exceed memory")
     hostloop  a Go-level loop that never re-enters the evaluator (strings.Repeat,
               append loops, the range fill loop, string concatenation copy): it cannot
               see `cancelled`; the design allows it only for an operand whose size was
               granted by the alloc just before (so its length is bounded by the budget)
     sleep     extensions sleep(): waits on the timer OR the context
     pnest /   parser recursion / evaluator recursion for one more level of source
     enest     nesting ("((((", "[[[[", "if {if {")
     Recover   the REPL boundary (repl.EvalOne's recover + State.Reset): depth and scope
               back to top level, the guard failure becomes an ordinary result
     alloc "library"  a library function sizing its result (regsub, join, sprintf, json, split..)
     print / retn     a call captures what is printed while it runs (applyFunction swaps State.Out);
               when it returns the capture is kept for the memo cache and copied into the caller's
     enest1    one level of evaluator recursion inside a function body (block, literal, argument)
     rnest     ast.Modify rewriting a nested body (registers, quote, macro expansion): host-level
               recursion, one step per level of the source, not under the deadline
     load / arm  repl.AutoLoad evaluating the saved state line by line, then State.SetContext arming
               the deadline (timer): Cancel is enabled while timer = "on"

   What the code does differently from the design is not hidden in the actions but
   named: Dev is a set of deviation names.  With Dev = {} every property below holds
   (TLC, MC configuration); with one deviation switched on TLC produces the design-level
   counterexample that corresponds to a defect observed on the real code:

     "StringConcatUnguarded"  evalStringInfixExpression `s + s` allocates without MustBeOk
     "RepeatSizeOverflow"     `len * count` is computed in machine integers BEFORE the
                              guard; the wrapped product passes MustBeOk(0) and the host
                              loop runs for the real count
     "NestingUnguarded"       source nesting is outside both guards: the parser recursion
                              has neither a depth limit nor a cancellation check, and
                              nesting evaluated through evalInternal-only paths (array
                              literal elements, call arguments, if bodies) consumes Go
                              stack without passing the depth check of Eval
     "StackUnbudgeted"        the Go stack used by `call` is not charged to the memory
                              budget (depth limit and memory limit are independent)
     "LibraryResultUnguarded" a library function (regsub, join, sprintf, json, ...) builds a result
                              much larger than its arguments without asking MustBeOk first
     "CapturedOutputUnbudgeted" what a call prints is captured per call (for the memo cache) and copied
                              into the caller's capture when it returns; nothing charges the copies
                              to the budget
     "RewriteRevisits"        (not in the code; sabotage) the rewriting of a body (ast.Modify: registers,
                              quote, macro expansion) walks a nested operand twice per level
     "DeadlineNetOfLoad"      (not in the code; sabotage) the deadline is armed with what is left of
                              MaxDuration after loading the saved state; nothing left = no deadline
     "SleepIgnoresContext"    (not in the code; kept as the sabotage of the liveness check)
     "NoResetOnRecover"       (not in the code; sabotage of the REPL-boundary property)

   All counters saturate (nodes at NMax, ticks at TMax, size at SMax), memory is cut off
   one unit above Phys and the Go stack one frame above StackCap, so the reachable graph
   is finite BY CONSTRUCTION: liveness is checked under SPECIFICATION FairSpec with no
   state constraint.

   Wall-clock time and resident memory are NOT modelled - TLA+ has no notion of either.
   The model contributes (1) the properties model-checked on the design, (2) the schedules
   {skeleton, depth limit, budget, cancellation instant} which the Go harness
   (harness/c09.go) instantiates as real grol programs run in child processes, where
   time and RSS are measured, and (3) for each schedule the predicted outcome class and
   the set of deviations the path exercised.                                          *)
EXTENDS Integers, Sequences, FiniteSets, TLC, Json, GrolPrims

CONSTANTS Skeletons,   \* subset of AllSkeletons to explore
          MaxDepths,   \* set of depth limits (small naturals)
          Budgets,     \* set of memory budgets (units)
          StackCap,    \* Go stack capacity in frames; exceeding it is fatal
          Phys,        \* physical memory in units; exceeding it is fatal
          NestN,       \* levels of the deep-source-nesting skeleton "nest" (more than the Go stack takes)
          NestM,       \* levels of "nestmid" (more than any depth limit, fewer than the Go stack takes)
          NMax, TMax,  \* saturation of the node / tick counters
          SMax,        \* saturation of operand sizes
          K,           \* evaluator steps tolerated after Cancel, hostloop steps excluded
          NestR,       \* levels of the nesting inside a rewritten body ("rewrite"); fewer than any depth limit
          LoadSlow,    \* a saved state of at least this many lines takes longer to load than the deadline
          Dev,         \* set of deviation names switched on
          EmitOn       \* BOOLEAN: emit schedules (GEN)

AllSkeletons == {"loop", "loopempty", "recurse", "mutual", "closures", "sconcat", "aconcat",
                 "srepeat", "arepeat", "arepeatwrap", "range", "nest", "nestmid", "sleep",
                 "libgrow", "output", "recnest", "rewrite", "autoload"}
AllDev == {"StringConcatUnguarded", "RepeatSizeOverflow", "NestingUnguarded",
           "StackUnbudgeted", "SleepIgnoresContext", "NoResetOnRecover",
           "LibraryResultUnguarded", "CapturedOutputUnbudgeted", "RewriteRevisits", "DeadlineNetOfLoad"}

ASSUME /\ Skeletons \subseteq AllSkeletons /\ Dev \subseteq AllDev
       /\ \A d \in MaxDepths : d \in Nat /\ d + 1 < StackCap
       /\ \A b \in Budgets : b \in Nat /\ b < Phys
       /\ NestN > StackCap   \* the nesting skeleton is deeper than the Go stack could take
       /\ NestM <= StackCap /\ \A d \in MaxDepths : d + 1 < NestM
       /\ NestR \in Nat /\ NestR >= 2 /\ \A d \in MaxDepths : NestR <= d
       /\ LoadSlow \in Nat /\ LoadSlow >= 1

VARIABLES sk, maxDepth, budget,   \* the configuration, chosen in Init
          par,                    \* the skeleton's size parameter, chosen in Init (Params): result size of the library
                                  \* call, size of one print, lines of the saved state
          timer,                  \* "on": the deadline can fire (Cancel enabled); "off": evaluation without a deadline
          pc, status, class,      \* control
          depth,                  \* State.depth
          scope,                  \* nesting of function environments (State.env)
          gostack,                \* Go stack frames in use (parser + evaluator recursion)
          nodes, ticks,           \* progress counters (saturating)
          cancelled,              \* context cancelled / deadline expired
          mem,                    \* units allocated and live
          size,                   \* size of the operand being grown
          granted,                \* size granted by the last successful alloc (what a hostloop may use)
          cnt,                    \* loop counter of hostloop / nesting
          after,                  \* evaluator steps since Cancel that are not hostloop steps (saturates at K+1)
          hostAfter,              \* hostloop steps since Cancel
          ticksAfter,             \* ticks since Cancel
          used                    \* deviations exercised on this path
vars == <<sk, maxDepth, budget, par, timer, pc, status, class, depth, scope, gostack, nodes, ticks, cancelled,
          mem, size, granted, cnt, after, hostAfter, ticksAfter, used>>

Min(a, b) == IF a < b THEN a ELSE b
Huge == Phys + 1   \* an operand that fits no budget and no machine

(* ---------------------------------------------------------------- skeleton programs
   Each instruction is a record; `g` on an alloc says which guard variant applies.      *)
I(op)        == [op |-> op, to |-> 0, g |-> "", n |-> ""]
J(op, to)    == [op |-> op, to |-> to, g |-> "", n |-> ""]
A(g, n)      == [op |-> "alloc", to |-> 0, g |-> g, n |-> n]   \* n: "dbl" (2*size) | "huge" | "par" (the result size chosen in Init)
H(n)         == [op |-> "hostloop", to |-> 0, g |-> "", n |-> n]

Prog(s) ==
  CASE s = "loop"        -> << I("node"), I("tick"), J("jmp", 1) >>                   \* for true { vtick() }
    [] s = "loopempty"   -> << I("node"), J("jmp", 1) >>                              \* for true { }
    [] s = "recurse"     -> << J("call", 2), I("tick"), I("node"), J("call", 2) >>    \* f = func(n) { vtick(); 1 + f(n+1) }
    [] s = "mutual"      -> << J("call", 2), I("tick"), J("call", 4), I("node"), J("call", 2) >>
    [] s = "closures"    -> << J("call", 2), I("node"), I("tick"), J("call", 2) >>    \* mk = func(n) { func() { vtick(); mk(n+1)() } }
    [] s = "sconcat"     -> << I("node"), I("tick"), I("node"), A("string", "dbl"), H("granted"), I("drop"), J("jmp", 1) >>
    [] s = "aconcat"     -> << I("node"), I("tick"), I("node"), A("always", "dbl"), H("granted"), I("drop"), J("jmp", 1) >>
    [] s = "srepeat"     -> << I("node"), A("always", "huge"), H("granted"), I("ret") >>      \* "abcdefgh" * (1<<40)
    [] s = "arepeat"     -> << I("node"), A("always", "huge"), H("granted"), I("ret") >>      \* [1,2,3,4] * (1<<40)
    [] s = "arepeatwrap" -> << I("node"), A("product", "huge"), H("count"), I("ret") >>       \* [1,2,3,4] * (1<<62)
    [] s = "range"       -> << I("node"), A("always", "huge"), H("granted"), I("ret") >>      \* 0:(1<<40)
    [] s \in {"nest", "nestmid"} -> << I("pnest"), I("punnest"), I("enest"), I("eunnest"), I("ret") >>
    [] s = "sleep"       -> << I("node"), I("sleep"), I("ret") >>
    \* len(regsub("a", s, s)), join(a, sep), sprintf("%1000000d"...), json(x), split, runes, base64: one library call
    \* whose result is much larger than its arguments - around the budget ("half", "over") or beyond any ("huge")
    [] s = "libgrow"     -> << I("node"), A("library", "par"), H("granted"), I("ret") >>
    \* func f(n){if n==0{return 0}; println("x"*par); f(n-1)}; f(maxDepth): every level prints, every return copies
    \* what was captured below into the caller's capture
    [] s = "output"      -> << J("call", 2), I("tick"), I("print"), J("callif", 2), I("retn"), I("ret") >>
    \* func f(n){vtick(); if true {f(n+1)}}; f(0): one more level of evaluator nesting in every call
    [] s = "recnest"     -> << J("call", 2), I("tick"), I("enest1"), J("call", 2) >>
    \* func f(n){-(-(-(n)))}; f(3): the nested body is rewritten (ast.Modify) before it is evaluated
    [] s = "rewrite"     -> << I("pnest"), I("punnest"), I("rnest"), I("enest"), I("eunnest"), I("ret") >>
    \* AutoLoad of a saved state of `par` lines, then SetContext(ctx, MaxDuration), then for true {vtick()}
    [] s = "autoload"    -> << I("load"), I("arm"), I("node"), I("tick"), J("jmp", 3) >>

\* the size parameter of a skeleton (chosen in Init)
Params(s) == CASE s = "libgrow"  -> {"half", "over", "huge"}
               [] s = "output"   -> {1, 2}
               [] s = "autoload" -> {0, LoadSlow}
               [] OTHER          -> {0}

\* the state as a record, so that the step function can also be iterated inside one TLC
\* evaluation (RunClass below predicts the outcome of the deterministic rest of a schedule)
Cur == [sk |-> sk, maxDepth |-> maxDepth, budget |-> budget, par |-> par, timer |-> timer, pc |-> pc, status |-> status, class |-> class,
        depth |-> depth, scope |-> scope, gostack |-> gostack, nodes |-> nodes, ticks |-> ticks,
        cancelled |-> cancelled, mem |-> mem, size |-> size, granted |-> granted, cnt |-> cnt,
        after |-> after, hostAfter |-> hostAfter, ticksAfter |-> ticksAfter, used |-> used]

Levels(s) == CASE s.sk = "nest" -> NestN [] s.sk = "rewrite" -> NestR [] OTHER -> NestM
Pow2(n) == 2 ^ n
Running(s) == s.status \in {"run", "unwind", "panic"}

Fail(s, c)  == [s EXCEPT !.status = "unwind", !.class = c]       \* an error object bubbles up
Panic(s, c) == [s EXCEPT !.status = "panic", !.class = c]        \* a Go panic flies to the REPL boundary
Die(s, c)   == [s EXCEPT !.status = "dead", !.class = c]         \* fatal error: the process is gone
Use(s, d)   == [s EXCEPT !.used = @ \cup {d}]

\* evalInternal's first statement
CtxCheck(s, cont) == IF s.cancelled THEN Fail(s, "ctxerr") ELSE cont

\* one more Go frame; fatal beyond the capacity of the Go stack
Push(s) == IF s.gostack + 1 > StackCap THEN Die([s EXCEPT !.gostack = StackCap + 1], "stackoverflow")
           ELSE [s EXCEPT !.gostack = @ + 1]

\* allocate n units now (no question asked); fatal beyond physical memory
Take(s, n) == IF s.mem + n > Phys THEN Die([s EXCEPT !.mem = Phys + 1], "oom")
              ELSE [s EXCEPT !.mem = @ + n]

\* MustBeOk(n): refuse BEFORE allocating
Guarded(s, n, cont) == IF s.mem + n > s.budget THEN Panic(s, "memrefused") ELSE cont

\* Eval() entered for a function body: the depth check comes before anything else (before the context check of the body)
DoCall(s, to) ==
  IF s.depth > s.maxDepth THEN Panic(s, "maxdepth")
  ELSE LET e == Push([s EXCEPT !.pc = to, !.depth = @ + 1, !.scope = @ + 1])
       IN IF e.status = "dead" THEN e
          ELSE IF "StackUnbudgeted" \in Dev THEN Use(Take(e, 1), "StackUnbudgeted")
          ELSE Guarded(s, 1, Take(e, 1))       \* the frame is charged to the budget

(* The evaluator's step function on a running state. *)
StepF(s) ==
  LET ins == Prog(s.sk)[s.pc]
      nx  == [s EXCEPT !.pc = @ + 1]
  IN
  CASE s.status = "unwind" ->
         \* the error object is returned through every pending Eval: depth--, frames popped
         IF s.depth > 0 \/ s.gostack > 0 \/ s.scope > 0
         THEN [s EXCEPT !.depth = IF @ > 0 THEN @ - 1 ELSE 0, !.gostack = IF @ > 0 THEN @ - 1 ELSE 0,
                        !.scope = IF @ > 0 THEN @ - 1 ELSE 0]
         ELSE [s EXCEPT !.status = "returned"]
    [] s.status = "panic" ->
         \* Recover: repl.EvalOne's deferred recover() + State.Reset()
         IF "NoResetOnRecover" \in Dev
         THEN Use([s EXCEPT !.status = "returned", !.gostack = 0], "NoResetOnRecover")
         ELSE [s EXCEPT !.status = "returned", !.depth = 0, !.scope = 0, !.gostack = 0]
    [] ins.op = "node" -> CtxCheck(s, [nx EXCEPT !.nodes = Min(@ + 1, NMax)])
    [] ins.op = "tick" -> CtxCheck(s, [nx EXCEPT !.nodes = Min(@ + 1, NMax), !.ticks = Min(@ + 1, TMax),
                                               !.ticksAfter = IF s.cancelled THEN Min(@ + 1, 1) ELSE @])
    [] ins.op = "jmp"  -> [s EXCEPT !.pc = ins.to]
    [] ins.op = "call" -> DoCall(s, ins.to)
    [] ins.op = "callif" ->
         \* the recursion of "output" ends by itself, at the depth limit (never beyond it)
         IF s.depth < s.maxDepth THEN DoCall(s, ins.to) ELSE nx
    [] ins.op = "print" ->
         \* println("x"*par): the operand is built under the guard; the text lands in the capture of the current call
         Guarded(s, s.par, [Take(nx, s.par) EXCEPT !.size = Min(@ + s.par, SMax)])
    [] ins.op = "retn" ->
         \* a call returns: what it captured (size) is kept for the memo cache and copied into the caller's capture
         IF s.depth = 0 THEN nx
         ELSE LET r  == [s EXCEPT !.depth = @ - 1, !.scope = IF @ > 0 THEN @ - 1 ELSE 0, !.gostack = IF @ > 0 THEN @ - 1 ELSE 0]
                  ok == [Take(r, s.size) EXCEPT !.granted = s.size]
              IN IF "CapturedOutputUnbudgeted" \in Dev THEN Use(ok, "CapturedOutputUnbudgeted")
                 ELSE Guarded(s, s.size, ok)
    [] ins.op = "enest1" ->
         \* one level of evaluator nesting inside the body (if block, array literal, argument): by design it passes the
         \* depth check like a call does
         CtxCheck(s,
           IF "NestingUnguarded" \in Dev THEN Use(Push([nx EXCEPT !.nodes = Min(@ + 1, NMax)]), "NestingUnguarded")
           ELSE IF s.depth > s.maxDepth THEN Panic(s, "maxdepth")
           ELSE Push([nx EXCEPT !.depth = @ + 1, !.nodes = Min(@ + 1, NMax)]))
    [] ins.op = "rnest" ->
         \* ast.Modify over the nested body: a host-level recursion (no context check); by design every level is visited
         \* once, so the phase is bounded by the size of the source text
         LET total == IF "RewriteRevisits" \in Dev THEN Min(Pow2(Levels(s)), SMax) ELSE Levels(s)
         IN IF s.cnt >= total THEN [nx EXCEPT !.cnt = 0]
            ELSE IF "RewriteRevisits" \in Dev THEN Use([s EXCEPT !.cnt = @ + 1], "RewriteRevisits")
            ELSE [s EXCEPT !.cnt = @ + 1]
    [] ins.op = "load" ->
         \* repl.AutoLoad: one saved binding per step, evaluated before the deadline is armed; bounded by the file
         IF s.cnt >= s.par THEN [nx EXCEPT !.cnt = 0]
         ELSE [s EXCEPT !.cnt = @ + 1]
    [] ins.op = "arm" ->
         \* State.SetContext(ctx, MaxDuration): the deadline counts from here, whatever happened before
         IF "DeadlineNetOfLoad" \in Dev /\ s.par >= LoadSlow
         THEN Use([nx EXCEPT !.timer = "off"], "DeadlineNetOfLoad")   \* nothing left of MaxDuration: d <= 0 = unlimited
         ELSE nx
    [] ins.op = "alloc" ->
         LET n  == CASE ins.n = "dbl" -> Min(2 * s.size, SMax)
                     [] ins.n = "par" /\ s.par = "half" -> s.budget \div 2   \* fits: granted or refused, never fatal
                     [] ins.n = "par" /\ s.par = "over" -> s.budget          \* with what is live already: just too much
                     [] OTHER -> Huge
             ok == [Take(nx, n) EXCEPT !.granted = n, !.size = n]
         IN (CASE ins.g = "always" -> Guarded(s, n, ok)
              [] ins.g = "string" -> IF "StringConcatUnguarded" \in Dev THEN Use(ok, "StringConcatUnguarded")
                                     ELSE Guarded(s, n, ok)
              [] ins.g = "library" -> IF "LibraryResultUnguarded" \in Dev THEN Use(ok, "LibraryResultUnguarded")
                                      ELSE Guarded(s, n, ok)
              [] ins.g = "product" ->
                   \* the size is a product computed in machine integers; when it wraps the guard sees 0
                   IF "RepeatSizeOverflow" \in Dev THEN Use([nx EXCEPT !.granted = 0, !.size = Huge], "RepeatSizeOverflow")
                   ELSE Guarded(s, n, ok))
    [] ins.op = "hostloop" ->
         \* cnt iterations done so far; the loop runs `size` times whatever was granted
         IF s.cnt >= s.size THEN [nx EXCEPT !.cnt = 0]
         ELSE LET it == [s EXCEPT !.cnt = @ + 1, !.hostAfter = IF s.cancelled THEN Min(@ + 1, SMax + 1) ELSE @]
              IN IF s.cnt < s.granted THEN it     \* fills memory that the guard granted
                 ELSE Take(it, 1)                  \* append beyond what was granted: grows unchecked
    [] ins.op = "drop" -> [nx EXCEPT !.mem = s.size]   \* the old operand is garbage now
    [] ins.op = "sleep" ->
         IF s.cancelled /\ "SleepIgnoresContext" \notin Dev THEN Fail(s, "ctxerr")
         ELSE IF "SleepIgnoresContext" \in Dev THEN Use(s, "SleepIgnoresContext") \* time.Sleep(forever)
         ELSE s                                                                   \* still asleep
    [] ins.op = "pnest" ->
         \* parser: one more level of "((((" - by design with the same two guards as the evaluator
         IF s.cnt >= Levels(s) THEN [nx EXCEPT !.cnt = 0]
         ELSE IF "NestingUnguarded" \in Dev THEN Use(Push([s EXCEPT !.cnt = @ + 1]), "NestingUnguarded")
         ELSE CtxCheck(s, IF s.gostack > s.maxDepth THEN Panic(s, "maxdepth") ELSE Push([s EXCEPT !.cnt = @ + 1]))
    [] ins.op = "punnest" -> [nx EXCEPT !.gostack = 0]
    [] ins.op = "enest" ->
         IF s.cnt >= Levels(s) THEN [nx EXCEPT !.cnt = 0]
         ELSE CtxCheck(s,
                IF "NestingUnguarded" \in Dev THEN Use(Push([s EXCEPT !.cnt = @ + 1, !.nodes = Min(@ + 1, NMax)]), "NestingUnguarded")
                ELSE IF s.depth > s.maxDepth THEN Panic(s, "maxdepth")
                ELSE Push([s EXCEPT !.cnt = @ + 1, !.depth = @ + 1, !.nodes = Min(@ + 1, NMax)]))
    [] ins.op = "eunnest" -> [nx EXCEPT !.gostack = 0, !.depth = 0]
    [] ins.op = "ret" -> [s EXCEPT !.status = "returned", !.class = "value"]

\* after Cancel: count the evaluator's steps (iterations of a host loop are counted apart, in
\* hostAfter; loading a line of the saved state and visiting a level of a body being rewritten are
\* bounded by the size of the file / the source text (SourceBound); returning an error / flying a
\* panic is not evaluating)
Step1(s) ==
  LET n == StepF(s) IN
  IF n = s THEN s
  ELSE IF s.cancelled /\ s.status = "run" /\ ~(Prog(s.sk)[s.pc].op \in {"hostloop", "load", "rnest"} /\ n.cnt = s.cnt + 1)
  THEN [n EXCEPT !.after = Min(@ + 1, K + 1)]
  ELSE n

\* --------------------------------------------------------------- prediction for GEN
RECURSIVE Run(_, _)
Run(s, fuel) == IF ~Running(s) THEN s
                ELSE IF fuel = 0 THEN [s EXCEPT !.class = "diverges"]
                ELSE Run(Step1(s), fuel - 1)
Fuel == 4 * (NMax + TMax + SMax + NestN + StackCap + Phys) + 50
RunClass(s) == LET r == Run(s, Fuel) IN [class |-> r.class, status |-> r.status, used |-> r.used,
                                         after |-> r.after, hostAfter |-> r.hostAfter]

\* --------------------------------------------------------------- the machine
Init ==
  /\ sk \in Skeletons /\ maxDepth \in MaxDepths /\ budget \in Budgets
  /\ par \in Params(sk) /\ timer = "on"
  /\ pc = 1 /\ status = "run" /\ class = "none"
  /\ depth = 0 /\ scope = 0 /\ gostack = 0 /\ nodes = 0 /\ ticks = 0 /\ cancelled = FALSE
  /\ mem = 1 /\ size = 1 /\ granted = 0 /\ cnt = 0 /\ after = 0 /\ hostAfter = 0 /\ ticksAfter = 0
  /\ used = {}

Assign(n) ==
  /\ pc' = n.pc /\ status' = n.status /\ class' = n.class
  /\ depth' = n.depth /\ scope' = n.scope /\ gostack' = n.gostack /\ nodes' = n.nodes /\ ticks' = n.ticks
  /\ cancelled' = n.cancelled /\ mem' = n.mem /\ size' = n.size /\ granted' = n.granted /\ cnt' = n.cnt
  /\ after' = n.after /\ hostAfter' = n.hostAfter /\ ticksAfter' = n.ticksAfter /\ used' = n.used
  /\ timer' = n.timer
  /\ UNCHANGED <<sk, maxDepth, budget, par>>

Sched(k, pred) == [sk |-> sk, md |-> maxDepth, bud |-> budget, par |-> par, k |-> k, ksat |-> (ticks = TMax),
                   pc |-> pc, op |-> Prog(sk)[pc].op, st |-> status, depth |-> depth, size |-> size,
                   pred |-> pred.class, pstatus |-> pred.status, used |-> pred.used,
                   after |-> pred.after, hostafter |-> pred.hostAfter]

\* the evaluator (and the parser, and the unwinding) makes one step
Step ==
  /\ Running(Cur)
  /\ LET n == Step1(Cur) IN
     /\ n # Cur          \* sleeping is not a step
     /\ Assign(n)
     \* a schedule WITHOUT cancellation ends here: emit it with its outcome
     /\ (EmitOn /\ ~cancelled /\ ~Running(n)) =>
          EmitLine(ToJson(Sched(-1, [class |-> n.class, status |-> n.status, used |-> n.used, after |-> 0, hostAfter |-> 0])))

\* the context is cancelled / the deadline expires: possible at EVERY instant of a running evaluation
\* for which a deadline is armed (timer = "on": always, by design)
Cancel ==
  /\ Running(Cur) /\ ~cancelled /\ timer = "on"
  /\ cancelled' = TRUE
  /\ UNCHANGED <<sk, maxDepth, budget, par, timer, pc, status, class, depth, scope, gostack, nodes, ticks, mem, size,
                 granted, cnt, after, hostAfter, ticksAfter, used>>
  /\ EmitOn => EmitLine(ToJson(Sched(ticks, RunClass([Cur EXCEPT !.cancelled = TRUE]))))

\* The evaluator's step under the names of the mechanisms it stands for (the same transition
\* relation as Step, split by the instruction about to execute; TLC's coverage shows each).
OpNow    == IF status = "run" THEN Prog(sk)[pc].op ELSE status
EvalNode == OpNow \in {"node", "tick", "sleep", "pnest", "enest", "enest1"} /\ Step  \* context check first, then the node
Enter    == OpNow \in {"call", "callif"} /\ Step                          \* Eval(): depth check, depth++ (GuardPanic "max depth")
Leave    == OpNow \in {"unwind", "punnest", "eunnest", "retn"} /\ Step   \* depth--, frames popped (retn: the capture is copied up)
Alloc    == OpNow \in {"alloc", "drop", "print"} /\ Step                 \* MustBeOk(n) (GuardPanic "would exceed memory")
HostLoop == OpNow \in {"hostloop", "rnest", "load"} /\ Step              \* Go-level loop, no evaluator re-entry
Control  == OpNow \in {"jmp", "ret", "arm"} /\ Step
Recover  == OpNow = "panic" /\ Step                                      \* REPL boundary: recover() + State.Reset()

Next == EvalNode \/ Enter \/ Leave \/ Alloc \/ HostLoop \/ Control \/ Recover \/ Cancel

Spec     == Init /\ [][Next]_vars
\* weak fairness on the evaluator's steps, and the deadline does expire
FairSpec == Spec /\ WF_vars(Step) /\ WF_vars(Cancel)

\* --------------------------------------------------------------- properties
TypeOK ==
  /\ depth \in 0..(StackCap + 1) /\ gostack \in 0..(StackCap + 1) /\ mem \in 0..(Phys + 1)
  /\ nodes \in 0..NMax /\ ticks \in 0..TMax /\ after \in 0..(K + 1) /\ ticksAfter \in 0..1
  /\ status \in {"run", "unwind", "panic", "returned", "dead"}

\* recursion beyond the limit is a recoverable failure, never a Go stack overflow
DepthBound == depth <= maxDepth + 1 /\ gostack <= maxDepth + 1
\* the host process never dies
NoDeath == status # "dead"
\* an allocation beyond the budget is refused before it happens
MemBound == mem <= budget
\* a host-level loop only runs over what the guard granted
HostLoopCovered == (Running(Cur) /\ Prog(sk)[pc].op = "hostloop") => size <= granted
\* rewriting a body (registers, quote, macro expansion) visits every level of the source once: the phase is not
\* under the deadline, it is bounded by the size of the source text
SourceBound == (Running(Cur) /\ status = "run" /\ Prog(sk)[pc].op = "rnest") => cnt <= Levels(Cur)
\* after Cancel: at most K further evaluator steps, no further user-visible effect,
\* and a host loop in flight is bounded by the budget
PromptStop == cancelled => (after <= K /\ ticksAfter = 0 /\ hostAfter <= budget)
\* the REPL boundary hands back a clean State
BoundaryClean == status = "returned" => (depth = 0 /\ scope = 0 /\ gostack = 0)
\* refusals are recoverable results, not deaths; a growth operator never returns a value
\* for an operand that fits no budget
RefuseHuge == (status = "returned" /\ (sk \in {"srepeat", "arepeat", "arepeatwrap", "range"} \/ (sk = "libgrow" /\ par # "half")))
                 => class # "value"

\* with a deadline set, the evaluation returns
Returns == <>(status \in {"returned", "dead"})
Live    == Returns /\ <>[](status = "returned")
=============================================================================
