----------------------------- MODULE GrolSyntax -----------------------------
(* Abstract syntax of grol, its operator table, and BOUNDED GENERATORS of programs
   (C02 / C03; DESIGN.md 3.2).

   A tree is a record whose field k is the node kind, with exactly the kinds and field
   names of the canonical structural dump of a parsed program (harness/astj.go dumpNode):

     id{n} int{v} float{v} bool{v} str{v} arr{e} map{p} pre{op,r} post{op,n}
     inf{op,l,r} asg{def,l,r} idx{l,i} dot{l,n} call{f,a} bi{n,a}
     fn{name,ps,variadic,lambda,body} if{c,t,he,e} for{c,body} ret{e} brk cnt
     cmt{text,sp,sn} none
     dotbad{l,i}   a dot whose right side is not one identifier / string token: a.(b+c), a.(f(1)), a.(1)
                   (the parser accepts it - the right side of `.` is any expression binding tighter than `.`,
                   so a parenthesised one - and only the evaluator refuses it)

   plus two generator-only leaves that stand for a *source spelling*:
     raw{text}   a numeric literal written exactly as `text` (.5 1. 1e3 0x10 0b1 1_000 ...)
     strb{b}     a string literal whose value is the byte sequence b (values 0..255)

   The generators enumerate small-scope families; TLC emits every tree as one JSON line
   (GEN).  The Go harness renders each tree to source text in three styles, runs the REAL
   parser and printer on it and hands the recorded behaviour to Format_Trace.tla.  The
   reference renderer only PRODUCES inputs; no layout is prescribed anywhere.              *)
EXTENDS Integers, Sequences, FiniteSets, TLC, Json, GrolPrims

CONSTANTS Families,   \* set of family names to emit (see Next)
          Thorough    \* BOOLEAN: larger bounds

\* ------------------------------------------------------------------ operator table
\* Binding strength of the infix operators (higher binds tighter).  Must equal `prec` in
\* harness/gen.go (checked at run time from the emitted "prec" line) and describes
\* ast.Precedences of the implementation: the renderer that produces inputs uses it.
Prec == ("=" :> 2) @@ (":=" :> 2) @@ ("||" :> 3) @@ ("&&" :> 4) @@ (":" :> 4) @@ ("=>" :> 5)
     @@ ("==" :> 6) @@ ("!=" :> 6) @@ ("<" :> 7) @@ (">" :> 7) @@ ("<=" :> 7) @@ (">=" :> 7)
     @@ ("+" :> 8) @@ ("-" :> 8) @@ ("|" :> 8) @@ ("^" :> 8)
     @@ ("*" :> 9) @@ ("%" :> 9) @@ ("&" :> 9) @@ ("<<" :> 9) @@ (">>" :> 9) @@ ("/" :> 10)

\* every infix operator groups to the left, the lambda arrow to the right
Assoc == [op \in DOMAIN Prec |-> IF op = "=>" THEN "right" ELSE "left"]

PrecLowest == 1    PrecLambda == 5    PrecPrefix == 11
PrecCall   == 12   PrecIndex  == 13   PrecDot    == 14   PrecAtom == 20

InfixOps  == <<"||", "&&", ":", "==", "!=", "<", ">", "<=", ">=", "+", "-", "|", "^",
               "*", "%", "&", "<<", ">>", "/">>              \* kind inf
PrefixOps == <<"-", "+", "!", "~", "^", "++", "--">>         \* kind pre
PostfixOps == <<"++", "--">>                                  \* kind post (on an identifier)
Builtins  == {"len", "first", "rest", "print", "println", "log", "error", "catch", "quote", "unquote", "del"}

\* ------------------------------------------------------------------ constructors
None        == [k |-> "none"]
Id(n)       == [k |-> "id", n |-> n]
IntL(v)     == [k |-> "int", v |-> v]                 \* v: decimal string
FloatL(b)   == [k |-> "float", v |-> b]               \* b: 16 hex digits of the IEEE bits
BoolL(b)    == [k |-> "bool", v |-> b]
StrB(bs)    == [k |-> "strb", b |-> bs]
Raw(t)      == [k |-> "raw", text |-> t]
Pre(op, r)  == [k |-> "pre", op |-> op, r |-> r]
Post(op, n) == [k |-> "post", op |-> op, n |-> n]
Inf(op, l, r) == [k |-> "inf", op |-> op, l |-> l, r |-> r]
Asg(def, l, r) == [k |-> "asg", def |-> def, l |-> l, r |-> r]
Idx(l, i)   == [k |-> "idx", l |-> l, i |-> i]
Dot(l, n)   == [k |-> "dot", l |-> l, n |-> n]
DotBad(l, i) == [k |-> "dotbad", l |-> l, i |-> i]
\* the dot with c on its right side: one identifier token is the ordinary dot; a string token is one too (same tree as
\* the identifier spelling: generated as such); everything else is the general form
DotI(l, c)  == CASE c.k = "id" -> Dot(l, c.n) [] c.k = "strb" -> Dot(l, "key") [] OTHER -> DotBad(l, c)
Call(f, a)  == [k |-> "call", f |-> f, a |-> a]
Bi(n, a)    == [k |-> "bi", n |-> n, a |-> a]
Arr(e)      == [k |-> "arr", e |-> e]
MapL(p)     == [k |-> "map", p |-> p]                 \* p: sequence of <<key, value>>
If(c, t)    == [k |-> "if", c |-> c, t |-> t, he |-> FALSE, e |-> <<>>]
IfElse(c, t, e) == [k |-> "if", c |-> c, t |-> t, he |-> TRUE, e |-> e]
For(c, b)   == [k |-> "for", c |-> c, body |-> b]
Ret(e)      == [k |-> "ret", e |-> e]
Brk         == [k |-> "brk"]
Cnt         == [k |-> "cnt"]
Fn(name, ps, variadic, lambda, body) ==
  [k |-> "fn", name |-> name, ps |-> ps, variadic |-> variadic, lambda |-> lambda, body |-> body]
Lam(ps, body)  == Fn("", ps, FALSE, TRUE, body)
Cmt(text, sp, sn) == [k |-> "cmt", text |-> text, sp |-> sp, sn |-> sn]

\* ------------------------------------------------------------------ well-formedness
\* What the parser can produce for kinds the generators use (identifier-only positions).
IsIdent(s) == s \in {"a", "b", "c", "d", "f", "g", "i", "j", "x", "y", "z", "m", "nil", "..", "key", "k1", "e3", "_x"}
RECURSIVE WF(_)
WFSeq(s) == \A i \in 1..Len(s) : WF(s[i])
\* a bare `return` can only be the last statement of a list (the parser rejects `return;`).  WF is what the tree
\* generators rely on; whether the REAL parser produces more than this is not assumed anywhere: the source-level family
\* (GenSources) hands texts such as `return` newline `a` to the real parser and judges whatever tree comes out.
WFList(s) == WFSeq(s) /\ \A i \in 1..Len(s) : (s[i].k = "ret" /\ s[i].e.k = "none") => i = Len(s)
WF(t) ==
  CASE t.k \in {"none", "brk", "cnt", "int", "float", "bool", "raw"} -> TRUE
    [] t.k = "id"   -> IsIdent(t.n)
    [] t.k = "strb" -> \A i \in 1..Len(t.b) : t.b[i] \in 0..255
    [] t.k = "cmt"  -> t.sp \in BOOLEAN /\ t.sn \in BOOLEAN
    [] t.k = "pre"  -> (\E i \in 1..Len(PrefixOps) : PrefixOps[i] = t.op) /\ WF(t.r)
    [] t.k = "post" -> t.op \in {"++", "--"} /\ IsIdent(t.n)
    [] t.k = "inf"  -> t.op \in DOMAIN Prec /\ WF(t.l) /\ WF(t.r) /\ (t.r.k = "none" => t.op = ":")
    [] t.k = "asg"  -> t.def \in BOOLEAN /\ WF(t.l) /\ WF(t.r)
    [] t.k = "idx"  -> WF(t.l) /\ WF(t.i)
    [] t.k = "dot"  -> WF(t.l) /\ IsIdent(t.n)
    [] t.k = "dotbad" -> WF(t.l) /\ WF(t.i) /\ t.i.k \notin {"id", "str", "strb", "none", "cmt"}
    [] t.k = "call" -> WF(t.f) /\ WFSeq(t.a)
    [] t.k = "bi"   -> t.n \in Builtins /\ WFSeq(t.a)
    [] t.k = "arr"  -> WFSeq(t.e)
    [] t.k = "map"  -> \A i \in 1..Len(t.p) : WF(t.p[i][1]) /\ WF(t.p[i][2])
    [] t.k = "if"   -> WF(t.c) /\ WFList(t.t) /\ WFList(t.e) /\ (~t.he => t.e = <<>>)
    [] t.k = "for"  -> WF(t.c) /\ WFList(t.body)
    [] t.k = "ret"  -> WF(t.e)
    [] t.k = "fn"   -> /\ \A i \in 1..Len(t.ps) : IsIdent(t.ps[i])
                       /\ (t.variadic <=> (Len(t.ps) > 0 /\ t.ps[Len(t.ps)] = ".."))
                       /\ (t.lambda => t.name = "")
                       /\ WFList(t.body)
    [] OTHER -> FALSE

\* binding strength of a node when it is an operand (what decides parentheses)
NodePrec(t) ==
  CASE t.k = "inf" -> Prec[t.op]
    [] t.k = "asg" -> 2
    [] t.k = "pre" -> PrecPrefix
    [] t.k = "fn"  -> PrecLambda
    [] t.k \in {"if", "for"} -> PrecLowest
    [] OTHER -> PrecAtom
\* an operand t in a position that requires binding strength above ctx is written in parentheses
ParenNeeded(ctx, t) == NodePrec(t) <= ctx
\* contexts: left operand of op: Prec[op]-1 ; right operand: Prec[op] (left associativity);
\* operand of a prefix operator: PrecPrefix-1 ; callee: PrecCall-1 ; indexed: PrecIndex-1 ; dotted: PrecDot-1

\* ------------------------------------------------------------------ bounded generators
A == Id("a")   B == Id("b")   C3 == Id("c")   Z == Id("z")   One == IntL("1")   Two == IntL("2")
\* the one integer literal token that starts with a sign character: the parser folds `-` INT into ONE int token
\* when the value is -2^63 (9223372036854775808 alone is not an integer); also spelled in hex
MinInt == IntL("-9223372036854775808")
MinIntHex == Raw("-0x8000000000000000")

\* ---- one-hole operand contexts (the "parent" of an operator pair)
InfixAll == InfixOps \o <<"=", ":=">>
MkInf(op, l, r) == IF op = "=" THEN Asg(FALSE, l, r) ELSE IF op = ":=" THEN Asg(TRUE, l, r) ELSE Inf(op, l, r)

OtherCtxNames == <<"idxL", "idxI", "dotL", "dotI", "callF", "callA", "callA2", "sliceL", "sliceLo", "sliceHi", "sliceOpen",
                   "lamBody", "lamBlock", "funcBody", "mapK", "mapV", "mapK2", "arrE", "biA", "ret", "ifC", "ifT", "forC", "forAsg", "stmt">>
Contexts ==
     [i \in 1..Len(InfixAll)  |-> [ctx |-> "infL", op |-> InfixAll[i]]]
  \o [i \in 1..Len(InfixAll)  |-> [ctx |-> "infR", op |-> InfixAll[i]]]
  \o [i \in 1..Len(PrefixOps) |-> [ctx |-> "pre",  op |-> PrefixOps[i]]]
  \o [i \in 1..Len(OtherCtxNames) |-> [ctx |-> OtherCtxNames[i], op |-> ""]]

Plug(p, c) ==
  CASE p.ctx = "infL"    -> MkInf(p.op, c, Z)
    [] p.ctx = "infR"    -> MkInf(p.op, Z, c)
    [] p.ctx = "pre"     -> Pre(p.op, c)
    [] p.ctx = "idxL"    -> Idx(c, One)
    [] p.ctx = "idxI"    -> Idx(Z, c)
    [] p.ctx = "dotL"    -> Dot(c, "key")
    [] p.ctx = "dotI"    -> DotI(Z, c)
    [] p.ctx = "infRpost" -> MkInf(p.op, Post(IF p.op = "+" THEN "++" ELSE "--", "i"), c)   \* i-- - c, i++ + c
    [] p.ctx = "callF"   -> Call(c, <<One>>)
    [] p.ctx = "callA"   -> Call(Id("f"), <<c>>)
    [] p.ctx = "callA2"  -> Call(Id("f"), <<One, c, Two>>)
    [] p.ctx = "sliceL"  -> Idx(c, Inf(":", One, Two))
    [] p.ctx = "sliceLo" -> Idx(Z, Inf(":", c, Two))
    [] p.ctx = "sliceHi" -> Idx(Z, Inf(":", One, c))
    [] p.ctx = "sliceOpen" -> Idx(Z, Inf(":", c, None))
    [] p.ctx = "lamBody" -> Lam(<<"x">>, <<c>>)
    [] p.ctx = "lamBlock" -> Lam(<<"x", "y">>, <<One, c>>)
    [] p.ctx = "funcBody" -> Fn("", <<"x">>, FALSE, FALSE, <<c>>)
    [] p.ctx = "mapK"    -> MapL(<< <<c, One>> >>)
    [] p.ctx = "mapV"    -> MapL(<< <<One, c>> >>)
    [] p.ctx = "mapK2"   -> MapL(<< <<One, Two>>, <<c, One>> >>)
    [] p.ctx = "arrE"    -> Arr(<<One, c>>)
    [] p.ctx = "biA"     -> Bi("len", <<c>>)
    [] p.ctx = "ret"     -> Ret(c)
    [] p.ctx = "ifC"     -> If(c, <<One>>)
    [] p.ctx = "ifT"     -> IfElse(Z, <<c>>, <<c>>)
    [] p.ctx = "forC"    -> For(c, <<One>>)
    [] p.ctx = "forAsg"  -> For(Asg(FALSE, Id("i"), c), <<One>>)
    [] p.ctx = "stmt"    -> c

\* ---- operand forms (the "child" of an operator pair)
Children ==
     [i \in 1..Len(InfixAll)  |-> MkInf(InfixAll[i], A, B)]
  \o [i \in 1..Len(PrefixOps) |-> Pre(PrefixOps[i], A)]
  \o << Post("++", "i"), Post("--", "i"),
        Idx(A, One), Idx(A, Inf(":", One, Two)), Idx(A, Inf(":", One, None)), Dot(A, "b"), Call(Id("f"), <<A>>), Call(Id("f"), <<>>),
        Lam(<<"x">>, <<Id("x")>>), Lam(<<"x", "y">>, <<Id("x")>>), Lam(<<>>, <<One>>), Lam(<<"x">>, <<Lam(<<"y">>, <<Id("x")>>)>>),
        Lam(<<"x">>, <<MapL(<< <<One, Two>> >>)>>), Lam(<<"x">>, <<Inf("+", Id("x"), One), Id("x")>>),
        Fn("", <<"x">>, FALSE, FALSE, <<Id("x")>>), Fn("g", <<"x">>, FALSE, FALSE, <<Id("x")>>),
        A, One, IntL("0"), FloatL("3ff8000000000000"), Raw(".5"), Raw("1."), StrB(<<97>>), StrB(<<>>), BoolL(TRUE),
        Arr(<<One, Two>>), Arr(<<>>), Arr(<<Inf(":", One, None)>>), MapL(<< <<One, Two>> >>), MapL(<<>>),
        IfElse(A, <<One>>, <<Two>>), If(A, <<One>>), For(A, <<One>>), Bi("len", <<A>>), Id("nil"),
        DotBad(A, Inf("+", A, B)), DotBad(A, Call(Id("f"), <<A>>)), MinInt >>

\* ---- the sign family at depth 3: - + ++ -- in every nesting (adjacency of sign characters)
SignCtx == << [ctx |-> "infL", op |-> "-"], [ctx |-> "infR", op |-> "-"], [ctx |-> "infL", op |-> "+"], [ctx |-> "infR", op |-> "+"],
              [ctx |-> "pre", op |-> "-"], [ctx |-> "pre", op |-> "+"], [ctx |-> "pre", op |-> "++"], [ctx |-> "pre", op |-> "--"],
              [ctx |-> "pre", op |-> "!"], [ctx |-> "infR", op |-> "*"], [ctx |-> "infL", op |-> "*"], [ctx |-> "infR", op |-> "="],
              [ctx |-> "infRpost", op |-> "-"], [ctx |-> "infRpost", op |-> "+"], [ctx |-> "callA2", op |-> ""], [ctx |-> "arrE", op |-> ""] >>
SignLeaf == << A, Post("++", "i"), Post("--", "i"), One, Pre("-", A), Pre("--", A), Pre("++", A), Pre("+", One), MinInt, MinIntHex >>

\* ---- representative operators for nesting depth 3 (one per binding level)
RepCtx ==
  LET ops == IF Thorough THEN <<"=", "||", "&&", ":", "==", "<", "+", "-", "*", "/">> ELSE <<"=", "==", "-">> IN
     [i \in 1..Len(ops) |-> [ctx |-> "infL", op |-> ops[i]]] \o [i \in 1..Len(ops) |-> [ctx |-> "infR", op |-> ops[i]]]
  \o << [ctx |-> "pre", op |-> "-"], [ctx |-> "pre", op |-> "!"], [ctx |-> "idxL", op |-> ""], [ctx |-> "idxI", op |-> ""],
        [ctx |-> "dotL", op |-> ""], [ctx |-> "callF", op |-> ""], [ctx |-> "callA", op |-> ""], [ctx |-> "lamBody", op |-> ""],
        [ctx |-> "mapK", op |-> ""], [ctx |-> "mapV", op |-> ""] >>
RepLeaf == << Inf("-", A, B), Inf("*", A, B), Inf("==", A, B), Inf("&&", A, B), Inf(":", A, B), Asg(FALSE, A, B),
              Pre("-", A), Pre("!", A), Post("++", "i"), Lam(<<"x">>, <<Id("x")>>), Idx(A, One), Call(Id("f"), <<A>>), A, One,
              IfElse(A, <<One>>, <<Two>>), MapL(<< <<One, Two>> >>) >>

\* ---- left-spine chains under a parenthesised right operand, for every precedence class.
\* a p (((b o1 c) o2 d) o3 g): whether the parentheses may go depends on EVERY operator of the class on the right
\* operand's left spine (a ^ (((b - c) ^ d) ^ g) without them is (((a ^ b) - c) ^ d) ^ g), not on the first one or two.
PrecClasses == << <<"||">>, <<"&&", ":">>, <<"==", "!=">>, <<"<", ">", "<=", ">=">>, <<"+", "-", "|", "^">>,
                  <<"*", "%", "&", "<<", ">>">>, <<"/">> >>
ASSUME \A k \in 1..Len(PrecClasses) : \A i, j \in 1..Len(PrecClasses[k]) : Prec[PrecClasses[k][i]] = Prec[PrecClasses[k][j]]
ASSUME \A i \in 1..Len(InfixOps) : \E k \in 1..Len(PrecClasses) : \E j \in 1..Len(PrecClasses[k]) : PrecClasses[k][j] = InfixOps[i]
Spine2(o1, o2) == Inf(o2, Inf(o1, B, C3), Id("d"))
Spine3(o1, o2, o3) == Inf(o3, Spine2(o1, o2), Id("g"))
Spine4(o1, o2, o3, o4) == Inf(o4, Spine3(o1, o2, o3), Id("j"))
\* a chain of d operators, all p except the deepest one: a p (((((b o1 c) p d) p d) p d) p d)
RECURSIVE SpineDeep(_, _, _)
SpineDeep(o1, p, d) == IF d = 1 THEN Inf(o1, B, C3) ELSE Inf(p, SpineDeep(o1, p, d - 1), Id("d"))

\* ---- statement kinds (every ordered pair, at top level and inside each kind of block)
Stmts == <<
  [n |-> "ident",     t |-> A],
  [n |-> "int",       t |-> One],
  [n |-> "float",     t |-> Raw(".5")],
  [n |-> "string",    t |-> StrB(<<115>>)],
  [n |-> "bool",      t |-> BoolL(TRUE)],
  [n |-> "assign",    t |-> Asg(FALSE, A, One)],
  [n |-> "define",    t |-> Asg(TRUE, B, Two)],
  [n |-> "infix",     t |-> Inf("+", A, B)],
  [n |-> "neg",       t |-> Pre("-", A)],
  [n |-> "not",       t |-> Pre("!", A)],
  [n |-> "preincr",   t |-> Pre("++", Id("i"))],
  [n |-> "postincr",  t |-> Post("++", "i")],
  [n |-> "postdecr",  t |-> Post("--", "i")],
  [n |-> "parenfirst", t |-> Inf("*", Inf("+", A, B), C3)],
  [n |-> "call",      t |-> Call(Id("f"), <<A>>)],
  [n |-> "builtin",   t |-> Bi("println", <<One>>)],
  [n |-> "array",     t |-> Arr(<<One, Two>>)],
  [n |-> "map",       t |-> MapL(<< <<StrB(<<107>>), One>> >>)],
  [n |-> "index",     t |-> Idx(A, One)],
  [n |-> "dot",       t |-> Dot(Id("m"), "key")],
  [n |-> "idxassign", t |-> Asg(FALSE, Idx(A, One), Two)],
  [n |-> "if",        t |-> If(A, <<One>>)],
  [n |-> "ifelse",    t |-> IfElse(A, <<One>>, <<Two>>)],
  [n |-> "elseif",    t |-> IfElse(A, <<One>>, <<IfElse(B, <<Two>>, <<IntL("3")>>)>>)],
  [n |-> "ifempty",   t |-> If(A, <<>>)],
  [n |-> "forcond",   t |-> For(Inf("<", Id("i"), Two), <<Post("++", "i")>>)],
  [n |-> "forcount",  t |-> For(IntL("3"), <<A>>)],
  [n |-> "forvar",    t |-> For(Asg(FALSE, Id("i"), IntL("3")), <<A>>)],
  [n |-> "forrange",  t |-> For(Asg(FALSE, Id("i"), Inf(":", One, IntL("3"))), <<A>>)],
  [n |-> "funcnamed", t |-> Fn("g", <<"x", "y">>, FALSE, FALSE, <<Inf("+", Id("x"), Id("y"))>>)],
  [n |-> "funcanon",  t |-> Fn("", <<"x">>, FALSE, FALSE, <<Id("x")>>)],
  [n |-> "funcvar",   t |-> Fn("g", <<"x", "..">>, TRUE, FALSE, <<Id("..")>>)],
  [n |-> "lambda",    t |-> Lam(<<"x">>, <<Id("x")>>)],
  [n |-> "lambda2",   t |-> Lam(<<"x", "y">>, <<Id("x"), Id("y")>>)],
  [n |-> "lambda0",   t |-> Lam(<<>>, <<One>>)],
  [n |-> "asglambda", t |-> Asg(FALSE, Id("f"), Lam(<<"x">>, <<Inf("*", Id("x"), Two)>>))],
  [n |-> "applied",   t |-> Call(Lam(<<"x">>, <<Id("x")>>), <<One>>)],
  [n |-> "return",    t |-> Ret(None)],
  [n |-> "returnv",   t |-> Ret(A)],
  [n |-> "break",     t |-> Brk],
  [n |-> "continue",  t |-> Cnt] >>

BlockCtxNames == IF Thorough THEN <<"top", "if", "else", "for", "func", "lambda">> ELSE <<"top", "func">>
InBlock(name, ss) ==
  CASE name = "top"    -> ss
    [] name = "if"     -> <<If(Z, ss)>>
    [] name = "else"   -> <<IfElse(Z, <<One>>, ss)>>
    [] name = "for"    -> <<For(Z, ss)>>
    [] name = "func"   -> <<Fn("g", <<"x">>, FALSE, FALSE, ss)>>
    [] name = "lambda" -> <<Asg(FALSE, Id("f"), Lam(<<"x">>, ss))>>

\* ---- comments: line / block, each same-line flag, every position, every block
Cmts == << Cmt("// c", TRUE, FALSE), Cmt("// c", FALSE, FALSE),
           Cmt("/* c */", TRUE, TRUE), Cmt("/* c */", TRUE, FALSE), Cmt("/* c */", FALSE, TRUE), Cmt("/* c */", FALSE, FALSE) >>
CmtNeighbours == << A, Asg(FALSE, A, One), Call(Id("f"), <<A>>), If(A, <<One>>), Fn("g", <<>>, FALSE, FALSE, <<One>>),
                    Arr(<<One>>), Pre("-", A), Post("++", "i"), Ret(A), StrB(<<115>>) >>
CmtBlockCtx == <<"top", "if", "else", "for", "func", "lambda">>

\* ---- sibling blocks: ONE statement with two blocks; how the first block ends (comment kinds and flags) must not
\* decide how the second one is laid out (C03: the printer's "previous statement" must not survive a block)
SibB1 == << <<A>> >> \o [c \in 1..Len(Cmts) |-> <<A, Cmts[c]>>] \o [c \in 1..Len(Cmts) |-> <<Cmts[c]>>]
SibB2 == << <<B>>, <<>> >> \o [c \in 1..Len(Cmts) |-> <<Cmts[c], B>>]
SibFormNames == <<"ifelse", "elseif", "elseif2", "elsefor", "callfn", "arrlam", "mapfn", "applied", "forif">>
SibForm(f, b1, b2) ==
  CASE f = "ifelse"  -> IfElse(Z, b1, b2)
    [] f = "elseif"  -> IfElse(Z, b1, <<IfElse(Id("c"), b2, <<One>>)>>)
    [] f = "elseif2" -> IfElse(Z, <<One>>, <<IfElse(Id("c"), b1, b2)>>)
    [] f = "elsefor" -> IfElse(Z, b1, <<For(Id("c"), b2), Two>>)
    [] f = "callfn"  -> Call(Id("f"), <<Fn("", <<>>, FALSE, FALSE, b1), Fn("", <<>>, FALSE, FALSE, b2)>>)
    [] f = "arrlam"  -> Arr(<<Lam(<<"x">>, b1), Lam(<<"y">>, b2)>>)
    [] f = "mapfn"   -> MapL(<< <<One, Lam(<<"x">>, b1)>>, <<Two, Lam(<<"y">>, b2)>> >>)
    [] f = "applied" -> Asg(FALSE, Id("g"), Call(Lam(<<"x">>, b1), <<Lam(<<"y">>, b2)>>))
    [] f = "forif"   -> For(Z, <<IfElse(Id("c"), b1, b2)>>)

\* ---- strings: every byte, every 2-byte combination of the escape-relevant bytes
EscBytes == <<34, 92, 10, 9, 13, 7, 8, 11, 12, 127, 128, 255, 0, 39, 96, 97, 110, 120, 117, 85>>
Utf8 == << <<195, 169>>, <<226, 130, 172>>, <<240, 159, 152, 128>>, <<194, 128>>, <<226, 128, 168>>, <<239, 187, 191>>,
           <<243, 160, 128, 129>>, <<195>>, <<195, 40>>, <<237, 160, 128>>, <<92, 120, 48, 55>>, <<92, 97>>, <<92, 117, 48, 48, 101, 57>> >>
StrCtxNames == <<"stmt", "asg", "arg", "mapkey", "concat">>
StrIn(name, s) ==
  CASE name = "stmt"   -> s
    [] name = "asg"    -> Asg(FALSE, Id("x"), s)
    [] name = "arg"    -> Bi("println", <<s, s>>)
    [] name = "mapkey" -> MapL(<< <<s, s>> >>)
    [] name = "concat" -> Inf("+", s, s)

\* ---- numeric literal spellings
RawLits == << ".5", "1.", "1e3", "1E3", "1e+3", "1e-3", "1.5e3", "0x10", "0xff", "0xFF", "0b1", "0b101", "1_000", "1_0.5_0", "0x_f",
              "007", "0", "0.0", "9223372036854775807", "9223372036854775808", "18446744073709551616", "123456789012345678901234567890",
              "1e308", "5e-324", "0.1", "100.0", "1.0", ".0", "0.", "-9223372036854775808", "-0x8000000000000000", "-9_223_372_036_854_775_808",
              "-0b1000000000000000000000000000000000000000000000000000000000000000", "- 9223372036854775808" >>
LitCtx == << [ctx |-> "stmt", op |-> ""], [ctx |-> "pre", op |-> "-"], [ctx |-> "infL", op |-> "+"], [ctx |-> "infR", op |-> "-"],
             [ctx |-> "idxI", op |-> ""], [ctx |-> "idxL", op |-> ""], [ctx |-> "dotL", op |-> ""], [ctx |-> "callA", op |-> ""],
             [ctx |-> "infR", op |-> "="], [ctx |-> "sliceLo", op |-> ""], [ctx |-> "mapK", op |-> ""], [ctx |-> "infL", op |-> ":"] >>

\* ---- function forms (also the function values whose Inspect() text must parse back)
Bodies == << <<Id("x")>>, <<Inf("+", Id("x"), One)>>, <<Ret(Id("x"))>>, <<Ret(None)>>, <<Asg(FALSE, Id("y"), Id("x"))>>,
             <<Inf("&&", Id("x"), B)>>, <<Inf("||", Id("x"), B)>>, <<Inf("==", Id("x"), B)>>, <<Inf(":", Id("x"), B)>>,
             <<MapL(<< <<One, Two>> >>)>>, <<Lam(<<"y">>, <<Id("y")>>)>>, <<If(Id("x"), <<One>>)>>, <<IfElse(Id("x"), <<One>>, <<Two>>)>>,
             <<For(Id("x"), <<One>>)>>, <<Pre("-", Id("x"))>>, <<Post("++", "i")>>, <<Arr(<<Id("x")>>)>>, <<StrB(<<7, 34>>)>>,
             <<>>, <<One, Two>>, <<Asg(FALSE, Id("y"), One), Pre("-", Id("y"))>>, <<A, B>>, <<Cmt("// c", TRUE, FALSE), Id("x")>>,
             <<Call(Id("x"), <<One>>)>>, <<Bi("println", <<Id("x")>>)>>, <<Brk>>, <<Fn("", <<"y">>, FALSE, FALSE, <<Id("y")>>)>>,
             <<Inf("-", Id("x"), Pre("-", One))>>, <<Inf("-", Id("x"), Inf("-", One, Two))>> >>
Params == << <<>>, <<"x">>, <<"x", "y">>, <<"x", "..">>, <<"..">> >>
IsVar(ps) == Len(ps) > 0 /\ ps[Len(ps)] = ".."
FuncForms(ps, body) == << Fn("g", ps, IsVar(ps), FALSE, body), Fn("", ps, IsVar(ps), FALSE, body), Fn("", ps, IsVar(ps), TRUE, body) >>

\* ---- round 4 ----------------------------------------------------------------------------------------------
\* (1) blocks that BEGIN with comments.  Compact mode drops them, so the first statement PRINTED is not the first of
\* the list: what is written in front of it must still depend on what was printed, not on its index.  Every
\* statement-start class (all statement kinds plus every way a statement can start with a sign character or a dot),
\* in every block position, behind one or two leading comments.
SignStarts == << [n |-> "plus",     t |-> Pre("+", A)],
                 [n |-> "predecr",  t |-> Pre("--", Id("i"))],
                 [n |-> "xor",      t |-> Pre("^", Id("m"))],
                 [n |-> "tilde",    t |-> Pre("~", A)],
                 [n |-> "minint",   t |-> MinInt],
                 [n |-> "minhex",   t |-> MinIntHex],
                 [n |-> "negsum",   t |-> Inf("+", Pre("-", A), B)],
                 [n |-> "negasg",   t |-> Asg(FALSE, A, Pre("-", B))],
                 [n |-> "dotfloat", t |-> Raw(".5")] >>
StartClasses == Stmts \o SignStarts
DeepCtxNames == <<"elseif", "iffunc", "forlam", "ifelse2">>      \* block positions InBlock does not have (indent 1, 2, 2, 2)
InDeep(name, ss) ==
  CASE name = "elseif"  -> <<IfElse(Z, <<One>>, <<IfElse(C3, ss, <<Two>>)>>)>>
    [] name = "iffunc"  -> <<If(Z, <<Fn("g", <<"x">>, FALSE, FALSE, ss)>>)>>
    [] name = "forlam"  -> <<For(Z, <<Asg(FALSE, Id("f"), Lam(<<"x">>, ss))>>)>>
    [] name = "ifelse2" -> <<Fn("g", <<"x">>, FALSE, FALSE, <<IfElse(Z, <<One>>, ss)>>)>>
    [] OTHER            -> InBlock(name, ss)
AllBlockCtx == CmtBlockCtx \o DeepCtxNames

\* (2) statement boundaries around the dot of a float literal.  `1` `.5` glued is the number 1.5, `2.` `e3` glued is
\* 2000, `2.` `3` is 2.3: the characters that make ONE number token include the dot, on both sides of the boundary.
DotEnds   == << One, Ret(One), Pre("-", One), Raw("2."), Ret(Raw("2.")), Raw(".5"), Raw("1e3"), A, Id("e3"),
                Asg(FALSE, A, Raw("2.")), Post("++", "i"), Dot(A, "b"), Call(Id("f"), <<Raw("2.")>>), Id("_x") >>
DotStarts == << Raw(".5"), Inf("*", Raw(".5"), A), One, Raw("2."), Raw("1e3"), Id("e3"), Asg(FALSE, Id("e3"), One),
                Call(Id("e3"), <<A>>), A, Ret(Raw(".5")), Idx(Raw(".5"), One), Id("_x") >>
DotBlockCtx == IF Thorough THEN AllBlockCtx ELSE <<"top", "func", "lambda">>

\* (3) multi-line block comments: 2-4 lines, with and without empty lines, with and without leading tabs on the
\* continuation lines, at indent levels 0 (top), 1 (func, if) and 2 (iffunc, forlam, ifelse2): a second pass must not
\* move the continuation lines (C03), the text of the comment is part of the tree (C02, normal mode).
MlTexts == << "/* a\nb */", "/* a\n\tb */", "/* a\n\nb */", "/* a\n\n\tb */", "/*\n * a\n */", "/* a\n\t\n\tb\n*/",
              "/* a\n\tb\n\n\t\tc\n*/", "/*\n\n\n*/", "/* a\n  b\n\n  c */" >>
MlFlags == IF Thorough THEN << <<FALSE, FALSE>>, <<TRUE, FALSE>>, <<FALSE, TRUE>>, <<TRUE, TRUE>> >> ELSE << <<FALSE, FALSE>>, <<TRUE, FALSE>> >>
MlCtx == <<"top", "func", "if", "iffunc", "forlam", "ifelse2">>
MlPlace(pos, cm) ==
  CASE pos = "only"   -> <<cm>>
    [] pos = "first"  -> <<cm, A>>
    [] pos = "last"   -> <<A, cm>>
    [] pos = "middle" -> <<A, cm, B>>
    [] pos = "two"    -> <<cm, cm, A>>
MlPositions == IF Thorough THEN <<"only", "first", "last", "middle", "two">> ELSE <<"only", "first", "last", "middle">>

\* (4) SOURCE-level family: texts, not trees.  A statement head, a separator, a tail, at top level and inside blocks;
\* the heads include the keywords and the incomplete expressions after which the parser has to decide whether the
\* statement goes on.  Whatever the REAL parser accepts - in the whole-file lexer mode and in the REPL's line mode -
\* is a program, and the laws apply to the tree that came out: a parser that starts to accept a new shape (a bare
\* `return` followed by a newline and another statement) is seen as soon as the printer cannot write that shape.
SrcHeads == << "return", "break", "continue", "a", "1", "2.", "a =", "a +", "-", "!", "f", "x =>", "if a {b}", "if a {b} else",
               "func g()", "i++", "return a", "return -", "a.", "[1,", "f(", "{1:" >>
SrcSeps  == IF Thorough THEN << " ", "\n", ";", ";\n", "\n\n", " // c\n", " /* c */ ", "\n/* c */\n" >>
                        ELSE << " ", "\n", ";", "\n\n" >>
SrcTails == << "a", "-a", "(a)", "[1]", "{1: 2}", ".5", "++i", "i++", "=> a", "else {c}", "{c}", "+ a", "= 1", "b.c", "x * 2",
               "return", "\"s\"", "1", "if a {b}", "(x) => x", "2]", "b)", "2}" >>
SrcBlockNames == IF Thorough THEN <<"top", "func", "if", "else", "for", "lambda">> ELSE <<"top", "func">>
SrcIn(name, text) ==
  CASE name = "top"    -> text
    [] name = "func"   -> "func g(x) {" \o text \o "}"
    [] name = "if"     -> "if z {" \o text \o "}"
    [] name = "else"   -> "if z {1} else {" \o text \o "}"
    [] name = "for"    -> "for z {" \o text \o "}"
    [] name = "lambda" -> "f = x => {" \o text \o "}"

\* ------------------------------------------------------------------ GEN machine
\* One step from the initial state per generated tree: `cur` names the tree (so TLC enumerates
\* every binding of the generator's quantifiers), the tree itself is emitted as a JSON line.
VARIABLES phase, cur
Emit(fam, name, prog) ==
  /\ cur' = <<fam, name>>
  /\ Assert(WFList(prog), <<"ill-formed generated tree", fam, name>>)
  /\ EmitLine(ToJson([fam |-> fam, name |-> name, t |-> prog]))

EmitSrc(fam, name, text) == cur' = <<fam, name>> /\ EmitLine(ToJson([fam |-> fam, name |-> name, src |-> text]))

GenPrec == cur' = <<"prec">> /\ EmitLine(ToJson([fam |-> "prec", prec |-> Prec, assoc |-> Assoc,
                            lowest |-> PrecLowest, lambda |-> PrecLambda, prefix |-> PrecPrefix,
                            call |-> PrecCall, index |-> PrecIndex, dot |-> PrecDot, atom |-> PrecAtom]))

GenOpPairs == \E p \in 1..Len(Contexts), c \in 1..Len(Children) :
  Emit("oppair", <<Contexts[p].ctx, Contexts[p].op, c>>, <<Plug(Contexts[p], Children[c])>>)

GenSigns == \E p \in 1..Len(SignCtx), q \in 1..Len(SignCtx), c \in 1..Len(SignLeaf) :
  Emit("signs", <<p, q, c>>, <<Plug(SignCtx[p], Plug(SignCtx[q], SignLeaf[c]))>>)

GenDepth3 == \E p \in 1..Len(RepCtx), q \in 1..Len(RepCtx), c \in 1..(IF Thorough THEN Len(RepLeaf) ELSE 6) :
  Emit("depth3", <<p, q, c>>, <<Plug(RepCtx[p], Plug(RepCtx[q], RepLeaf[c]))>>)

GenStmtPairs == \E b \in 1..Len(BlockCtxNames), i \in 1..Len(Stmts), j \in 1..Len(Stmts) :
  Stmts[i].n # "return" /\ (IF Thorough \/ b = 1 \/ (i + j) % 2 = 0 THEN TRUE ELSE FALSE) /\ Emit("stmtpair", <<BlockCtxNames[b], Stmts[i].n, Stmts[j].n>>, InBlock(BlockCtxNames[b], <<Stmts[i].t, Stmts[j].t>>))

GenStmtSingle == \E b \in 1..Len(CmtBlockCtx), i \in 1..Len(Stmts) :
  Emit("stmt", <<CmtBlockCtx[b], Stmts[i].n>>, InBlock(CmtBlockCtx[b], <<Stmts[i].t>>))

GenComments ==
  \/ \E b \in 1..Len(CmtBlockCtx), c \in 1..Len(Cmts) :
       Emit("comment", <<CmtBlockCtx[b], "only", c>>, InBlock(CmtBlockCtx[b], <<Cmts[c]>>))
  \/ \E b \in 1..Len(CmtBlockCtx), c \in 1..Len(Cmts), n \in 1..Len(CmtNeighbours) :
       \/ Emit("comment", <<CmtBlockCtx[b], "first", c, n>>, InBlock(CmtBlockCtx[b], <<Cmts[c], CmtNeighbours[n]>>))
       \/ Emit("comment", <<CmtBlockCtx[b], "last", c, n>>, InBlock(CmtBlockCtx[b], <<CmtNeighbours[n], Cmts[c]>>))
  \/ \E b \in 1..Len(CmtBlockCtx), c \in 1..Len(Cmts), n \in 1..Len(CmtNeighbours), m \in 1..Len(CmtNeighbours) :
       (IF Thorough \/ (n + m) % 3 = 0 THEN TRUE ELSE FALSE) /\
       Emit("comment", <<CmtBlockCtx[b], "middle", c, n, m>>, InBlock(CmtBlockCtx[b], <<CmtNeighbours[n], Cmts[c], CmtNeighbours[m]>>))
  \/ \E b \in 1..Len(CmtBlockCtx), c \in 1..Len(Cmts), d \in 1..Len(Cmts) :
       \/ Emit("comment", <<CmtBlockCtx[b], "two", c, d>>, InBlock(CmtBlockCtx[b], <<A, Cmts[c], Cmts[d], B>>))
       \/ Emit("comment", <<CmtBlockCtx[b], "twoonly", c, d>>, InBlock(CmtBlockCtx[b], <<Cmts[c], Cmts[d]>>))

GenStrings ==
  \/ \E x \in 0..255, s \in 1..Len(StrCtxNames) :
       (IF s = 1 \/ Thorough \/ x % 5 = s THEN TRUE ELSE FALSE) /\ Emit("string", <<"byte", x, StrCtxNames[s]>>, <<StrIn(StrCtxNames[s], StrB(<<x>>))>>)
  \/ \E x \in 1..Len(EscBytes), y \in 1..Len(EscBytes) :
       Emit("string", <<"pair", EscBytes[x], EscBytes[y]>>, <<Asg(FALSE, Id("x"), StrB(<<EscBytes[x], EscBytes[y]>>))>>)
  \/ \E x \in 0..255 : Emit("string", <<"mid", x>>, <<StrB(<<97, x, 98>>)>>)
  \/ \E u \in 1..Len(Utf8), s \in 1..Len(StrCtxNames) : Emit("string", <<"utf8", u, StrCtxNames[s]>>, <<StrIn(StrCtxNames[s], StrB(Utf8[u]))>>)

GenSpines == \E k \in 1..Len(PrecClasses) : LET cls == PrecClasses[k] IN
  \/ \E p \in 1..Len(cls), o1 \in 1..Len(cls), o2 \in 1..Len(cls) :
       Emit("spine", <<cls[p], cls[o1], cls[o2]>>, <<Inf(cls[p], A, Spine2(cls[o1], cls[o2]))>>)
  \/ \E p \in 1..Len(cls), o1 \in 1..Len(cls), o2 \in 1..Len(cls), o3 \in 1..Len(cls) :
       Emit("spine", <<cls[p], cls[o1], cls[o2], cls[o3]>>, <<Inf(cls[p], A, Spine3(cls[o1], cls[o2], cls[o3]))>>)
  \/ \E p \in 1..Len(cls), o1 \in 1..Len(cls), d \in 4..6 :
       Emit("spine", <<"deep", cls[p], cls[o1], d>>, <<Inf(cls[p], A, SpineDeep(cls[o1], cls[p], d))>>)
  \/ \E p \in 1..Len(cls), o1 \in 1..Len(cls), o2 \in 1..Len(cls), o3 \in 1..Len(cls), o4 \in 1..Len(cls) :
       Thorough /\ Emit("spine", <<cls[p], cls[o1], cls[o2], cls[o3], cls[o4]>>, <<Inf(cls[p], A, Spine4(cls[o1], cls[o2], cls[o3], cls[o4]))>>)

GenSiblings == \E f \in 1..Len(SibFormNames), i \in 1..Len(SibB1), j \in 1..Len(SibB2) :
  Emit("sibling", <<SibFormNames[f], i, j>>, <<SibForm(SibFormNames[f], SibB1[i], SibB2[j])>>)

GenLiterals == \E r \in 1..Len(RawLits), p \in 1..Len(LitCtx) :
  Emit("literal", <<RawLits[r], LitCtx[p].ctx, LitCtx[p].op>>, <<Plug(LitCtx[p], Raw(RawLits[r]))>>)

GenFuncs == \E p \in 1..Len(Params), b \in 1..Len(Bodies), f \in 1..3 :
  \/ Emit("func", <<"stmt", p, b, f>>, <<FuncForms(Params[p], Bodies[b])[f]>>)
  \/ Emit("func", <<"asg", p, b, f>>, <<Asg(FALSE, Id("f"), FuncForms(Params[p], Bodies[b])[f])>>)

\* ---- function VALUES (the second printer: object.Function.Inspect / SetCacheKey / SaveGlobals).
\* A one-statement body is written without braces when that can be read back, which depends on the LEFTMOST
\* leaf of the statement (`{` would open a block, a lambda head would chain) and on its binding strength.
\* Every leaf shape, under every chain of operators that keeps it (or does not keep it) leftmost, at chain
\* depth 0..2, as the body of every function form.
FvLeaves == << MapL(<< <<StrB(<<97>>), Id("x")>>, <<StrB(<<98>>), Two>> >>), MapL(<<>>),
               Lam(<<"y">>, <<Id("y")>>), Lam(<<"y", "z">>, <<Id("y")>>), Lam(<<>>, <<One>>), Fn("", <<"y">>, FALSE, FALSE, <<Id("y")>>),
               Arr(<<Id("x"), Two>>), Arr(<<>>), Inf("||", Id("x"), B), Inf("+", Id("x"), One), Inf(":", Id("x"), Two), Asg(FALSE, Id("y"), Id("x")),
               Id("x"), One, Raw(".5"), StrB(<<115>>), BoolL(TRUE), IfElse(Id("x"), <<One>>, <<Two>>), For(Id("x"), <<One>>),
               Call(Id("x"), <<One>>), Bi("len", <<Id("x")>>), Pre("-", Id("x")), Pre("!", Id("x")), Post("++", "i"), Idx(Id("x"), One), Dot(Id("x"), "a") >>
FvLeft  == <<"idx", "idxs", "dot", "call", "call0", "slice", "open", "inf+", "inf*", "inf==", "inf&&", "inf||", "inf:", "asg", "def">>  \* hole on the left
FvOther == <<"none", "idxI", "callA", "infR+", "infR&&", "pre-", "pre!">>
FvChains == FvLeft \o FvOther
FvApply(c, t) ==
  CASE c = "none"   -> t
    [] c = "idx"    -> Idx(t, One)
    [] c = "idxs"   -> Idx(t, StrB(<<97>>))
    [] c = "dot"    -> Dot(t, "a")
    [] c = "call"   -> Call(t, <<One>>)
    [] c = "call0"  -> Call(t, <<>>)
    [] c = "slice"  -> Idx(t, Inf(":", One, Two))
    [] c = "open"   -> Idx(t, Inf(":", One, None))
    [] c = "inf+"   -> Inf("+", t, Z)
    [] c = "inf*"   -> Inf("*", t, Z)
    [] c = "inf=="  -> Inf("==", t, Z)
    [] c = "inf&&"  -> Inf("&&", t, Z)
    [] c = "inf||"  -> Inf("||", t, Z)
    [] c = "inf:"   -> Inf(":", t, Z)
    [] c = "asg"    -> Asg(FALSE, t, Z)
    [] c = "def"    -> Asg(TRUE, t, Z)
    [] c = "idxI"   -> Idx(Z, t)
    [] c = "callA"  -> Call(Z, <<t>>)
    [] c = "infR+"  -> Inf("+", Z, t)
    [] c = "infR&&" -> Inf("&&", Z, t)
    [] c = "pre-"   -> Pre("-", t)
    [] c = "pre!"   -> Pre("!", t)
FvFormNames == <<"lambda1", "anon", "lambda0", "named", "lambda2", "variadic", "nested">>
FvForm(f, body) ==
  CASE f = "lambda1"  -> Asg(FALSE, Id("f"), Lam(<<"x">>, <<body>>))
    [] f = "lambda2"  -> Asg(FALSE, Id("f"), Lam(<<"x", "y">>, <<body>>))
    [] f = "lambda0"  -> Asg(FALSE, Id("f"), Lam(<<>>, <<body>>))
    [] f = "variadic" -> Asg(FALSE, Id("f"), Fn("", <<"x", "..">>, TRUE, TRUE, <<body>>))
    [] f = "anon"     -> Asg(FALSE, Id("f"), Fn("", <<"x">>, FALSE, FALSE, <<body>>))
    [] f = "named"    -> Fn("g", <<"x">>, FALSE, FALSE, <<body>>)
    [] f = "nested"   -> Asg(FALSE, Id("f"), Lam(<<"x">>, <<Lam(<<"y">>, <<body>>)>>))

GenFnBodies ==
  \/ \E l \in 1..Len(FvLeaves), c \in 1..Len(FvChains), f \in 1..(IF Thorough THEN Len(FvFormNames) ELSE 3) :
       Emit("fnbody", <<1, l, FvChains[c], FvFormNames[f]>>, <<FvForm(FvFormNames[f], FvApply(FvChains[c], FvLeaves[l]))>>)
  \/ \E l \in 1..Len(FvLeaves), c \in 1..Len(FvLeft), d \in 1..(IF Thorough THEN Len(FvChains) ELSE Len(FvLeft)), f \in 1..(IF Thorough THEN 2 ELSE 1) :
       (IF Thorough \/ (l + c + d) % 4 = 0 THEN TRUE ELSE FALSE) /\
       Emit("fnbody", <<2, l, FvLeft[c], FvChains[d], FvFormNames[f]>>,
            <<FvForm(FvFormNames[f], FvApply(FvChains[d], FvApply(FvLeft[c], FvLeaves[l])))>>)

GenSpineFns == \E k \in 1..Len(PrecClasses) : LET cls == PrecClasses[k] IN
  \E p \in 1..Len(cls), o1 \in 1..Len(cls), o2 \in 1..Len(cls), f \in 1..(IF Thorough THEN 4 ELSE 1) :
     Emit("spinefn", <<FvFormNames[f], cls[p], cls[o1], cls[o2]>>, <<FvForm(FvFormNames[f], Inf(cls[p], A, Spine2(cls[o1], cls[o2])))>>)

GenCmtFirst ==
  \/ \E b \in 1..Len(AllBlockCtx), c \in 1..Len(Cmts), s \in 1..Len(StartClasses) :
       \* quick: one of the six comment kinds per (block, statement), all of them over the family
       (IF Thorough \/ c = 1 + ((b + s) % Len(Cmts)) THEN TRUE ELSE FALSE) /\
       Emit("cmtfirst", <<AllBlockCtx[b], c, StartClasses[s].n>>, InDeep(AllBlockCtx[b], <<Cmts[c], StartClasses[s].t>>))
  \/ \E b \in 1..Len(AllBlockCtx), s \in 1..Len(StartClasses) :
       (IF Thorough \/ s > Len(Stmts) THEN TRUE ELSE FALSE) /\
       Emit("cmtfirst", <<AllBlockCtx[b], "two", StartClasses[s].n>>, InDeep(AllBlockCtx[b], <<Cmts[2], Cmts[4], StartClasses[s].t>>))
  \/ \E b \in 1..Len(AllBlockCtx), s \in (Len(Stmts) + 1)..Len(StartClasses) :
       Thorough /\ Emit("cmtfirst", <<AllBlockCtx[b], "then", StartClasses[s].n>>, InDeep(AllBlockCtx[b], <<Cmts[3], StartClasses[s].t, StartClasses[s].t>>))

GenDotNums == \E b \in 1..Len(DotBlockCtx), i \in 1..Len(DotEnds), j \in 1..Len(DotStarts) :
  Emit("dotnum", <<DotBlockCtx[b], i, j>>, InDeep(DotBlockCtx[b], <<DotEnds[i], DotStarts[j]>>))

GenMlComments == \E b \in 1..Len(MlCtx), t \in 1..Len(MlTexts), f \in 1..Len(MlFlags), p \in 1..Len(MlPositions) :
  Emit("mlcomment", <<MlCtx[b], t, f, MlPositions[p]>>, InDeep(MlCtx[b], MlPlace(MlPositions[p], Cmt(MlTexts[t], MlFlags[f][1], MlFlags[f][2]))))

\* ---- map literals of every size (round 5).  The pairs of a map literal live in a Go map next to the slice that
\* remembers their source order (ast.MapLiteral.Pairs / .Order): whoever walks the pairs - the printer, a pass through
\* ast.Modify, the function-value printer - has to follow the slice, and a walk that does not shows only with TWO OR
\* MORE keys, more surely the more keys there are, and only by looking repeatedly (C03) or at the order (C02).
\* n = 0..6 (thorough ..9) pairs of three key styles, in every position a map literal can stand in.
MapKey(kind, i) ==
  CASE kind = "str" -> StrB(<<107, 48 + i>>)                                    \* "k1" "k2" ..
    [] kind = "int" -> IntL(ToString(10 - i))                                   \* 9 8 7 .. (source order is not sorted order)
    [] OTHER        -> IF i % 3 = 1 THEN StrB(<<122 - i>>) ELSE IF i % 3 = 2 THEN IntL(ToString(i)) ELSE Id(<<"c", "d", "g">>[i \div 3])
MapVal(kind, i) ==
  CASE kind = "mix" /\ i % 4 = 1 -> Arr(<<One, Id("x")>>)
    [] kind = "mix" /\ i % 4 = 2 -> MapL(<< <<StrB(<<98>>), One>>, <<StrB(<<97>>), Two>> >>)   \* a map in a map
    [] kind = "mix" /\ i % 4 = 3 -> Lam(<<"y">>, <<Id("y")>>)
    [] OTHER                     -> IntL(ToString(i))
MapN(kind, n) == MapL([i \in 1..n |-> <<MapKey(kind, i), MapVal(kind, i)>>])
MapKinds == <<"str", "int", "mix">>
MapSizes == IF Thorough THEN <<0, 1, 2, 3, 4, 5, 6, 7, 8, 9>> ELSE <<0, 2, 3, 4, 6>>
MapCtx == << [ctx |-> "stmt", op |-> ""], [ctx |-> "infR", op |-> "="], [ctx |-> "infR", op |-> "+"], [ctx |-> "callA", op |-> ""],
             [ctx |-> "arrE", op |-> ""], [ctx |-> "mapV", op |-> ""], [ctx |-> "idxL", op |-> ""], [ctx |-> "dotL", op |-> ""],
             [ctx |-> "ret", op |-> ""], [ctx |-> "forAsg", op |-> ""], [ctx |-> "ifT", op |-> ""], [ctx |-> "biA", op |-> ""] >>
MapFnForms == <<"lambda1", "named", "anon", "nested">>
GenMaps == \E k \in 1..Len(MapKinds), n \in 1..Len(MapSizes) :
  \/ \E p \in 1..Len(MapCtx) :
       Emit("maps", <<MapCtx[p].ctx, MapCtx[p].op, MapKinds[k], MapSizes[n]>>, <<Plug(MapCtx[p], MapN(MapKinds[k], MapSizes[n]))>>)
  \/ \E f \in 1..Len(MapFnForms) :   \* as (part of) the body of a function: the function VALUE holds the tree
       \/ Emit("maps", <<MapFnForms[f], "body", MapKinds[k], MapSizes[n]>>, <<FvForm(MapFnForms[f], MapN(MapKinds[k], MapSizes[n]))>>)
       \/ Emit("maps", <<MapFnForms[f], "asg", MapKinds[k], MapSizes[n]>>,
               <<FvForm(MapFnForms[f], Asg(FALSE, Id("m"), MapN(MapKinds[k], MapSizes[n])))>>)

GenSources == \E b \in 1..Len(SrcBlockNames), h \in 1..Len(SrcHeads), s \in 1..Len(SrcSeps), t \in 1..Len(SrcTails) :
  EmitSrc("source", <<SrcBlockNames[b], h, s, t>>, SrcIn(SrcBlockNames[b], SrcHeads[h] \o SrcSeps[s] \o SrcTails[t]))

Init == phase = 0 /\ cur = <<>>
Next == /\ phase = 0
        /\ phase' = 1
        /\ \/ "prec" \in Families /\ GenPrec
           \/ "oppair" \in Families /\ GenOpPairs
           \/ "signs" \in Families /\ GenSigns
           \/ "depth3" \in Families /\ GenDepth3
           \/ "stmtpair" \in Families /\ GenStmtPairs
           \/ "stmt" \in Families /\ GenStmtSingle
           \/ "comment" \in Families /\ GenComments
           \/ "string" \in Families /\ GenStrings
           \/ "literal" \in Families /\ GenLiterals
           \/ "func" \in Families /\ GenFuncs
           \/ "fnbody" \in Families /\ GenFnBodies
           \/ "spine" \in Families /\ GenSpines
           \/ "sibling" \in Families /\ GenSiblings
           \/ "spinefn" \in Families /\ GenSpineFns
           \/ "cmtfirst" \in Families /\ GenCmtFirst
           \/ "dotnum" \in Families /\ GenDotNums
           \/ "mlcomment" \in Families /\ GenMlComments
           \/ "source" \in Families /\ GenSources
           \/ "maps" \in Families /\ GenMaps
=============================================================================
