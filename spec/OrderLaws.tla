----------------------------- MODULE OrderLaws -----------------------------
(* C12 - ordering and equality are coherent and total.

   What is checked.  A *relation table* over a universe U[1..n] of values holds, for
   every ordered pair (x, y), what was observed:

     cmp[x][y]   three-way comparison (object.Cmp on constructed objects)   -1 / 0 / 1, 99 = panic
     eq[x][y]    equality (object.Equals on constructed objects)             0 / 1, 9 = panic
     look[x][y]  is y found as key in the one-entry map {x: ..} (Map.Set + Map.Get)
     tlt tle tgt tge teq tne tlook   the results of  x<y  x<=y  x>y  x>=y  x==y  x!=y  {x:1}[y]
                 evaluated from grol source on variables bound at top level
                                                 0 / 1, 8 = error object / not a boolean, 9 = panic
     plt .. plook   the same seven evaluated inside a function whose parameters are x and y
                 (integer parameters live in registers: register against register)
     llt .. llook   inside a function where x is a parameter and y a plain local value
                 (register on the left), and  rlt .. rlook  with the register on the right
     clt .. clook   with three nested calls on the stack: x is a variable of the outermost call,
                 the call in between has read it before (which leaves a reference to it in that
                 frame), and the innermost call evaluates the operators against its own
                 parameter y (captured operand on the left), and  dlt .. dlook  the same through
                 the call stack of a recursion (a function sees the variables of its callers): y
                 is a variable of the call two levels up, the level in between has read it, the
                 innermost level compares its own x with it (operand of a caller on the right)
     mn mx       which value min([x,y]) / max([x,y]) returned (the list form: a trailing array
                 argument is spread, so this is how a program takes the smaller of two arbitrary
                 values): 1 = x, 2 = y, 3 = x and y are the same value, 0 = neither, 8 = error,
                 9 = panic
   and per value x
     cc[x] ec[x]    cmp / eq between x and an independently built copy of x
     scc[x] sec[x]  (x<=copy && copy<=x) and (x==copy) from grol source
     xc[x] xe[x]    cmp / eq between the constructed object x and the value the interpreter makes
                 of the source text of x (the copy that was written down)
     yac[x] yae[x]  cmp / eq between the value the source text of x had when it was read FIRST in the
                 session and the value of the SAME text read again (the constructed objects of the two
                 readings): "again" in a later input of the session; ytc yte "twice": twice more in one
                 input ([S, S], both against the first reading); yvc yve "eval": through eval("S"); yfc yfe
                 "fresh": in another interpreter state of the same process; ylc yle "late": in the same
                 session after the whole table was recorded
     yp[x]       how many of the source-level observations of the pairs (x, x) and (x, next of x) come out
                 differently when the very same inputs are evaluated again at the end of the session
     big[x] sbig[x] the index whose value comes back when x is looked up in ONE map that
                 holds every value of U as key, set in index order, with its index as value
                 (0 = not found, -1 = panic): constructed / from a map literal in source
     bigr[x] sbigr[x]  the same with the keys set in reverse index order
     gbig[x] sgbig[x] gbigr[x] sgbigr[x]  the same for a map that starts empty and receives one key
                 after the other (Map.Set on the empty map / m = {} and one assignment m[k] = i per
                 key): it changes its representation on the way

   Values with a history.  A universe value may carry two tags that the documented order
   ignores (GrolOrder!Cmp reads t and v only) and that tell the harness HOW and WHEN to make it:
     how  the construction history of a container with the same content:
            "shrunk"   a map that held 5 more entries which were deleted again (del)
            "dupkeys"  a map written with its first pair repeated four times before the pairs
            "slice"    an array taken as a slice of a longer array
            "grown"    a map that starts empty and receives its pairs one assignment after the
                       other, in the order in which `v` lists them (`v` of such a value is the
                       list of pairs as set, not the sorted map; Norm gives the map); an array
                       that starts empty and is extended one element at a time
            "merged"   a map that is the sum m1 + m2 of the leading and the trailing pairs of `v`
                       (halves; "merged_head": the first pair + the others; "merged_tail": all
                       but the last pair + the last)
          or, for a number, the notation of the literal in the source text:
            "intlit"   a float that is an integer beyond the int64 range written as its digits,
                       9223372036854775808 (an integer literal that does not fit is a float)
            "exp"      a float in exponent notation, 9.007199254740992e+15
            "hex"      an integer as 0x.. ;  "under"  with digits grouped, 9_007_199
            "lit"      -9223372036854775808 written as such (not as -9223372036854775807-1)
          (a value and its differently built / written twin are the same value: == both ways,
          cmp = 0; the constructed object and the value of the source text are copies)
     ep   the epoch of the session in which the value is created.  Before the values of epoch
          e > 0 are made the session goes through event HistoryEvents[e] - a top level
          function is redefined, a constant is deleted and bound again, many functions are
          defined; each followed by a function call - and the table is recorded at the end, so
          it relates values made before an event with values made after it (the same source
          again, and other values).  The laws are the laws: a value does not change its place
          in the order by being older.

   The laws (the statement of C12; `Broken(R, x, y)` lists every broken instance at (x, y)):
     total          nothing panicked, every operator answered with a boolean (the other laws
                    judge answers: a law is stated for a pair where the observations it
                    reads are answers in both directions)
     reflexive      cmp[x][x] = 0,  x <= x,  x == x
     antisymmetric  sign(cmp[x][y]) = -sign(cmp[y][x]): total (one of <=, >= holds) and
                    antisymmetric up to the equivalence cmp = 0
     transitive     over ALL triples (x, y, z): <= (cmp and the source operator), the
                    induced equivalence, ==, and key lookup
     operators      x<y <=> y>x,  x<=y <=> ~(x>y),  x>=y <=> ~(x<y),  x!=y <=> ~(x==y), and
                    all of them are the one order of cmp (the order behind the operators
                    and the order behind map keys are the same order)
     ==             an equivalence that implies cmp = 0 and holds between a value and its copy:
                    the independently built copy, the value of its source text against the
                    constructed object (copy_equal / copy_equivalent "written"), and every
                    other member of the universe that is the same value (same_value_equal:
                    built differently, written in another notation, or made in another epoch)
     determinism    a text denotes one value: the same source text read again - in a later input, twice in
                    one input, through eval, in another interpreter state, at the end of the session - is a
                    copy of what it was the first time (reread_equal, reread_equivalent: == and cmp = 0
                    between the readings), and the same comparison asked again gives the same answers
                    (answers_repeat).  What a text evaluates to the first time is what the text means
                    (the harness calibrates its notation on it); a later reading that differs is not a
                    copy of the value any more.
     min / max      return one of their arguments, a smallest / largest one
     map keys       y is found under key x exactly when cmp[x][y] = 0; in a map holding all
                    values, looking up x gives a value that was stored under a key
                    order-equivalent to x

   How it is run.  The table is evaluated as a state machine: one initial state per
   (batch, x, y) and one step that checks the pair laws at (x, y) and the triple laws for
   every z, emits one JSON line per broken law instance (EmitLine; at most MaxWitness
   third elements are listed, `n` counts all of them) and records the number in `nb`.
   So TLC's workers share the pairs, the distinct-state count (2 * sum of n^2) tells the
   harness that every pair was visited, and LawsHold (nb = 0 everywhere) is available as
   an invariant for runs that must be clean.

     Mode = "export"  one trivial state; the ASSUMEs emit OrderUniverse (one "universe" line
                      per value) and, as one "model_table" line, the complete table that the
                      documented order GrolOrder!Cmp / Equals / Min2 / Max2 / MapSet produces
                      on it (ModelBatch); and the HistoryUniverse with its events
                      ("history" lines).
     Mode = "table"   the tables come from order_table.ndjson, one line per batch:
                        src = "model"    the exported model table: the documented order itself
                                         is model-checked against the laws (must be clean);
                        src = "curated"  what the real code answered on OrderUniverse;
                        src = "history"  what it answered on HistoryUniverse (values of
                                         several epochs of one session);
                        src = "random"   what it answered on a generated universe `u`;
                        src = "selftest" a table with one entry corrupted on purpose: the harness
                                         requires that its broken law is reported (binding
                                         self-test, part of the same run).
                      For the recorded batches every entry at (x, y) is also compared with
                      what GrolOrder says for that pair; a difference is emitted as law
                      "model_disagreement" - evidence, not a violation (the verdict of C12 is
                      the laws, not a particular order).

   (Measured: TLC re-evaluates a constant definition that depends on RECURSIVE operators in
   every state.  That is why the model's table travels through the file like the recorded
   ones instead of being a definition here, and why the comparison with the model evaluates
   GrolOrder!Cmp for the one pair of the state only.)                                        *)
EXTENDS Integers, Sequences, FiniteSets, TLC, Json, GrolOrder

CONSTANTS Mode,        \* "export" | "table"
          Tier,        \* "quick" | "thorough": which OrderUniverse
          MaxWitness   \* how many third elements of a broken triple law are listed per pair

VARIABLES b, x, y, nb
vars == <<b, x, y, nb>>

\* ------------------------------------------------------------------ the universe
I(s)  == [t |-> "int",   v |-> s]
F(h)  == [t |-> "float", v |-> h]
Bo(v) == [t |-> "bool",  v |-> v]
Nil   == [t |-> "nil"]
S(s)  == [t |-> "str",   v |-> s]
A(s)  == [t |-> "arr",   v |-> s]
M(p)  == [t |-> "map",   v |-> MapOf(p)]
Fn(src, txt) == [t |-> "func", v |-> txt, src |-> src]   \* src: grol source, v: its normalised text
Qu(src, txt) == [t |-> "quote", v |-> txt, src |-> src]  \* quoted code, v: as the interpreter prints it
Ext(name)    == [t |-> "ext", v |-> name, src |-> name]  \* a built-in function value
Built(a, h)  == [t |-> a.t, v |-> a.v, how |-> h]        \* the same container, built differently
Written(a, h) == [t |-> a.t, v |-> a.v, how |-> h]       \* the same number, written in another notation
Listed(prs, h) == [t |-> "map", v |-> prs, how |-> h]    \* a map given by its pairs in the order in which they are set
At(a, e)     == a @@ [ep |-> e]                          \* the same value, made in epoch e
\* the sum l + r of the map of the pairs l and the map of the pairs r (the operands may share keys: the pairs of
\* r are set after those of l); `cut` tells where the list of pairs is cut into the two operands
Sum(l, r)    == [t |-> "map", v |-> l \o r, how |-> "merged", cut |-> Len(l)]

P53    == "9007199254740992"     \* 2^53
P53p1  == "9007199254740993"     \* 2^53 + 1: not a float64
MaxI   == "9223372036854775807"  \* 2^63 - 1: not a float64
MinI   == "-9223372036854775808"
FZero  == "0000000000000000"     FNZero == "8000000000000000"
FOne   == "3ff0000000000000"     FNaN   == "7ff8000000000001"
FInf   == "7ff0000000000000"     FNInf  == "fff0000000000000"
F53    == "4340000000000000"     \* 2^53 as float
F53p2  == "4340000000000001"     \* 2^53 + 2
F63    == "43e0000000000000"     \* 2^63 as float (above every int64)
F63p   == "43e0000000000001"     \* 2^63 + 2048: the next float
F64    == "43f0000000000000"     \* 2^64
FN63   == "c3e0000000000000"     \* -2^63 = MinInt64 exactly

F1 == Fn("func(x){x}", "x=>x")
F2 == Fn("func(x){x+1}", "x=>x+1")
F3 == Fn("func(a,b){a+b}", "(a,b)=>a+b")

Range9(last) == <<I("1"), I("2"), I("3"), I("4"), I("5"), I("6"), I("7"), I("8"), I(last)>>
Map5(last) == << <<I("1"), I("1")>>, <<I("2"), I("2")>>, <<I("3"), I("3")>>, <<I("4"), I("4")>>, <<I("5"), I(last)>> >>

Six == << <<I("3"), I("3")>> >> \o Map5("5") \o << <<I("0"), I("0")>> >>   \* 3 is listed twice: six entries


\* ------------------------------------------------------------------ sums of maps whose operands meet or overlap
\* left operand + right operand, every kind of overlap at the boundary between the two sorted operands: the
\* smallest key of the right one is the greatest key of the left one (the same key / an order-equivalent key of
\* another type, 5 and 5.0), lies above it, inside the left operand, and the same at the other end (the greatest
\* key of the right operand is / is below the smallest key of the left one); operands of the small and of the big
\* representation (more than 4 keys) on either side.  The values of the right operand are strings, so the value
\* that survives under a shared key is visible.  Each sum comes with two twins: the literal of the resulting map
\* and the map that received the same pairs by assignments in the same order.
F5 == "4014000000000000"   F4 == "4010000000000000"
Rv == S("r")
L4  == SubSeq(Map5("5"), 1, 4)
L5  == Map5("5")
L5f == L4 \o << <<F(F5), I("5")>> >>                \* the greatest key is the float 5.0
Seams == <<
  <<L5,  << <<I("5"), Rv>>, <<I("6"), Rv>> >> >>,                   \* big + small: the same key at the seam
  <<L5,  << <<F(F5), Rv>> >> >>,                                     \* an order-equivalent key of another type at the seam
  <<L5f, << <<I("5"), Rv>>, <<I("6"), Rv>> >> >>,                   \* .. the other way round
  <<L5,  << <<I("6"), Rv>>, <<I("7"), Rv>> >> >>,                   \* the right operand begins above the left one
  <<L5,  << <<I("4"), Rv>>, <<I("6"), Rv>> >> >>,                   \* begins inside it
  <<L5,  << <<I("0"), Rv>>, <<I("1"), Rv>> >> >>,                   \* ends at the smallest key of the left one
  <<L5,  << <<I("-1"), Rv>>, <<I("0"), Rv>> >> >>,                  \* ends below it
  <<L5,  << <<I("5"), Rv>>, <<I("6"), Rv>>, <<I("7"), Rv>>, <<I("8"), Rv>>, <<I("9"), Rv>> >> >>,   \* big + big at the seam
  <<L5,  << <<F(FOne), Rv>>, <<I("3"), Rv>>, <<F(F5), Rv>> >> >>,   \* both ends and the middle shared
  <<L4,  << <<I("4"), Rv>>, <<I("5"), Rv>> >> >>,                   \* small + small at the seam, the sum is big
  <<L4,  << <<F(F4), Rv>>, <<I("5"), Rv>>, <<I("6"), Rv>>, <<I("7"), Rv>>, <<I("8"), Rv>> >> >>,    \* small + big at the seam
  << << <<I("5"), I("5")>>, <<I("6"), I("6")>> >>, [k \in 1..5 |-> <<L5[k][1], Rv>>] >> >>          \* small + big that ends at the seam
SeamSum(k)   == Sum(Seams[k][1], Seams[k][2])
SeamLit(k)   == M(Seams[k][1] \o Seams[k][2])
SeamGrown(k) == Listed(Seams[k][1] \o Seams[k][2], "grown")
Tup(f) == f \o <<>>                                 \* the function over 1..n as a tuple (evaluated once)
SeamSums  == Tup([k \in 1..Len(Seams) |-> SeamSum(k)])
SeamLits  == Tup([k \in 1..Len(Seams) |-> SeamLit(k)])
SeamGrowns == Tup([k \in 1..Len(Seams) |-> SeamGrown(k)])

UniverseQuick == <<
  \* integers: small, around 2^53, around 2^63
  I("0"), I("1"), I("-1"), I("9007199254740991"), I(P53), I(P53p1),
  I(MaxI), I("9223372036854775806"), I(MinI),
  \* floats: zeros, NaN, infinities, the neighbours of the integers above
  F(FZero), F(FNZero), F(FOne), F("3ff8000000000000"), F("bff0000000000000"),
  F(FNaN), F(FInf), F(FNInf), F(F53), F(F53p2), F(F63), F(FN63),
  Bo(FALSE), Bo(TRUE), Nil,
  S(""), S("a"), S("b"), S("ab"),
  \* arrays: empty, equal length, nested, int next to float
  A(<<>>), A(<<I("1")>>), A(<<F(FOne)>>), A(<<I("1"), I("2")>>), A(<<A(<<I("1")>>)>>),
  A(<<I(P53p1)>>), A(<<F(F53)>>), A(<<I(P53)>>),
  \* maps
  M(<<>>), M(<< <<I("1"), I("1")>> >>), M(<< <<F(FOne), I("1")>> >>), M(<< <<I("1"), I("2")>> >>),
  M(<< <<I("2"), I("1")>> >>), M(<< <<I("1"), I("1")>>, <<I("2"), I("2")>> >>),
  M(<< <<S("a"), A(<<I("1")>>)>> >>),
  \* two different functions and a second evaluation of the first
  F1, F2, F1,
  \* quoted code and built-in functions are values as well
  Qu("quote(1+2)", "quote(1 + 2)"), Qu("quote(x)", "quote(x)"), Ext("sin"),
  \* the same containers with another construction history (see `how`)
  Built(M(<< <<I("1"), I("1")>>, <<I("2"), I("2")>> >>), "shrunk"),
  Built(M(<< <<I("1"), I("1")>> >>), "dupkeys"),
  Built(M(<<>>), "shrunk"),
  Built(M(<< <<S("a"), A(<<I("1")>>)>> >>), "shrunk"),
  Built(A(<<I("1"), I("2")>>), "slice"),
  A(<<Built(M(<< <<I("1"), I("1")>> >>), "shrunk")>>), A(<<M(<< <<I("1"), I("1")>> >>)>>),
  M(<< <<Built(M(<< <<I("1"), I("1")>> >>), "dupkeys"), I("1")>> >>), M(<< <<M(<< <<I("1"), I("1")>> >>), I("1")>> >>),
  \* the same numbers written in another notation: 2^63 as the digits 9223372036854775808 (a float:
  \* it fits no int64), MinInt64 as -9223372036854775808, 2^53+1 as 0x20000000000001
  Written(F(F63), "intlit"), Written(I(MinI), "lit"), Written(I(P53p1), "hex"),
  \* a map of five entries (one more than the small representation holds) written as a literal,
  \* grown from the empty map one assignment at a time in descending key order (the fifth key is
  \* the smallest), and as the sum {1,3,5} + {2,4} (the fifth key lands in the middle)
  M(Map5("5")),
  Listed(<< <<I("5"), I("5")>>, <<I("4"), I("4")>>, <<I("3"), I("3")>>, <<I("2"), I("2")>>, <<I("1"), I("1")>> >>, "grown"),
  Listed(<< <<I("1"), I("1")>>, <<I("3"), I("3")>>, <<I("5"), I("5")>>, <<I("2"), I("2")>>, <<I("4"), I("4")>> >>, "merged"),
  \* six entries as small + big, as big + small and grown in another order, next to the literals (one
  \* array of the three maps against one array of three literals: two values instead of six)
  A(<<Listed(Six, "merged_head"), Listed(Six, "merged_tail"), Listed(Six, "grown")>>),
  A(<<M(Six), M(Six), M(Six)>>),
  \* the sums of maps that meet or overlap (Seams), their literals and their grown twins: one array each
  A(SeamSums), A(SeamLits), A(SeamGrowns) >>

UniverseMore == <<
  I("2"), I("-9007199254740993"), I("9007199254740994"), I("-9007199254740992"),
  I("9223372036854774784"),                     \* 2^63 - 1024: the largest float below 2^63
  F("3fe0000000000000"),                        \* 0.5
  F("433fffffffffffff"),                        \* 2^53 - 1
  F("43dfffffffffffff"),                        \* 2^63 - 1024
  F("43f0000000000000"),                        \* 2^64
  F("c340000000000000"),                        \* -2^53
  F("c3e0000000000001"),                        \* -2^63 - 2048: below every int64
  F("7fefffffffffffff"), F("0000000000000001"), \* largest finite, smallest denormal
  S("A"), S("aa"),
  A(<<I("2")>>), A(<<Nil>>), A(<<Bo(TRUE)>>), A(<<S("a")>>), A(<<A(<<>>)>>),
  A(<<F(FNaN)>>), A(<<F(FNZero)>>), A(<<F(FZero)>>),
  A(Range9("9")), A(Range9("10")),              \* more than 8 elements: the big representation
  M(<< <<S("a"), I("1")>> >>), M(<< <<Nil, I("1")>> >>), M(<< <<A(<<>>), I("1")>> >>),
  M(<< <<M(<<>>), I("1")>> >>), M(<< <<I("1"), A(<<I("1")>>)>> >>), M(<< <<I("1"), A(<<F(FOne)>>)>> >>),
  M(<< <<I(P53p1), I("1")>> >>), M(<< <<F(F53), I("1")>> >>), M(<< <<I(P53), I("1")>> >>),
  M(Map5("6")),                                 \* more than 4 entries: the big representation (Map5("5") is above)
  F3, Ext("cos"), A(<<Qu("quote(x)", "quote(x)")>>),
  Built(M(<< <<I("1"), I("2")>> >>), "shrunk"), Built(M(<< <<S("a"), I("1")>> >>), "dupkeys"),
  Built(M(<< <<F(FOne), I("1")>> >>), "shrunk"), Built(M(<< <<I("1"), A(<<I("1")>>)>> >>), "dupkeys"),
  Built(A(<<>>), "slice"), Built(A(<<I("1")>>), "slice"), Built(A(<<A(<<I("1")>>)>>), "slice"),
  M(<< <<I("1"), Built(M(<< <<I("1"), I("1")>> >>), "shrunk")>> >>), M(<< <<I("1"), M(<< <<I("1"), I("1")>> >>)>> >>),
  \* more notations: the floats next to 2^63 and 2^64 as digit strings, exponent notation, grouped digits
  Written(F(F63p), "intlit"), F(F63p), Written(F(F64), "intlit"), Written(F(F53), "exp"), Written(F(FOne), "exp"),
  Written(I("9223372036854775806"), "under"), Written(I(MaxI), "hex"), Written(I(MinI), "hex"), Written(I("-1"), "hex"),
  A(<<Written(F(F63), "intlit")>>), M(<< <<Written(F(F63), "intlit"), I("1")>> >>), M(<< <<F(F63), I("1")>> >>),
  \* containers that pass the representation threshold while they are built
  Built(A(Range9("9")), "grown"), Built(M(Map5("6")), "grown"), Built(M(Map5("6")), "merged"),
  \* six entries: small + big, big + small, and the literal
  Listed(Six, "merged_head"), Listed(Six, "merged_tail"), M(Six),
  Listed(<< <<I("3"), I("3")>>, <<I("1"), I("1")>>, <<I("4"), I("4")>>, <<I("5"), I("6")>>, <<I("2"), I("2")>> >>, "grown"),
  Listed(<< <<S("a"), I("1")>>, <<S("b"), I("2")>>, <<S("d"), I("4")>>, <<S("e"), I("5")>>, <<S("c"), I("3")>> >>, "grown"),
  M(<< <<S("a"), I("1")>>, <<S("b"), I("2")>>, <<S("c"), I("3")>>, <<S("d"), I("4")>>, <<S("e"), I("5")>> >>),
  A(<<Listed(<< <<I("5"), I("5")>>, <<I("4"), I("4")>>, <<I("3"), I("3")>>, <<I("2"), I("2")>>, <<I("1"), I("1")>> >>, "grown")>>),
  A(<<M(Map5("5"))>>) >>
  \* every sum of Seams as a value of its own, next to its literal
  \o SeamSums \o SeamLits

OrderUniverse == IF Tier = "quick" THEN UniverseQuick ELSE UniverseQuick \o UniverseMore

\* ------------------------------------------------------------------ values of several epochs
\* fresh functions: texts that occur nowhere else
Fresh(k) == Fn(StrCat(StrCat("func(x){x*", ToString(k + 1)), "}"), StrCat("x=>x*", ToString(k + 1)))

\* event HistoryEvents[e] happens before the values of epoch e are made (each is followed by a call)
HistoryEvents == <<"redefine_function", "rebind_constant", "many_definitions">>

HistoryCore == << F1, F2, F3, A(<<F1>>), M(<< <<F2, I("1")>> >>), Qu("quote(x)", "quote(x)"), Ext("sin"),
                  I("1"), S("a"), M(<< <<I("1"), I("1")>> >>) >>
HistoryFuncs == << F1, F2, F3, A(<<F2>>) >>
NFresh == IF Tier = "quick" THEN 6 ELSE 40

HistoryUniverse ==
     [k \in 1..Len(HistoryCore) |-> At(HistoryCore[k], 0)]
  \o [k \in 1..NFresh |-> At(Fresh(k), 1)]                      \* other functions first ..
  \o [k \in 1..Len(HistoryCore) |-> At(HistoryCore[k], 1)]      \* .. then the same sources again
  \o [k \in 1..3 |-> At(Fresh(NFresh + k), 2)]
  \o [k \in 1..Len(HistoryFuncs) |-> At(HistoryFuncs[k], 2)]
  \o [k \in 1..Len(HistoryFuncs) |-> At(HistoryFuncs[Len(HistoryFuncs) + 1 - k], 3)]
  \o [k \in 1..3 |-> At(Fresh(NFresh + 3 + k), 3)]

\* the value itself: tags dropped, the pairs of a map sorted as a map literal would (generated
\* values arrive with their pairs in generation order)
RECURSIVE Norm(_)
Norm(v) ==
  CASE v.t = "arr" -> [t |-> "arr", v |-> [k \in 1..Len(v.v) |-> Norm(v.v[k])]]
    [] v.t = "map" -> [t |-> "map", v |-> MapOf([k \in 1..Len(v.v) |-> <<Norm(v.v[k][1]), Norm(v.v[k][2])>>])]
    [] v.t = "nil" -> [t |-> "nil"]
    [] OTHER -> [t |-> v.t, v |-> v.v]

\* structural identity of two values (records of different types are never compared field by field)
Same(a, c) == a.t = c.t /\ Norm(a) = Norm(c)

\* ------------------------------------------------------------------ the model's table
Bit(p) == IF p THEN 1 ELSE 0

\* index of the entry found for key U[k] in the map holding all of U, set in index order
RECURSIVE AllKeys(_, _, _)
AllKeys(U, acc, k) == IF k > Len(U) THEN acc ELSE AllKeys(U, MapSet(acc, U[k], k), k + 1)
RECURSIVE AllKeysRev(_, _, _)
AllKeysRev(U, acc, k) == IF k < 1 THEN acc ELSE AllKeysRev(U, MapSet(acc, U[k], k), k - 1)

\* (the documented order is about the values: Norm drops how they were made; built as a tuple,
\* because a function [p \in D |-> Norm(..)] would be evaluated again at every application)
RECURSIVE NormSeq(_, _)
NormSeq(UU, k) == IF k > Len(UU) THEN <<>> ELSE <<Norm(UU[k])>> \o NormSeq(UU, k + 1)

ModelBatch(UU) ==
  LET n  == Len(UU)
      D  == 1..n
      U  == NormSeq(UU, 1)
      C  == [p \in D |-> [q \in D |-> Cmp(U[p], U[q])]]
      E  == [p \in D |-> [q \in D |-> Bit(U[p].t = U[q].t /\ C[p][q] = 0)]]
      Z  == [p \in D |-> [q \in D |-> Bit(C[p][q] = 0)]]
      LT == [p \in D |-> [q \in D |-> Bit(C[p][q] < 0)]]
      LE == [p \in D |-> [q \in D |-> Bit(C[p][q] <= 0)]]
      GT == [p \in D |-> [q \in D |-> Bit(C[p][q] > 0)]]
      GE == [p \in D |-> [q \in D |-> Bit(C[p][q] >= 0)]]
      NE == [p \in D |-> [q \in D |-> 1 - E[p][q]]]
      MN == [p \in D |-> [q \in D |-> IF Same(U[p], U[q]) THEN 3 ELSE IF C[q][p] < 0 THEN 2 ELSE 1]]
      MX == [p \in D |-> [q \in D |-> IF Same(U[p], U[q]) THEN 3 ELSE IF C[q][p] > 0 THEN 2 ELSE 1]]
      all == AllKeys(U, <<>>, 1)
      BG == [p \in D |-> IF MapHas(all, U[p]) THEN MapGet(all, U[p]) ELSE 0]
      rev == AllKeysRev(U, <<>>, n)
      BR == [p \in D |-> IF MapHas(rev, U[p]) THEN MapGet(rev, U[p]) ELSE 0]
  IN [n |-> n, src |-> "model", u |-> UU,
      cmp |-> C, eq |-> E, look |-> Z,
      tlt |-> LT, tle |-> LE, tgt |-> GT, tge |-> GE, teq |-> E, tne |-> NE, tlook |-> Z,
      plt |-> LT, ple |-> LE, pgt |-> GT, pge |-> GE, peq |-> E, pne |-> NE, plook |-> Z,
      llt |-> LT, lle |-> LE, lgt |-> GT, lge |-> GE, leq |-> E, lne |-> NE, llook |-> Z,
      rlt |-> LT, rle |-> LE, rgt |-> GT, rge |-> GE, req |-> E, rne |-> NE, rlook |-> Z,
      clt |-> LT, cle |-> LE, cgt |-> GT, cge |-> GE, ceq |-> E, cne |-> NE, clook |-> Z,
      dlt |-> LT, dle |-> LE, dgt |-> GT, dge |-> GE, deq |-> E, dne |-> NE, dlook |-> Z,
      mn |-> MN, mx |-> MX,
      cc |-> [p \in D |-> 0], ec |-> [p \in D |-> 1], scc |-> [p \in D |-> 1], sec |-> [p \in D |-> 1],
      xc |-> [p \in D |-> 0], xe |-> [p \in D |-> 1],
      yac |-> [p \in D |-> 0], yae |-> [p \in D |-> 1], ytc |-> [p \in D |-> 0], yte |-> [p \in D |-> 1],
      yvc |-> [p \in D |-> 0], yve |-> [p \in D |-> 1], yfc |-> [p \in D |-> 0], yfe |-> [p \in D |-> 1],
      ylc |-> [p \in D |-> 0], yle |-> [p \in D |-> 1], yp |-> [p \in D |-> 0],
      big |-> BG, sbig |-> BG, bigr |-> BR, sbigr |-> BR,
      gbig |-> BG, sgbig |-> BG, gbigr |-> BR, sgbigr |-> BR]

\* ------------------------------------------------------------------ the tables under check
Batches == IF Mode = "table" THEN ndJsonDeserialize("order_table.ndjson") ELSE <<>>

ASSUME Mode \in {"export", "table"} /\ Tier \in {"quick", "thorough"}

\* export: the universe and the model's table go to the harness
ASSUME Mode = "export" =>
         /\ \A k \in 1..Len(OrderUniverse) :
               EmitLine(ToJson([law |-> "universe", x |-> k, val |-> OrderUniverse[k]]))
         /\ EmitLine(ToJson([law |-> "model_table", table |-> ModelBatch(OrderUniverse)]))
         /\ \A k \in 1..Len(HistoryUniverse) :
               EmitLine(ToJson([law |-> "history", x |-> k, val |-> HistoryUniverse[k]]))
         /\ EmitLine(ToJson([law |-> "history_events", events |-> HistoryEvents]))

\* table: the model and curated batches are about exactly this spec's universe
ASSUME \A k \in 1..Len(Batches) :
         /\ Batches[k].n = Len(Batches[k].u)
         /\ Batches[k].src \in {"model", "curated"} =>
               /\ Batches[k].n = Len(OrderUniverse)
               /\ \A e \in 1..Batches[k].n : ToJson(Batches[k].u[e]) = ToJson(OrderUniverse[e])
         /\ Batches[k].src = "history" =>
               /\ Batches[k].n = Len(HistoryUniverse)
               /\ \A e \in 1..Batches[k].n : ToJson(Batches[k].u[e]) = ToJson(HistoryUniverse[e])

\* ------------------------------------------------------------------ the laws
Sgn(c) == IF c < 0 THEN -1 ELSE IF c > 0 THEN 1 ELSE 0
T(v)   == v = 1                       \* a recorded boolean is true
Fl(v)  == v = 0                       \* .. is false (8 and 9 are neither)
Bool(v) == v \in {0, 1}

\* top level, parameters, register left, register right, reached through the frames of other calls: the
\* variable of an enclosing closure call on the left, the variable of a caller (recursion) on the right
Forms == <<"t", "p", "l", "r", "c", "d">>
Ops7  == <<"lt", "le", "gt", "ge", "eq", "ne", "look">>
FormTag(f) == CASE f = "t" -> "top" [] f = "p" -> "param" [] f = "l" -> "register_left" [] f = "r" -> "register_right"
                [] f = "c" -> "captured_left" [] f = "d" -> "caller_right"
\* the seven fields of each form, written out (a literal tuple is a constant; names built with StrCat
\* would be built again in every state)
FormOps == << <<"tlt", "tle", "tgt", "tge", "teq", "tne", "tlook">>,
              <<"plt", "ple", "pgt", "pge", "peq", "pne", "plook">>,
              <<"llt", "lle", "lgt", "lge", "leq", "lne", "llook">>,
              <<"rlt", "rle", "rgt", "rge", "req", "rne", "rlook">>,
              <<"clt", "cle", "cgt", "cge", "ceq", "cne", "clook">>,
              <<"dlt", "dle", "dgt", "dge", "deq", "dne", "dlook">> >>
ASSUME /\ Len(FormOps) = Len(Forms)
       /\ \A f \in 1..Len(Forms) : \A o \in 1..7 : FormOps[f][o] = StrCat(Forms[f], Ops7[o])
PairFields == FormOps[1] \o FormOps[2] \o FormOps[3] \o FormOps[4] \o FormOps[5] \o FormOps[6]

Rec(law, k, p, q, zs, cnt, info) ==
  [law |-> law, b |-> k, x |-> p, y |-> q, z |-> zs, n |-> cnt, info |-> info]

One(cond, law, k, p, q, info) == IF cond THEN <<>> ELSE <<Rec(law, k, p, q, <<>>, 1, info)>>

RECURSIVE FirstK(_, _)
FirstK(Z, m) ==
  IF Z = {} \/ m = 0 THEN <<>>
  ELSE LET lo == CHOOSE a \in Z : \A c \in Z : a <= c IN <<lo>> \o FirstK(Z \ {lo}, m - 1)

Tri(Z, law, k, p, q) ==
  IF Z = {} THEN <<>> ELSE <<Rec(law, k, p, q, FirstK(Z, MaxWitness), Cardinality(Z), "")>>

RECURSIVE Flat(_, _)
Flat(ss, k) == IF k > Len(ss) THEN <<>> ELSE ss[k] \o Flat(ss, k + 1)

\* --- totality: every observation at (p, q) is an answer
TotalAt(R, k, p, q) ==
  Flat(<< One(R.cmp[p][q] # 99, "total", k, p, q, "cmp"),
          One(R.eq[p][q] # 9, "total", k, p, q, "eq"),
          One(R.look[p][q] # 9, "total", k, p, q, "look"),
          One(R.mn[p][q] # 9, "total", k, p, q, "mn"),
          One(R.mx[p][q] # 9, "total", k, p, q, "mx"),
          One(R.mn[p][q] # 8, "answered", k, p, q, "mn"),
          One(R.mx[p][q] # 8, "answered", k, p, q, "mx"),
          Flat([f \in 1..Len(PairFields) |->
                 One(R[PairFields[f]][p][q] # 9, "total", k, p, q, PairFields[f])
                 \o One(R[PairFields[f]][p][q] # 8, "answered", k, p, q, PairFields[f])], 1) >>, 1)

\* --- laws of the pair (p, q) on the constructed-object observations
CmpAt(R, k, p, q) ==
  LET c == R.cmp[p][q]  d == R.cmp[q][p] IN
  Flat(<< One(p # q \/ c = 0, "cmp_reflexive", k, p, q, ""),
          One(p >= q \/ Sgn(c) = 0 - Sgn(d), "cmp_antisymmetric", k, p, q, ""),
          One(p # q \/ T(R.eq[p][q]), "eq_reflexive", k, p, q, ""),
          One(p >= q \/ R.eq[p][q] = R.eq[q][p], "eq_symmetric", k, p, q, ""),
          One(T(R.eq[p][q]) => c = 0, "eq_implies_equiv", k, p, q, ""),
          One(T(R.look[p][q]) <=> c = 0, "lookup_is_equiv", k, p, q, "look") >>, 1)

\* --- the operators from source: mutually consistent and the same order as cmp
OpsAt(R, k, p, q, fi) ==
  LET c   == R.cmp[p][q]
      tag == FormTag(Forms[fi])
      N  == FormOps[fi]
      lt == N[1]  le == N[2]  gt == N[3]  ge == N[4]  es == N[5]  ns == N[6]  lk == N[7]
  IN
  Flat(<< One(T(R[lt][p][q]) <=> T(R[gt][q][p]), "ops_lt_gt", k, p, q, tag),
          One(T(R[le][p][q]) <=> ~T(R[gt][p][q]), "ops_le_not_gt", k, p, q, tag),
          One(T(R[ge][p][q]) <=> ~T(R[lt][p][q]), "ops_ge_not_lt", k, p, q, tag),
          One(T(R[ns][p][q]) <=> ~T(R[es][p][q]), "ops_ne_not_eq", k, p, q, tag),
          One(p # q \/ T(R[le][p][q]), "ops_le_reflexive", k, p, q, tag),
          One(p # q \/ T(R[es][p][q]), "ops_eq_reflexive", k, p, q, tag),
          One(T(R[le][p][q]) \/ T(R[le][q][p]), "ops_le_total", k, p, q, tag),
          One(T(R[es][p][q]) <=> T(R[es][q][p]), "ops_eq_symmetric", k, p, q, tag),
          One(T(R[es][p][q]) => (T(R[le][p][q]) /\ T(R[ge][p][q])), "ops_eq_implies_equiv", k, p, q, tag),
          One(/\ T(R[lt][p][q]) <=> (c < 0)
              /\ T(R[le][p][q]) <=> (c <= 0)
              /\ T(R[gt][p][q]) <=> (c > 0)
              /\ T(R[ge][p][q]) <=> (c >= 0), "ops_one_order", k, p, q, tag),
          One(T(R[es][p][q]) <=> T(R.eq[p][q]), "ops_one_equality", k, p, q, tag),
          One(T(R[lk][p][q]) <=> c = 0, "lookup_is_equiv", k, p, q, tag) >>, 1)

MinMaxAt(R, k, p, q) ==
  LET c == R.cmp[p][q]  d == R.cmp[q][p] IN
  Flat(<< One(/\ R.mn[p][q] \in {1, 2, 3, 8, 9}
              /\ R.mn[p][q] = 1 => c <= 0
              /\ R.mn[p][q] = 2 => d <= 0, "min_consistent", k, p, q, ""),
          One(/\ R.mx[p][q] \in {1, 2, 3, 8, 9}
              /\ R.mx[p][q] = 1 => c >= 0
              /\ R.mx[p][q] = 2 => d >= 0, "max_consistent", k, p, q, "") >>, 1)

\* --- per value (evaluated at p = q)
BigFields == <<"big", "sbig", "bigr", "sbigr", "gbig", "sgbig", "gbigr", "sgbigr">>
\* the routes by which the source text of a value is read again, and the fields with cmp / eq of (first reading, this one)
Routes == <<"again", "twice", "eval", "fresh", "late">>
RouteFields == << <<"yac", "yae">>, <<"ytc", "yte">>, <<"yvc", "yve">>, <<"yfc", "yfe">>, <<"ylc", "yle">> >>
ASSUME Len(Routes) = Len(RouteFields)
RereadAt(R, k, p) ==
  Flat([f \in 1..Len(Routes) |->
          LET c == R[RouteFields[f][1]][p]  e == R[RouteFields[f][2]][p] IN
          One(c # 99 /\ e # 9, "total", k, p, p, Routes[f])
          \o One(e \in {1, 9}, "reread_equal", k, p, p, Routes[f])      \* 8: one reading is a value, the other none
          \o One(c \in {0, 99}, "reread_equivalent", k, p, p, Routes[f])], 1)
  \o One(R.yp[p] = 0, "answers_repeat", k, p, p, "")

ValueAt(R, k, p) ==
  RereadAt(R, k, p) \o
  Flat(<< One(R.cc[p] # 99 /\ R.ec[p] # 9 /\ R.scc[p] # 9 /\ R.sec[p] # 9, "total", k, p, p, "copy"),
          One(R.xc[p] # 99 /\ R.xe[p] # 9, "total", k, p, p, "written"),
          One(R.scc[p] # 8 /\ R.sec[p] # 8, "answered", k, p, p, "copy"),
          One(R.ec[p] \in {1, 9}, "copy_equal", k, p, p, "eq"),
          One(R.sec[p] \in {1, 8, 9}, "copy_equal", k, p, p, "eqs"),
          One(R.xe[p] \in {1, 9}, "copy_equal", k, p, p, "written"),
          One(R.cc[p] \in {0, 99}, "copy_equivalent", k, p, p, "cmp"),
          One(R.scc[p] \in {1, 8, 9}, "copy_equivalent", k, p, p, "le"),
          One(R.xc[p] \in {0, 99}, "copy_equivalent", k, p, p, "written"),
          Flat([f \in 1..Len(BigFields) |->
                  LET g == R[BigFields[f]][p] IN
                  One(g # -1, "total", k, p, p, BigFields[f])
                  \o One(g = -1 \/ (g \in 1..R.n /\ R.cmp[p][g] = 0), "bigmap_lookup_equivalent", k, p, p, BigFields[f])], 1) >>, 1)

\* --- laws of the triples (p, q, z) for every z
TriplesAt(R, k, p, q) ==
  LET D  == 1..R.n
      c  == R.cmp[p][q]
      cp == R.cmp[p]   cq == R.cmp[q]
      ep == R.eq[p]    eq2 == R.eq[q]
      kp == R.look[p]  kq == R.look[q]
      lp == R.tle[p]   lq == R.tle[q]
      sp == R.teq[p]   sq == R.teq[q]
  IN Flat(<<
       IF c <= 0 THEN Tri({z \in D : cq[z] <= 0 /\ cp[z] > 0 /\ cp[z] # 99}, "trans_le", k, p, q) ELSE <<>>,
       IF c = 0 THEN Tri({z \in D : cq[z] = 0 /\ cp[z] # 0 /\ cp[z] # 99}, "trans_equiv", k, p, q) ELSE <<>>,
       IF T(ep[q]) THEN Tri({z \in D : T(eq2[z]) /\ Fl(ep[z])}, "trans_eq", k, p, q) ELSE <<>>,
       IF T(kp[q]) THEN Tri({z \in D : T(kq[z]) /\ Fl(kp[z])}, "trans_lookup", k, p, q) ELSE <<>>,
       IF T(lp[q]) THEN Tri({z \in D : T(lq[z]) /\ Fl(lp[z])}, "trans_le_src", k, p, q) ELSE <<>>,
       IF T(sp[q]) THEN Tri({z \in D : T(sq[z]) /\ Fl(sp[z])}, "trans_eq_src", k, p, q) ELSE <<>> >>, 1)

\* the laws other than `total` judge answers: a group of laws is stated for a pair where every
\* observation it reads is an answer (no panic 9 / 99, no error 8) in both directions
MatrixFields == <<"cmp", "eq", "look", "mn", "mx">> \o PairFields
Ans(R, fs, p, q) == \A f \in 1..Len(fs) : R[fs[f]][p][q] \notin {8, 9, 99} /\ R[fs[f]][q][p] \notin {8, 9, 99}
CmpEq == <<"cmp", "eq">>

Broken(R, k, p, q) ==
  LET all == Ans(R, MatrixFields, p, q)      \* fast path: everything answered
      ok(fs) == all \/ Ans(R, fs, p, q)
  IN
  Flat(<< IF all THEN <<>> ELSE TotalAt(R, k, p, q),
          IF ok(<<"cmp", "eq", "look">>) THEN CmpAt(R, k, p, q) ELSE <<>>,
          Flat([f \in 1..Len(Forms) |->
                  IF ok(CmpEq \o FormOps[f]) THEN OpsAt(R, k, p, q, f) ELSE <<>>], 1),
          IF ok(<<"cmp", "mn", "mx">>) THEN MinMaxAt(R, k, p, q) ELSE <<>>,
          IF p = q THEN ValueAt(R, k, p) ELSE <<>>,
          TriplesAt(R, k, p, q) >>, 1)

\* --- comparison with the model (evidence only): what GrolOrder says for the pair (p, q)
ModelAt(a, c) ==
  LET cf == Cmp(a, c)   cb == Cmp(c, a)
      e  == Bit(a.t = c.t /\ cf = 0)
      lt == Bit(cf < 0)  le == Bit(cf <= 0)  gt == Bit(cf > 0)  ge == Bit(cf >= 0)  z == Bit(cf = 0)
  IN [cmp |-> cf, eq |-> e, look |-> z,
      tlt |-> lt, tle |-> le, tgt |-> gt, tge |-> ge, teq |-> e, tne |-> 1 - e, tlook |-> z,
      plt |-> lt, ple |-> le, pgt |-> gt, pge |-> ge, peq |-> e, pne |-> 1 - e, plook |-> z,
      llt |-> lt, lle |-> le, lgt |-> gt, lge |-> ge, leq |-> e, lne |-> 1 - e, llook |-> z,
      rlt |-> lt, rle |-> le, rgt |-> gt, rge |-> ge, req |-> e, rne |-> 1 - e, rlook |-> z,
      clt |-> lt, cle |-> le, cgt |-> gt, cge |-> ge, ceq |-> e, cne |-> 1 - e, clook |-> z,
      dlt |-> lt, dle |-> le, dgt |-> gt, dge |-> ge, deq |-> e, dne |-> 1 - e, dlook |-> z,
      mn |-> IF Same(a, c) THEN 3 ELSE IF cb < 0 THEN 2 ELSE 1,
      mx |-> IF Same(a, c) THEN 3 ELSE IF cb > 0 THEN 2 ELSE 1]

\* --- a value and another member of the universe that is the same value (a twin built
\* differently, a copy made in another epoch, a duplicate): equal and equivalent, everywhere
EqFields == <<"eq", "teq", "peq", "leq", "req", "ceq", "deq">>
SameValueAt(R, k, p, q) ==
  IF p = q \/ ~Same(R.u[p], R.u[q]) THEN <<>>
  ELSE One(R.cmp[p][q] \in {0, 99}, "same_value_equal", k, p, q, "cmp")
       \o Flat([f \in 1..Len(EqFields) |->
                  One(R[EqFields[f]][p][q] \in {1, 8, 9}, "same_value_equal", k, p, q, EqFields[f])], 1)

AllFields == MatrixFields
Disagreements(k, p, q) ==
  LET R == Batches[k] IN
  IF R.src \in {"model", "selftest"} THEN <<>>
  ELSE LET Mo == ModelAt(Norm(R.u[p]), Norm(R.u[q])) IN
       IF \A f \in 1..Len(AllFields) : R[AllFields[f]][p][q] = Mo[AllFields[f]] THEN <<>> ELSE
       Flat([f \in 1..Len(AllFields) |->
               IF R[AllFields[f]][p][q] = Mo[AllFields[f]] THEN <<>>
               ELSE <<[law |-> "model_disagreement", b |-> k, x |-> p, y |-> q, z |-> <<>>, n |-> 1,
                       info |-> AllFields[f], impl |-> R[AllFields[f]][p][q], model |-> Mo[AllFields[f]]]>>], 1)

\* ------------------------------------------------------------------ the state machine
Init == IF Mode = "export"
        THEN b = 0 /\ x = 0 /\ y = 0 /\ nb = 0
        ELSE /\ b \in 1..Len(Batches)
             /\ x \in 1..Batches[b].n
             /\ y \in 1..Batches[b].n
             /\ nb = -1

Check ==
  /\ nb = -1
  /\ LET br == Broken(Batches[b], b, x, y) \o SameValueAt(Batches[b], b, x, y)
         dg == Disagreements(b, x, y)
     IN /\ nb' = Len(br)
        /\ \A e \in 1..Len(br) : EmitLine(ToJson(br[e]))
        /\ \A e \in 1..Len(dg) : EmitLine(ToJson(dg[e]))
  /\ UNCHANGED <<b, x, y>>

Next == Check
Spec == Init /\ [][Next]_vars

LawsHold == nb <= 0
=============================================================================
