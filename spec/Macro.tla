------------------------------- MODULE Macro -------------------------------
(* C13 - macro expansion is exact syntactic substitution.

   Syntax trees are the JSON form of harness/astj.go (DESIGN.md appendix D): records with a
   kind field `k`; children that are lists are sequences; map literals carry a sequence of
   <<key, value>> pairs.  The derived field `ck` of function literals is not part of a tree.

   Subst(template, params, args)   the template with every unquote(parameter) replaced by the
                                   corresponding argument's syntax tree (ORACLE of the check).
   Session state `macros` : name -> [ps |-> parameter names, tpl |-> quoted template].
   Define(name, ps, tpl)           records / replaces a definition (eval.DefineMacros takes the
                                   top-level `name = macro(ps) { quote(tpl) }` statements out of an
                                   input and records them before the rest is expanded).
   ExpandProgram(prog)             rewrites every call site whose callee is a macro name, bottom-up
                                   (ast.Modify): the arguments are SYNTAX, macro calls inside the
                                   arguments are expanded first, the result of a substitution is not
                                   visited again, a wrong number of arguments yields the error node.

   The code has hidden state (the stored template trees, which the tree rewriter must copy and
   not share), so expansion is state-passing: ExpN(node, M, dv) returns the new tree AND the
   store after the visit.  Deviations are named (`dv` is a set of names):
     "InPlaceTemplate"        the rewriter substitutes into the stored template itself (issue #223:
                              "first macro use is all of them") - violates StoreUnchanged/Independent;
     "CalleeNotRewritten"     ast.Modify does not visit the callee of a call expression: a macro call
                              or an unquote in callee position stays as it is (finding, repaired by /repo c6016b2);
     "SharedArgAsMapKey"      unquote returns the argument's node itself, not a copy: a parameter used
                              as two keys of one map literal is ONE key node, both entries carry the
                              value of the last one                  (finding, repaired in /repo since);
     "ResetDropsMacros"       the state reset after a recovered Go panic also empties the macro store
                              (action level: Fail("panic")) - violates StoreUnchanged.
   With dv = {} the operators are the property-level oracle.

   Properties (TLC, every state reached after a Define; they depend on `macros` only):
     StoreUnchanged   an ExpandProgram step and a failing input (Fail) leave `macros` as it was;
     Independent      expanding a program with two call sites = expanding each site alone;
     MacroFreeFixed   expansion is the identity on programs without macro calls, and expanding an
                      expanded (macro-free) program changes nothing;
     ArityError       a call with the wrong number of arguments becomes the error node;
     ArgsFirst        m(n(x)) = Subst(m, Subst(n, x)): arguments are expanded first, as syntax.

   GEN: the same module is the case generator.  A behaviour is a REPL session: Define steps and
   ExpandProgram steps; every ExpandProgram step emits the session so far (the last op is the case:
   program + expected expanded tree).  "main" sessions are Define("m", Defs[d]) ; ExpandProgram(site
   s around m(argument tuple a)) over the product Defs x argument tuples x Sites (sampled by Stride /
   Offset outside the exhaustive core) plus programs with 2..3 uses; "small" sessions are all
   interleavings up to MaxOps of definitions / re-definitions of two macros and programs that use
   both, nested in each other's arguments; "redef" sessions are Define ; use ; Redefine (same name, other
   template) ; the same call text again (RedefDiscriminates: the expected tree differs); "fail" sessions put
   a failing input (Fail(kind): language error, recovered panic, parse error, deadline) between the
   definition and a use (FailKeepsMacros); "pair" sessions call one macro twice (same input / consecutive inputs,
   top level / inside functions) with argument trees that differ but print identically in compact form
   (grouping of an associative operator with float operands, block with / without a comment).  Sites RepSiteLo..NS hold the same call several times in one node
   (two keys of one map literal, both operands, two elements, two arguments) and are always generated for
   the templates without unquote (NoHoles).                                                  *)
EXTENDS Integers, Sequences, TLC, Json, GrolPrims

CONSTANTS Deviation,   \* set of deviation names the ACTIONS run with ({} = the property)
          Depth2,      \* BOOLEAN: include the two-level templates (thorough)
          Stride, Offset, \* sampling of the main product outside the core
          CoreSites,   \* number of sites of the exhaustive core (one-hole templates x all arguments x sites 1..CoreSites)
          MaxOps,      \* bound on the length of a small session
          EmitOn

VARIABLES macros, hist
vars == <<macros, hist>>

\* ------------------------------------------------------------------ syntax trees
IntL(v)        == [k |-> "int", v |-> v]
Str(s)        == [k |-> "str", v |-> s]
Id(n)         == [k |-> "id", n |-> n]
None          == [k |-> "none"]
Pre(op, r)    == [k |-> "pre", op |-> op, r |-> r]
Post(op, n)   == [k |-> "post", op |-> op, n |-> n]
Inf(op, l, r) == [k |-> "inf", op |-> op, l |-> l, r |-> r]
Asg(def, l, r) == [k |-> "asg", def |-> def, l |-> l, r |-> r]
Idx(l, i)     == [k |-> "idx", l |-> l, i |-> i]
Dot(l, n)     == [k |-> "dot", l |-> l, n |-> n]
Call(f, a)    == [k |-> "call", f |-> f, a |-> a]
Bi(n, a)      == [k |-> "bi", n |-> n, a |-> a]
Arr(e)        == [k |-> "arr", e |-> e]
MapL(p)       == [k |-> "map", p |-> p]
If(c, t, he, e) == [k |-> "if", c |-> c, t |-> t, he |-> he, e |-> e]
For(c, body)  == [k |-> "for", c |-> c, body |-> body]
Ret(e)        == [k |-> "ret", e |-> e]
Fn(name, ps, variadic, lambda, body) ==
  [k |-> "fn", name |-> name, ps |-> ps, variadic |-> variadic, lambda |-> lambda, body |-> body]

Leafs == {"int", "float", "bool", "str", "id", "brk", "cnt", "none", "post", "cmt", "unknown", "panic"}

\* the node MacroErrorf builds; the wording of the message is not part of the property
ArityErrorNode == Bi("error", <<Str("ARITY")>>)

Hole(p) == Bi("unquote", <<Id(p)>>)
InSeq(x, s) == \E i \in 1..Len(s) : s[i] = x
IsHole(n, ps) == n.k = "bi" /\ n.n = "unquote" /\ Len(n.a) = 1 /\ n.a[1].k = "id" /\ InSeq(n.a[1].n, ps)
ParamIndex(ps, name) == CHOOSE i \in 1..Len(ps) : ps[i] = name /\ \A j \in (i + 1)..Len(ps) : ps[j] # name

\* ------------------------------------------------------------------ substitution
(* "SharedArgAsMapKey": the pairs of a map literal are kept in a Go map keyed by the key NODE; two
   keys that are the same hole become the same node, so each such entry shows the value of the last. *)
LastSameHole(p, i, ps) ==
  CHOOSE j \in i..Len(p) : p[j][1] = p[i][1] /\ \A q \in (j + 1)..Len(p) : p[q][1] # p[i][1]

RECURSIVE SubstD(_, _, _, _), SubstL(_, _, _, _), SubstP(_, _, _, _, _)
SubstL(l, ps, args, dv) ==
  IF Len(l) = 0 THEN <<>> ELSE <<SubstD(l[1], ps, args, dv)>> \o SubstL(Tail(l), ps, args, dv)
SubstP(p, i, ps, args, dv) ==
  IF i > Len(p) THEN <<>>
  ELSE LET vi == IF "SharedArgAsMapKey" \in dv /\ IsHole(p[i][1], ps) THEN LastSameHole(p, i, ps) ELSE i
       IN << <<SubstD(p[i][1], ps, args, dv), SubstD(p[vi][2], ps, args, dv)>> >> \o SubstP(p, i + 1, ps, args, dv)
SubstD(n, ps, args, dv) ==
  IF IsHole(n, ps) THEN args[ParamIndex(ps, n.a[1].n)]
  ELSE CASE n.k \in Leafs -> n
         [] n.k = "pre"  -> [n EXCEPT !.r = SubstD(n.r, ps, args, dv)]
         [] n.k \in {"inf", "asg"} -> [n EXCEPT !.l = SubstD(n.l, ps, args, dv), !.r = SubstD(n.r, ps, args, dv)]
         [] n.k = "idx"  -> [n EXCEPT !.l = SubstD(n.l, ps, args, dv), !.i = SubstD(n.i, ps, args, dv)]
         [] n.k = "dot"  -> [n EXCEPT !.l = SubstD(n.l, ps, args, dv)]
         [] n.k = "ret"  -> [n EXCEPT !.e = SubstD(n.e, ps, args, dv)]
         [] n.k = "if"   -> [n EXCEPT !.c = SubstD(n.c, ps, args, dv), !.t = SubstL(n.t, ps, args, dv), !.e = SubstL(n.e, ps, args, dv)]
         [] n.k = "for"  -> [n EXCEPT !.c = SubstD(n.c, ps, args, dv), !.body = SubstL(n.body, ps, args, dv)]
         [] n.k \in {"fn", "mac"} -> [n EXCEPT !.body = SubstL(n.body, ps, args, dv)]
         [] n.k = "call" -> [n EXCEPT !.f = IF "CalleeNotRewritten" \in dv THEN n.f ELSE SubstD(n.f, ps, args, dv),
                                      !.a = SubstL(n.a, ps, args, dv)]
         [] n.k = "bi"   -> [n EXCEPT !.a = SubstL(n.a, ps, args, dv)]
         [] n.k = "arr"  -> [n EXCEPT !.e = SubstL(n.e, ps, args, dv)]
         [] n.k = "map"  -> [n EXCEPT !.p = SubstP(n.p, 1, ps, args, dv)]
         [] n.k = "block" -> [n EXCEPT !.s = SubstL(n.s, ps, args, dv)]

Subst(template, params, args) == SubstD(template, params, args, {})

\* ------------------------------------------------------------------ expansion (state-passing)
R(t, m) == [t |-> t, m |-> m]

ExpandCall(c, M, dv) ==   \* c: a call whose callee names a macro of M; its arguments are already expanded
  LET d == M[c.f.n] IN
  IF Len(c.a) # Len(d.ps) THEN R(ArityErrorNode, M)
  ELSE LET out == SubstD(d.tpl, d.ps, c.a, dv) IN
       R(out, IF "InPlaceTemplate" \in dv THEN [M EXCEPT ![c.f.n] = [d EXCEPT !.tpl = out]] ELSE M)

RECURSIVE ExpN(_, _, _), ExpL(_, _, _), ExpP(_, _, _)
ExpL(l, M, dv) ==
  IF Len(l) = 0 THEN R(<<>>, M)
  ELSE LET h == ExpN(l[1], M, dv)
           r == ExpL(Tail(l), h.m, dv)
       IN R(<<h.t>> \o r.t, r.m)
ExpP(p, M, dv) ==
  IF Len(p) = 0 THEN R(<<>>, M)
  ELSE LET kk == ExpN(p[1][1], M, dv)
           vv == ExpN(p[1][2], kk.m, dv)
           r  == ExpP(Tail(p), vv.m, dv)
       IN R(<< <<kk.t, vv.t>> >> \o r.t, r.m)
ExpN(n, M, dv) ==
  CASE n.k \in Leafs -> R(n, M)
    [] n.k = "pre"  -> LET r == ExpN(n.r, M, dv) IN R([n EXCEPT !.r = r.t], r.m)
    [] n.k \in {"inf", "asg"} ->
         LET l == ExpN(n.l, M, dv) r == ExpN(n.r, l.m, dv) IN R([n EXCEPT !.l = l.t, !.r = r.t], r.m)
    [] n.k = "idx"  -> LET l == ExpN(n.l, M, dv) i == ExpN(n.i, l.m, dv) IN R([n EXCEPT !.l = l.t, !.i = i.t], i.m)
    [] n.k = "dot"  -> LET l == ExpN(n.l, M, dv) IN R([n EXCEPT !.l = l.t], l.m)
    [] n.k = "ret"  -> LET e == ExpN(n.e, M, dv) IN R([n EXCEPT !.e = e.t], e.m)
    [] n.k = "if"   -> LET c == ExpN(n.c, M, dv) t == ExpL(n.t, c.m, dv) e == ExpL(n.e, t.m, dv)
                       IN R([n EXCEPT !.c = c.t, !.t = t.t, !.e = e.t], e.m)
    [] n.k = "for"  -> LET c == ExpN(n.c, M, dv) b == ExpL(n.body, c.m, dv) IN R([n EXCEPT !.c = c.t, !.body = b.t], b.m)
    [] n.k \in {"fn", "mac"} -> LET b == ExpL(n.body, M, dv) IN R([n EXCEPT !.body = b.t], b.m)
    [] n.k = "bi"   -> LET a == ExpL(n.a, M, dv) IN R([n EXCEPT !.a = a.t], a.m)
    [] n.k = "arr"  -> LET e == ExpL(n.e, M, dv) IN R([n EXCEPT !.e = e.t], e.m)
    [] n.k = "map"  -> LET p == ExpP(n.p, M, dv) IN R([n EXCEPT !.p = p.t], p.m)
    [] n.k = "block" -> LET s == ExpL(n.s, M, dv) IN R([n EXCEPT !.s = s.t], s.m)
    [] n.k = "call" ->
         LET f == IF "CalleeNotRewritten" \in dv THEN R(n.f, M) ELSE ExpN(n.f, M, dv)
             a == ExpL(n.a, f.m, dv)
             c == [n EXCEPT !.f = f.t, !.a = a.t]
         IN IF c.f.k = "id" /\ c.f.n \in DOMAIN a.m THEN ExpandCall(c, a.m, dv) ELSE R(c, a.m)

ExpandStmts(prog, M, dv) == ExpL(prog, M, dv)

RECURSIVE HasMacroCall(_, _), AnyMacroCall(_, _)
AnyMacroCall(l, M) == \E i \in 1..Len(l) : HasMacroCall(l[i], M)
HasMacroCall(n, M) ==
  CASE n.k \in Leafs -> FALSE
    [] n.k = "pre"  -> HasMacroCall(n.r, M)
    [] n.k \in {"inf", "asg"} -> HasMacroCall(n.l, M) \/ HasMacroCall(n.r, M)
    [] n.k = "idx"  -> HasMacroCall(n.l, M) \/ HasMacroCall(n.i, M)
    [] n.k = "dot"  -> HasMacroCall(n.l, M)
    [] n.k = "ret"  -> HasMacroCall(n.e, M)
    [] n.k = "if"   -> HasMacroCall(n.c, M) \/ AnyMacroCall(n.t, M) \/ AnyMacroCall(n.e, M)
    [] n.k = "for"  -> HasMacroCall(n.c, M) \/ AnyMacroCall(n.body, M)
    [] n.k \in {"fn", "mac"} -> AnyMacroCall(n.body, M)
    [] n.k \in {"bi"} -> AnyMacroCall(n.a, M)
    [] n.k = "arr"  -> AnyMacroCall(n.e, M)
    [] n.k = "map"  -> \E i \in 1..Len(n.p) : HasMacroCall(n.p[i][1], M) \/ HasMacroCall(n.p[i][2], M)
    [] n.k = "block" -> AnyMacroCall(n.s, M)
    [] n.k = "call" -> (n.f.k = "id" /\ n.f.n \in DOMAIN M) \/ HasMacroCall(n.f, M) \/ AnyMacroCall(n.a, M)

\* ------------------------------------------------------------------ the generated universe
(* Everything below is built without RECURSIVE operators so that TLC evaluates the universe once. *)
P == <<"a", "b", "c", "d">>
H(i) == Hole(P[i])
One == IntL("1")  Two == IntL("2")  Zero == IntL("0")
X == Id("x")  Y == Id("y")  T == Id("t")  U == Id("u")

\* argument expressions (prelude: x = 5; y = 2; t = true; u = false; arr = [1, 2, 3]; cnt = 0; r = 0; g, f functions)
Args == <<
  One,                                                   \*  1
  X,                                                     \*  2
  Inf("+", X, One),                                      \*  3  looser than `*`
  Inf("||", T, U),                                       \*  4  looser than `!`
  Post("++", "x"),                                       \*  5  side effect
  Bi("println", <<Str("e")>>),                           \*  6  side effect (output)
  Call(Id("g"), <<>>),                                   \*  7  side-effecting function call
  Asg(FALSE, Y, Inf("+", Y, One)),                       \*  8  assignment as argument (lowest precedence)
  Fn("", <<"q">>, FALSE, TRUE, <<Inf("+", Id("q"), One)>>),  \*  9  lambda, short form
  Fn("", <<"q">>, FALSE, FALSE, <<Id("q")>>),            \* 10  function literal
  Arr(<<One, X>>),                                       \* 11
  Pre("-", X),                                           \* 12  prefix into prefix
  Inf("<", X, IntL("3")),                                 \* 13
  Inf("&&", T, U),                                       \* 14
  If(T, <<One>>, TRUE, <<Two>>),                         \* 15  if expression
  Idx(Id("arr"), Zero),                                  \* 16
  Call(Id("f"), <<X>>),                                  \* 17
  Str("s"),                                              \* 18
  Inf("-", X, Y),                                        \* 19  into `9 - _`
  MapL(<< <<Str("k"), One>> >>),                         \* 20
  Call(Id("m"), <<IntL("4")>>),                           \* 21  the macro inside its own argument
  Inf("*", X, Two),                                      \* 22
  Inf("==", X, IntL("5")),                                \* 23
  Pre("!", T) >>                                         \* 24
NA == Len(Args)

\* one-hole contexts
NU == 24
Uc(j, x) ==
  CASE j = 1  -> x
    [] j = 2  -> Inf("*", x, Two)
    [] j = 3  -> Inf("-", IntL("9"), x)
    [] j = 4  -> Pre("!", x)
    [] j = 5  -> Pre("-", x)
    [] j = 6  -> Arr(<<x, Zero>>)
    [] j = 7  -> MapL(<< <<Str("k"), x>> >>)
    [] j = 8  -> Call(Id("f"), <<x>>)
    [] j = 9  -> Bi("println", <<x>>)
    [] j = 10 -> Idx(x, Zero)
    [] j = 11 -> If(T, <<x>>, TRUE, <<Zero>>)
    [] j = 12 -> If(x, <<One>>, TRUE, <<Two>>)
    [] j = 13 -> Fn("", <<>>, FALSE, FALSE, <<x>>)
    [] j = 14 -> Call(Fn("", <<>>, FALSE, FALSE, <<x>>), <<>>)        \* hole below the callee
    [] j = 15 -> For(Two, <<x>>)
    [] j = 16 -> Asg(FALSE, Id("r"), x)
    [] j = 17 -> Inf("==", x, One)
    [] j = 18 -> Call(x, <<One>>)                                      \* hole is the callee
    [] j = 19 -> If(T, <<Asg(FALSE, Id("r"), One), x>>, FALSE, <<>>)   \* nested block
    [] j = 20 -> Fn("", <<"q">>, FALSE, TRUE, <<Inf("+", Id("q"), x)>>)
    [] j = 21 -> Dot(x, "k")
    [] j = 22 -> MapL(<< <<x, One>> >>)
    [] j = 23 -> Inf("&&", U, x)
    [] j = 24 -> Idx(Id("arr"), x)

NB == 14
Bc(j, x, y) ==
  CASE j = 1  -> Inf("+", x, y)
    [] j = 2  -> Inf("*", x, y)
    [] j = 3  -> Inf("-", x, y)
    [] j = 4  -> Inf("-", y, x)
    [] j = 5  -> Arr(<<x, y>>)
    [] j = 6  -> Idx(x, y)
    [] j = 7  -> If(x, <<y>>, TRUE, <<Zero>>)
    [] j = 8  -> Bi("println", <<x, y>>)
    [] j = 9  -> Inf("&&", x, y)
    [] j = 10 -> Inf("==", x, y)
    [] j = 11 -> MapL(<< <<x, y>> >>)
    [] j = 12 -> MapL(<< <<x, One>>, <<y, Two>> >>)
    [] j = 13 -> Inf("<", x, y)
    [] j = 14 -> If(T, <<x, y>>, FALSE, <<>>)

NT == 4
Tc(j, x, y, z) ==
  CASE j = 1 -> If(x, <<y>>, TRUE, <<z>>)
    [] j = 2 -> Inf("+", x, Inf("*", y, z))
    [] j = 3 -> Arr(<<x, y, z>>)
    [] j = 4 -> Inf("-", Inf("-", x, y), z)

NQ == 3
Qc(j, x, y, z, w) ==
  CASE j = 1 -> Inf("-", Inf("+", x, Inf("*", y, z)), w)
    [] j = 2 -> Arr(<<x, y, z, w>>)
    [] j = 3 -> If(x, <<y>>, TRUE, <<Inf("+", z, w)>>)

D(ps, tpl) == [ps |-> ps, tpl |-> tpl]
P1 == <<"a">>  P2 == <<"a", "b">>  P3 == <<"a", "b", "c">>  P4 == P

Defs1 ==   \* one level; every parameter used 0..3 times
     <<D(<<>>, IntL("7")), D(<<>>, Inf("+", One, Two)), D(<<>>, Bi("println", <<Str("t")>>))>>
  \o [j \in 1..NU |-> D(P1, Uc(j, H(1)))]
  \o <<D(P1, IntL("7"))>>
  \o [j \in 1..NB |-> D(P1, Bc(j, H(1), H(1)))]
  \o [j \in 1..NT |-> D(P1, Tc(j, H(1), H(1), H(1)))]
  \o [j \in 1..NB |-> D(P2, Bc(j, H(1), H(2)))]
  \o [j \in 1..NU |-> D(P2, Uc(j, H(1)))]
  \o [j \in 1..6  |-> D(P2, Uc(j, H(2)))]
  \o [j \in 1..NT |-> D(P2, Tc(j, H(1), H(2), H(1)))]
  \o [j \in 1..NT |-> D(P2, Tc(j, H(2), H(2), H(1)))]
  \o [j \in 1..NT |-> D(P3, Tc(j, H(1), H(2), H(3)))]
  \o [j \in 1..NT |-> D(P3, Tc(j, H(3), H(1), H(2)))]
  \o [j \in 1..NB |-> D(P3, Bc(j, H(1), H(3)))]
  \o [j \in 1..NQ |-> D(P3, Qc(j, H(1), H(2), H(3), H(1)))]
  \o [j \in 1..NQ |-> D(P4, Qc(j, H(1), H(2), H(3), H(4)))]
  \o [j \in 1..NQ |-> D(P4, Qc(j, H(4), H(3), H(2), H(1)))]
  \o [j \in 1..NT |-> D(P4, Tc(j, H(1), H(2), H(4)))]
  \o [j \in 1..6  |-> D(P4, Uc(j, H(4)))]
  \o <<D(P4, IntL("7"))>>
  \o <<D(<<>>, Str("key")), D(P2, X), D(<<>>, Arr(<<One, X>>))>>     \* more templates without unquote

Defs2 ==   \* two levels (thorough)
     [i \in 1..(NU * NU) |-> D(P1, Uc(((i - 1) \div NU) + 1, Uc(((i - 1) % NU) + 1, H(1))))]
  \o [i \in 1..(NB * NU) |-> D(P2, Bc(((i - 1) \div NU) + 1, Uc(((i - 1) % NU) + 1, H(1)), Uc(((i + 6) % NU) + 1, H(2))))]

Defs == IF Depth2 THEN Defs1 \o Defs2 ELSE Defs1
ND == Len(Defs)
CoreLo == 4          \* Defs[CoreLo..CoreHi] are the one-hole templates Uc(j, H(1))
CoreHi == 3 + NU

\* argument tuples of a definition with np parameters: choice a
NArgChoices(np) == IF np = 0 THEN 1 ELSE IF np = 1 THEN NA ELSE 2 * NA
ArgTuple(np, a) ==
  [i \in 1..np |-> Args[(((a - 1) + (i - 1) * (IF a > NA THEN 7 ELSE 3)) % NA) + 1]]
\* as a proper tuple (JSON array even when empty)
Tup(f, n) == CASE n = 0 -> <<>> [] n = 1 -> <<f[1]>> [] n = 2 -> <<f[1], f[2]>> [] n = 3 -> <<f[1], f[2], f[3]>>
               [] n = 4 -> <<f[1], f[2], f[3], f[4]>> [] n = 5 -> <<f[1], f[2], f[3], f[4], f[5]>>
MCall(name, np, a) == Call(Id(name), Tup(ArgTuple(np, a), np))
\* calls with one argument too many / too few
MCallArity(name, np, a, delta) ==
  IF delta > 0 THEN Call(Id(name), Tup(ArgTuple(np + 1, a), np + 1)) ELSE Call(Id(name), Tup(ArgTuple(np - 1, a), np - 1))

\* call sites: the statements around the call C (np = arity of the macro, for the nesting site)
NS == 33
RepSiteLo == 29   \* sites RepSiteLo..NS hold the SAME call several times in one node (two map keys, both operands, ..)
Rep(c, n) == CASE n = 0 -> <<>> [] n = 1 -> <<c>> [] n = 2 -> <<c, c>> [] n = 3 -> <<c, c, c>> [] n = 4 -> <<c, c, c, c>>
Site(s, C, np) ==
  CASE s = 1  -> <<C>>
    [] s = 2  -> <<Asg(FALSE, Id("r"), C)>>
    [] s = 3  -> <<Bi("println", <<C>>)>>
    [] s = 4  -> <<Fn("ff", <<>>, FALSE, FALSE, <<C>>), Call(Id("ff"), <<>>)>>
    [] s = 5  -> <<Asg(FALSE, Id("h"), Fn("", <<>>, FALSE, TRUE, <<C>>)), Call(Id("h"), <<>>)>>
    [] s = 6  -> <<For(Two, <<C>>)>>
    [] s = 7  -> <<For(Asg(FALSE, Id("i"), Two), <<Bi("println", <<Id("i")>>), C>>)>>
    [] s = 8  -> <<If(T, <<C>>, TRUE, <<Zero>>)>>
    [] s = 9  -> <<If(U, <<Zero>>, TRUE, <<C>>)>>
    [] s = 10 -> <<If(C, <<One>>, FALSE, <<>>)>>
    [] s = 11 -> <<Arr(<<C, One>>)>>
    [] s = 12 -> <<MapL(<< <<Str("a"), C>> >>)>>
    [] s = 13 -> <<MapL(<< <<C, One>> >>)>>
    [] s = 14 -> <<Inf("*", C, IntL("3"))>>
    [] s = 15 -> <<Inf("-", IntL("3"), C)>>
    [] s = 16 -> <<Pre("!", C)>>
    [] s = 17 -> <<Pre("-", C)>>
    [] s = 18 -> <<Call(Id("f"), <<C>>)>>
    [] s = 19 -> <<Bi("len", <<Arr(<<C>>)>>)>>
    [] s = 20 -> <<Idx(Id("arr"), C)>>
    [] s = 21 -> <<Idx(C, Zero)>>
    [] s = 22 -> <<Call(C, <<One>>)>>                                          \* the macro call is the callee
    [] s = 23 -> <<Asg(FALSE, Id("kf"), Fn("", <<"w">>, FALSE, FALSE, <<Ret(C)>>)), Call(Id("kf"), <<One>>)>>
    [] s = 24 -> <<Fn("gg", <<"w">>, FALSE, FALSE, <<Asg(TRUE, Id("z"), C), Id("z")>>), Call(Id("gg"), <<Two>>)>>
    [] s = 25 -> <<For(Inf("<", Id("cnt"), Two), <<Asg(FALSE, Id("cnt"), Inf("+", Id("cnt"), One)), C>>)>>
    [] s = 26 -> <<Call(Id("m"), Rep(C, np))>>                                 \* inside the macro's own arguments
    [] s = 27 -> <<Dot(MapL(<< <<Str("k"), C>> >>), "k")>>
    [] s = 28 -> <<Inf("&&", U, C)>>
    \* the same call at several places of ONE node: every place is its own sub-tree (map literals are keyed by node)
    [] s = 29 -> <<MapL(<< <<C, Asg(FALSE, Id("cnt"), Inf("+", Id("cnt"), One))>>,
                          <<C, Asg(FALSE, Id("cnt"), Inf("+", Id("cnt"), IntL("10")))>> >>)>>
    [] s = 30 -> <<Arr(<<C, C>>)>>
    [] s = 31 -> <<Call(Id("f2"), <<C, C>>)>>
    [] s = 32 -> <<Inf("+", C, C)>>
    [] s = 33 -> <<MapL(<< <<C, C>>, <<C, C>> >>)>>

\* a template without any unquote (no parameter, or every parameter used 0 times): its expansions must still be
\* trees of their own, so these definitions get every repeated-call site
NoHoles(d) == SubstD(Defs[d].tpl, Defs[d].ps, <<None, None, None, None>>, {}) = Defs[d].tpl
Sel(d, a, s) ==
  \/ d >= CoreLo /\ d <= CoreHi /\ s <= CoreSites
  \/ s >= RepSiteLo /\ a <= 4 /\ NoHoles(d)
  \/ (d * 7919 + a * 104729 + s * 1299709 + Offset) % Stride = 0

\* programs with several uses of one macro (every definition gets them)
NMulti == 4
Multi(u, d, np) ==
  LET a1 == (d % NArgChoices(np)) + 1
      a2 == ((d + 4) % NArgChoices(np)) + 1
      a3 == ((d + 9) % NArgChoices(np)) + 1
      s1 == (d % NS) + 1
      s2 == ((d * 3 + 1) % NS) + 1
  IN CASE u = 1 -> Site(s1, MCall("m", np, a1), np) \o Site(s2, MCall("m", np, a2), np)
       [] u = 2 -> <<Arr(<<MCall("m", np, a1), MCall("m", np, a2), MCall("m", np, a3)>>)>>
       [] u = 3 -> <<MCall("m", np, a1), MCall("m", np, a1)>>
       [] u = 4 -> <<MCallArity("m", np, a1, 1), MCall("m", np, a2)>> \o (IF np > 0 THEN <<MCallArity("m", np, a3, -1)>> ELSE <<>>)

\* programs without macro calls (expansion must be the identity on them, whatever is defined)
MacroFree == <<
  <<Asg(FALSE, X, Inf("+", X, One)), Bi("println", <<X>>)>>,
  <<Call(Id("f"), <<Inf("*", X, Two)>>), If(T, <<Post("++", "x")>>, TRUE, <<Zero>>)>>,
  <<Fn("ff", <<"w">>, FALSE, FALSE, <<For(Two, <<Call(Id("g"), <<>>)>>), Id("w")>>), Call(Id("ff"), <<One>>)>>,
  <<MapL(<< <<Str("a"), Arr(<<One, Two>>)>> >>), Idx(Id("arr"), Inf(":", Zero, Two)), Call(Id("nomacro"), <<One>>)>> >>

\* small sessions: two macro names, (re)definitions from SmallDefs
SmallDefs == <<
  D(P1, H(1)),
  D(P1, Inf("*", H(1), Two)),
  D(P2, Inf("-", H(2), H(1))),
  D(P1, If(T, <<H(1)>>, TRUE, <<Inf("+", H(1), One)>>)) >>
Names == <<"m", "n">>
NSmallProgs == 8
Ar(M, name) == Len(M[name].ps)
AnyCall(M, name, a) == MCall(name, Ar(M, name), a)
SmallProg(p, M) ==   \* M has at least one name; o = the other name if defined, else the same
  LET n1 == IF "m" \in DOMAIN M THEN "m" ELSE "n"
      n2 == IF "n" \in DOMAIN M THEN "n" ELSE "m"
  IN CASE p = 1 -> <<AnyCall(M, n1, 3)>>
       [] p = 2 -> <<Bi("println", <<AnyCall(M, n2, 5)>>)>>
       [] p = 3 -> <<AnyCall(M, n1, 2), AnyCall(M, n2, 7)>>
       [] p = 4 -> <<Call(Id(n1), Rep(AnyCall(M, n2, 3), Ar(M, n1)))>>                 \* n2(..) inside n1's arguments
       [] p = 5 -> <<Asg(FALSE, Id("r"), Inf("+", AnyCall(M, n1, 19), AnyCall(M, n1, 2))), Id("r")>>
       [] p = 6 -> <<For(Two, <<AnyCall(M, n2, 6)>>), AnyCall(M, n1, 8)>>
       [] p = 7 -> <<Call(Id(n2), Rep(Call(Id(n2), Rep(X, Ar(M, n2))), Ar(M, n2)))>>    \* n2 inside its own arguments
       [] p = 8 -> <<If(AnyCall(M, n1, 13), <<AnyCall(M, n2, 1)>>, TRUE, <<AnyCall(M, n1, 1)>>), AnyCall(M, n2, 24)>>

\* ------------------------------------------------------------------ the session machine
NoMacros == [x \in {} |-> x]
Init == macros = NoMacros /\ hist = <<>>

Define(name, ps, tpl, mode, ix) ==
  /\ macros' = (name :> [ps |-> ps, tpl |-> tpl]) @@ macros
  /\ hist' = Append(hist, [op |-> "def", name |-> name, ps |-> ps, tpl |-> tpl, mode |-> mode, ix |-> ix])

ExpandProgram(prog, feat) ==
  LET r == ExpandStmts(prog, macros, Deviation) IN
  /\ macros' = r.m
  /\ hist' = Append(hist, [op |-> "exp", prog |-> prog, out |-> r.t, feat |-> feat,
                            mode |-> IF Len(hist) = 0 THEN "macrofree" ELSE hist[1].mode])
  /\ (EmitOn => EmitLine(ToJson([h |-> hist'])))

Mode == IF Len(hist) = 0 THEN "none" ELSE hist[1].mode
NExp == Len(SelectSeq(hist, LAMBDA o : o.op = "exp"))

MainDefine == Len(hist) = 0 /\ \E d \in 1..ND : Define("m", Defs[d].ps, Defs[d].tpl, "main", d)
MainExpand ==
  /\ Len(hist) = 1 /\ hist[1].mode = "main"
  /\ LET d == hist[1].ix  np == Len(hist[1].ps) IN
     \/ \E a \in 1..NArgChoices(np), s \in 1..NS :
          Sel(d, a, s) /\ ExpandProgram(Site(s, MCall("m", np, a), np), "single")
     \/ \E u \in 1..NMulti : ExpandProgram(Multi(u, d, np), "multi")
NoMacroExpand == Len(hist) = 0 /\ \E i \in 1..Len(MacroFree) : ExpandProgram(MacroFree[i], "macrofree")
SmallDefine ==
  /\ Len(hist) < MaxOps - 1 /\ Mode \in {"none", "small"}
  /\ \E n \in 1..Len(Names), k \in 1..Len(SmallDefs) : Define(Names[n], SmallDefs[k].ps, SmallDefs[k].tpl, "small", k)
SmallExpand ==
  /\ Len(hist) >= 1 /\ Len(hist) < MaxOps /\ Mode = "small"
  /\ \/ \E p \in 1..NSmallProgs : ExpandProgram(SmallProg(p, macros), "small")
     \/ \E i \in 1..Len(MacroFree) : Len(hist) = 1 /\ ExpandProgram(MacroFree[i], "macrofree")

\* "redef" sessions: use, re-definition of the SAME name with another template, then the same call text again
\* (top level, as an argument, inside a function defined after the re-definition, twice in one array)
Redefine(name, ps, tpl, mode, ix) ==
  /\ name \in DOMAIN macros /\ macros[name].tpl # tpl
  /\ Define(name, ps, tpl, mode, ix)
RedefPairs == <<
  <<D(P1, Inf("*", H(1), Two)), D(P1, Inf("-", IntL("9"), H(1)))>>,
  <<D(P1, H(1)), D(P1, Inf("+", H(1), H(1)))>>,                        \* parameter used once -> twice
  <<D(P1, IntL("7")), D(P1, H(1))>>,                                    \* unused -> used
  <<D(P2, Inf("-", H(2), H(1))), D(P2, Inf("-", H(1), H(2)))>>,
  <<D(<<>>, Str("old")), D(<<>>, Str("new"))>> >>
NRedefProgs == 4
RedefProg(p, np) ==
  CASE p = 1 -> <<MCall("m", np, 3)>>
    [] p = 2 -> <<Bi("println", <<MCall("m", np, 3)>>)>>
    [] p = 3 -> <<Fn("ff", <<>>, FALSE, FALSE, <<MCall("m", np, 3)>>), Call(Id("ff"), <<>>)>>
    [] p = 4 -> <<MCall("m", np, 2), Arr(<<MCall("m", np, 3), MCall("m", np, 3)>>)>>
RedefDefine == Len(hist) = 0 /\ \E i \in 1..Len(RedefPairs) :
                 Define("m", RedefPairs[i][1].ps, RedefPairs[i][1].tpl, "redef", i)
RedefExpand == /\ Len(hist) \in {1, 3} /\ Mode = "redef"
               /\ \E p \in 1..NRedefProgs : ExpandProgram(RedefProg(p, Len(hist[1].ps)), "redef")
RedefStep   == /\ Len(hist) = 2 /\ Mode = "redef"
               /\ LET d == RedefPairs[hist[1].ix][2] IN Redefine("m", d.ps, d.tpl, "redef", hist[1].ix)

\* "fail" sessions: between the definition and a use an unrelated input fails (language error, Go panic recovered by
\* repl.EvalOne - which resets the state -, parse error, deadline).  The macro store is session state: it survives.
Fail(kind) ==
  /\ macros' = IF "ResetDropsMacros" \in Deviation /\ kind = "panic" THEN NoMacros ELSE macros
  /\ hist' = Append(hist, [op |-> "fail", kind |-> kind, mode |-> hist[1].mode])
FailKinds == <<"error", "panic", "parse", "timeout">>
NFailProgs == 3
FailProg(p, np) ==
  CASE p = 1 -> <<MCall("m", np, 3)>>
    [] p = 2 -> <<Fn("ff", <<>>, FALSE, FALSE, <<MCall("m", np, 2)>>), Bi("println", <<Call(Id("ff"), <<>>)>>)>>
    [] p = 3 -> <<Asg(FALSE, Id("r"), MCall("m", np, 19)), For(Two, <<MCall("m", np, 7)>>)>>
HasFailed == \E i \in 1..Len(hist) : hist[i].op = "fail"
FailDefine == Len(hist) = 0 /\ \E k \in 1..Len(SmallDefs) : Define("m", SmallDefs[k].ps, SmallDefs[k].tpl, "fail", k)
FailExpand ==
  /\ Mode = "fail" /\ Len(hist) <= 3
  /\ (Len(hist) = 1 \/ hist[Len(hist)].op = "fail")       \* one optional use before the failing input, one after it
  /\ \E p \in 1..NFailProgs : (HasFailed \/ p <= 2) /\ ExpandProgram(FailProg(p, Len(hist[1].ps)), "fail")
FailStep ==
  /\ Mode = "fail" /\ Len(hist) \in {1, 2} /\ ~HasFailed
  /\ \E k \in 1..Len(FailKinds) : (FailKinds[k] = "timeout" => hist[1].ix = 1) /\ Fail(FailKinds[k])

\* "pair" sessions: two calls of one macro whose argument trees DIFFER but which the compact printer writes with the
\* same text: the grouping of an associative operator (the printer drops the parentheses of a + (b + c)), and a block
\* with / without a comment in it (compact form drops comments).  Arguments are syntax: each call gets ITS tree.
\* Float operands make the two groupings evaluate differently as well.
Flt(bits) == [k |-> "float", v |-> bits]
F1 == Flt("3fb999999999999a")  F2 == Flt("3fc999999999999a")  F3 == Flt("3fd3333333333333")   \* 0.1 0.2 0.3
Cmt(text) == [k |-> "cmt", text |-> text, sp |-> TRUE, sn |-> TRUE]
AssocOps == <<"+", "*", "&&", "||", "&", "|", "^">>
NPairClasses == 9
PairOperands(op) == IF op \in {"+", "*"} THEN <<F1, F2, F3>> ELSE IF op \in {"&&", "||"} THEN <<T, U, T>> ELSE <<X, Y, IntL("3")>>
PairArg(c, side) ==
  IF c <= 7 THEN LET op == AssocOps[c]  o == PairOperands(op) IN
                 IF side = 1 THEN Inf(op, Inf(op, o[1], o[2]), o[3]) ELSE Inf(op, o[1], Inf(op, o[2], o[3]))
  ELSE IF c = 8 THEN Fn("", <<>>, FALSE, FALSE, IF side = 1 THEN <<Cmt("/* c */"), Inf("+", F1, F2)>> ELSE <<Inf("+", F1, F2)>>)
  ELSE If(T, IF side = 1 THEN <<Cmt("/* c */"), F1>> ELSE <<F1>>, TRUE, <<One>>)
PairDefs == << D(P1, Inf("-", H(1), One)), D(P1, Arr(<<H(1), H(1)>>)) >>
PCall(c, side) == Call(Id("m"), <<PairArg(c, side)>>)
InFn(name, call) == Fn(name, <<>>, FALSE, FALSE, <<call>>)
\* shapes 1, 2: both calls in one input (top level / inside two functions); shapes 3, 4: in consecutive inputs
PairWhole(shape, c, o) ==
  IF shape = 1 THEN <<Bi("println", <<PCall(c, o)>>), Bi("println", <<PCall(c, 3 - o)>>)>>
  ELSE <<InFn("ff", PCall(c, o)), InFn("gg", PCall(c, 3 - o)), Bi("println", <<Call(Id("ff"), <<>>)>>), Bi("println", <<Call(Id("gg"), <<>>)>>)>>
PairFirst(shape, c, o)  == IF shape = 3 THEN <<Bi("println", <<PCall(c, o)>>)>> ELSE <<PCall(c, o)>>
PairSecond(shape, c, o) == IF shape = 3 THEN <<InFn("ff", PCall(c, 3 - o)), Bi("println", <<Call(Id("ff"), <<>>)>>)>> ELSE <<PCall(c, 3 - o)>>
PairDefine == Len(hist) = 0 /\ \E i \in 1..Len(PairDefs) : Define("m", PairDefs[i].ps, PairDefs[i].tpl, "pair", i)
PairExpand ==
  /\ Mode = "pair"
  /\ \E c \in 1..NPairClasses, o \in 1..2 :
       \/ Len(hist) = 1 /\ \E shape \in 1..2 : ExpandProgram(PairWhole(shape, c, o), "pair")
       \/ Len(hist) = 1 /\ \E shape \in 3..4 : ExpandProgram(PairFirst(shape, c, o), "pair-first")
       \/ /\ Len(hist) = 2 /\ hist[2].feat = "pair-first"
          /\ \E shape \in 3..4 : hist[2].prog = PairFirst(shape, c, o) /\ ExpandProgram(PairSecond(shape, c, o), "pair")

Next == \/ MainDefine \/ MainExpand \/ NoMacroExpand \/ SmallDefine \/ SmallExpand
        \/ RedefDefine \/ RedefExpand \/ RedefStep
        \/ FailDefine \/ FailExpand \/ FailStep
        \/ PairDefine \/ PairExpand
Spec == Init /\ [][Next]_vars

\* ------------------------------------------------------------------ properties
LastIsDef == Len(hist) > 0 /\ hist[Len(hist)].op = "def"
LastIsExp == Len(hist) > 0 /\ hist[Len(hist)].op = "exp"

StoreUnchanged == [][(hist' # hist /\ hist'[Len(hist')].op # "def") => macros' = macros]_vars   \* uses AND failing inputs

\* call-site statements over the current store used by the invariants
CheckCalls ==
  LET ns == SelectSeq(Names, LAMBDA n : n \in DOMAIN macros) IN
  [i \in 1..(2 * Len(ns)) |->
     LET n == ns[((i - 1) % Len(ns)) + 1] IN
     IF i <= Len(ns) THEN MCall(n, Ar(macros, n), 3) ELSE Bi("println", <<MCall(n, Ar(macros, n), 8)>>)]
Exp0(prog) == ExpandStmts(prog, macros, Deviation)

Independent ==
  LastIsDef =>
    \A i, j \in 1..Len(CheckCalls) :
      Exp0(<<CheckCalls[i], CheckCalls[j]>>).t = Exp0(<<CheckCalls[i]>>).t \o Exp0(<<CheckCalls[j]>>).t

MacroFreeFixed ==
  LastIsDef =>
    /\ \A i \in 1..Len(MacroFree) : Exp0(MacroFree[i]).t = MacroFree[i]
    /\ \A i \in 1..Len(CheckCalls) :
         LET e == Exp0(<<CheckCalls[i]>>).t IN ~AnyMacroCall(e, macros) => Exp0(e).t = e

ArityError ==
  LastIsDef =>
    \A n \in DOMAIN macros : \A k \in 0..5 :
      k # Ar(macros, n) => Exp0(<<Call(Id(n), Tup(ArgTuple(k, 2), k))>>).t = <<ArityErrorNode>>

ArgsFirst ==
  LastIsDef =>
    \A n1 \in DOMAIN macros, n2 \in DOMAIN macros :
      (Ar(macros, n1) = 1 /\ Ar(macros, n2) = 1) =>
        Exp0(<<Call(Id(n1), <<Call(Id(n2), <<Inf("+", X, One)>>)>>)>>).t
          = <<Subst(macros[n1].tpl, macros[n1].ps, <<Subst(macros[n2].tpl, macros[n2].ps, <<Inf("+", X, One)>>)>>)>>

\* the generated re-definition sessions discriminate: the same program text has a different expected tree after the
\* re-definition than before it (so a stale expansion cannot pass)
RedefDiscriminates ==
  (Mode = "redef" /\ Len(hist) = 4 /\ hist[4].prog = hist[2].prog) => hist[4].out # hist[2].out
\* the two arguments of a pair are different trees and both reach the expanded program (a session whose two
\* calls got the same argument tree cannot pass)
PairDiscriminates ==
  /\ \A c \in 1..NPairClasses : PairArg(c, 1) # PairArg(c, 2)
  /\ (Mode = "pair" /\ Len(hist) = 3) => hist[3].out # hist[2].out
\* a defined macro is still expanded after a failing input
FailKeepsMacros ==
  (Mode = "fail" /\ LastIsExp /\ Deviation = {}) => ~AnyMacroCall(hist[Len(hist)].out, macros) /\ "m" \in DOMAIN macros

\* the expected tree recorded with every expansion step is the oracle's
OracleRecorded ==
  LastIsExp => (Deviation = {} =>
    hist[Len(hist)].out = ExpandStmts(hist[Len(hist)].prog, macros, {}).t)
=============================================================================
