------------------------------ MODULE SaveLoad ------------------------------
(* C14 - saved state loads back to the same state.

   State: `globals` (the bindings of a session, a sequence of <<name, value>> in name order,
   values from the domain of GrolValues plus the three non-data kinds a global can hold),
   `file` (a sequence of lines, each a byte string), and ghosts (`saved`, `phase`, `meta`).

   Save writes one `name=<printed form>` line per binding in name order (a named function as
   `func name(..){..}`), skipping pre-seeded constants and values whose printed form is longer
   than the configured limit.  LoadWhole is load(): the whole file evaluated as one program
   (a parse error anywhere loses everything, an evaluation error loses the rest).
   AutoLoadLineByLine is repl.AutoLoad: every line is its own input, a failing line is skipped.
   Both loads go through `ParseLine`/`ParseVal`, a reader for the literal grammar of printed
   forms (Parse o Eval of a literal): that is where the design-level losses show.

   Dev is the set of *deviations*: each name stands for one actual rule of the code under
   which a printed form does not denote the value it was printed from.  With Dev = {} the
   model prints/reads the obvious repaired way and every property holds; with the deviation on
   TLC produces the counterexample.  CodeDev is what the implementation does today.

     FloatNoPoint      strconv.FormatFloat(f,'f',-1,64): an integral float prints without ".0" and is
                       read as an integer when it fits int64 (3.0 -> 3, -0.0 -> "-0" -> integer 0)
     MinIntLiteral     -9223372036854775808 is read as prefix minus applied to 9223372036854775808,
                       which is not an int64 literal and falls back to a float
     NameForms         nil, NaN, +Inf, -Inf are identifiers, not literals: their meaning is whatever
                       the loading session binds (rebound by an earlier line, or absent)
     QuoteEscapes      strconv.Quote writes \a \b \f \v; the lexer reads them as the letters a b f v
     ClosureNoEnv      a function value is printed without the variables it captured
     FuncOwnName       a named function is saved as `func <its own name>(..)` whatever the name of
                       the binding that holds it
     LossyFuncPrint    the compact printer drops parentheses / statement separators that matter
     ExtUsage          an extension (Go) function prints its usage text, which is not an expression
     QuoteMultiLine    quote(..) values print in the non-compact, multi-line layout
     ScannerLimit      AutoLoad stops silently at the first line of MaxLine bytes or more
     NamedFuncNoLimit  the length limit is not applied to named functions
   and four that the code does not have (they make the remaining invariants non-vacuous and are
   the shape of the mutations tried on the real code): Unsorted, Truncate, RawStrings, and
     ScannerByLimit    AutoLoad makes room for the longest admitted value (limit + 1 bytes) instead of the
                       longest admitted line (name "=" value): see LineRoom and BoundaryCases.
     StaleText         a map above the small-map size keeps the printed form it was last written as; giving a key
                       it already has a new value does not discard that text (inserting / deleting a key does),
                       and the copy every element assignment works on takes the text along: see `texts`, AsPrinted.
     SaveNoTrunc       save() writes the new text over the file that is there without cutting it: what the older,
                       longer file held beyond the new text stays (see WriteOver; auto-save renames a new file).
   and one more that the code has:
     LiteralBindsOwnName  a named function written as a value (`g=func f(a){a+1}`, `o=[func f(x){x+1},2]`: a named function
                       held under another name or inside a container) is, when the line is read back, a function
                       literal with a name: evaluating it binds `f` as well, over whatever the file said about `f`
                       on an earlier line - or although the saving session had no `f` at all (see ParseLine.side).

   Session histories (scope "hist"): before the final save a session runs `todo`, a list of steps - its value is
   printed / converted / saved (Show), an element is assigned or deleted, a binding is copied, the session ends
   with an auto-save and the next one auto-loads.  `texts` is the "printed before" ghost: the containers of the
   session whose printed form has been produced and is still theirs.  In the repaired design every change of a
   container discards the texts of the containers it is part of, so what is saved is what the session holds.   *)
EXTENDS Integers, Sequences, FiniteSets, TLC, Json, GrolValues

CONSTANTS Dev,        \* subset of DevNames
          MaxLine,    \* bufio.Scanner token limit (65536 in the code)
          Preseeded,  \* BOOLEAN: sessions start with nil null NaN Inf PI E (extensions initialised)
          Scope,      \* which part of the environment universe: see Cases
          Limits,     \* set of MaxValueLen settings explored (0 = unlimited)
          EmitOn      \* BOOLEAN: GEN - emit one JSON line per saved environment

DevNames == {"FloatNoPoint", "MinIntLiteral", "NameForms", "QuoteEscapes", "ClosureNoEnv", "FuncOwnName",
             "LossyFuncPrint", "ExtUsage", "QuoteMultiLine", "ScannerLimit", "NamedFuncNoLimit",
             "Unsorted", "Truncate", "RawStrings", "ScannerByLimit", "StaleText", "SaveNoTrunc", "LiteralBindsOwnName"}
CodeDev  == DevNames \ {"Unsorted", "Truncate", "RawStrings", "ScannerByLimit", "StaleText", "SaveNoTrunc"}
ASSUME Dev \subseteq DevNames
HasDev(d) == d \in Dev

VARIABLES globals, file, saved, phase, meta, limit,
          todo,       \* the steps of the session history that are still to run before the final save
          texts,      \* ghost "printed before": sequence of <<path, value as printed>> (see the history section)
          dirty       \* something was set since the session started from the file / auto-saved last
vars == <<globals, file, saved, phase, meta, limit, todo, texts, dirty>>

\* ------------------------------------------------------------------------------ values
\* non-data kinds a global can hold
Ext(name, usage) == [t |-> "ext", name |-> name, usage |-> usage]
Quo(one, multi)  == [t |-> "quote", one |-> one, multi |-> multi]
(* a grol function: `name` its own name ("" for lambdas), `code` the identity of its behaviour (its
   faithful compact text), `ck` what the compact printer writes for it (differs from `code` only for
   the bodies the printer damages), `cap` the captured non-global variables.                       *)
Fn(name, code, ck, cap) == [t |-> "func", name |-> name, code |-> code, ck |-> ck, cap |-> cap]

DataKinds == {"int", "float", "bool", "nil", "str", "arr", "map"}
RECURSIVE IsData(_)
IsData(v) == CASE v.t = "arr" -> \A i \in 1..Len(v.e) : IsData(v.e[i])
               [] v.t = "map" -> \A i \in 1..Len(v.p) : IsData(v.p[i][1]) /\ IsData(v.p[i][2])
               [] OTHER       -> v.t \in DataKinds

(* "an equal value of the same type" / "a function that behaves identically": the same type at every
   level (GrolValues!Eq alone would equate {2.0:1} with {2:1}), order-equal scalars (NaN equals NaN,
   -0.0 equals 0.0, as in the language), functions with the same code and the same captured variables. *)
RECURSIVE Same(_, _)
Same(a, b) ==
  /\ a.t = b.t
  /\ CASE a.t = "arr"   -> Len(a.e) = Len(b.e) /\ \A i \in 1..Len(a.e) : Same(a.e[i], b.e[i])
       [] a.t = "map"   -> Len(a.p) = Len(b.p) /\ \A i \in 1..Len(a.p) : Same(a.p[i][1], b.p[i][1]) /\ Same(a.p[i][2], b.p[i][2])
       [] a.t = "func"  -> a.code = b.code /\ Len(a.cap) = Len(b.cap)
                           /\ \A i \in 1..Len(a.cap) : a.cap[i][1] = b.cap[i][1] /\ Same(a.cap[i][2], b.cap[i][2])
       [] a.t = "ext"   -> a.name = b.name
       [] a.t = "quote" -> TRUE
       [] OTHER         -> Cmp(a, b) = 0

NL == StrOfByte(10)
Cat3(a, b, c) == StrCat(a, StrCat(b, c))
Sub(s, i, j) == StrSub(s, IF i < 1 THEN 1 ELSE i, IF j > StrLen(s) THEN StrLen(s) ELSE j)   \* clamped
HasByte(s, b) == StrIndexAny(s, 1, StrOfByte(b)) <= StrLen(s)
At(s, i) == IF i < 1 \/ i > StrLen(s) THEN -1 ELSE StrByteAt(s, i)
StartsWith(s, i, p) == Sub(s, i, i + StrLen(p) - 1) = p

\* ------------------------------------------------------------------------------ printing (the save format)
PrintFloat(bits) ==
  LET s == F64Fmt(bits) IN
  IF s \in {"NaN", "+Inf", "-Inf"} \/ HasByte(s, 46) \/ HasDev("FloatNoPoint") THEN s ELSE StrCat(s, ".0")

RECURSIVE Printed(_)
RECURSIVE PrintSeq(_, _)
RECURSIVE PrintPairs(_, _)
RECURSIVE PrintCap(_, _)
FnText(f) ==
  LET c    == IF HasDev("LossyFuncPrint") THEN f.ck ELSE f.code
      body == IF f.name = "" THEN c ELSE Cat3("func ", f.name, Sub(c, 6, StrLen(c)))
  IN IF Len(f.cap) > 0 /\ ~HasDev("ClosureNoEnv") THEN Cat3("with{", PrintCap(f.cap, 1), StrCat("}", body)) ELSE body
Printed(v) ==
  CASE v.t = "int"   -> v.v
    [] v.t = "float" -> PrintFloat(v.v)
    [] v.t = "bool"  -> IF v.v THEN "true" ELSE "false"
    [] v.t = "nil"   -> "nil"
    [] v.t = "str"   -> IF HasDev("RawStrings") THEN Cat3("\"", v.v, "\"") ELSE StrQuote(v.v)
    [] v.t = "arr"   -> Cat3("[", PrintSeq(v.e, 1), "]")
    [] v.t = "map"   -> Cat3("{", PrintPairs(v.p, 1), "}")
    [] v.t = "func"  -> FnText(v)
    [] v.t = "ext"   -> IF HasDev("ExtUsage") THEN v.usage ELSE v.name
    [] v.t = "quote" -> IF HasDev("QuoteMultiLine") THEN v.multi ELSE v.one
    [] OTHER         -> "?"
PrintSeq(e, i) ==
  IF i > Len(e) THEN "" ELSE Cat3(IF i > 1 THEN "," ELSE "", Printed(e[i]), PrintSeq(e, i + 1))
PrintPairs(p, i) ==
  IF i > Len(p) THEN ""
  ELSE Cat3(IF i > 1 THEN "," ELSE "", Cat3(Printed(p[i][1]), ":", Printed(p[i][2])), PrintPairs(p, i + 1))
PrintCap(c, i) ==
  IF i > Len(c) THEN ""
  ELSE Cat3(IF i > 1 THEN "," ELSE "", Cat3(c[i][1], "=", Printed(c[i][2])), PrintCap(c, i + 1))

\* with every deviation of the code on, the printed form of data is GrolValues!Inspect
\* (of the rules above only FloatNoPoint and RawStrings concern the printed form of data)
PrintIsInspect(v) == (HasDev("FloatNoPoint") /\ ~HasDev("RawStrings") /\ IsData(v)) => Printed(v) = Inspect(v)

PreConst == IF Preseeded THEN {"PI", "E"} ELSE {}      \* constants that are pre-seeded identifiers: never saved

IsNamedOwn(name, v) == v.t = "func" /\ v.name # "" /\ (v.name = name \/ HasDev("FuncOwnName"))
(* the text written for one binding (without the newline) *)
BindingText(name, v) == IF IsNamedOwn(name, v) THEN FnText(v) ELSE Cat3(name, "=", Printed(v))
(* the length the limit is compared with *)
TooLong(name, v, lim) ==
  /\ lim > 0
  /\ StrLen(Printed(v)) > lim
  /\ ~(HasDev("NamedFuncNoLimit") /\ v.t = "func" /\ v.name # "")
Skipped(name, v, lim) == name \in PreConst \/ (TooLong(name, v, lim) /\ ~HasDev("Truncate"))
WrittenText(name, v, lim) ==
  IF TooLong(name, v, lim) /\ HasDev("Truncate") THEN Cat3(name, "=", Sub(Printed(v), 1, lim)) ELSE BindingText(name, v)

RECURSIVE SplitNL(_, _)
SplitNL(s, i) ==      \* the lines of s[i..] (s ends with a newline or is empty)
  IF i > StrLen(s) THEN <<>>
  ELSE LET j == StrIndexAny(s, i, NL) IN <<Sub(s, i, j - 1)>> \o SplitNL(s, j + 1)

Reverse(s) == [i \in 1..Len(s) |-> s[Len(s) + 1 - i]]
RECURSIVE FileText(_, _, _)
FileText(g, i, lim) ==
  IF i > Len(g) THEN ""
  ELSE IF Skipped(g[i][1], g[i][2], lim) THEN FileText(g, i + 1, lim)
  ELSE Cat3(WrittenText(g[i][1], g[i][2], lim), NL, FileText(g, i + 1, lim))
SaveFile(g, lim) == SplitNL(FileText(IF HasDev("Unsorted") THEN Reverse(g) ELSE g, 1, lim), 1)
Written(g, lim)  == SelectSeq(g, LAMBDA b : ~Skipped(b[1], b[2], lim))

\* ------------------------------------------------------------------------------ reading (Parse o Eval of a literal)
\* results: [st |-> "ok" | "evalerr" | "parseerr", v |-> value, nx |-> next position]
R(st, v, nx) == [st |-> st, v |-> v, nx |-> nx]
Worse(a, b) == IF a = "parseerr" \/ b = "parseerr" THEN "parseerr" ELSE IF a = "evalerr" \/ b = "evalerr" THEN "evalerr" ELSE "ok"

IsDigitB(b)  == b >= 48 /\ b <= 57
IsLetterB(b) == (b >= 97 /\ b <= 122) \/ (b >= 65 /\ b <= 90) \/ b = 95
IsAlnumB(b)  == IsLetterB(b) \/ IsDigitB(b)
HexVal(b) == IF b >= 48 /\ b <= 57 THEN b - 48 ELSE IF b >= 97 /\ b <= 102 THEN b - 87 ELSE IF b >= 65 /\ b <= 70 THEN b - 55 ELSE 0
Hex2(s, i) == HexVal(At(s, i)) * 16 + HexVal(At(s, i + 1))
Hex4(s, i) == Hex2(s, i) * 256 + Hex2(s, i + 2)
\* strings.Builder.WriteRune: UTF-8, the replacement character for surrogates and out-of-range values
Utf8(r) ==
  IF r < 0 \/ r > 1114111 \/ (r >= 55296 /\ r <= 57343) THEN StrFromBytes(<<239, 191, 189>>)
  ELSE IF r < 128 THEN StrOfByte(r)
  ELSE IF r < 2048 THEN StrFromBytes(<<192 + (r \div 64), 128 + (r % 64)>>)
  ELSE IF r < 65536 THEN StrFromBytes(<<224 + (r \div 4096), 128 + ((r \div 64) % 64), 128 + (r % 64)>>)
  ELSE StrFromBytes(<<240 + (r \div 262144), 128 + ((r \div 4096) % 64), 128 + ((r \div 64) % 64), 128 + (r % 64)>>)

QuoteOrBackslash == StrCat(StrOfByte(34), StrOfByte(92))
(* lexer.readString after the opening double quote, run by run *)
RECURSIVE ReadStr(_, _, _)
ReadStr(s, i, acc) ==
  LET j    == StrIndexAny(s, i, QuoteOrBackslash)
      acc2 == StrCat(acc, Sub(s, i, j - 1))
  IN IF j > StrLen(s) THEN R("parseerr", Str(acc2), j)
     ELSE IF StrByteAt(s, j) = 34 THEN R("ok", Str(acc2), j + 1)
     ELSE LET e == At(s, j + 1) IN
          CASE e = -1  -> R("parseerr", Str(acc2), j + 1)
            [] e = 110 -> ReadStr(s, j + 2, StrCat(acc2, StrOfByte(10)))
            [] e = 114 -> ReadStr(s, j + 2, StrCat(acc2, StrOfByte(13)))
            [] e = 116 -> ReadStr(s, j + 2, StrCat(acc2, StrOfByte(9)))
            [] e = 120 -> ReadStr(s, j + 4, StrCat(acc2, StrOfByte(Hex2(s, j + 2))))
            [] e = 117 -> ReadStr(s, j + 6, StrCat(acc2, Utf8(Hex4(s, j + 2))))
            [] e = 85  -> ReadStr(s, j + 10, StrCat(acc2, Utf8(Hex4(s, j + 2) * 65536 + Hex4(s, j + 6))))
            [] e = 97  /\ ~HasDev("QuoteEscapes") -> ReadStr(s, j + 2, StrCat(acc2, StrOfByte(7)))
            [] e = 98  /\ ~HasDev("QuoteEscapes") -> ReadStr(s, j + 2, StrCat(acc2, StrOfByte(8)))
            [] e = 102 /\ ~HasDev("QuoteEscapes") -> ReadStr(s, j + 2, StrCat(acc2, StrOfByte(12)))
            [] e = 118 /\ ~HasDev("QuoteEscapes") -> ReadStr(s, j + 2, StrCat(acc2, StrOfByte(11)))
            [] OTHER   -> ReadStr(s, j + 2, StrCat(acc2, StrOfByte(e)))   \* the byte after the backslash is kept

RECURSIVE SkipDigits(_, _)
SkipDigits(s, i) == IF IsDigitB(At(s, i)) THEN SkipDigits(s, i + 1) ELSE i
RECURSIVE SkipIdent(_, _)
SkipIdent(s, i) == IF IsAlnumB(At(s, i)) THEN SkipIdent(s, i + 1) ELSE i

(* lexer.readNumber + parser.parseIntegerLiteral/parseFloatLiteral on an unsigned literal *)
ReadUnsigned(s, i) ==
  LET j == SkipDigits(s, i)
      k == IF At(s, j) = 46 THEN SkipDigits(s, j + 1) ELSE j
      t == Sub(s, i, k - 1)
  IN IF k > j THEN (LET f == F64Parse(t) IN IF f = "" THEN R("parseerr", Nil, k) ELSE R("ok", Flt(f), k))
     ELSE IF I64ParseOk(t) THEN R("ok", IntV(I64Parse(t)), k)
     ELSE (LET f == F64Parse(t) IN IF f = "" THEN R("parseerr", Nil, k) ELSE R("ok", Flt(f), k))   \* "switch to float"

NegV(r)  == IF r.st # "ok" THEN r
            ELSE IF r.v.t = "int" THEN R("ok", IntV(I64Neg(r.v.v)), r.nx)
            ELSE IF r.v.t = "float" THEN R("ok", Flt(F64Neg(r.v.v)), r.nx)
            ELSE R("evalerr", Nil, r.nx)
PlusV(r) == IF r.st # "ok" \/ r.v.t \in {"int", "float"} THEN r ELSE R("evalerr", Nil, r.nx)

\* identifiers every session starts with when extensions are initialised
PreVal(name) == CASE name = "nil"  -> Nil
                  [] name = "null" -> Nil
                  [] name = "NaN"  -> Flt("7ff8000000000001")
                  [] name = "Inf"  -> Flt("7ff0000000000000")
                  [] name = "PI"   -> Flt("400921fb54442d18")
                  [] name = "E"    -> Flt("4005bf0a8b145769")
PreNames == {"nil", "null", "NaN", "Inf", "PI", "E"}
ExtNames == {"sprintf", "pow", "sqrt"}        \* the extension functions the universe mentions

RECURSIVE EnvFind(_, _, _)
EnvFind(env, name, i) == IF i > Len(env) THEN 0 ELSE IF env[i][1] = name THEN i ELSE EnvFind(env, name, i + 1)
Lookup(env, name, nx) ==
  LET i == EnvFind(env, name, 1) IN
  IF i > 0 THEN R("ok", env[i][2], nx)
  ELSE IF Preseeded /\ name \in PreNames THEN R("ok", PreVal(name), nx)
  ELSE IF name \in ExtNames THEN R("ok", Ext(name, name), nx)
  ELSE R("evalerr", Nil, nx)
RECURSIVE Bind(_, _, _, _)
Bind(env, name, v, i) ==        \* env with name bound to v, in name order
  IF i > Len(env) THEN Append(env, <<name, v>>)
  ELSE LET c == StrCmp(env[i][1], name) IN
       IF c = 0 THEN [env EXCEPT ![i] = <<name, v>>]
       ELSE IF c > 0 THEN SubSeq(env, 1, i - 1) \o << <<name, v>> >> \o SubSeq(env, i, Len(env))
       ELSE Bind(env, name, v, i + 1)

(* end of the expression starting at i: the first `,` `]` `}` `)` at nesting depth 0, or the end of the
   line; string literals are skipped; 0 when brackets do not balance (a parse error)                  *)
RECURSIVE SkipExpr(_, _, _)
SkipExpr(s, i, depth) ==
  LET b == At(s, i) IN
  IF b = -1 THEN (IF depth = 0 THEN i ELSE 0)
  ELSE IF b = 34 THEN (LET r == ReadStr(s, i + 1, "") IN IF r.st = "ok" THEN SkipExpr(s, r.nx, depth) ELSE 0)
  ELSE IF b \in {40, 91, 123} THEN SkipExpr(s, i + 1, depth + 1)
  ELSE IF b \in {41, 93, 125} THEN (IF depth = 0 THEN i ELSE SkipExpr(s, i + 1, depth - 1))
  ELSE IF b = 44 /\ depth = 0 THEN i
  ELSE SkipExpr(s, i + 1, depth)

(* a function text as the lexer reads it when QuoteEscapes is on: \a \b \f \v in its string literals are letters *)
RECURSIVE UnreadEscapes(_, _, _)
UnreadEscapes(t, i, acc) ==
  LET j == StrIndexAny(t, i, StrOfByte(92)) IN
  IF j > StrLen(t) THEN StrCat(acc, Sub(t, i, StrLen(t)))
  ELSE IF At(t, j + 1) \in {97, 98, 102, 118} THEN UnreadEscapes(t, j + 2, Cat3(acc, Sub(t, i, j - 1), StrOfByte(At(t, j + 1))))
  ELSE UnreadEscapes(t, j + 2, StrCat(acc, Sub(t, i, j + 1)))
FnOfText(t0) ==  \* the function a function text denotes when evaluated at top level (nothing captured)
  LET t == IF HasDev("QuoteEscapes") THEN UnreadEscapes(t0, 1, "") ELSE t0 IN
  IF StartsWith(t, 1, "func ") /\ IsLetterB(At(t, 6))
  THEN LET k == SkipIdent(t, 6) IN
       LET c == StrCat("func ", Sub(t, k, StrLen(t))) IN Fn(Sub(t, 6, k - 1), c, c, <<>>)
  ELSE Fn("", t, t, <<>>)

RECURSIVE ParseVal(_, _, _)
RECURSIVE ParseList(_, _, _, _, _)
RECURSIVE ParsePairs(_, _, _, _, _)
RECURSIVE ParseCaps(_, _, _, _, _)
(* position of a top-level assignment `=` (not ==, <=, >=, !=, =>) in t[i..], 0 when there is none *)
RECURSIVE FindAssign(_, _, _)
FindAssign(t, i, depth) ==
  LET b == At(t, i) IN
  IF b = -1 THEN 0
  ELSE IF b = 34 THEN (LET r == ReadStr(t, i + 1, "") IN IF r.st = "ok" THEN FindAssign(t, r.nx, depth) ELSE 0)
  ELSE IF b \in {40, 91, 123} THEN FindAssign(t, i + 1, depth + 1)
  ELSE IF b \in {41, 93, 125} THEN FindAssign(t, i + 1, depth - 1)
  ELSE IF b = 61 /\ depth = 0 /\ At(t, i + 1) \notin {61, 62} /\ At(t, i - 1) \notin {61, 60, 62, 33} THEN i
  ELSE FindAssign(t, i + 1, depth)
RECURSIVE FindArrow(_, _)
FindArrow(t, i) == IF At(t, i) = -1 THEN 0 ELSE IF StartsWith(t, i, "=>") THEN i ELSE FindArrow(t, i + 1)
(* `x=>c=c+1`: the lambda ends in front of the assignment, which then has a function on its left *)
LambdaAssignBody(t) ==
  /\ ~StartsWith(t, 1, "func")
  /\ LET a == FindArrow(t, 1) IN a > 0 /\ At(t, a + 2) # 123 /\ FindAssign(t, a + 2, 0) > 0
ParseFn(s, i) ==
  LET e == SkipExpr(s, i, 0) IN
  IF e = 0 THEN R("parseerr", Nil, StrLen(s) + 1)
  ELSE IF LambdaAssignBody(Sub(s, i, e - 1)) THEN R("evalerr", Nil, e)
  ELSE R("ok", FnOfText(Sub(s, i, e - 1)), e)
ParseVal(s, i, env) ==
  LET b == At(s, i) IN
  CASE b = 34 -> ReadStr(s, i + 1, "")
    [] b = 91 -> IF At(s, i + 1) = 93 THEN R("ok", Arr(<<>>), i + 2) ELSE ParseList(s, i + 1, env, <<>>, "ok")
    [] b = 123 -> IF At(s, i + 1) = 125 THEN R("ok", Map(<<>>), i + 2) ELSE ParsePairs(s, i + 1, env, <<>>, "ok")
    [] IsDigitB(b) \/ (b = 46 /\ IsDigitB(At(s, i + 1))) -> ReadUnsigned(s, i)
    [] b = 45 -> IF ~HasDev("MinIntLiteral") /\ StartsWith(s, i, "-9223372036854775808") /\ ~IsDigitB(At(s, i + 20)) /\ At(s, i + 20) # 46
                 THEN R("ok", IntV("-9223372036854775808"), i + 20)
                 ELSE NegV(ParseVal(s, i + 1, env))
    [] b = 43 -> PlusV(ParseVal(s, i + 1, env))
    [] b = 40 -> ParseFn(s, i)                                      \* (a,b)=>..
    [] b = 46 /\ StartsWith(s, i, "..=>") -> ParseFn(s, i)          \* ..=>.. (a variadic lambda without other parameters)
    [] IsLetterB(b) ->
         (LET k  == SkipIdent(s, i)
              id == Sub(s, i, k - 1)
          IN CASE StartsWith(s, k, "=>") -> ParseFn(s, i)           \* x=>..
               [] id = "func"  -> ParseFn(s, i)
               [] id = "true"  -> R("ok", Bool(TRUE), k)
               [] id = "false" -> R("ok", Bool(FALSE), k)
               [] id = "with" /\ At(s, k) = 123 ->                  \* the repaired closure form: with{x=2}y=>x+y
                    (LET c == IF At(s, k + 1) = 125 THEN R("ok", <<>>, k + 2) ELSE ParseCaps(s, k + 1, env, <<>>, "ok") IN
                     LET f == ParseFn(s, c.nx) IN
                     IF c.st # "ok" \/ f.st # "ok" THEN R(Worse(c.st, f.st), Nil, f.nx)
                     ELSE R("ok", [f.v EXCEPT !.cap = c.v], f.nx))
               [] id = "quote" /\ At(s, k) = 40 ->
                    (LET e == SkipExpr(s, k, 0) IN
                     IF e = 0 THEN R("parseerr", Nil, StrLen(s) + 1)
                     ELSE R("ok", Quo(Sub(s, i, e - 1), Sub(s, i, e - 1)), e))
               [] id \in {"nil", "NaN", "Inf"} /\ ~HasDev("NameForms") -> R("ok", PreVal(id), k)   \* literals in the repaired reading
               [] At(s, k) = 40 ->                                  \* a call: `sprintf(string, ..)` - its arguments are not bound
                    (LET e == SkipExpr(s, k, 0) IN
                     IF e = 0 THEN R("parseerr", Nil, StrLen(s) + 1) ELSE R("evalerr", Nil, e))
               [] OTHER -> Lookup(env, id, k))
    [] OTHER -> R("parseerr", Nil, StrLen(s) + 1)
ParseList(s, i, env, acc, st) ==
  LET r   == ParseVal(s, i, env)
      st2 == Worse(st, r.st)
  IN IF r.st = "parseerr" THEN R("parseerr", Nil, r.nx)
     ELSE LET acc2 == Append(acc, r.v) IN
          CASE At(s, r.nx) = 44 -> ParseList(s, r.nx + 1, env, acc2, st2)
            [] At(s, r.nx) = 93 -> R(st2, IF st2 = "ok" THEN Arr(acc2) ELSE Nil, r.nx + 1)
            [] OTHER            -> R("parseerr", Nil, r.nx)
ParsePairs(s, i, env, acc, st) ==
  LET k == ParseVal(s, i, env) IN
  IF k.st = "parseerr" \/ At(s, k.nx) # 58 THEN R("parseerr", Nil, k.nx)
  ELSE LET v   == ParseVal(s, k.nx + 1, env)
           st2 == Worse(st, Worse(k.st, v.st))
       IN IF v.st = "parseerr" THEN R("parseerr", Nil, v.nx)
          ELSE LET acc2 == IF st2 = "ok" THEN MapSet(acc, k.v, v.v) ELSE acc IN
               CASE At(s, v.nx) = 44  -> ParsePairs(s, v.nx + 1, env, acc2, st2)
                 [] At(s, v.nx) = 125 -> R(st2, IF st2 = "ok" THEN Map(acc2) ELSE Nil, v.nx + 1)
                 [] OTHER             -> R("parseerr", Nil, v.nx)
ParseCaps(s, i, env, acc, st) ==
  LET k == SkipIdent(s, i) IN
  IF k = i \/ At(s, k) # 61 THEN R("parseerr", <<>>, k)
  ELSE LET v   == ParseVal(s, k + 1, env)
           st2 == Worse(st, v.st)
       IN IF v.st = "parseerr" THEN R("parseerr", <<>>, v.nx)
          ELSE LET acc2 == Append(acc, <<Sub(s, i, k - 1), v.v>>) IN
               CASE At(s, v.nx) = 44  -> ParseCaps(s, v.nx + 1, env, acc2, st2)
                 [] At(s, v.nx) = 125 -> R(st2, acc2, v.nx + 1)
                 [] OTHER             -> R("parseerr", <<>>, v.nx)

(* the named functions a value read from a literal holds, in the order the literal is evaluated: under
   LiteralBindsOwnName each of them is a function literal with a name, and evaluating it defines that name.
   (Not modelled: the definitions made by the part of a line that was evaluated before an evaluation error.) *)
RECURSIVE NamedFns(_)
RECURSIVE NamedFnsSeq(_, _)
RECURSIVE NamedFnsPairs(_, _)
NamedFns(v) ==
  CASE v.t = "func" -> (IF v.name # "" THEN <<v>> ELSE <<>>)
    [] v.t = "arr"  -> NamedFnsSeq(v.e, 1)
    [] v.t = "map"  -> NamedFnsPairs(v.p, 1)
    [] OTHER        -> <<>>
NamedFnsSeq(e, i)   == IF i > Len(e) THEN <<>> ELSE NamedFns(e[i]) \o NamedFnsSeq(e, i + 1)
NamedFnsPairs(p, i) == IF i > Len(p) THEN <<>> ELSE NamedFns(p[i][1]) \o NamedFns(p[i][2]) \o NamedFnsPairs(p, i + 1)
RECURSIVE BindFns(_, _, _)
BindFns(env, fs, i) == IF i > Len(fs) THEN env ELSE BindFns(Bind(env, fs[i].name, fs[i], 1), fs, i + 1)

(* one line as one statement: [st, name, v, side].  `func name(..){..}` defines name; `name=value` binds it - after
   the value has been evaluated, which under LiteralBindsOwnName defines `side` on the way.                   *)
PL(st, name, v, side) == [st |-> st, name |-> name, v |-> v, side |-> side]
ParseLine(line, env) ==
  LET n == StrLen(line) IN
  IF StartsWith(line, 1, "func ") /\ IsLetterB(At(line, 6))
  THEN LET r == ParseFn(line, 1) IN
       IF r.st # "ok" \/ r.nx # n + 1 THEN PL("parseerr", "", Nil, <<>>)
       ELSE PL("ok", r.v.name, r.v, <<>>)
  ELSE LET k == SkipIdent(line, 1) IN
       IF k = 1 \/ ~IsLetterB(At(line, 1)) \/ At(line, k) # 61 THEN PL("parseerr", "", Nil, <<>>)
       ELSE LET r == ParseVal(line, k + 1, env) IN
            IF r.st = "parseerr" \/ r.nx # n + 1 THEN PL("parseerr", "", Nil, <<>>)
            ELSE PL(r.st, Sub(line, 1, k - 1), r.v, IF r.st = "ok" /\ HasDev("LiteralBindsOwnName") THEN NamedFns(r.v) ELSE <<>>)
(* the session after a line that was read *)
BindLine(env, r) == Bind(BindFns(env, r.side, 1), r.name, r.v, 1)

\* repl.AutoLoad: a fresh session, each line its own input, failing lines skipped
(* the line reader gives up (silently: that line and the rest are not loaded) at a line it has no room for:
   ScannerLimit    the default buffer, MaxLine bytes, whatever the file holds;
   ScannerByLimit  room for the longest *value* the configured limit admits (lim + 1 bytes when lim >= MaxLine,
                   else the default) - but a line is name "=" value, up to StrLen(name) + 1 bytes longer.       *)
LineRoom(lim) == IF HasDev("ScannerByLimit") /\ lim >= MaxLine THEN lim + 1 ELSE MaxLine
RECURSIVE AutoLoadFrom(_, _, _, _)
AutoLoadFrom(f, i, env, lim) ==
  IF i > Len(f) THEN env
  ELSE IF (HasDev("ScannerLimit") \/ (HasDev("ScannerByLimit") /\ lim > 0)) /\ StrLen(f[i]) >= LineRoom(lim) THEN env
  ELSE LET r == ParseLine(f[i], env) IN
       AutoLoadFrom(f, i + 1, IF r.st = "ok" THEN BindLine(env, r) ELSE env, lim)
AutoLoadOf(f, lim) == AutoLoadFrom(f, 1, <<>>, lim)    \* the loading session is configured with the same limit

\* load(): the whole file is one program: any parse error and nothing is evaluated; the first
\* evaluation error ends the evaluation
RECURSIVE LoadWholeFrom(_, _, _)
LoadWholeFrom(f, i, env) ==
  IF i > Len(f) THEN env
  ELSE LET r == ParseLine(f[i], env) IN
       IF r.st = "ok" THEN LoadWholeFrom(f, i + 1, BindLine(env, r)) ELSE env
LoadWholeOf(f) ==
  IF \E i \in 1..Len(f) : ParseLine(f[i], <<>>).st = "parseerr" THEN <<>> ELSE LoadWholeFrom(f, 1, <<>>)

\* ------------------------------------------------------------------------------ session histories
(* What a session does before its final save.  A step is a record:
     [op |-> "show", how, name]        the value of `name` is printed / converted / compared / saved (ShowWays)
     [op |-> "assign", name, path, dot, fn, v, from, fpath]
                                       name = .. (path = <<>>) or name[k] = .. / name.k = .. (path = <<k>>: the language
                                       assigns one level deep only); the right side is the literal v (from = "") or a
                                       read of another binding: from[fpath[1]][fpath[2]]..; fn: the assignment is made
                                       from inside a function (the global is reached through the enclosing scope)
     [op |-> "del", name, key]         del(name[key])
     [op |-> "unbind", name]           del(name)
     [op |-> "session"]                the session ends (auto-save); a fresh one auto-loads the file
   A step that the language rejects (no such binding, index out of range) changes nothing.
   Not modelled: which bindings share one container object after n = m (printing n does not mark m here).

   `texts` holds <<path, value>>: path = <<Str(name), key, key, ..>> names a container inside a binding, value is what
   its printed form - produced earlier in this session - shows.  Only the ways of PrintWays produce the printed form
   (the save format); str / json / sprintf write other notations.                                             *)
MapSmallMax == 4                                         \* object.MaxSmallMap: up to 4 pairs a map is stored inline
Cached(v)   == v.t = "map" /\ Len(v.p) > MapSmallMax     \* the containers the StaleText rule is about
PrintWays   == {"println", "print", "echo", "join", "save", "autosave"}
ShowWays    == PrintWays \cup {"str", "json", "sprintf", "key", "eq", "len"}

KeyEq(a, b)    == Cmp(a, b) = 0                          \* identity of keys (and of array indexes)
PathEq(p, q)   == Len(p) = Len(q) /\ \A i \in 1..Len(p) : KeyEq(p[i], q[i])
IsPrefix(p, q) == Len(p) <= Len(q) /\ \A i \in 1..Len(p) : KeyEq(p[i], q[i])
RECURSIVE TextIdx(_, _, _)
TextIdx(T, P, i) == IF i > Len(T) THEN 0 ELSE IF PathEq(T[i][1], P) THEN i ELSE TextIdx(T, P, i + 1)
DropUnder(T, P)  == SelectSeq(T, LAMBDA e : ~IsPrefix(P, e[1]))      \* P and everything inside it
DropAt(T, P)     == SelectSeq(T, LAMBDA e : ~PathEq(e[1], P))
Graft(T, Q, P)   ==                                                   \* the texts inside Q, seen from P
  LET S == SelectSeq(T, LAMBDA e : IsPrefix(Q, e[1])) IN
  [i \in 1..Len(S) |-> <<P \o SubSeq(S[i][1], Len(Q) + 1, Len(S[i][1])), S[i][2]>>]
RECURSIVE Flat(_, _)
Flat(ss, i) == IF i > Len(ss) THEN <<>> ELSE ss[i] \o Flat(ss, i + 1)

(* the value a printed form shows when printing starts at path P: a container whose text is known is not
   printed again *)
RECURSIVE AsPrinted(_, _, _)
AsPrinted(P, v, T) ==
  LET k == IF Cached(v) THEN TextIdx(T, P, 1) ELSE 0 IN
  IF k > 0 THEN T[k][2]
  ELSE CASE v.t = "arr" -> Arr([i \in 1..Len(v.e) |-> AsPrinted(Append(P, IntN(i - 1)), v.e[i], T)])
         [] v.t = "map" -> Map([i \in 1..Len(v.p) |-> <<v.p[i][1], AsPrinted(Append(P, v.p[i][1]), v.p[i][2], T)>>])
         [] OTHER       -> v
(* the texts that printing v at P adds *)
RECURSIVE NewTexts(_, _, _)
NewTexts(P, v, T) ==
  IF Cached(v) /\ TextIdx(T, P, 1) > 0 THEN <<>>
  ELSE (IF Cached(v) THEN << <<P, AsPrinted(P, v, T)>> >> ELSE <<>>)
       \o CASE v.t = "arr" -> Flat([i \in 1..Len(v.e) |-> NewTexts(Append(P, IntN(i - 1)), v.e[i], T)], 1)
            [] v.t = "map" -> Flat([i \in 1..Len(v.p) |-> NewTexts(Append(P, v.p[i][1]), v.p[i][2], T)], 1)
            [] OTHER       -> <<>>
RECURSIVE ShowAll(_, _, _)
ShowAll(g, i, T) == IF i > Len(g) THEN T ELSE ShowAll(g, i + 1, T \o NewTexts(<<Str(g[i][1])>>, g[i][2], T))

(* what a save writes: the session's values - under StaleText, as their kept texts show them *)
Seen(g, T) ==
  IF HasDev("StaleText") THEN [i \in 1..Len(g) |-> <<g[i][1], AsPrinted(<<Str(g[i][1])>>, g[i][2], T)>>] ELSE g

ArrIdx(v, k) == LET S == {i \in 1..Len(v.e) : IntN(i - 1) = k} IN IF S = {} THEN 0 ELSE CHOOSE i \in S : TRUE
RECURSIVE ValAt(_, _, _)
ValAt(v, path, i) ==            \* <<found, the value at path[i..] inside v>>
  IF i > Len(path) THEN <<TRUE, v>>
  ELSE CASE v.t = "arr" -> (LET k == ArrIdx(v, path[i]) IN IF k = 0 THEN <<FALSE, Nil>> ELSE ValAt(v.e[k], path, i + 1))
         [] v.t = "map" -> (LET r == MapGet(v.p, path[i]) IN IF r[1] THEN ValAt(r[2], path, i + 1) ELSE <<FALSE, Nil>>)
         [] OTHER       -> <<FALSE, Nil>>
HasElem(c, k) == IF c.t = "arr" THEN ArrIdx(c, k) > 0 ELSE c.t = "map" /\ MapGet(c.p, k)[1]
SetElem(c, k, nv) ==            \* <<done, c with element k = nv>>: arrays only at an index they have, maps also insert
  CASE c.t = "arr" -> (LET i == ArrIdx(c, k) IN IF i = 0 THEN <<FALSE, c>> ELSE <<TRUE, Arr([c.e EXCEPT ![i] = nv])>>)
    [] c.t = "map" -> <<TRUE, Map(MapSet(c.p, k, nv))>>
    [] OTHER       -> <<FALSE, c>>

(* what is in the file after `new` has been written to it by save(): the new text - under SaveNoTrunc followed by
   what the file held beyond it (bytes, not lines: the tail may start in the middle of an old line).  Auto-save writes
   a new file and renames it, whatever was there.                                                                  *)
RECURSIVE JoinNL(_, _)
JoinNL(f, i) == IF i > Len(f) THEN "" ELSE Cat3(f[i], NL, JoinNL(f, i + 1))
WriteOver(old, new) ==
  IF ~HasDev("SaveNoTrunc") THEN new
  ELSE LET o == JoinNL(old, 1)
           n == JoinNL(new, 1)
       IN IF StrLen(n) >= StrLen(o) THEN new ELSE SplitNL(StrCat(n, Sub(o, StrLen(n) + 1, StrLen(o))), 1)

(* one step: the bindings, the texts, `dirty` (something was set since the session auto-loaded / auto-saved last:
   an auto-save that finds nothing set writes nothing, so it prints nothing) and the file in the directory after it *)
GT(g, T, d, f) == [g |-> g, T |-> T, d |-> d, f |-> f]
StepApply(st, g, T, d, lim, f) ==
  CASE st.op = "show" ->
         (IF st.how = "save" THEN GT(g, ShowAll(g, 1, T), d, WriteOver(f, SaveFile(Seen(g, T), lim)))
          ELSE IF st.how = "autosave" THEN (IF d THEN GT(g, ShowAll(g, 1, T), FALSE, SaveFile(Seen(g, T), lim)) ELSE GT(g, T, d, f))
          ELSE LET k == EnvFind(g, st.name, 1) IN
               IF k > 0 /\ st.how \in PrintWays THEN GT(g, T \o NewTexts(<<Str(st.name)>>, g[k][2], T), d, f) ELSE GT(g, T, d, f))
    [] st.op = "assign" ->
         (LET fk  == IF st.from = "" THEN 0 ELSE EnvFind(g, st.from, 1)
              src == IF st.from = "" THEN <<TRUE, st.v>> ELSE IF fk = 0 THEN <<FALSE, Nil>> ELSE ValAt(g[fk][2], st.fpath, 1)
              P   == <<Str(st.name)>> \o st.path
              G   == IF st.from = "" THEN <<>> ELSE Graft(T, <<Str(st.from)>> \o st.fpath, P)
              nk  == EnvFind(g, st.name, 1)
          IN IF ~src[1] THEN GT(g, T, d, f)
             ELSE IF st.path = <<>> THEN GT(Bind(g, st.name, src[2], 1), DropUnder(T, P) \o G, TRUE, f)
             ELSE IF nk = 0 THEN GT(g, T, d, f)
             ELSE LET c == g[nk][2]
                      r == SetElem(c, st.path[1], src[2])
                      keep == HasDev("StaleText") /\ HasElem(c, st.path[1])      \* the rule: an existing key keeps the text
                  IN IF ~r[1] THEN GT(g, T, d, f)
                     ELSE GT(Bind(g, st.name, r[2], 1),
                             (IF keep THEN DropUnder(T, P) ELSE DropAt(DropUnder(T, P), <<Str(st.name)>>)) \o G, TRUE, f))
    [] st.op = "del" ->
         (LET nk == EnvFind(g, st.name, 1) IN
          IF nk = 0 \/ g[nk][2].t # "map" THEN GT(g, T, d, f)
          ELSE LET r == MapDel(g[nk][2].p, st.key) IN
               IF ~r[1] THEN GT(g, T, d, f)
               ELSE GT(Bind(g, st.name, Map(r[2]), 1), DropAt(DropUnder(T, <<Str(st.name), st.key>>), <<Str(st.name)>>), TRUE, f))
    [] st.op = "unbind" ->            \* del(name): the binding is gone
         (LET nk == EnvFind(g, st.name, 1) IN
          IF nk = 0 THEN GT(g, T, d, f)
          ELSE GT(SubSeq(g, 1, nk - 1) \o SubSeq(g, nk + 1, Len(g)), DropUnder(T, <<Str(st.name)>>), TRUE, f))
    [] st.op = "session" ->           \* auto-save (when something was set), then a fresh session auto-loads what is there
         (LET fs == IF d THEN SaveFile(Seen(g, T), lim) ELSE f IN GT(AutoLoadOf(fs, lim), <<>>, FALSE, fs))

\* the step as the input the real session gets
RECURSIVE PathSrc(_, _)
PathSrc(path, i) == IF i > Len(path) THEN "" ELSE Cat3("[", Printed(path[i]), StrCat("]", PathSrc(path, i + 1)))
ShowSrc(how, name) ==
  CASE how = "println" -> Cat3("println(", name, ")")
    [] how = "print"   -> Cat3("print(", name, ")")
    [] how = "echo"    -> name
    [] how = "join"    -> Cat3("join([", name, "])")
    [] how = "save"    -> "save()"
    [] how = "str"     -> Cat3("str(", name, ")")
    [] how = "json"    -> Cat3("json(", name, ")")
    [] how = "sprintf" -> Cat3("sprintf(\"%v\",", name, ")")
    [] how = "key"     -> Cat3("len({", name, ":1})")
    [] how = "eq"      -> Cat3(name, "==", name)
    [] how = "len"     -> Cat3("len(", name, ")")
    [] OTHER           -> ""
StepSrc(st) ==
  CASE st.op = "show"   -> ShowSrc(st.how, st.name)
    [] st.op = "assign" -> LET a == Cat3(StrCat(st.name, IF st.path = <<>> THEN "" ELSE IF st.dot THEN StrCat(".", st.path[1].v) ELSE PathSrc(st.path, 1)),
                                         "=", IF st.from = "" THEN Printed(st.v) ELSE StrCat(st.from, PathSrc(st.fpath, 1)))
                           IN IF st.fn THEN Cat3("func(){", a, "}()") ELSE a
    [] st.op = "del"    -> Cat3("del(", StrCat(st.name, PathSrc(<<st.key>>, 1)), ")")
    [] st.op = "unbind" -> Cat3("del(", st.name, ")")
    [] OTHER            -> ""
StepJ(st) ==
  [op   |-> IF st.op = "session" THEN "session" ELSE IF st.op = "show" /\ st.how = "autosave" THEN "autosave" ELSE "in",
   src  |-> StepSrc(st),
   echo |-> st.op = "show" /\ st.how = "echo"]

Show(how, name)          == [op |-> "show", how |-> how, name |-> name]
SetLit(name, k, v)       == [op |-> "assign", name |-> name, path |-> <<k>>, dot |-> FALSE, fn |-> FALSE, v |-> v, from |-> "", fpath |-> <<>>]
SetDot(name, k, v)       == [op |-> "assign", name |-> name, path |-> <<k>>, dot |-> TRUE, fn |-> FALSE, v |-> v, from |-> "", fpath |-> <<>>]
SetFn(name, k, v)        == [op |-> "assign", name |-> name, path |-> <<k>>, dot |-> FALSE, fn |-> TRUE, v |-> v, from |-> "", fpath |-> <<>>]
SetRef(name, k, from)    == [op |-> "assign", name |-> name, path |-> <<k>>, dot |-> FALSE, fn |-> FALSE, v |-> Nil, from |-> from, fpath |-> <<>>]
BindLit(name, v)         == [op |-> "assign", name |-> name, path |-> <<>>, dot |-> FALSE, fn |-> FALSE, v |-> v, from |-> "", fpath |-> <<>>]
BindRef(name, from, fp)  == [op |-> "assign", name |-> name, path |-> <<>>, dot |-> FALSE, fn |-> FALSE, v |-> Nil, from |-> from, fpath |-> fp]
DelKey(name, k)          == [op |-> "del", name |-> name, key |-> k]
Unbind(name)             == [op |-> "unbind", name |-> name]
NextSession              == [op |-> "session"]

\* ------------------------------------------------------------------------------ the value universe
(* Everything the conformance harness feeds to the real code is defined here and emitted by TLC.
   A case is [id, src, api, env]: `src` is grol source evaluated first in the saving session (function
   cases), `api` the names bound through the object API afterwards (data values, so that every bit
   pattern and every byte is exact), `env` the model's idea of the resulting user bindings.         *)
RECURSIVE MkEnvFrom(_, _, _)
MkEnvFrom(ps, i, env) == IF i > Len(ps) THEN env ELSE MkEnvFrom(ps, i + 1, Bind(env, ps[i][1], ps[i][2], 1))
MkEnv(ps) == MkEnvFrom(ps, 1, <<>>)
Names(env) == [i \in 1..Len(env) |-> env[i][1]]
DC(id, ps)      == [id |-> id, src |-> "", api |-> Names(MkEnv(ps)), env |-> MkEnv(ps), steps |-> <<>>]
SC(id, src, ps) == [id |-> id, src |-> src, api |-> <<>>, env |-> MkEnv(ps), steps |-> <<>>]
HC(id, ps, st)  == [id |-> id, src |-> "", api |-> Names(MkEnv(ps)), env |-> MkEnv(ps), steps |-> st]   \* env: before the steps
One(id, v)      == DC(id, << <<"a", v>> >>)

S(bytes) == Str(StrFromBytes(bytes))
RECURSIVE MkMapFrom(_, _, _)
MkMapFrom(ps, i, acc) == IF i > Len(ps) THEN Map(acc) ELSE MkMapFrom(ps, i + 1, MapSet(acc, ps[i][1], ps[i][2]))
MkMap(ps) == MkMapFrom(ps, 1, <<>>)

MinInt == "-9223372036854775808"
MaxInt == "9223372036854775807"
NaNBits == "7ff8000000000001"
PInf == "7ff0000000000000"
NInf == "fff0000000000000"
NegZero == "8000000000000000"

IntU == <<"0", "1", "-1", "7", "42", "-42", "255", "1000000", "2147483647", "-2147483648", "4294967296",
          "9007199254740992", "9007199254740993", "-9007199254740993", "9223372036854775806",
          MaxInt, "-9223372036854775807", MinInt>>

FloatU == <<
  "0000000000000000", \* 0.0
  NegZero,            \* -0.0
  "3ff0000000000000", \* 1.0
  "bff0000000000000", \* -1.0
  "4008000000000000", \* 3.0
  "c000000000000000", \* -2.0
  "3fe0000000000000", \* 0.5
  "3ff8000000000000", \* 1.5
  "bff8000000000000", \* -1.5
  "3fb999999999999a", \* 0.1
  "400921fb54442d18", \* pi
  "430c6bf526340004", \* 1e15+0.5
  "4340000000000000", \* 2^53 (integral, fits int64)
  "4340000000000001", \* 2^53+2
  "43dfffffffffffff", \* 2^63-1024: the largest float below 2^63 (integral, fits int64)
  "43e0000000000000", \* 2^63: integral, does not fit int64
  "c3e0000000000000", \* -2^63: prints as the smallest int64
  "c3e0000000000001", \* -2^63-2048
  "444b1ae4d6e2ef50", \* 1e21
  "4480f0cf064dd592", \* 1e22
  "54b249ad2594c37d", \* 1e100
  "7e37e43c8800759c", \* 1e300 (huge)
  "7fefffffffffffff", \* largest finite
  "ffefffffffffffff", \* smallest finite
  "0000000000000001", \* smallest subnormal 5e-324
  "000012688b70e62b", \* subnormal 1e-310
  "800012688b70e62b", \* -1e-310
  "0010000000000000", \* smallest normal
  "3e7ad7f29abcaf48", \* 1e-7 (tiny)
  "3bc79ca10c924223", \* 1e-20
  "3ff0000000000001", \* 1.0000000000000002
  "3fd3333333333334", \* 0.1+0.2
  "40fe240c9fbe76c9", \* 123456.789
  PInf, NInf, NaNBits >>

AllBytes == [b \in 1..256 |-> b - 1]
StrMulti == <<
  S(<<>>), Str("hello world"),
  S(<<97, 34, 98, 92, 99, 10, 100>>),        \* a"b\c<LF>d
  S(<<92, 110>>), S(<<92, 120, 52, 49>>), S(<<92, 117, 48, 48, 52, 49>>), S(<<92, 97>>),  \* backslash followed by n, x41, u0041, a (two or more bytes, no escape)
  S(<<34, 34>>), S(<<92, 92>>), S(<<92, 34>>), S(<<39, 96, 39>>),
  S(<<13, 10, 9>>), S(<<10, 10>>), S(<<97, 10>>), S(<<10, 98, 61, 50>>),   \* newlines: a value that would start a new `b=2` line if written raw
  S(<<7, 8, 12, 11>>), S(<<120, 7, 121>>),   \* the escapes the lexer does not read
  S(<<97, 0, 98>>), S(<<127, 0, 31>>),
  S(<<195, 169>>), S(<<226, 130, 172>>), S(<<240, 159, 152, 128>>),          \* e-acute, euro sign, an emoji
  S(<<194, 173>>), S(<<226, 128, 168>>), S(<<239, 191, 189>>), S(<<243, 160, 128, 129>>), S(<<194, 133>>),  \* U+00AD U+2028 U+FFFD U+E0001 U+0085
  S(<<195, 40>>), S(<<240, 159, 152>>), S(<<237, 160, 128>>), S(<<192, 128>>), S(<<255, 254>>), S(<<97, 128, 98>>),  \* invalid UTF-8
  S(<<195, 169, 255, 226, 130>>), S(<<244, 144, 128, 128>>),
  Str("nil"), Str("1"), Str("+Inf"), Str("true"), Str("a=b"), Str("func f(){}"), Str("x=>x"),
  S(AllBytes) >>

Ints(n) == [i \in 1..n |-> IntN(i)]
ArrU == <<
  Arr(<<>>), Arr(<<IntN(1)>>),
  Arr(<<IntN(1), Flt("4004000000000000"), Str("a"), Bool(TRUE), Nil>>),
  Arr(<<Arr(<<IntN(1), Arr(<<IntN(2), Arr(<<IntN(3), Map(<<>>)>>)>>)>>), Arr(<<>>)>>),
  Arr(Ints(8)), Arr(Ints(9)), Arr(Ints(20)),
  Arr(<<Flt("4008000000000000")>>), Arr(<<Flt(NegZero), IntV(MinInt)>>), Arr(<<S(<<7>>)>>),
  Arr(<<Flt(NaNBits), Flt(PInf), Flt(NInf)>>),
  Arr(<<MkMap(<< <<Str("k"), Arr(<<IntN(1), MkMap(<< <<Str("z"), Nil>> >>)>>)>> >>)>>),
  Arr(<<Str(""), Arr(<<>>), Map(<<>>), Bool(FALSE)>>),
  Arr(<<MkMap(<< <<IntV("-1"), IntN(1)>> >>), MkMap(<< <<Arr(<<IntN(1)>>), IntN(2)>>, <<MkMap(<< <<IntN(1), IntN(2)>> >>), IntN(3)>> >>)>>),  \* maps with keys that are not one token
  Arr([i \in 1..9 |-> MkMap(<< <<IntN(0 - i), Arr(<<IntN(i)>>)>> >>)]) >>

KV(n) == [i \in 1..n |-> <<IntN(i), IntN(i * i)>>]
(* Keys whose printed form is not one token: a sign in front of a number or of Inf (a prefix operator applied to a
   literal / an identifier), an array, a map - alone, next to plain keys, several in one map, below and above the
   small-map size, at depth (inside a key, inside a value, inside an array), and as keys of keys.  A line read back is
   a literal whose key expressions are evaluated: whatever the reader does to a tree on the way to evaluation
   (macro expansion rebuilds it) has to keep key and value together for every kind of key expression.          *)
NegOne == IntV("-1")
NonLeafKeys == << NegOne, Flt("bff8000000000000"), Flt(NInf), Flt(PInf), IntV(MinInt), Arr(<<IntN(1), IntN(2)>>), Arr(<<>>), Arr(<<NegOne>>),
                  MkMap(<< <<Str("a"), IntN(1)>> >>), Map(<<>>), MkMap(<< <<NegOne, Arr(<<IntN(1)>>)>> >>) >>
NonLeafKeyMaps ==
  [i \in 1..Len(NonLeafKeys) |-> MkMap(<< <<NonLeafKeys[i], Str("v")>> >>)]                                     \* alone
  \o [i \in 1..Len(NonLeafKeys) |-> MkMap(<< <<IntN(3), Str("three")>>, <<NonLeafKeys[i], IntN(i)>>, <<Str("k"), IntN(0)>> >>)]   \* next to plain keys
  \o << MkMap([i \in 1..4 |-> <<NonLeafKeys[i], IntN(i)>>]),                                                    \* several: 4 (small), all (large)
        MkMap([i \in 1..Len(NonLeafKeys) |-> <<NonLeafKeys[i], IntN(i)>>]),
        MkMap(<< <<Str("o"), MkMap(<< <<NegOne, MkMap(<< <<Arr(<<IntN(1)>>), MkMap(<< <<Flt(NInf), Nil>> >>)>> >>)>> >>)>> >>),   \* at depth, in values
        MkMap(<< <<Arr(<<MkMap(<< <<NegOne, IntN(1)>> >>), Arr(<<MkMap(<< <<Arr(<<>>), NegOne>> >>)>>)>>), Str("deep key")>> >>),  \* at depth, in a key
        MkMap(<< <<NegOne, NegOne>>, <<IntN(1), NegOne>>, <<Str("s"), Arr(<<NegOne, MkMap(<< <<NegOne, NegOne>> >>)>>)>> >>) >>
MapU == <<
  Map(<<>>), MkMap(<< <<IntN(1), IntN(1)>> >>),
  MkMap(<< <<IntN(1), Str("i")>>, <<Flt("3ff8000000000000"), Str("f")>>, <<Bool(TRUE), Str("b")>>, <<Nil, Str("n")>>,
           <<Str("s"), Str("s")>>, <<Arr(<<IntN(1)>>), Str("a")>>, <<MkMap(<< <<IntN(1), IntN(2)>> >>), Str("m")>> >>),
  MkMap(KV(4)), MkMap(KV(5)), MkMap(KV(12)),
  MkMap(<< <<Flt("4000000000000000"), Str("x")>> >>),                         \* an integral float key
  MkMap(<< <<Str("a"), MkMap(<< <<Str("b"), Arr(<<IntN(1), MkMap(<< <<Str("c"), Flt("4000000000000000")>> >>)>>)>> >>)>> >>),
  MkMap(<< <<Flt(NaNBits), IntN(1)>> >>), MkMap(<< <<IntV(MinInt), Flt(NegZero)>> >>),
  MkMap(<< <<Str("i"), IntN(1)>>, <<Str("f"), Flt("3fe0000000000000")>>, <<Str("b"), Bool(FALSE)>>, <<Str("n"), Nil>>,
           <<Str("s"), S(<<34, 10>>)>>, <<Str("a"), Arr(<<>>)>>, <<Str("m"), Map(<<>>)>> >>),
  MkMap(<< <<S(<<7>>), S(<<11>>)>> >>),
  MkMap(<< <<Bool(FALSE), IntN(0)>>, <<Bool(TRUE), IntN(1)>> >>) >>
  \o NonLeafKeyMaps

NumId(k, i) == StrCat(k, IntToI64(i))
SeqCases(k, vs) == [i \in 1..Len(vs) |-> One(NumId(k, i), vs[i])]
IntCases   == SeqCases("int:", [i \in 1..Len(IntU) |-> IntV(IntU[i])])
FloatCases == SeqCases("float:", [i \in 1..Len(FloatU) |-> Flt(FloatU[i])])
ByteCases  == [b \in 1..256 |-> One(NumId("byte:", b - 1), Str(StrOfByte(b - 1)))]
StrCases   == SeqCases("str:", StrMulti)
ArrCases   == SeqCases("arr:", ArrU)
MapCases   == SeqCases("map:", MapU)
ScalarCases == << One("bool:true", Bool(TRUE)), One("bool:false", Bool(FALSE)), One("nil", Nil) >>

\* one representative of every kind and of every deviating feature, for the combinations
Rep == << IntN(1), IntV(MinInt), Flt("3ff8000000000000"), Flt("4008000000000000"), Flt(NegZero), Flt(NaNBits), Flt(NInf),
          Str("s"), S(<<7>>), S(<<34, 92, 10>>), Bool(TRUE), Nil, Arr(<<>>), Arr(<<IntN(1), Flt("4000000000000000")>>),
          MkMap(<< <<Str("k"), IntN(1)>> >>), Map(<<>>) >>
PairCases == [k \in 1..(Len(Rep) * Len(Rep)) |->
                LET i == ((k - 1) \div Len(Rep)) + 1
                    j == ((k - 1) % Len(Rep)) + 1
                IN DC(StrCat(NumId("pair:", i), NumId("-", j)), << <<"a", Rep[i]>>, <<"b", Rep[j]>> >>)]

\* binding names: constants that are not pre-seeded, underscores and digits, pre-seeded lambdas overwritten,
\* the identifiers that printed forms refer to, pre-seeded constants bound to their own value
NameCases == <<
  DC("name:const", << <<"ABC", Arr(<<IntN(1), IntN(2)>>)>>, <<"A", IntN(1)>>, <<"z", IntN(5)>> >>),
  DC("name:forms", << <<"_u", IntN(1)>>, <<"Zz9", IntN(2)>>, <<"a_b", IntN(3)>>, <<"a1", IntN(4)>>, <<"aB", IntN(5)>> >>),
  DC("name:preseeded-lambda", << <<"abs", IntN(5)>>, <<"z", IntN(1)>> >>),
  DC("name:pi-same", << <<"PI", Flt("400921fb54442d18")>>, <<"z", IntN(1)>> >>),
  DC("name:Inf-rebound", << <<"Inf", IntN(5)>>, <<"x", Flt(PInf)>>, <<"y", Flt(NInf)>>, <<"z", IntN(1)>> >>),
  DC("name:nil-rebound", << <<"a", Nil>>, <<"nil", IntN(5)>>, <<"z", Nil>>, <<"zz", Arr(<<Nil>>)>> >>),
  DC("name:NaN-rebound", << <<"NaN", Str("s")>>, <<"x", Flt(NaNBits)>>, <<"B", Flt(NaNBits)>> >>),
  DC("name:many", [i \in 1..30 |-> <<NumId("v", 100 + i), IntN(i)>>]) >>

\* lines around the line reader's limit: name=, two quotes, n bytes: the line is n + 4 bytes long
LongStr(n) == Str(StrRepeat("x", n))
LongCases == <<
  DC("long:limit-2", << <<"a", LongStr(MaxLine - 6)>>, <<"b", IntN(2)>> >>),
  DC("long:limit-1", << <<"a", LongStr(MaxLine - 5)>>, <<"b", IntN(2)>> >>),
  DC("long:limit",   << <<"a", LongStr(MaxLine - 4)>>, <<"b", IntN(2)>> >>),
  DC("long:limit+1", << <<"a", LongStr(MaxLine - 3)>>, <<"b", IntN(2)>> >>),
  DC("long:over",    << <<"a", IntN(1)>>, <<"b", LongStr(MaxLine + 4464)>>, <<"c", IntN(3)>>, <<"d", Str("last")>> >>),
  DC("long:array",   << <<"a", Arr(<<LongStr(MaxLine \div 2), IntN(7), LongStr(MaxLine \div 2)>>)>>, <<"b", IntN(2)>> >>),
  SC("long:func", Cat3("func big(){\"", StrRepeat("y", MaxLine), "\"}; z=1"),
     << <<"big", Fn("big", Cat3("func (){\"", StrRepeat("y", MaxLine), "\"}"), Cat3("func (){\"", StrRepeat("y", MaxLine), "\"}"), <<>>)>>, <<"z", IntN(1)>> >>) >>

\* bindings of several printed lengths, for the length limit
LimitCases == <<
  DC("limit:data", << <<"a", IntN(1)>>, <<"b", Str("0123456789")>>, <<"c", Arr(Ints(9))>>, <<"d", Str("xy")>>, <<"e", Flt("3fb999999999999a")>>,
                      <<"f", MkMap(KV(5))>>, <<"g", S(<<10, 10, 10, 10>>)>>, <<"h", LongStr(40)>> >>),
  SC("limit:funcs", "func f(a,b){a+b+a+b+a+b}; g=x=>x+1+1+1+1+1+1; s=\"0123456789\"; t=\"xy\"",
     << <<"f", Fn("f", "func (a,b){a+b+a+b+a+b}", "func (a,b){a+b+a+b+a+b}", <<>>)>>,
        <<"g", Fn("", "x=>x+1+1+1+1+1+1", "x=>x+1+1+1+1+1+1", <<>>)>>, <<"s", Str("0123456789")>>, <<"t", Str("xy")>> >>) >>

(* Boundary family of the length limit, derived from the save format: a line is name "=" value and a value is
   admitted iff StrLen(Printed(v)) <= lim, so the longest admitted line has StrLen(name) + 1 + lim bytes.  For
   each limit and three name lengths k the value (a string whose printed form has exactly that many bytes) sits
   at lim (the longest admitted value), lim - 1, lim - k (the line is lim + 1 bytes), lim - k - 1 (the line is
   exactly lim bytes) and lim + 1 (skipped by design).  Bindings that sort after it must survive every loader. *)
BoundaryNames == <<"b", "bound", "boundary_name_len_20">>
StrOfPrintedLen(n) == Str(StrRepeat("x", n - 2))
BoundaryCase(lim, ki, oi) ==
  LET name == BoundaryNames[ki]
      k    == StrLen(name)
      off  == <<0, -1, 0 - k, 0 - k - 1, 1>>[oi]
  IN DC(Cat3(NumId("bnd:k", k), ":", <<"lim", "lim-1", "lim-k", "lim-k-1", "lim+1">>[oi]),
        << <<"a", IntN(1)>>, <<name, StrOfPrintedLen(lim + off)>>, <<"y", Arr(<<IntN(1), Str("two")>>)>>, <<"zlast", Str("z")>> >>)
BoundaryFits(lim, ki, oi) == lim - StrLen(BoundaryNames[ki]) - 1 >= 2
BoundaryCases(lim) ==
  LET all == [n \in 1..15 |-> <<((n - 1) \div 5) + 1, ((n - 1) % 5) + 1>>]
      ok  == SelectSeq(all, LAMBDA p : lim > 0 /\ BoundaryFits(lim, p[1], p[2]))
  IN [n \in 1..Len(ok) |-> BoundaryCase(lim, ok[n][1], ok[n][2])]

(* Session histories (scope "hist"; "histall" adds the combinations left out of the quick tier).  One container `m`
   of every kind and size class - arrays below / above the small-array size (8), maps below / at / above the
   small-map size (4), keys of every type, containers inside containers - next to two plain bindings; every way of
   producing a text from it (ShowWays, or none); every way of changing it afterwards: an element it has (first,
   last; [k] and .k; from inside a function), a new key, a deleted key, the whole binding, an element of an inner container (the language
   assigns one level deep, so: t = m[k]; t[k2] = v; m[k] = t), the inner container as a literal.  Shapes:
     A  show, change                       B  change, show, change the same element again
     C  show, change, show, change         I  show, new key, show, change an element (maps)
     D1 show, next session, change         D2 show, change, next session
     D3 change, next session, show, change D4 next session, show, change
     E1 show, n = m, change m              E2 n = m, show n, change m                                         *)
NewV     == Str("new")
Big5     == MkMap(<< <<Str("a"), IntN(1)>>, <<Str("b"), IntN(2)>>, <<Str("c"), IntN(3)>>, <<Str("d"), IntN(4)>>, <<Str("e"), IntN(5)>> >>)
Small2   == MkMap(<< <<Str("j"), IntN(2)>>, <<Str("k"), IntN(1)>> >>)
Mixed7   == MkMap(<< <<IntN(1), Str("i")>>, <<Flt("3ff8000000000000"), Str("f")>>, <<Bool(TRUE), Str("b")>>, <<Nil, Str("n")>>,
                     <<Str("s"), Str("s")>>, <<Arr(<<IntN(1)>>), Str("a")>>, <<MkMap(<< <<IntN(1), IntN(2)>> >>), Str("m")>> >>)
\* [id, v, keys: elements it has (replaced), inner: <<key of an inner container, key inside it>>]
HistVals == <<
  [id |-> "arr3",       v |-> Arr(Ints(3)),   keys |-> <<IntN(0), IntN(2)>>, inner |-> <<>>],
  [id |-> "arr9",       v |-> Arr(Ints(9)),   keys |-> <<IntN(0), IntN(8)>>, inner |-> <<>>],
  [id |-> "map2",       v |-> Small2,         keys |-> <<Str("j"), Str("k")>>, inner |-> <<>>],
  [id |-> "map4",       v |-> MkMap(KV(4)),   keys |-> <<IntN(1), IntN(4)>>, inner |-> <<>>],
  [id |-> "map5",       v |-> Big5,           keys |-> <<Str("a"), Str("e")>>, inner |-> <<>>],
  [id |-> "map12",      v |-> MkMap(KV(12)),  keys |-> <<IntN(1), IntN(12)>>, inner |-> <<>>],
  [id |-> "mixed7",     v |-> Mixed7,         keys |-> <<Flt("3ff8000000000000"), Bool(TRUE), Nil, Arr(<<IntN(1)>>)>>, inner |-> <<>>],
  [id |-> "big-in-small", v |-> MkMap(<< <<Str("in"), Big5>>, <<Str("z"), IntN(1)>> >>),
                        keys |-> <<Str("z")>>, inner |-> << <<Str("in"), Str("b")>> >>],
  [id |-> "big-in-big", v |-> MkMap(<< <<Str("a"), Big5>>, <<Str("b"), MkMap(KV(5))>>, <<Str("c"), IntN(3)>>, <<Str("d"), Arr(Ints(9))>>, <<Str("e"), Small2>> >>),
                        keys |-> <<Str("c")>>, inner |-> << <<Str("a"), Str("e")>>, <<Str("b"), IntN(5)>>, <<Str("d"), IntN(8)>>, <<Str("e"), Str("k")>> >>],
  [id |-> "small-in-big", v |-> MkMap(<< <<IntN(1), Small2>>, <<IntN(2), Arr(Ints(3))>>, <<IntN(3), Nil>>, <<IntN(4), Bool(FALSE)>>, <<IntN(5), Str("s")>> >>),
                        keys |-> <<IntN(3)>>, inner |-> << <<IntN(1), Str("j")>>, <<IntN(2), IntN(1)>> >>],
  [id |-> "big-in-arr", v |-> Arr(<<Big5, IntN(1), Arr(<<MkMap(KV(6))>>)>>),
                        keys |-> <<IntN(1)>>, inner |-> << <<IntN(0), Str("a")>> >>],
  [id |-> "maps-in-arr9", v |-> Arr([i \in 1..9 |-> IF i = 9 THEN Big5 ELSE IF i = 1 THEN Small2 ELSE IntN(i)]),
                        keys |-> <<IntN(4)>>, inner |-> << <<IntN(8), Str("c")>>, <<IntN(0), Str("k")>> >>] >>

IsIdentKey(k) == k.t = "str" /\ StrLen(k.v) > 0 /\ IsLetterB(At(k.v, 1)) /\ SkipIdent(k.v, 1) = StrLen(k.v) + 1
ElemOf(c, k)  == ValAt(c, <<k>>, 1)[2]
\* the changes of an element the container has (the shape the StaleText rule is about) ..
ReplaceMods(c) ==
  [i \in 1..Len(c.keys) |-> <<SetLit("m", c.keys[i], NewV)>>]
  \o (IF IsIdentKey(c.keys[1]) THEN << <<SetDot("m", c.keys[1], IntN(70))>> >> ELSE <<>>)
  \o [i \in 1..Len(c.inner) |-> <<BindRef("t", "m", <<c.inner[i][1]>>), SetLit("t", c.inner[i][2], NewV), SetRef("m", c.inner[i][1], "t")>>]
  \o << <<SetFn("m", c.keys[Len(c.keys)], IntN(71))>> >>          \* from inside a function
\* .. and the other changes
OtherMods(c) ==
  (IF c.v.t = "map" THEN << <<SetLit("m", Str("zz"), IntN(0))>>, <<DelKey("m", c.keys[1])>>, <<DelKey("m", Str("zz"))>> >> ELSE << <<SetLit("m", IntN(99), NewV)>> >>)
  \o << <<BindLit("m", SetElem(c.v, c.keys[1], NewV)[2])>> >>
  \o [i \in 1..Len(c.inner) |-> <<SetLit("m", c.inner[i][1], SetElem(ElemOf(c.v, c.inner[i][1]), c.inner[i][2], NewV)[2])>>]
  \o [i \in 1..Len(c.inner) |-> <<BindRef("t", "m", <<c.inner[i][1]>>), SetLit("t", c.inner[i][2], NewV)>>]     \* the copy changes, m does not
Again(c)  == <<SetLit("m", c.keys[1], IntN(77))>>
AllWays   == <<"println", "print", "echo", "join", "save", "autosave", "str", "json", "sprintf", "key", "eq", "len">>
PrintSeqW == <<"println", "print", "echo", "join", "save", "autosave">>
OtherSeqW == <<"str", "json", "sprintf", "key", "eq", "len">>
FewWays   == <<"println", "autosave", "save">>
Pick(ws, n) == ws[((n - 1) % Len(ws)) + 1]
HEnv(c)   == << <<"a0", IntN(1)>>, <<"m", c.v>>, <<"z", Str("last")>> >>
HId(c, shape, way, n) == Cat3(Cat3("hist:", c.id, ":"), Cat3(shape, ":", way), NumId(":", n))
A(c, way, n, mod) == HC(HId(c, "A", way, n), HEnv(c), <<Show(way, "m")>> \o mod)
(* the histories of container c (the ci-th).  all = TRUE is the full product.  all = FALSE is the quick selection:
   every way that produces the printed form x the first change of an element it has; for every other combination one
   way, taken in turn (by ci + n): the other changes of an element, two of the other ways, the other kinds of change,
   and the longer shapes (B, C, I, D1, D3, E1, E2).                                                                  *)
HistOf(c, ci, all) ==
  LET rm == ReplaceMods(c)
      om == OtherMods(c)
      r1 == rm[1]
      rl == rm[Len(rm)]
      pw == IF all THEN PrintSeqW ELSE <<Pick(PrintSeqW, ci)>>
      fw == IF all THEN AllWays ELSE <<Pick(FewWays, ci)>>
  IN \* N: no text produced before the change
     (IF all THEN [n \in 1..Len(rm) |-> HC(HId(c, "N", "none", n), HEnv(c), rm[n])]
                  \o [n \in 1..Len(om) |-> HC(HId(c, "N", "none", Len(rm) + n), HEnv(c), om[n])]
      ELSE << HC(HId(c, "N", "none", 1), HEnv(c), r1) >>)
     \* A: show, change
     \o (IF all THEN Flat([w \in 1..Len(AllWays) |-> [n \in 1..Len(rm) |-> A(c, AllWays[w], n, rm[n])]], 1)
                     \o Flat([w \in 1..Len(AllWays) |-> [n \in 1..Len(om) |-> A(c, AllWays[w], Len(rm) + n, om[n])]], 1)
         ELSE [w \in 1..Len(PrintSeqW) |-> A(c, PrintSeqW[w], 1, r1)]
              \o [n \in 1..(Len(rm) - 1) |-> A(c, Pick(PrintSeqW, ci + n), n + 1, rm[n + 1])]
              \o <<A(c, Pick(OtherSeqW, ci), 1, r1), A(c, Pick(OtherSeqW, ci + 3), 1, r1)>>
              \o [n \in 1..Len(om) |-> A(c, Pick(FewWays, ci + n), Len(rm) + n, om[n])])
     \o Flat([w \in 1..Len(pw) |->
          << HC(HId(c, "B", pw[w], 1), HEnv(c), Again(c) \o <<Show(pw[w], "m")>> \o r1),
             HC(HId(c, "C", pw[w], 1), HEnv(c), <<Show(pw[w], "m")>> \o r1 \o <<Show(pw[w], "m")>> \o rl) >>
          \o (IF all THEN << HC(HId(c, "C", pw[w], 2), HEnv(c), <<Show(pw[w], "m")>> \o r1 \o <<Show(pw[w], "m")>> \o Again(c)) >> ELSE <<>>)
          \o (IF c.v.t = "map" THEN << HC(HId(c, "I", pw[w], 1), HEnv(c), <<Show(pw[w], "m"), SetLit("m", Str("zz"), IntN(0)), Show(pw[w], "m")>> \o r1) >> ELSE <<>>)], 1)
     \o Flat([w \in 1..Len(fw) |->
          << HC(HId(c, "D1", fw[w], 1), HEnv(c), <<Show(fw[w], "m"), NextSession>> \o r1),
             HC(HId(c, "D3", fw[w], 1), HEnv(c), Again(c) \o <<NextSession, Show(fw[w], "m")>> \o r1),
             HC(HId(c, "E1", fw[w], 1), HEnv(c), <<Show(fw[w], "m"), BindRef("n", "m", <<>>)>> \o r1),
             HC(HId(c, "E2", fw[w], 1), HEnv(c), <<BindRef("n", "m", <<>>), Show(fw[w], "n")>> \o r1) >>
          \o (IF all THEN << HC(HId(c, "D2", fw[w], 1), HEnv(c), <<Show(fw[w], "m")>> \o r1 \o <<NextSession>>),
                             HC(HId(c, "D4", fw[w], 1), HEnv(c), <<NextSession, Show(fw[w], "m")>> \o rl) >> ELSE <<>>)], 1)
HistCases    == Flat([i \in 1..Len(HistVals) |-> HistOf(HistVals[i], i, FALSE)], 1)
HistAllCases == Flat([i \in 1..Len(HistVals) |-> HistOf(HistVals[i], i, TRUE)], 1)
\* the histories model-checked in the quick tier: one container of each kind (array, small map, large map, large map inside
\* a small one, inside an array)
HistMcVals   == SelectSeq(HistVals, LAMBDA c : c.id \in {"arr9", "map2", "map5", "big-in-small", "big-in-arr"})
HistMcCases  == Flat([i \in 1..Len(HistMcVals) |-> HistOf(HistMcVals[i], i, FALSE)], 1)

(* The file that is already there (scope "shrink").  A save does not start from nothing: the directory holds what an
   earlier save() / auto-save / session wrote.  Between the two saves what the session holds gets shorter - a binding
   is deleted (the one that sorts last: its old line would survive whole; the first; the middle one; all), a value is
   replaced by a shorter one, an element is deleted - or longer, or stays as long (controls).  Shapes:
     S1 write (save() / auto-save), change       S2 write, change, save(), change again
     S3 next session (auto-saved, auto-loaded), change    S4 save(), change, next session (the auto-save replaces the file)
   each followed by the final save.                                                                              *)
ShrinkVals == << [id |-> "arr9", v |-> Arr(Ints(9))], [id |-> "map5", v |-> Big5], [id |-> "str", v |-> Str("a fairly long string, long enough")] >>
ShrinkMods(c) == <<
  [id |-> "del-last",   st |-> <<Unbind("z")>>],
  [id |-> "del-first",  st |-> <<Unbind("a0")>>],
  [id |-> "del-mid",    st |-> <<Unbind("m")>>],
  [id |-> "del-all",    st |-> <<Unbind("a0"), Unbind("m"), Unbind("z")>>],
  [id |-> "short-last", st |-> <<BindLit("z", Str(""))>>],
  [id |-> "short-mid",  st |-> <<BindLit("m", IntN(0))>>],
  [id |-> "elem",       st |-> IF c.v.t = "map" THEN <<DelKey("m", Str("c"))>> ELSE IF c.v.t = "arr" THEN <<BindLit("m", Arr(Ints(3)))>> ELSE <<BindLit("m", Str("a"))>>],
  [id |-> "one-byte",   st |-> <<BindLit("z", Str("las"))>>],
  [id |-> "same",       st |-> <<BindLit("z", Str("tsal"))>>],
  [id |-> "grow",       st |-> <<BindLit("z", Str("the last one, longer than before"))>>] >>
ShId(c, shape, m) == Cat3(Cat3("shrink:", c.id, ":"), shape, StrCat(":", m.id))
ShrinkOf(c, ci) ==
  LET ms == ShrinkMods(c)
      mk == ms[((ci - 1) % 3) + 1]          \* one of the three deletions, in turn, for the longer shapes
  IN [n \in 1..Len(ms) |-> HC(ShId(c, "S1:save", ms[n]), HEnv(c), <<Show("save", "m")>> \o ms[n].st)]
     \o [n \in 1..Len(ms) |-> HC(ShId(c, "S1:autosave", ms[n]), HEnv(c), <<Show("autosave", "m")>> \o ms[n].st)]
     \o << HC(ShId(c, "S2", mk), HEnv(c), <<Show("save", "m")>> \o ms[5].st \o <<Show("save", "m")>> \o mk.st),
           HC(ShId(c, "S3", mk), HEnv(c), <<NextSession>> \o mk.st),
           HC(ShId(c, "S4", mk), HEnv(c), <<Show("save", "m")>> \o mk.st \o <<NextSession>>) >>
ShrinkCases == Flat([i \in 1..Len(ShrinkVals) |-> ShrinkOf(ShrinkVals[i], i)], 1)

(* A named function where a value is written (scope "alias").  `func f(x){x+1}` is held under another name (h = f) or
   inside a container (h = [f,2], h = {"k":f}, h = [[f]]) - h sorting before or after f - while the name f itself is, in
   the saving session, still that function (control), bound to data, bound to another function, or not bound at all.
   What the session holds is in `env`; `src` builds it.                                                           *)
AliasFn      == Fn("f", "func (x){x+1}", "func (x){x+1}", <<>>)
AliasHolders == <<"a", "g">>
AliasWays    == << [id |-> "alias", src |-> "f",         v |-> AliasFn],
                   [id |-> "arr",   src |-> "[f,2]",     v |-> Arr(<<AliasFn, IntN(2)>>)],
                   [id |-> "map",   src |-> "{\"k\":f}", v |-> Map(<< <<Str("k"), AliasFn>> >>)],
                   [id |-> "deep",  src |-> "[[f],{1:[f]}]", v |-> Arr(<<Arr(<<AliasFn>>), Map(<< <<IntN(1), Arr(<<AliasFn>>)>> >>)>>)] >>
AliasOwn     == << [id |-> "same",  src |-> "",            b |-> << <<"f", AliasFn>> >>],
                   [id |-> "data",  src |-> "; f=3",       b |-> << <<"f", IntN(3)>> >>],
                   [id |-> "func",  src |-> "; f=x=>x*2",  b |-> << <<"f", Fn("", "x=>x*2", "x=>x*2", <<>>)>> >>],
                   [id |-> "gone",  src |-> "; del(f)",    b |-> <<>>] >>
AliasCase(h, w, o) ==
  SC(Cat3(Cat3("alias:", h, ":"), w.id, StrCat(":", o.id)),
     Cat3(Cat3("func f(x){x+1}; ", h, "="), w.src, StrCat(o.src, "; z=1")),
     << <<h, w.v>>, <<"z", IntN(1)>> >> \o o.b)
AliasCases ==
  Flat([hi \in 1..Len(AliasHolders) |-> Flat([wi \in 1..Len(AliasWays) |->
          [oi \in 1..Len(AliasOwn) |-> AliasCase(AliasHolders[hi], AliasWays[wi], AliasOwn[oi])]], 1)], 1)
  \o <<
  \* a name given where the function is written as a value: both names are bound; then the own name is rebound / deleted
  SC("alias:defexpr:data", "g=func h(a){a+1}; h=5",
     << <<"g", Fn("h", "func (a){a+1}", "func (a){a+1}", <<>>)>>, <<"h", IntN(5)>> >>),
  SC("alias:defexpr:gone", "g=func h(a){a+1}; del(h)",
     << <<"g", Fn("h", "func (a){a+1}", "func (a){a+1}", <<>>)>> >>),
  \* a function that returns itself; its name then holds data
  SC("alias:self:data", "func me(){self}; s=me(); me=\"d\"",
     << <<"me", Str("d")>>, <<"s", Fn("me", "func (){self}", "func (){self}", <<>>)>> >>),
  \* two named functions, each other's name: t holds f, f holds g
  SC("alias:swap", "func f(){1}; func g(){2}; t=f; f=g",
     << <<"f", Fn("g", "func (){2}", "func (){2}", <<>>)>>, <<"g", Fn("g", "func (){2}", "func (){2}", <<>>)>>,
        <<"t", Fn("f", "func (){1}", "func (){1}", <<>>)>> >>),
  \* the own name sorts between two holders; the own name is a container that holds the function itself
  SC("alias:between", "func m(x){x*3}; a=m; z=[m]; m={\"k\":1}",
     << <<"a", Fn("m", "func (x){x*3}", "func (x){x*3}", <<>>)>>, <<"m", MkMap(<< <<Str("k"), IntN(1)>> >>)>>,
        <<"z", Arr(<<Fn("m", "func (x){x*3}", "func (x){x*3}", <<>>)>>)>> >>),
  SC("alias:own-holds-itself", "func f(x){x+1}; f=[f]",
     << <<"f", Arr(<<AliasFn>>)>> >>)
  >>

FuncCases == <<
  SC("fn:named-add", "func f(a,b){a+b}",
     << <<"f", Fn("f", "func (a,b){a+b}", "func (a,b){a+b}", <<>>)>> >>),
  SC("fn:lambda-1", "f=x=>x*2",
     << <<"f", Fn("", "x=>x*2", "x=>x*2", <<>>)>> >>),
  SC("fn:lambda-2", "f=(a,b)=>a-b",
     << <<"f", Fn("", "(a,b)=>a-b", "(a,b)=>a-b", <<>>)>> >>),
  SC("fn:lambda-0", "f=()=>42",
     << <<"f", Fn("", "()=>42", "()=>42", <<>>)>> >>),
  SC("fn:anon-func", "f=func(a){a+1}",
     << <<"f", Fn("", "a=>a+1", "a=>a+1", <<>>)>> >>),
  SC("fn:lambda-block", "f=x=>{y=x+1; y*2}",
     << <<"f", Fn("", "x=>{y=x+1 y*2}", "x=>{y=x+1 y*2}", <<>>)>> >>),
  SC("fn:lambda-2-block", "f=(a,b)=>{c=a+b; c*2}",
     << <<"f", Fn("", "(a,b)=>{c=a+b c*2}", "(a,b)=>{c=a+b c*2}", <<>>)>> >>),
  SC("fn:lambda-0-block", "f=()=>{x=1; x+1}",
     << <<"f", Fn("", "()=>{x=1 x+1}", "()=>{x=1 x+1}", <<>>)>> >>),
  SC("fn:lambda-3", "f=(a,b,c)=>[a,b,c]",
     << <<"f", Fn("", "(a,b,c)=>[a,b,c]", "(a,b,c)=>[a,b,c]", <<>>)>> >>),
  SC("fn:variadic-named", "func f(a,..){len(..)+a}",
     << <<"f", Fn("f", "func (a,..){len(..)+a}", "func (a,..){len(..)+a}", <<>>)>> >>),
  SC("fn:variadic-lambda", "f=(..)=>len(..)",
     << <<"f", Fn("", "..=>len(..)", "..=>len(..)", <<>>)>> >>),
  SC("fn:variadic-pass", "f=(fmt,..)=>sprintf(fmt,..)",
     << <<"f", Fn("", "(fmt,..)=>sprintf(fmt,..)", "(fmt,..)=>sprintf(fmt,..)", <<>>)>> >>),
  SC("fn:variadic-only", "func f(..){..}",
     << <<"f", Fn("f", "func (..){..}", "func (..){..}", <<>>)>> >>),
  SC("fn:nested-func-literals", "f=func(a){func(b){func(c){a+b+c}}}",
     << <<"f", Fn("", "a=>func(b){func(c){a+b+c}}", "a=>func(b){func(c){a+b+c}}", <<>>)>> >>),
  SC("fn:inner-lambda", "func f(a){g=x=>x+a; g(1)}",
     << <<"f", Fn("f", "func (a){g=x=>{x+a}g(1)}", "func (a){g=x=>{x+a}g(1)}", <<>>)>> >>),
  SC("fn:curried", "f=a=>b=>a+b",
     << <<"f", Fn("", "a=>{b=>{a+b}}", "a=>{b=>{a+b}}", <<>>)>> >>),
  SC("fn:inner-lambda-paren", "func f(a){x=(y=>y+a); x(2)}",
     << <<"f", Fn("f", "func (a){x=y=>{y+a}x(2)}", "func (a){x=y=>{y+a}x(2)}", <<>>)>> >>),
  SC("fn:if-elseif-else", "func f(a){if a<0 {\"neg\"} else if a==0 {\"zero\"} else {\"pos\"}}",
     << <<"f", Fn("f", "func (a){if a<0{\"neg\"}else if a==0{\"zero\"}else{\"pos\"}}", "func (a){if a<0{\"neg\"}else if a==0{\"zero\"}else{\"pos\"}}", <<>>)>> >>),
  SC("fn:if-only", "func f(a){if a {1}}",
     << <<"f", Fn("f", "func (a){if a{1}}", "func (a){if a{1}}", <<>>)>> >>),
  SC("fn:if-nested", "func f(a){if a>0 {if a>5 {\"big\"} else {\"small\"}} else {\"neg\"}}",
     << <<"f", Fn("f", "func (a){if a>0{if a>5{\"big\"}else{\"small\"}}else{\"neg\"}}", "func (a){if a>0{if a>5{\"big\"}else{\"small\"}}else{\"neg\"}}", <<>>)>> >>),
  SC("fn:lambda-if", "abs2=x=>if x<0 {-x} else {x}",
     << <<"abs2", Fn("", "x=>if x<0{-x}else{x}", "x=>if x<0{-x}else{x}", <<>>)>> >>),
  SC("fn:for-count", "func f(n){r=0; for i=n {r=r+i}; r}",
     << <<"f", Fn("f", "func (n){r=0 for i=n{r=r+i}r}", "func (n){r=0 for i=n{r=r+i}r}", <<>>)>> >>),
  SC("fn:for-cond", "func f(n){r=1; for r<n {r=r*2}; r}",
     << <<"f", Fn("f", "func (n){r=1 for r<n{r=r*2}r}", "func (n){r=1 for r<n{r=r*2}r}", <<>>)>> >>),
  SC("fn:for-array", "func f(a){r=0; for x=a {r=r+x}; r}",
     << <<"f", Fn("f", "func (a){r=0 for x=a{r=r+x}r}", "func (a){r=0 for x=a{r=r+x}r}", <<>>)>> >>),
  SC("fn:for-range", "func f(n){r=0; for i=2:n {r=r+i}; r}",
     << <<"f", Fn("f", "func (n){r=0 for i=2:n{r=r+i}r}", "func (n){r=0 for i=2:n{r=r+i}r}", <<>>)>> >>),
  SC("fn:for-break-continue", "func f(n){r=0; for i=n {if i==1 {continue}; if i>3 {break}; r=r+i}; r}",
     << <<"f", Fn("f", "func (n){r=0 for i=n{if i==1{continue}if i>3{break}r=r+i}r}", "func (n){r=0 for i=n{if i==1{continue}if i>3{break}r=r+i}r}", <<>>)>> >>),
  SC("fn:for-return", "func f(n){for i=n {if i==2 {return i}}; -1}",
     << <<"f", Fn("f", "func (n){for i=n{if i==2{return i}};-1}", "func (n){for i=n{if i==2{return i}}-1}", <<>>)>> >>),
  SC("fn:for-return-ok", "func f(n){for i=n {if i==2 {return i}}; 0-1}",
     << <<"f", Fn("f", "func (n){for i=n{if i==2{return i}}0-1}", "func (n){for i=n{if i==2{return i}}0-1}", <<>>)>> >>),
  SC("fn:lambda-assign-body", "c=5; f=()=>{c=c+1}",
     << <<"c", IntN(5)>>, <<"f", Fn("", "()=>{c=c+1}", "()=>c=c+1", <<>>)>> >>),
  SC("fn:for-map", "func f(m){r=0; for kv=m {r=r+kv.value}; r}",
     << <<"f", Fn("f", "func (m){r=0 for kv=m{r=r+kv.value}r}", "func (m){r=0 for kv=m{r=r+kv.value}r}", <<>>)>> >>),
  SC("fn:str-escapes", "func f(a){\"x\\ty\\\"z\\\\\\n\"+a}",
     << <<"f", Fn("f", "func (a){\"x\\ty\\\"z\\\\\\n\"+a}", "func (a){\"x\\ty\\\"z\\\\\\n\"+a}", <<>>)>> >>),
  SC("fn:str-bell", "func f(a){\"bell\\x07\"+a}",
     << <<"f", Fn("f", "func (a){\"bell\\a\"+a}", "func (a){\"bell\\a\"+a}", <<>>)>> >>),
  SC("fn:str-raw", "func f(a){`raw\nstr \"q\"`+a}",
     << <<"f", Fn("f", "func (a){\"raw\\nstr \\\"q\\\"\"+a}", "func (a){\"raw\\nstr \\\"q\\\"\"+a}", <<>>)>> >>),
  SC("fn:comments", "func f(a){ // line comment\n /* block */ a+1}",
     << <<"f", Fn("f", "func (a){a+1}", "func (a){a+1}", <<>>)>> >>),
  SC("fn:closure-1", "func mk(x){func(y){x+y}}; add2=mk(2)",
     << <<"add2", Fn("", "y=>x+y", "y=>x+y", <<<<"x", IntN(2)>>>>)>>, <<"mk", Fn("mk", "func (x){func(y){x+y}}", "func (x){func(y){x+y}}", <<>>)>> >>),
  SC("fn:closure-2", "func mk(x,s){()=>s+str(x)}; g=mk(1,\"v\")",
     << <<"g", Fn("", "()=>s+str(x)", "()=>s+str(x)", <<<<"s", Str("v")>>, <<"x", IntN(1)>>>>)>>, <<"mk", Fn("mk", "func (x,s){()=>{s+str(x)}}", "func (x,s){()=>{s+str(x)}}", <<>>)>> >>),
  SC("fn:closure-counter", "func mk(){c=0; ()=>{c=c+1}}; cnt=mk()",
     << <<"cnt", Fn("", "()=>{c=c+1}", "()=>c=c+1", <<<<"c", IntN(0)>>>>)>>, <<"mk", Fn("mk", "func (){c=0 ()=>{c=c+1}}", "func (){c=0 ()=>{c=c+1}}", <<>>)>> >>),
  SC("fn:closure-func", "func twice(g){x=>g(g(x))}; inc=x=>x+1; t=twice(inc)",
     << <<"inc", Fn("", "x=>x+1", "x=>x+1", <<>>)>>, <<"t", Fn("", "x=>g(g(x))", "x=>g(g(x))", <<<<"g", Fn("", "x=>x+1", "x=>x+1", <<>>)>>>>)>>, <<"twice", Fn("twice", "func (g){x=>{g(g(x))}}", "func (g){x=>{g(g(x))}}", <<>>)>> >>),
  SC("fn:closure-in-map", "func mk(x){{\"get\":()=>x}}; o=mk(7)",
     << <<"mk", Fn("mk", "func (x){{\"get\":()=>{x}}}", "func (x){{\"get\":()=>{x}}}", <<>>)>>, <<"o", Map(<< <<Str("get"), Fn("", "()=>x", "()=>x", <<<<"x", IntN(7)>>>>)>> >>)>> >>),
  SC("fn:recursive-named", "func fact(n){if n<=1 {return 1}; n*fact(n-1)}",
     << <<"fact", Fn("fact", "func (n){if n<=1{return 1}n*fact(n-1)}", "func (n){if n<=1{return 1}n*fact(n-1)}", <<>>)>> >>),
  SC("fn:recursive-self", "fib=n=>if n<2 {n} else {self(n-1)+self(n-2)}",
     << <<"fib", Fn("", "n=>if n<2{n}else{self(n-1)+self(n-2)}", "n=>if n<2{n}else{self(n-1)+self(n-2)}", <<>>)>> >>),
  SC("fn:mutual", "func ev(n){if n==0 {true} else {od(n-1)}}; func od(n){if n==0 {false} else {ev(n-1)}}",
     << <<"ev", Fn("ev", "func (n){if n==0{true}else{od(n-1)}}", "func (n){if n==0{true}else{od(n-1)}}", <<>>)>>, <<"od", Fn("od", "func (n){if n==0{false}else{ev(n-1)}}", "func (n){if n==0{false}else{ev(n-1)}}", <<>>)>> >>),
  SC("fn:calls-saved", "k=10; func sq(x){x*x}; func g(x){sq(x)+k}",
     << <<"g", Fn("g", "func (x){sq(x)+k}", "func (x){sq(x)+k}", <<>>)>>, <<"k", IntN(10)>>, <<"sq", Fn("sq", "func (x){x*x}", "func (x){x*x}", <<>>)>> >>),
  SC("fn:lossy-right-paren", "func f(a,b,c){a-(b-c)}",
     << <<"f", Fn("f", "func (a,b,c){a-(b-c)}", "func (a,b,c){a-b-c}", <<>>)>> >>),
  SC("fn:lossy-minus-minus", "func f(a,b){a - -b}",
     << <<"f", Fn("f", "func (a,b){a- -b}", "func (a,b){a--b}", <<>>)>> >>),
  SC("fn:lossy-div", "func f(a,b){a/(b/2)}",
     << <<"f", Fn("f", "func (a,b){a/(b/2)}", "func (a,b){a/b/2}", <<>>)>> >>),
  SC("fn:lossy-stmt-join", "func f(a,b){a; -b}",
     << <<"f", Fn("f", "func (a,b){a;-b}", "func (a,b){a-b}", <<>>)>> >>),
  SC("fn:lossy-eq-eq", "func f(a,b){a==(b==true)}",
     << <<"f", Fn("f", "func (a,b){a==(b==true)}", "func (a,b){a==b==true}", <<>>)>> >>),
  SC("fn:lossy-incr", "func f(a){b=a; b++; ++b; b}",
     << <<"f", Fn("f", "func (a){b=a b++; ++b b}", "func (a){b=a b++++bb}", <<>>)>> >>),
  SC("fn:parens-kept", "func f(a,b,c){(a+b)*c-(a*b)%7}",
     << <<"f", Fn("f", "func (a,b,c){(a+b)*c-a*b%7}", "func (a,b,c){(a+b)*c-a*b%7}", <<>>)>> >>),
  SC("fn:parens-logic", "func f(a,b){!(a&&b)||a}",
     << <<"f", Fn("f", "func (a,b){!(a&&b)||a}", "func (a,b){!(a&&b)||a}", <<>>)>> >>),
  SC("fn:neg-neg", "func f(a){-(-a)}",
     << <<"f", Fn("f", "func (a){-(-a)}", "func (a){-(-a)}", <<>>)>> >>),
  SC("fn:bit-ops", "func f(a,b){[a<<2,a>>1,a&b,a|b,a^b,a%3]}",
     << <<"f", Fn("f", "func (a,b){[a<<2,a>>1,a&b,a|b,a^b,a%3]}", "func (a,b){[a<<2,a>>1,a&b,a|b,a^b,a%3]}", <<>>)>> >>),
  SC("fn:literals-index", "func f(a){m={\"k\":a,1:[a,2]}; m.k+m[1][1]}",
     << <<"f", Fn("f", "func (a){m={\"k\":a,1:[a,2]}m.k+m[1][1]}", "func (a){m={\"k\":a,1:[a,2]}m.k+m[1][1]}", <<>>)>> >>),
  \* map literals in a body whose keys are not one token (a sign, an array, a map, an expression over the parameter)
  SC("fn:map-keys-not-leaf", "func f(a){m={-1:a,[1,2]:\"p\",{\"k\":a}:3,a+1:4}; r=[m[-1],m[[1,2]],m[{\"k\":a}],m[a+1],len(m)]; r}",
     << <<"f", Fn("f", "func (a){m={-1:a,[1,2]:\"p\",{\"k\":a}:3,a+1:4}r=[m[-1],m[[1,2]],m[{\"k\":a}],m[a+1],len(m)]r}",
                       "func (a){m={-1:a,[1,2]:\"p\",{\"k\":a}:3,a+1:4}r=[m[-1],m[[1,2]],m[{\"k\":a}],m[a+1],len(m)]r}", <<>>)>> >>),
  SC("fn:lambda-map-keys-expr", "g=a=>{{-a:[a],[a]:-a}}",
     << <<"g", Fn("", "a=>{{-a:[a],[a]:-a}}", "a=>{{-a:[a],[a]:-a}}", <<>>)>> >>),
  SC("fn:index-assign", "func f(a){a[0]=9; a}",
     << <<"f", Fn("f", "func (a){a[0]=9 a}", "func (a){a[0]=9 a}", <<>>)>> >>),
  SC("fn:postfix", "func f(a){a++; a}",
     << <<"f", Fn("f", "func (a){a++a}", "func (a){a++a}", <<>>)>> >>),
  SC("fn:print-body", "func f(a){println(\"got\",a); a}",
     << <<"f", Fn("f", "func (a){println(\"got\",a)a}", "func (a){println(\"got\",a)a}", <<>>)>> >>),
  SC("fn:catch-body", "func f(a){catch(1/a)}",
     << <<"f", Fn("f", "func (a){catch(1/a)}", "func (a){catch(1/a)}", <<>>)>> >>),
  SC("fn:error-body", "func f(a){error(\"boo\")}",
     << <<"f", Fn("f", "func (a){error(\"boo\")}", "func (a){error(\"boo\")}", <<>>)>> >>),
  SC("fn:alias", "func f(a){a+1}; g=f",
     << <<"f", Fn("f", "func (a){a+1}", "func (a){a+1}", <<>>)>>, <<"g", Fn("f", "func (a){a+1}", "func (a){a+1}", <<>>)>> >>),
  SC("fn:alias-defexpr", "g=func h(a){a+1}",
     << <<"g", Fn("h", "func (a){a+1}", "func (a){a+1}", <<>>)>>, <<"h", Fn("h", "func (a){a+1}", "func (a){a+1}", <<>>)>> >>),
  SC("fn:alias-self", "func me(){self}; s=me()",
     << <<"me", Fn("me", "func (){self}", "func (){self}", <<>>)>>, <<"s", Fn("me", "func (){self}", "func (){self}", <<>>)>> >>),
  SC("fn:func-in-map", "o={\"f\":x=>x+1,\"g\":(a,b)=>a*b}",
     << <<"o", Map(<< <<Str("f"), Fn("", "x=>x+1", "x=>x+1", <<>>)>>, <<Str("g"), Fn("", "(a,b)=>a*b", "(a,b)=>a*b", <<>>)>> >>)>> >>),
  SC("fn:func-in-array", "func f(x){x+1}; o=[f,2]",
     << <<"f", Fn("f", "func (x){x+1}", "func (x){x+1}", <<>>)>>, <<"o", Arr(<<Fn("f", "func (x){x+1}", "func (x){x+1}", <<>>), IntN(2)>>)>> >>),
  SC("fn:name-underscore", "func f_1(a){a}",
     << <<"f_1", Fn("f_1", "func (a){a}", "func (a){a}", <<>>)>> >>),
  SC("fn:name-const", "func F2(a){a}",
     << <<"F2", Fn("F2", "func (a){a}", "func (a){a}", <<>>)>> >>),
  SC("fn:ext-value", "p=sprintf; z=5",
     << <<"p", Ext("sprintf", "sprintf(string, ..)")>>, <<"z", IntN(5)>> >>),
  SC("fn:ext-in-array", "a=1; q=[pow]; z=5",
     << <<"a", IntN(1)>>, <<"q", Arr(<<Ext("pow", "pow(float, float)")>>)>>, <<"z", IntN(5)>> >>),
  SC("fn:quote-simple", "x=quote(1+2); z=5",
     << <<"x", Quo("quote(1+2)", "quote(1 + 2)")>>, <<"z", IntN(5)>> >>),
  SC("fn:quote-multiline", "x=quote(if a {b} else {c}); z=1",
     << <<"x", Quo("quote(if a{b}else{c})", "quote(if a b\n else c\n)")>>, <<"z", IntN(1)>> >>)
>>


PickCase(cs, id) == cs[CHOOSE i \in 1..Len(cs) : cs[i].id = id]
\* small representatives for model checking the design (every deviation has a witness here)
McCases == <<
  One("mc:int", IntN(7)), One("mc:minint", IntV(MinInt)), One("mc:float", Flt("3ff8000000000000")),
  One("mc:float-integral", Flt("4008000000000000")), One("mc:negzero", Flt(NegZero)), One("mc:nan", Flt(NaNBits)),
  One("mc:str", S(<<97, 34, 92, 10, 255, 195, 169>>)), One("mc:bell", S(<<7>>)), One("mc:nil", Nil), One("mc:bool", Bool(TRUE)),
  One("mc:arr", Arr(<<IntN(1), Flt("4000000000000000"), Arr(<<>>)>>)), One("mc:map", MkMap(<< <<Flt("4000000000000000"), Str("x")>>, <<Str("k"), Nil>> >>)),
  DC("mc:two", << <<"a", S(<<10, 98, 61, 50>>)>>, <<"b", IntN(1)>>, <<"c", Str("0123456789")>> >>),
  DC("mc:inf", << <<"a", IntN(1)>>, <<"b", Flt(NInf)>>, <<"c", IntN(3)>> >>),
  DC("mc:inf-rebound", << <<"Inf", IntN(5)>>, <<"x", Flt(PInf)>> >>),
  DC("mc:long", << <<"a", IntN(1)>>, <<"b", LongStr(MaxLine)>>, <<"c", IntN(3)>> >>),
  PickCase(FuncCases, "fn:named-add"), PickCase(FuncCases, "fn:lambda-1"), PickCase(FuncCases, "fn:closure-1"),
  PickCase(FuncCases, "fn:lossy-right-paren"), PickCase(FuncCases, "fn:alias"), PickCase(FuncCases, "fn:func-in-array"),
  PickCase(FuncCases, "fn:ext-value"), PickCase(FuncCases, "fn:quote-multiline"), PickCase(LimitCases, "limit:funcs"),
  PickCase(AliasCases, "alias:g:alias:data"), PickCase(AliasCases, "alias:a:arr:gone"),
  PickCase(ShrinkCases, "shrink:map5:S1:save:del-last"), PickCase(ShrinkCases, "shrink:str:S1:autosave:short-mid") >>

ScopeCases(s) ==
  CASE s = "mc"     -> McCases
    [] s = "int"    -> IntCases
    [] s = "float"  -> FloatCases
    [] s = "byte"   -> ByteCases
    [] s = "str"    -> StrCases
    [] s = "scalar" -> ScalarCases
    [] s = "arr"    -> ArrCases
    [] s = "map"    -> MapCases
    [] s = "pair"   -> PairCases
    [] s = "name"   -> NameCases
    [] s = "long"   -> LongCases
    [] s = "limit"  -> LimitCases
    [] s = "func"   -> FuncCases
    [] s = "hist"   -> HistCases
    [] s = "histall" -> HistAllCases
    [] s = "histmc" -> HistMcCases
    [] s = "shrink" -> ShrinkCases
    [] s = "alias"  -> AliasCases
AllScopes == <<"mc", "int", "float", "byte", "str", "scalar", "arr", "map", "pair", "name", "long", "limit", "func", "hist", "histall", "histmc", "shrink", "alias">>
RECURSIVE ConcatScopes(_)
ConcatScopes(i) ==
  IF i > Len(AllScopes) THEN <<>>
  ELSE (IF AllScopes[i] \in Scope THEN ScopeCases(AllScopes[i]) ELSE <<>>) \o ConcatScopes(i + 1)
Cases == ConcatScopes(1)                 \* Scope is a set of scope names

\* ------------------------------------------------------------------------------ JSON forms for GEN
RECURSIVE VJ(_)
VJ(v) ==
  CASE v.t = "str"  -> IF StrLen(v.v) > 512 THEN [t |-> "str", r |-> StrRLE(v.v)] ELSE [t |-> "str", b |-> StrBytes(v.v)]
    [] v.t = "arr"  -> [t |-> "arr", e |-> [i \in 1..Len(v.e) |-> VJ(v.e[i])]]
    [] v.t = "map"  -> [t |-> "map", p |-> [i \in 1..Len(v.p) |-> <<VJ(v.p[i][1]), VJ(v.p[i][2])>>]]
    [] v.t = "func" -> [t |-> "func", name |-> v.name, code |-> v.code, ck |-> v.ck,
                        cap |-> [i \in 1..Len(v.cap) |-> <<v.cap[i][1], VJ(v.cap[i][2])>>]]
    [] OTHER        -> v
EnvJ(env) == [i \in 1..Len(env) |-> <<env[i][1], VJ(env[i][2])>>]
LinesJ(f) == [i \in 1..Len(f) |-> IF StrLen(f[i]) > 512 THEN [r |-> StrRLE(f[i])] ELSE StrBytes(f[i])]   \* long lines run-length coded

\* ------------------------------------------------------------------------------ properties (operators and invariants)
Loaded == phase \in {"loadedW", "loadedA"}
HasFile == phase # "fresh"

LineName(line) ==
  IF StartsWith(line, 1, "func ") /\ IsLetterB(At(line, 6)) THEN Sub(line, 6, SkipIdent(line, 6) - 1)
  ELSE Sub(line, 1, SkipIdent(line, 1) - 1)

\* each saved binding occupies exactly one line: as many lines as bindings, and every binding's text is one of them
OneLineOf(g, lim, f) ==
  LET w == Written(g, lim) IN
  /\ Len(f) = Len(w)
  /\ \A i \in 1..Len(w) : \E j \in 1..Len(f) : f[j] = WrittenText(w[i][1], w[i][2], lim)
OneLinePerBinding == HasFile => OneLineOf(saved, limit, file)

\* the lines are in the order of the names they bind
SortedOf(f) == \A i \in 1..(Len(f) - 1) : StrCmp(LineName(f[i]), LineName(f[i + 1])) < 0
Sorted == HasFile => SortedOf(file)

RECURSIVE Covered(_)
Covered(v) == CASE v.t = "arr" -> \A i \in 1..Len(v.e) : Covered(v.e[i])
                [] v.t = "map" -> \A i \in 1..Len(v.p) : Covered(v.p[i][1]) /\ Covered(v.p[i][2])
                [] OTHER       -> v.t \in DataKinds \/ v.t = "func"

\* Load(Save(g)) ~ g: every saved data binding is back with an equal value of the same type, every saved
\* function with the same behaviour
RoundTripOf(orig, lim, now) ==
  LET w == Written(orig, lim) IN
  \A i \in 1..Len(w) :
    Covered(w[i][2]) =>
      LET k == EnvFind(now, w[i][1], 1) IN k > 0 /\ Same(now[k][2], w[i][2])
RoundTrip == Loaded => RoundTripOf(saved, limit, globals)

\* Save(Load(Save(g))) = Save(g)
SaveIdempotent == Loaded => SaveFile(globals, limit) = file

\* values longer than the limit are skipped - all of them, whole - and nothing else is touched
SkippedOf(g, lim, f) ==
  \A i \in 1..Len(g) :
    LET name == g[i][1]
        v    == g[i][2]
        long == lim > 0 /\ StrLen(Printed(v)) > lim
        here == \E j \in 1..Len(f) : f[j] = BindingText(name, v)
    IN IF name \in PreConst THEN TRUE
       ELSE IF long THEN ~here /\ ~\E j \in 1..Len(f) : StartsWith(f[j], 1, StrCat(name, "="))
       ELSE here \/ HasByte(BindingText(name, v), 10)
SkippedNotTruncated == HasFile => SkippedOf(saved, limit, file)

PrintOK == \A i \in 1..Len(globals) : PrintIsInspect(globals[i][2])

\* ------------------------------------------------------------------------------ the machine
\* the cases explored with limit lim: the universe, plus (scope "boundary") the boundary family of that limit
CasesAt(lim) == Cases \o (IF "boundary" \in Scope THEN BoundaryCases(lim) ELSE <<>>)
Init ==
  \E lim \in Limits : \E i \in 1..Len(CasesAt(lim)) :
    LET c == CasesAt(lim)[i] IN
    /\ meta = [id |-> c.id, src |-> c.src, api |-> c.api, env0 |-> IF c.steps = <<>> THEN <<>> ELSE c.env, steps |-> c.steps]
    /\ globals = c.env
    /\ limit = lim
    /\ file = <<>> /\ saved = <<>> /\ phase = "fresh"
    /\ todo = c.steps /\ texts = <<>> /\ dirty = TRUE

EmitCase ==
  (EmitOn /\ phase = "fresh") =>
    LET f  == SaveFile(Seen(globals, texts), limit)
        la == AutoLoadOf(f, limit)
        lw == LoadWholeOf(f)
        ra == SaveFile(la, limit)
        rw == SaveFile(lw, limit)
    IN EmitLine(ToJson([id |-> meta.id, src |-> meta.src, api |-> meta.api, lim |-> limit,
                        \* a history: the bindings it starts from and its steps as inputs; env is what the session holds at the end
                        env0 |-> EnvJ(meta.env0), steps |-> [i \in 1..Len(meta.steps) |-> StepJ(meta.steps[i])],
                        env |-> EnvJ(globals), n |-> Len(Written(globals, limit)), lines |-> LinesJ(f),
                        \* what save() leaves in the file the history left behind (f itself unless SaveNoTrunc)
                        ext |-> LinesJ(WriteOver(file, f)),
                        loadA |-> EnvJ(la), loadW |-> EnvJ(lw), resaveA |-> LinesJ(ra), resaveW |-> LinesJ(rw),
                        \* the model's own verdict for this case under Dev (compared with the real verdict, for diagnosis)
                        mv |-> [one |-> OneLineOf(Seen(globals, texts), limit, f) /\ SortedOf(f), skip |-> SkippedOf(Seen(globals, texts), limit, f),
                                rtA |-> RoundTripOf(globals, limit, la), rtW |-> RoundTripOf(globals, limit, lw),
                                idemA |-> ra = f, idemW |-> rw = f]]))

Step ==                   \* the session runs the next step of its history
  /\ phase = "fresh" /\ todo # <<>>
  /\ LET r == StepApply(Head(todo), globals, texts, dirty, limit, file) IN globals' = r.g /\ texts' = r.T /\ dirty' = r.d /\ file' = r.f
  /\ todo' = Tail(todo)
  /\ UNCHANGED <<saved, phase, meta, limit>>

Save ==                   \* what is written is what the session holds (under StaleText: what its kept texts show)
  /\ phase \in {"fresh", "loadedW", "loadedA"} /\ todo = <<>>
  /\ file' = WriteOver(file, SaveFile(Seen(globals, texts), limit))     \* save(), over the file the history left behind
  /\ saved' = globals
  /\ phase' = "saved"
  /\ texts' = <<>> /\ dirty' = FALSE        \* the ghosts are followed up to the final save
  /\ UNCHANGED <<globals, meta, limit, todo>>
  /\ EmitCase

LoadWhole ==              \* a fresh session runs load()
  /\ phase = "saved"
  /\ globals' = LoadWholeOf(file)
  /\ phase' = "loadedW"
  /\ UNCHANGED <<file, saved, meta, limit, todo, texts, dirty>>

AutoLoadLineByLine ==     \* a fresh session auto-loads the file
  /\ phase = "saved"
  /\ globals' = AutoLoadOf(file, limit)
  /\ phase' = "loadedA"
  /\ UNCHANGED <<file, saved, meta, limit, todo, texts, dirty>>

Cycle ==                  \* save, then load in a fresh session (either way), as one step (MC only: GEN emits at Save)
  /\ phase = "fresh" /\ todo = <<>> /\ ~EmitOn
  /\ LET f == WriteOver(file, SaveFile(Seen(globals, texts), limit)) IN
     /\ file' = f
     /\ saved' = globals
     /\ \E w \in BOOLEAN : /\ globals' = (IF w THEN LoadWholeOf(f) ELSE AutoLoadOf(f, limit))
                           /\ phase' = (IF w THEN "loadedW" ELSE "loadedA")
  /\ texts' = <<>> /\ dirty' = FALSE
  /\ UNCHANGED <<meta, limit, todo>>

\* GEN runs that only need the emitted cases stop at the final save (cfg: CONSTRAINT GenStop)
GenStop == phase = "fresh"

Next == Step \/ Save \/ LoadWhole \/ AutoLoadLineByLine \/ Cycle
Spec == Init /\ [][Next]_vars
=============================================================================
