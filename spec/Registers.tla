------------------------------ MODULE Registers ------------------------------
(* C05 / C10 - the integer-register mechanism (object.Environment.registers, numReg,
   MakeRegister / ReleaseRegister / HasRegisters; eval.setupRegister, evalForInteger,
   extendFunctionEnv), implementation-shaped.

   Each environment has NumRegisters slots used as a stack (numReg).  Integer parameters
   take slots when a function is called; a named counted loop takes one while it runs.
   What the property needs from the mechanism:
     Balanced    whenever control is back at an environment with no active loop, that
                 environment's numReg equals the slots held by its parameters - on EVERY
                 way out of a loop (normal end, break, return, error / abort);
     NoPanic     MakeRegister is never called on a full register file and ReleaseRegister
                 never releases a slot that is not the last one (both are Go panics).
   The deviations that the pinned tree had are named constants:
     ReleaseOnEveryExit = FALSE   only the normal end of a loop released its slot
     FallBackWhenFull   = FALSE   the 9th integer binding panicked instead of using a variable
     WriteBackOnExit    = FALSE   the loop variable, a variable of the program, stayed unbound after a loop that kept it
                                  in a register (without registers it holds the last value)
     WriteBackOnPanic   = FALSE   the same when the loop is left by a panic that the REPL recovers (the write back was
                                  skipped while a panic unwinds: it used the environment of whatever panicked)
   (SameBindings: `lost` counts the loop variables that a run without registers leaves bound and this run does not.)
   With both TRUE (the code after the `fix:` commit) the invariants hold; with either FALSE
   TLC produces the panics seen on the real interpreter.

   The model is also the generator of C05/C10 schedules: `hist` records the operations of a
   behaviour (outside the VIEW); every behaviour that ends at top level is emitted and the Go
   harness turns it into a grol session run with registers on and off.                      *)
EXTENDS Integers, Sequences, FiniteSets, TLC, Json, GrolPrims

CONSTANTS NumRegisters,        \* 8 in the code
          ParamChoices,        \* numbers of integer parameters explored
          MaxDepth,            \* maximal loop nesting + call nesting explored
          MaxOps,              \* bound on the length of a behaviour
          ReleaseOnEveryExit, FallBackWhenFull, WriteBackOnExit, WriteBackOnPanic,
          EmitOn

VARIABLES envs,    \* stack of environments: [params |-> slots held by parameters, numReg |-> Nat]
          loops,   \* stack of active loops: [env |-> index in envs, slot |-> slot index or -1 (variable)]
          status,  \* "ok" | "panic-full" | "panic-nonlast"
          lost,    \* loop variables left unbound where the run without registers binds them
          hist     \* operations so far
vars == <<envs, loops, status, lost, hist>>
\* one witness per abstract state AND per set of exit kinds / last operation used, so that every kind of exit appears
\* in the middle of emitted schedules, not only at their end
UsedKinds == {hist[i].kind : i \in {j \in 1..Len(hist) : hist[j].op = "exit"}}
LastOp == IF hist = <<>> THEN "none" ELSE hist[Len(hist)].op
view == <<envs, loops, status, lost, Len(hist), UsedKinds, LastOp>>

Top == [params |-> 0, numReg |-> 0]

Init == envs = <<Top>> /\ loops = <<>> /\ status = "ok" /\ lost = 0 /\ hist = <<>>

CurEnv == Len(envs)
Depth  == Len(envs) - 1 + Len(loops)
Log(op) == hist' = Append(hist, op)

\* call a function with k integer parameters: each takes a register while there is room
Call(k) ==
  /\ status = "ok" /\ Depth < MaxDepth /\ Len(hist) < MaxOps
  /\ LET take == IF k <= NumRegisters THEN k ELSE NumRegisters IN
     IF k > NumRegisters /\ ~FallBackWhenFull
     THEN status' = "panic-full" /\ UNCHANGED <<envs, loops>>
     ELSE envs' = Append(envs, [params |-> take, numReg |-> take]) /\ UNCHANGED <<loops, status>>
  /\ UNCHANGED lost
  /\ Log([op |-> "call", k |-> k])

\* enter a counted loop; reg = FALSE models an unnamed loop or a body that forbids a register
Enter(reg) ==
  /\ status = "ok" /\ Depth < MaxDepth /\ Len(hist) < MaxOps
  /\ LET e == envs[CurEnv] IN
     IF ~reg THEN loops' = Append(loops, [env |-> CurEnv, slot |-> -1]) /\ UNCHANGED <<envs, status>>
     ELSE IF e.numReg < NumRegisters
     THEN /\ loops' = Append(loops, [env |-> CurEnv, slot |-> e.numReg])
          /\ envs' = [envs EXCEPT ![CurEnv].numReg = @ + 1]
          /\ UNCHANGED status
     ELSE IF FallBackWhenFull
     THEN loops' = Append(loops, [env |-> CurEnv, slot |-> -1]) /\ UNCHANGED <<envs, status>>
     ELSE status' = "panic-full" /\ UNCHANGED <<envs, loops>>
  /\ UNCHANGED lost
  /\ Log([op |-> "enter", reg |-> reg])

\* release the slot of the innermost loop of the current environment
Release(l, es) ==
  IF l.slot < 0 THEN <<es, "ok">>
  ELSE IF l.slot # es[l.env].numReg - 1 THEN <<es, "panic-nonlast">>
  ELSE <<[es EXCEPT ![l.env].numReg = @ - 1], "ok">>

InnerLoopHere == Len(loops) > 0 /\ loops[Len(loops)].env = CurEnv

\* leave the innermost loop normally or by break
ExitLoop(kind) ==
  /\ status = "ok" /\ InnerLoopHere /\ Len(hist) < MaxOps + 2 * MaxDepth
  /\ LET l == loops[Len(loops)]
         r == IF kind = "end" \/ ReleaseOnEveryExit THEN Release(l, envs) ELSE <<envs, "ok">>
     IN /\ envs' = r[1] /\ status' = r[2]
        /\ loops' = SubSeq(loops, 1, Len(loops) - 1)
        /\ lost' = IF l.slot >= 0 /\ ~WriteBackOnExit THEN lost + 1 ELSE lost    \* (the variable is read after the loop)
  /\ Log([op |-> "exit", kind |-> kind])

\* unwind all loops of the current environment innermost first (return from a function, error at top level)
RECURSIVE Unwind(_, _, _)
Unwind(ls, es, e) ==
  IF Len(ls) = 0 \/ ls[Len(ls)].env # e THEN <<ls, es, "ok">>
  ELSE LET r == IF ReleaseOnEveryExit THEN Release(ls[Len(ls)], es) ELSE <<es, "ok">> IN
       IF r[2] # "ok" THEN <<ls, r[1], r[2]>>
       ELSE Unwind(SubSeq(ls, 1, Len(ls) - 1), r[1], e)

\* return from the current function (possibly from inside its loops): its environment is dropped
Return ==
  /\ status = "ok" /\ CurEnv > 1
  /\ LET u == Unwind(loops, envs, CurEnv) IN
     /\ loops' = u[1] /\ status' = u[3]
     /\ envs' = IF u[3] = "ok" THEN SubSeq(u[2], 1, CurEnv - 1) ELSE u[2]
  /\ UNCHANGED lost      \* (the variables of the dropped environment go with it)
  /\ Log([op |-> "return"])

\* a language error: every active function and loop is left at once; the session goes on at top level
ErrorOut ==
  /\ status = "ok" /\ (Len(loops) > 0 \/ CurEnv > 1)
  /\ LET topLoops == SelectSeq(loops, LAMBDA l : l.env = 1)
         \* function environments are dropped wholesale; only the top-level environment survives
         u == Unwind(topLoops, <<envs[1]>>, 1)
     IN /\ loops' = <<>> /\ envs' = u[2] /\ status' = u[3]
        /\ lost' = IF WriteBackOnExit THEN lost ELSE lost + Len(SelectSeq(topLoops, LAMBDA l : l.slot >= 0))
  /\ Log([op |-> "error"])

\* a panic (depth limit, refused allocation) recovered by the REPL: like ErrorOut, but the unwinding runs the deferred
\* steps of every loop while the evaluator still points at the environment that panicked
PanicOut ==
  /\ status = "ok" /\ (Len(loops) > 0 \/ CurEnv > 1) /\ ~EmitOn      \* (replayed by the pinned sessions of c05.go, section 3c)
  /\ LET topLoops == SelectSeq(loops, LAMBDA l : l.env = 1)
         u == Unwind(topLoops, <<envs[1]>>, 1)
     IN /\ loops' = <<>> /\ envs' = u[2] /\ status' = u[3]
        /\ lost' = IF WriteBackOnExit /\ WriteBackOnPanic THEN lost ELSE lost + Len(SelectSeq(topLoops, LAMBDA l : l.slot >= 0))
  /\ Log([op |-> "panic"])

Emit == EmitOn => EmitLine(ToJson([h |-> hist']))

AtTop(es, ls) == Len(es) = 1 /\ Len(ls) = 0

Next ==
  /\ \/ \E k \in ParamChoices : Call(k)
     \/ \E reg \in BOOLEAN : Enter(reg)
     \/ \E kind \in {"end", "break", "caught"} : ExitLoop(kind)   \* "caught": an error raised in the loop body, caught by catch() just outside the loop
     \/ Return
     \/ ErrorOut
     \/ PanicOut
  /\ (AtTop(envs', loops') /\ Len(hist') > 1) => Emit

Spec == Init /\ [][Next]_vars

Balanced ==
  status = "ok" =>
    \A i \in 1..Len(envs) :
      envs[i].numReg = envs[i].params + Cardinality({j \in 1..Len(loops) : loops[j].env = i /\ loops[j].slot >= 0})
NoPanic == status = "ok"
SlotsAreAStack ==
  status = "ok" =>
    \A j \in 1..Len(loops) : loops[j].slot >= 0 =>
      loops[j].slot = envs[loops[j].env].params
                      + Cardinality({k \in 1..(j - 1) : loops[k].env = loops[j].env /\ loops[k].slot >= 0})
SameBindings == lost = 0
Bounded == \A i \in 1..Len(envs) : envs[i].numReg <= NumRegisters
=============================================================================
