----------------------------- MODULE Format_Trace -----------------------------
(* Trace validation for C02 / C03: format_trace.ndjson holds one line per recorded behaviour of
   the REAL parser and formatter (written by harness/fmtcore.go):
     {"ty":"fmt", ...a FormatLaws record...}       one source text run through both modes twice, by one route
                                                   (ast / repl / line / modify, see FormatLaws)
     {"ty":"fn", "id":n, "d0":.., "ok":.., "dI":.., "t":.., "ok2":.., "t2":..}  one function value printed by Inspect / SaveGlobals
     {"ty":"sess","id":n,"outs":[bytes,..]}        every byte string observed for ONE (input, mode)
                                                   over all replayed histories and processes
   One verdict line per record is emitted, so one bad record does not hide the rest.            *)
EXTENDS FormatLaws, Json

T == ndJsonDeserialize("format_trace.ndjson")
VARIABLE idx
Init == idx = 0

Verdict(r) ==
  IF r.ty = "fmt" THEN EmitLine(ToJson(Laws(r)))
  ELSE IF r.ty = "fn" THEN EmitLine(ToJson([id |-> r.id, fn |-> FnLaw(r), fnidem |-> FnIdem(r)]))
  ELSE EmitLine(ToJson([id |-> r.id, same |-> SameBytes(r.outs)]))

Next == idx < Len(T) /\ Verdict(T[idx + 1]) /\ idx' = idx + 1
=============================================================================
