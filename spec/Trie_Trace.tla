----------------------------- MODULE Trie_Trace -----------------------------
(* Trace validation for C20: operation traces recorded from the real trie.Trie
   (trie_trace.ndjson, written by the Go harness) are checked against Trie.tla.
   One line per event:
     {"e":"reset"}                                 a fresh trie (traces are concatenated)
     {"e":"ins","w":[bytes],"mem":[[bytes],0|1]..,"q":[[prefix, n, [words..], ok, line, pos]..]}
   after the real Insert(w): membership answers for the listed words, PrefixAll
   answers for the listed prefixes and what the TAB callback of repl/completion.go
   returned for that prefix typed on an empty line (ok 0|1, the new line, the new
   position).  An event is accepted when the spec's Insert(w) is enabled and the
   observations equal both what the implementation-shaped model computes and what
   the abstract set semantics demands.                                              *)
EXTENDS Trie

VARIABLE l
Trace == ndJsonDeserialize("trie_trace.ndjson")

TraceInit == Init /\ l = 1

ObsOK(ev) ==
  /\ \A i \in 1..Len(ev.mem) :
       LET w == ev.mem[i][1] IN
       /\ (ev.mem[i][2] = 1) <=> ImplContains(nodes', w)
       /\ (ev.mem[i][2] = 1) <=> (w \in set')
  /\ \A i \in 1..Len(ev.q) :
       LET p  == ev.q[i][1]
           r  == ImplPrefixAll(nodes', p)
           m  == Matches(set', p)
           sm == Sorted(m)
           k  == LcpLen(m, Len(p))
       IN /\ ev.q[i][3] = r[2] /\ ev.q[i][2] = r[1]
          /\ ev.q[i][3] = sm
          /\ (m # {} => ev.q[i][2] = k)
          \* TAB extends what was typed to the common prefix of the defined words that start with it, and only then
          /\ IF m = {} THEN ev.q[i][4] = 0
             ELSE /\ ev.q[i][4] = 1
                  /\ ev.q[i][5] = SubSeq(sm[1], 1, k)
                  /\ ev.q[i][6] = k

TraceIns ==
  /\ l <= Len(Trace) /\ Trace[l].e = "ins"
  /\ Insert(Trace[l].w)
  /\ ObsOK(Trace[l])
  /\ l' = l + 1

TraceReset ==
  /\ l <= Len(Trace) /\ Trace[l].e = "reset"
  /\ nodes' = (<<>> :> NewNode(FALSE)) /\ set' = {} /\ hist' = <<>>
  /\ l' = l + 1

TraceNext == TraceIns \/ TraceReset
TraceSpec == TraceInit /\ [][TraceNext]_<<vars, l>>

TraceAccepted ==
  IF TLCGet("stats").diameter - 1 = Len(Trace) THEN TRUE
  ELSE PrintT(<<"TRACE_REJECTED_AT_LINE", TLCGet("stats").diameter>>) /\ FALSE
=============================================================================
