------------------------------- MODULE MapRep -------------------------------
(* C11 - maps behave as finite maps in key order, whatever their history.

   Two levels.

   Abstract (`abs`): the graph of a finite function - a set of <<key, value>> pairs with
   at most one pair per key *class* (two keys are the same key when the language's order
   says Cmp = 0, e.g. 1 and 1.0, -0.0 and 0, [1] and [1.0]; the first representative that
   was stored is kept, an update replaces the value only).  Observed as length, lookup,
   printed form, iteration order, first/rest and equality.  Nothing at this level knows
   about sorted arrays, thresholds or representations.

   Implementation-shaped (`m`): a transcription of object/object.go
     SmallMap{smallKV [4]keyValuePair, len}   rep = "small"  (Go value)
     *SmallMap                                rep = "psmall" (Go pointer to a SmallMap; it
                                              escapes from SmallMap.Append, see below)
     *BigMap{kv []keyValuePair}               rep = "big"
   with the code's transitions: linear get / sorted insert with the shifting loop,
   promotion to BigMap on the 5th key, binary search + slices.Insert, Delete (small: shift
   left and leave a stale slot; big: never demotes), Rest/Range (big: demotion to SmallMap
   when <= 4 pairs remain), Append for both receivers, literal construction by
   NewMapSize(n) + repeated Set (n counts the *entries* of the literal, so duplicate keys
   give a big map with few keys), and the language-level entry points object.Rest /
   object.Range / the `for` loop of eval.evalForList, which dispatch on the Go type.

   Named deviation: EscapingPointer = TRUE is the code before /repo commit 520f0a5 -
       res := SmallMap{len: m.len}; var ires Map = &res; ...; return ires
   in SmallMap.Append: when the right operand is empty no Set replaces `ires`, so a
   *SmallMap is returned; object.Rest and object.Range have no case for that Go type
   ("not supported"), and the for loop, which is First/Rest, stops after one element.
   With EscapingPointer = TRUE TLC finds ObsOK violated after `small + {}` (this is how the
   defect was found; the check still runs it to show that ObsOK can fail); with FALSE
   (`var ires Map = res`, the code since 520f0a5) every invariant holds, and that is the
   model the real code is replayed against.

   Invariants (every reachable state):
     RepOK   keys strictly increasing in the key order, len within the representation's bounds
     AbsOK   the abstraction function of `m` equals `abs` (so it commutes with every action)
     ObsOK   every observation computed the way the code computes it (linear/binary search,
             Inspect loop, First/Rest iteration, object.Rest dispatch) equals the abstract one
     EqOK    Cmp-style equality of `m` with each literal operand <=> abstract equality
     ConstOK   held by a constant: setting it again to the same map built another way is accepted, to a
               different map refused; K[k] = v / del(K[k]) are refused unless they change nothing
               (named deviation IdenticalByRep violates it)
     EarlierOK no value is made by writing into storage where another value's pairs live: big maps carry
               their capacity explicitly (spare, live); named deviation AppendInPlace violates it
     CapOK     spare / live within bounds

   Key order: the documented order of object.Cmp, stated here (KCmp): numbers (integers and
   floats together, by mathematical value) < booleans (false < true) < nil < strings
   (bytewise) < arrays (by length, then element-wise).  Keys is a CONSTANT sequence of key
   records; the order is *computed* from the records, never supplied by the harness.
   Floats are restricted to half-integers (n = twice the value) so TLC can compare exactly.

   `hist` is a history variable (one witness operation sequence per state), excluded from
   the VIEW and emitted with every transition together with the abstract prediction, so the
   Go harness can replay the transition on object.Map and through grol source (GEN).      *)
EXTENDS Integers, Sequences, FiniteSets, SequencesExt, TLC, Json, GrolPrims

CONSTANTS Keys,             \* sequence of key records [t, n | s | e, txt]
          Vals,             \* sequence of value records [txt, ...]
          Lits,             \* sequence of literals = sequences of <<key index, value index>> entries
          MaxSmall,         \* object.MaxSmallMap (4)
          EscapingPointer,  \* BOOLEAN, see above
          TrackStale,       \* BOOLEAN: keep the stale slots SmallMap.Delete leaves behind (MC) or clear them (GEN)
          LoopAt,           \* set of iteration numbers at which a `for` body changes the iterated map ({} = no such cases)
          EmitOn,           \* BOOLEAN: emit every transition (GEN)
          AppendInPlace,    \* BOOLEAN, named deviation: BigMap.Append writes into the left operand's spare capacity (see BigAppend)
          IdenticalByRep,   \* BOOLEAN, named deviation: object.Identical answers false for two maps of different representation
          MaxSpare,         \* spare capacity of a big map is told apart up to this many slots (more = "MaxSpare or more")
          ForkLits          \* indexes into Lits: right operands of the two-results-from-one-operand cases (ForkA)

VARIABLES m, abs, hist
vars == <<m, abs, hist>>
view == <<m, abs>>
\* GEN: states that differ only in the storage underneath (spare capacity) are one state - the real code decides what
\* its storage looks like on the witness history; MC tells them apart (view)
viewG == <<[rep |-> m.rep, kv |-> m.kv, len |-> m.len], abs>>

KIdx == 1..Len(Keys)
VIdx == 1..Len(Vals)

\* ------------------------------------------------------------------ the key order
Sign(x) == IF x < 0 THEN -1 ELSE IF x > 0 THEN 1 ELSE 0

RECURSIVE LexCmp(_, _)          \* byte strings, Go string comparison
LexCmp(a, b) ==
  IF a = <<>> THEN (IF b = <<>> THEN 0 ELSE -1)
  ELSE IF b = <<>> THEN 1
  ELSE IF Head(a) # Head(b) THEN Sign(Head(a) - Head(b))
  ELSE LexCmp(Tail(a), Tail(b))

\* rank of object.Type: INTEGER and FLOAT are ordered together, then BOOLEAN < NIL < STRING < ARRAY
TypeRank(t) == CASE t = "int" -> 1 [] t = "float" -> 1 [] t = "bool" -> 3 [] t = "nil" -> 4
                 [] t = "str" -> 8 [] t = "arr" -> 9
Num2(k) == IF k.t = "int" THEN 2 * k.n ELSE k.n    \* twice the mathematical value
\* numbers at the ends of the int64 range: b = 1 counts from MaxInt64, b = -1 from MinInt64 (n is then the distance), else 0
NumEnd(k)  == IF "b" \in DOMAIN k THEN k.b ELSE 0

RECURSIVE KCmp(_, _)
RECURSIVE ElemsCmp(_, _, _)
KCmp(a, b) ==
  IF TypeRank(a.t) # TypeRank(b.t) THEN Sign(TypeRank(a.t) - TypeRank(b.t))
  ELSE CASE a.t \in {"int", "float"} -> IF NumEnd(a) # NumEnd(b) THEN Sign(NumEnd(a) - NumEnd(b)) ELSE Sign(Num2(a) - Num2(b))
         [] a.t = "bool" -> Sign(a.n - b.n)
         [] a.t = "nil"  -> 0
         [] a.t = "str"  -> LexCmp(a.s, b.s)
         [] a.t = "arr"  -> IF Len(a.e) # Len(b.e) THEN Sign(Len(a.e) - Len(b.e))
                            ELSE ElemsCmp(a.e, b.e, 1)
ElemsCmp(x, y, i) ==
  IF i > Len(x) THEN 0
  ELSE LET c == KCmp(x[i], y[i]) IN IF c # 0 THEN c ELSE ElemsCmp(x, y, i + 1)

\* the relation table of the universe (computed once)
Ord == [i \in KIdx |-> [j \in KIdx |-> KCmp(Keys[i], Keys[j])]]
Same(i, j) == Ord[i][j] = 0

\* printed forms of keys and values (tables, evaluated once)
KeyTxt == [k \in KIdx |-> Keys[k].txt]
ValTxt == [v \in VIdx |-> Vals[v].txt]
KTxt(k) == KeyTxt[k]
VTxt(v) == IF v = 0 THEN "nil" ELSE ValTxt[v]

\* ------------------------------------------------------------------ abstract level
\* S is a set of <<k, v>>; at most one pair per key class.
AFind(S, k)    == {p \in S : Same(p[1], k)}
ALookup(S, k)  == IF AFind(S, k) = {} THEN 0 ELSE (CHOOSE p \in AFind(S, k) : TRUE)[2]
AHas(S, k)     == AFind(S, k) # {}
ASet(S, k, v)  == IF AFind(S, k) = {} THEN S \cup {<<k, v>>}
                  ELSE LET p == CHOOSE q \in AFind(S, k) : TRUE IN (S \ {p}) \cup {<<p[1], v>>}
ADel(S, k)     == S \ AFind(S, k)
APairs(S)      == SetToSortSeq(S, LAMBDA p, q : Ord[p[1]][q[1]] < 0)     \* key order
ARange(S, l, r) == LET ps == APairs(S) IN {ps[i] : i \in (l + 1)..r}     \* positions l..r-1 (0-based)
ARest(S)       == ARange(S, 1, Cardinality(S))
\* left + right: every pair of right is stored into left
AAppend(S, T)  == {p \in S : ~AHas(T, p[1])}
                  \cup {<<p[1], ALookup(T, p[1])>> : p \in {q \in S : AHas(T, q[1])}}
                  \cup {p \in T : ~AHas(S, p[1])}
RECURSIVE ALitFrom(_, _, _)
ALitFrom(S, es, i) == IF i > Len(es) THEN S ELSE ALitFrom(ASet(S, es[i][1], es[i][2]), es, i + 1)
ALit(es)       == ALitFrom({}, es, 1)
AEqual(S, T)   == /\ Cardinality(S) = Cardinality(T)
                  /\ \A p \in S : AHas(T, p[1]) /\ ALookup(T, p[1]) = p[2]

\* ------------------------------------------------------------------ printed forms (the language's own notation)
RECURSIVE Join(_, _, _)
Join(ss, sep, i) == IF i > Len(ss) THEN "" ELSE (IF i > 1 THEN sep ELSE "") \o ss[i] \o Join(ss, sep, i + 1)
Printed(ps)  == "{" \o Join([i \in 1..Len(ps) |-> KTxt(ps[i][1]) \o ":" \o VTxt(ps[i][2])], ",", 1) \o "}"
IterTxt(ps)  == "[" \o Join([i \in 1..Len(ps) |-> "[" \o KTxt(ps[i][1]) \o "," \o VTxt(ps[i][2]) \o "]"], ",", 1) \o "]"
FirstTxt(ps) == IF ps = <<>> THEN "nil"
                ELSE "{\"key\":" \o KTxt(ps[1][1]) \o ",\"value\":" \o VTxt(ps[1][2]) \o "}"
GetTxt(vs)   == "[" \o Join([i \in 1..Len(vs) |-> VTxt(vs[i])], ",", 1) \o "]"

\* what a user can observe of the abstract map S (lookup of every key of the universe)
AbsObs(S) ==
  LET ps == APairs(S) IN
  [len |-> Len(ps), printed |-> Printed(ps), iter |-> IterTxt(ps), first |-> FirstTxt(ps),
   rest |-> IF Len(ps) <= 1 THEN "nil" ELSE Printed(Tail(ps)),
   get |-> GetTxt([k \in KIdx |-> ALookup(S, k)])]

\* ------------------------------------------------------------------ implementation level
Zero == <<0, 0>>
Pad(kv) == [j \in 1..MaxSmall |-> IF j <= Len(kv) THEN kv[j] ELSE Zero]
Small(kv, n) == [rep |-> "small", kv |-> kv, len |-> n]
(* A big map is a slice: its pairs, and the rest of its backing array up to the capacity.
     spare  slots of the backing array after the last pair (capacity - len)
     live   how many of these slots, counted from the map's end, hold pairs that belong to ANOTHER map
            value: the map this one is a view of (Range / Rest share the array), or a result that was
            appended in place.  A write into such a slot changes that other value.
     hurt   TRUE when making this value wrote into live slots (an earlier result was changed)
   Intermediate values carry exact numbers; a value that is bound to the variable is normalised
   (Norm): spare and live saturate at MaxSpare, so `spare` is a lower bound, exact below MaxSpare. *)
Max0(n)      == IF n < 0 THEN 0 ELSE n
BigC(kv, spare, live) == [rep |-> "big", kv |-> kv, len |-> Len(kv), spare |-> spare,
                          live |-> IF Max0(live) > spare THEN spare ELSE Max0(live), hurt |-> FALSE]
Big(kv)      == BigC(kv, 0, 0)                                       \* exactly as long as its array
\* append / slices.Insert beyond the capacity (runtime growslice below 256 elements: double, or what is needed;
\* size-class rounding ignored - allocator policy, only the amount of spare room depends on it)
GrowCap(c, need) == IF 2 * c >= need THEN 2 * c ELSE need
EmptySmall   == Small(Pad(<<>>), 0)                                  \* NewMap(), SmallMap{}
NewMapSize(n) == IF n <= MaxSmall THEN EmptySmall ELSE BigC(<<>>, n, 0)   \* make([]keyValuePair, 0, n)
IsSmall(x)   == x.rep \in {"small", "psmall"}
Elems(x)     == SubSeq(x.kv, 1, x.len)                               \* mapElements()
NilObj       == [rep |-> "nil", kv |-> <<>>, len |-> 0]               \* object.NULL   (object.Len = 0)
ErrObj       == [rep |-> "error", kv |-> <<>>, len |-> -1]            \* object.Error  (object.Len = -1)
Sat(n)       == IF n > MaxSpare THEN MaxSpare ELSE n
Norm(x)      == IF ~IsSmall(x) THEN [x EXCEPT !.spare = Sat(x.spare), !.live = Sat(x.live)]
                ELSE IF TrackStale THEN x ELSE [x EXCEPT !.kv = Pad(Elems(x))]
\* object.CopyMap (slices.Clone): what the evaluator writes into (index assignment, del) since /repo 58006fb
CopyMap(x)   == IF IsSmall(x) THEN x ELSE Big(x.kv)

\* SmallMap.get: <<found, index (0-based) where the key is or would be inserted>>
RECURSIVE SmallGet(_, _, _)
SmallGet(x, k, i) ==
  IF i >= x.len THEN <<FALSE, x.len>>
  ELSE LET c == Ord[x.kv[i + 1][1]][k] IN
       IF c = 1 THEN <<FALSE, i>> ELSE IF c = 0 THEN <<TRUE, i>> ELSE SmallGet(x, k, i + 1)

\* slices.BinarySearchFunc(m.kv, kv, CompareKeys)
RECURSIVE BinSearch(_, _, _, _)
BinSearch(kv, k, i, j) ==
  IF i < j THEN LET h == (i + j) \div 2 IN
                IF Ord[kv[h + 1][1]][k] < 0 THEN BinSearch(kv, k, h + 1, j) ELSE BinSearch(kv, k, i, h)
  ELSE i
BigGet(x, k) == LET i == BinSearch(x.kv, k, 0, Len(x.kv)) IN
                <<i < Len(x.kv) /\ Ord[x.kv[i + 1][1]][k] = 0, i>>

ImplFind(x, k) == IF IsSmall(x) THEN SmallGet(x, k, 0) ELSE BigGet(x, k)
ImplGet(x, k)  == LET g == ImplFind(x, k) IN IF g[1] THEN x.kv[g[2] + 1][2] ELSE 0

\* for j := top; j > i; j-- { kv[j] = kv[j-1] }        (0-based indices)
RECURSIVE ShiftRight(_, _, _)
ShiftRight(kv, j, i) == IF j > i THEN ShiftRight([kv EXCEPT ![j + 1] = kv[j]], j - 1, i) ELSE kv
\* for i := where; i < top; i++ { kv[i] = kv[i+1] }
RECURSIVE ShiftLeft(_, _, _)
ShiftLeft(kv, i, top) == IF i < top THEN ShiftLeft([kv EXCEPT ![i + 1] = kv[i + 2]], i + 1, top) ELSE kv

\* SmallMap.Set (value receiver: also what a *SmallMap does; the result is a SmallMap value or a *BigMap)
SmallSet(x, k, v) ==
  LET g == SmallGet(x, k, 0)
      i == g[2]
  IN IF g[1] THEN Small([x.kv EXCEPT ![i + 1] = <<x.kv[i + 1][1], v>>], x.len)
     ELSE LET nl == x.len + 1 IN
          IF nl > MaxSmall
          THEN Big(SubSeq(x.kv, 1, i) \o <<<<k, v>>>> \o SubSeq(x.kv, i + 1, nl - 1))   \* promotion
          ELSE Small([ShiftRight(x.kv, nl - 1, i) EXCEPT ![i + 1] = <<k, v>>], nl)

\* BigMap.Set (in place: the callers hand it storage of their own - a literal or a merge being built, a CopyMap)
BigSet(x, k, v) ==
  LET g == BigGet(x, k)
      i == g[2]
      kv2 == SubSeq(x.kv, 1, i) \o <<<<k, v>>>> \o SubSeq(x.kv, i + 1, Len(x.kv))      \* slices.Insert
  IN IF g[1] THEN [x EXCEPT !.kv = [x.kv EXCEPT ![i + 1] = <<x.kv[i + 1][1], v>>]]
     ELSE IF x.spare > 0
          THEN [BigC(kv2, x.spare - 1, x.live - 1) EXCEPT !.hurt = x.hurt \/ x.live > 0]   \* shifts within the array
          ELSE [BigC(kv2, GrowCap(Len(x.kv), Len(kv2)) - Len(kv2), 0) EXCEPT !.hurt = x.hurt]  \* new, larger array

ImplSet(x, k, v) == IF IsSmall(x) THEN SmallSet(x, k, v) ELSE BigSet(x, k, v)

\* Delete of a key that is present (the caller keeps its map when the key is absent)
SmallDelete(x, k) == LET w == SmallGet(x, k, 0)[2] IN Small(ShiftLeft(x.kv, w, x.len - 1), x.len - 1)  \* slot len-1 stays stale
\* copy(m.kv[idx:], m.kv[idx+1:]); m.kv = m.kv[:len-1]: the freed slot stays in the capacity
BigDelete(x, k)   == LET w == BigGet(x, k)[2] IN
                     [BigC(SubSeq(x.kv, 1, w) \o SubSeq(x.kv, w + 2, Len(x.kv)), x.spare + 1, IF x.live > 0 THEN x.live + 1 ELSE 0)
                        EXCEPT !.hurt = x.hurt]
ImplDelete(x, k)  == IF IsSmall(x) THEN SmallDelete(x, k) ELSE BigDelete(x, k)

\* Map.Rest() for len >= 2 and SmallMap.Range / BigMap.Range(l, r), 0 <= l <= r <= len
MethodRange(x, l, r) ==
  IF IsSmall(x) THEN Small(Pad(SubSeq(x.kv, l + 1, r)), r - l)
  ELSE IF r - l > MaxSmall                                           \* m.kv[l:r] shares the backing array: the pairs
       THEN BigC(SubSeq(x.kv, l + 1, r), (x.len - r) + x.spare, (x.len - r) + x.live)   \* after r are in its capacity
       ELSE Small(Pad(SubSeq(x.kv, l + 1, r)), r - l)                \* demotion
MethodRest(x) == IF x.len <= 1 THEN NilObj ELSE MethodRange(x, 1, x.len)

\* object.Rest(val) / object.Range(val, l, r): type switch with cases SmallMap and *BigMap only
ObjRest(x)        == IF x.rep = "psmall" THEN ErrObj ELSE MethodRest(x)
ObjRange(x, l, r) == IF x.rep = "psmall" THEN ErrObj ELSE MethodRange(x, l, r)

RECURSIVE StoreAll(_, _, _)      \* for _, kv := range es { res = res.Set(kv.Key, kv.Value) }
StoreAll(x, es, i) == IF i > Len(es) THEN x ELSE StoreAll(ImplSet(x, es[i][1], es[i][2]), es, i + 1)

SmallAppend(x, right) ==
  IF right.len <= MaxSmall
  THEN StoreAll([rep |-> IF EscapingPointer THEN "psmall" ELSE "small", kv |-> Pad(Elems(x)), len |-> x.len],
               Elems(right), 1)
  ELSE StoreAll(BigC(Elems(x), right.len, 0), Elems(right), 1)        \* make(.., 0, m.len + right.Len())
(* BigMap.Append: a new array sized for all keys being new, the left pairs copied, the right ones Set:
   what is left over (keys that were there already) is spare capacity of the result.
   Named deviation AppendInPlace: when every right key sorts after the last left key the result is
   `append(m.kv, right...)` - Go's append writes into the spare capacity of the LEFT operand's array when
   the pairs fit, so the result shares that array and whatever lived in those slots is overwritten.  *)
InPlaceOK(x, right) == AppendInPlace /\ x.len > 0 /\ right.len > 0 /\ Ord[x.kv[x.len][1]][right.kv[1][1]] < 0
BigAppend(x, right) ==
  IF InPlaceOK(x, right)
  THEN LET kv2 == x.kv \o Elems(right) IN
       IF right.len <= x.spare
       THEN [BigC(kv2, x.spare - right.len, x.live - right.len) EXCEPT !.hurt = x.live > 0]
       ELSE BigC(kv2, GrowCap(x.len + x.spare, Len(kv2)) - Len(kv2), 0)
  ELSE StoreAll(BigC(x.kv, right.len, 0), Elems(right), 1)
ImplAppend(x, right) == IF IsSmall(x) THEN SmallAppend(x, right) ELSE BigAppend(x, right)

\* eval.evalMapLiteral
ImplLit(es) == StoreAll(NewMapSize(Len(es)), es, 1)

\* eval.evalForList: for object.Len(list) > 0 { v = First(list); list = Rest(list); body }
RECURSIVE ImplIter(_, _)
ImplIter(list, acc) == IF list.len <= 0 THEN acc ELSE ImplIter(ObjRest(list), Append(acc, list.kv[1]))

\* object.Identical on two maps (what decides whether setting a constant again changes it): the same pairs,
\* keys and values identical (1 and 1.0 are equal keys but not identical ones) - whatever the representations.
\* Named deviation IdenticalByRep: a type switch on the Go type that only compares small with small, big with big.
ImplIdentical(x, y) == /\ IdenticalByRep => (IsSmall(x) <=> IsSmall(y))
                       /\ x.len = y.len
                       /\ \A i \in 1..x.len : x.kv[i] = y.kv[i]

\* object.Cmp on two maps = 0
ImplEquals(x, y) == /\ x.len = y.len
                    /\ \A i \in 1..x.len : Same(x.kv[i][1], y.kv[i][1]) /\ x.kv[i][2] = y.kv[i][2]

\* the same observations, computed the way the code computes them
ImplObs(x) ==
  [len |-> x.len, printed |-> Printed(Elems(x)), iter |-> IterTxt(ImplIter(x, <<>>)),
   first |-> FirstTxt(IF x.len = 0 THEN <<>> ELSE <<x.kv[1]>>),
   rest |-> LET r == ObjRest(x) IN
            IF r.rep = "error" THEN "error" ELSE IF r.rep = "nil" THEN "nil" ELSE Printed(Elems(r)),
   get |-> GetTxt([k \in KIdx |-> ImplGet(x, k)])]

AbsOf(x) == {x.kv[i] : i \in 1..x.len}

\* ------------------------------------------------------------------ the machine
\* Operations are tuples <<o, a, b, j>>:  lit a | set a b | del a | rest | range a b | appr a | appl a | self
\* j > 0: the set/del is the body of `for kv = m {..}` at its j-th iteration (see LoopA).
\* (Tuples, not records: `hist` is outside the VIEW, so TLC never normalises it, and its elements are shared
\* between states handled by different workers; a tuple has no lazily normalised form to race on.)
Op(o, a, b)        == <<o, a, b, 0>>
LoopOp(o, a, b, j) == <<o, a, b, j>>
OpO(op) == op[1]
OpA(op) == op[2]
OpB(op) == op[3]
OpJ(op) == op[4]

\* An element of `hist` is the operation followed by the printed form the map had after it: the values the variable
\* held along the witness history are EARLIER RESULTS, every one of which must still print like that after any later
\* operation (maps are values; Range / Rest views and spare capacity share storage underneath).
HOps(h)    == [i \in 1..Len(h) |-> SubSeq(h[i], 1, 4)]
Earlier(h) == "[" \o Join([i \in 1..Len(h) |-> h[i][5]], ",", 1) \o "]"

(* One line per explored transition: witness history, operation, the ABSTRACT prediction of every
   observation of the result (`exp`), the predicted pairs (`ps`, to build an equal map in another
   order), and - only where the implementation-shaped model with its named deviation predicts
   something else - that prediction (`dev`).  rep/repb (representation after/before) are coverage. *)
Emit(h, op, resAbs, resImpl, ch) ==
  EmitOn /\ OpJ(op) = 0 =>
    LET ao == AbsObs(resAbs)
        \* the deviation can only show on an escaped pointer (ObsOK, checked by MC, says so for every state)
        io == IF resImpl.rep = "error" THEN [err |-> 1]
              ELSE IF resImpl.rep = "psmall" THEN ImplObs(resImpl) ELSE ao
    IN EmitLine(ToJson(
         [h |-> HOps(h), op |-> op, exp |-> ao, ps |-> APairs(resAbs), ch |-> ch, it |-> "",
          dev |-> IF io = ao THEN <<>> ELSE io, prev |-> Earlier(h),
          rep |-> resImpl.rep, repb |-> m.rep]))

\* the binding takes the value `x` (a map): m = <expr>
Assign(op, x, S, ch) ==
  /\ m' = Norm(x) /\ abs' = S
  /\ LET hop == Append(op, Printed(APairs(S))) IN hist' = IF OpO(op) = "lit" THEN <<hop>> ELSE Append(hist, hop)
  /\ Emit(IF OpO(op) = "lit" THEN <<>> ELSE hist, op, S, Norm(x), ch)

\* the expression is an error in the implementation-shaped model: the binding keeps its value
Refused(op, S) ==
  /\ UNCHANGED vars
  /\ Emit(hist, op, S, ErrObj, 2)

LitA(op, es)   == Assign(op, ImplLit(es), ALit(es), 2)                          \* m = {k:v, ...}
SetA(op, k, v) == Assign(op, ImplSet(CopyMap(m), k, v), ASet(abs, k, v), 2)     \* m[k] = v
DelA(op, k)    == IF ImplFind(m, k)[1]                                          \* del(m[k])
                  THEN Assign(op, ImplDelete(CopyMap(m), k), ADel(abs, k), IF AHas(abs, k) THEN 1 ELSE 0)
                  ELSE Assign(op, m, ADel(abs, k), IF AHas(abs, k) THEN 1 ELSE 0)
RestA(op)      == /\ Cardinality(abs) >= 2                                      \* m = rest(m)
                  /\ LET x == ObjRest(m) IN
                     IF x.rep = "error" THEN Refused(op, ARest(abs)) ELSE Assign(op, x, ARest(abs), 2)
RangeA(op, l, r) == /\ 0 <= l /\ l <= r /\ r <= Cardinality(abs)                \* m = m[l:r]
                    /\ LET x == ObjRange(m, l, r) IN
                       IF x.rep = "error" THEN Refused(op, ARange(abs, l, r)) ELSE Assign(op, x, ARange(abs, l, r), 2)
AppRA(op, es)  == Assign(op, ImplAppend(m, ImplLit(es)), AAppend(abs, ALit(es)), 2)   \* m = m + {..}
AppLA(op, es)  == Assign(op, ImplAppend(ImplLit(es), m), AAppend(ALit(es), abs), 2)   \* m = {..} + m
SelfA(op)      == Assign(op, ImplAppend(m, m), AAppend(abs, abs), 2)                  \* m = m + m

(* `q = []; i = 0; for kv = m { i = i + 1; if i == j { m[k] = v  |  d = del(m[k]) }; q = q + [[kv.key, kv.value]] }`
   A loop iterates over the value the map had when the loop started (`it`), whatever its body does to
   the binding; afterwards the binding holds the changed map.  That is what the code does for a
   SmallMap (Rest copies).  BigMap.Rest returns a *view* of the same backing array
   (&BigMap{kv: m.kv[1:]}) and BigMap.Set / Delete change that array in place; before /repo commit
   58006fb the evaluator wrote through the binding's own BigMap, so while more than MaxSmall pairs
   remained to be visited the loop saw the change (a pair twice, a pair skipped, a new value).  Since
   58006fb index assignment and del copy the map first (object.CopyMap).  How a shared write shows
   depends on the slice capacity (allocator policy), which this model does not describe: the spec only
   marks the cases where sharing is possible (`dev.shared`, LoopShares) so that a failing case can be
   named; the prediction is the abstract one everywhere.
   The action changes no state variable: the state the binding reaches is the one SetA / DelA reach.  *)
LoopShares(x, j) == x.rep = "big" /\ x.len - j > MaxSmall
LoopA(op) ==
  /\ m.rep # "psmall" /\ OpJ(op) \in 1..Cardinality(abs)
  /\ UNCHANGED vars
  /\ EmitOn =>
       LET S  == IF OpO(op) = "set" THEN ASet(abs, OpA(op), OpB(op)) ELSE ADel(abs, OpA(op))
           x  == IF OpO(op) = "set" THEN ImplSet(CopyMap(m), OpA(op), OpB(op))
                 ELSE IF ImplFind(m, OpA(op))[1] THEN ImplDelete(CopyMap(m), OpA(op)) ELSE m
       IN EmitLine(ToJson(
            [h |-> HOps(hist), op |-> op, exp |-> AbsObs(S), ps |-> APairs(S), it |-> IterTxt(APairs(abs)),
             ch |-> IF OpO(op) = "set" THEN 2 ELSE IF AHas(abs, OpA(op)) THEN 1 ELSE 0,
             dev |-> IF LoopShares(m, OpJ(op)) THEN [shared |-> 1] ELSE <<>>, prev |-> Earlier(hist),
             rep |-> x.rep, repb |-> m.rep]))

(* ---- a map held by a CONSTANT (an all caps name): K = m.
   Setting K again is accepted exactly when the new value is identical to the old one; for maps that is a matter
   of the pairs, not of how either map came to be.  Ways(S) lists other ways of building the map S (`same`) and
   two ways of building a different one; a way is a little program of operations of this machine
   ([o, a, b, j, es]: lit es | set a b | del a | appr es) run from the empty map.
     kbind w   K = m; K = <way w>        accepted (acc = 1) iff the way builds the same map; K shows S either way
     kset k v  K = m; K[k] = v           accepted iff that changes nothing; K shows S either way
     kdel k    K = m; d = del(K[k])      a pair that is there can't be removed: refused (ch = 3), K shows S;
                                         nothing to remove: d = false (ch = 0).  What del answers agrees with what
                                         the map holds afterwards.
   These actions change no state variable (K is another binding): they are emitted for every reachable state. *)
POp(o, a, b, es) == [o |-> o, a |-> a, b |-> b, j |-> 0, es |-> es]
Rev(s) == [i \in 1..Len(s) |-> s[Len(s) + 1 - i]]
Ways(S) ==
  LET ps  == APairs(S)
      n   == Len(ps)
      h   == n \div 2
      fk  == {k \in KIdx : ~AHas(S, k)}
      e   == IF fk = {} THEN 0 ELSE CHOOSE k \in fk : \A q \in fk : k <= q
      dup(qs) == [i \in 1..(Len(qs) + MaxSmall + 1) |-> qs[((i - 1) % Len(qs)) + 1]]    \* every pair again: > MaxSmall entries
      chg == [ps EXCEPT ![h + 1] = <<ps[h + 1][1], (ps[h + 1][2] % Len(Vals)) + 1>>]
      W(prog, same) == [prog |-> prog, same |-> same]
  IN  << W(<<POp("lit", 0, 0, Rev(ps))>>, TRUE) >>
      \o (IF n = 0 THEN << W(<<POp("lit", 0, 0, <<<<1, 1>>>>)>>, FALSE) >>
          ELSE << W(<<POp("lit", 0, 0, dup(ps))>>, TRUE),
                  W(<<POp("lit", 0, 0, SubSeq(ps, 1, h)), POp("appr", 0, 0, Append(Rev(SubSeq(ps, h + 1, n)), ps[n]))>>, TRUE),
                  W(<<POp("lit", 0, 0, dup(chg))>>, FALSE),
                  W(<<POp("lit", 0, 0, Rev(chg))>>, FALSE),
                  W(<<POp("lit", 0, 0, Tail(ps))>>, FALSE) >>)
      \o (IF e = 0 THEN <<>>
          ELSE << W(<<POp("lit", 0, 0, Append(ps, <<e, 1>>)), POp("del", e, 0, <<>>)>>, TRUE),       \* had one more pair, shrank
                  W(<<POp("lit", 0, 0, ps), POp("set", e, 1, <<>>), POp("del", e, 0, <<>>)>>, TRUE) >>)

AStep(S, p) == CASE p.o = "lit"  -> ALit(p.es)
                 [] p.o = "set"  -> ASet(S, p.a, p.b)
                 [] p.o = "del"  -> ADel(S, p.a)
                 [] p.o = "appr" -> AAppend(S, ALit(p.es))
IStep(x, p) == CASE p.o = "lit"  -> ImplLit(p.es)
                 [] p.o = "set"  -> ImplSet(CopyMap(x), p.a, p.b)
                 [] p.o = "del"  -> IF ImplFind(x, p.a)[1] THEN ImplDelete(CopyMap(x), p.a) ELSE x
                 [] p.o = "appr" -> ImplAppend(x, ImplLit(p.es))
RECURSIVE ARun(_, _, _)
ARun(S, prog, i) == IF i > Len(prog) THEN S ELSE ARun(AStep(S, prog[i]), prog, i + 1)
RECURSIVE IRun(_, _, _)
IRun(x, prog, i) == IF i > Len(prog) THEN x ELSE IRun(IStep(x, prog[i]), prog, i + 1)

\* eval.deleteMapEntry / evalIndexAssigment on a constant: copy, change, store; the store is refused unless identical
ImplKDel(x, k)    == IF ~ImplFind(x, k)[1] THEN 0
                     ELSE IF ImplIdentical(x, ImplDelete(CopyMap(x), k)) THEN 1 ELSE 3
ImplKSet(x, k, v) == IF ImplIdentical(x, ImplSet(CopyMap(x), k, v)) THEN 1 ELSE 0
AbsKDel(S, k)     == IF AHas(S, k) THEN 3 ELSE 0
AbsKSet(S, k, v)  == IF ASet(S, k, v) = S THEN 1 ELSE 0

ConstLine(op, acc, ch, alt) ==
  EmitLine(ToJson([h |-> HOps(hist), op |-> op, exp |-> AbsObs(abs), ps |-> APairs(abs), it |-> "", ch |-> ch,
                   acc |-> acc, alt |-> alt, dev |-> <<>>, prev |-> Earlier(hist), rep |-> m.rep, repb |-> m.rep]))
ConstA ==
  /\ m.rep # "psmall"
  /\ UNCHANGED vars
  /\ EmitOn =>
       /\ \A w \in 1..Len(Ways(abs)) : LET W == Ways(abs)[w] IN
             ConstLine(<<"kbind", w, 0, 0>>, IF W.same THEN 1 ELSE 0, 2, W.prog)
       /\ \A k \in KIdx : ConstLine(<<"kdel", k, 0, 0>>, 0, AbsKDel(abs, k), <<>>)
       /\ \A k \in KIdx : ConstLine(<<"kset", k, 1, 0>>, AbsKSet(abs, k, 1), 2, <<>>)

(* ---- two results from one operand: a = m + Lits[i]; b = m + Lits[j].  a is observed AFTER b was made
   (and m, b with the earlier results).  At the implementation level: if a was appended in place, the spare
   slots of m's array now hold a's pairs (HeldAfter); making b must not write there.                        *)
HeldAfter(x, right) == IF ~IsSmall(x) /\ InPlaceOK(x, right) /\ right.len <= x.spare
                       THEN [x EXCEPT !.live = IF x.live > right.len THEN x.live ELSE right.len] ELSE x
ImplFork(x, r1, r2) == ImplAppend(HeldAfter(x, r1), r2)
Hurt(x) == ~IsSmall(x) /\ x.hurt
ForkA(i, j) ==
  /\ m.rep # "psmall"
  /\ UNCHANGED vars
  /\ EmitOn =>
       LET A == AAppend(abs, ALit(Lits[i]))
           B == AAppend(abs, ALit(Lits[j]))
           a == ImplAppend(m, ImplLit(Lits[i]))
           hb == Append(Append(hist, <<"", 0, 0, 0, Printed(APairs(abs))>>), <<"", 0, 0, 0, Printed(APairs(B))>>)
       IN EmitLine(ToJson([h |-> HOps(hist), op |-> <<"fork", i, j, 0>>, exp |-> AbsObs(A), ps |-> APairs(A), it |-> "", ch |-> 2,
                           dev |-> <<>>, prev |-> Earlier(hb), rep |-> a.rep, repb |-> m.rep]))

(* ---- a merge onto a view: v = m[l:r] (a = 0: all but the last pair, a = 1: all but the first - what rest(m) is);
   w = v + Lits[j].  w is observed; m and v are earlier results.  A big map's Range shares its array. *)
ViewL(a, n) == IF a = 0 THEN 0 ELSE 1
ViewR(a, n) == IF a = 0 THEN n - 1 ELSE n
ViewA(a, j) ==
  /\ m.rep # "psmall" /\ Cardinality(abs) >= 1
  /\ UNCHANGED vars
  /\ EmitOn =>
       LET n == Cardinality(abs)
           V == ARange(abs, ViewL(a, n), ViewR(a, n))
           A == AAppend(V, ALit(Lits[j]))
           w == ImplAppend(ObjRange(m, ViewL(a, n), ViewR(a, n)), ImplLit(Lits[j]))
           hb == Append(Append(hist, <<"", 0, 0, 0, Printed(APairs(abs))>>), <<"", 0, 0, 0, Printed(APairs(V))>>)
       IN EmitLine(ToJson([h |-> HOps(hist), op |-> <<"view", a, j, 0>>, exp |-> AbsObs(A), ps |-> APairs(A), it |-> "", ch |-> 2,
                           dev |-> <<>>, prev |-> Earlier(hb), rep |-> w.rep, repb |-> m.rep]))

Init == /\ m = EmptySmall /\ abs = {} /\ hist = <<>>
        /\ (EmitOn => EmitLine(ToJson([universe |-> Keys, vals |-> Vals, lits |-> Lits])))

\* `m = literal` does not depend on the current value: it is explored from the empty map only
Next == \/ (m = EmptySmall /\ \E i \in 1..Len(Lits) : LitA(Op("lit", i, 0), Lits[i]))
        \/ \E k \in KIdx, v \in VIdx : SetA(Op("set", k, v), k, v)
        \/ \E k \in KIdx : DelA(Op("del", k, 0), k)
        \/ RestA(Op("rest", 0, 0))
        \/ \E l \in 0..Cardinality(abs) : \E r \in l..Cardinality(abs) : RangeA(Op("range", l, r), l, r)
        \/ \E i \in 1..Len(Lits) : AppRA(Op("appr", i, 0), Lits[i])
        \/ \E i \in 1..Len(Lits) : AppLA(Op("appl", i, 0), Lits[i])
        \/ SelfA(Op("self", 0, 0))
        \/ \E j \in LoopAt, k \in KIdx : LoopA(LoopOp("set", k, 1, j)) \/ LoopA(LoopOp("del", k, 0, j))
        \/ (EmitOn /\ ConstA)
        \/ (EmitOn /\ \E i \in ForkLits, j \in ForkLits : ForkA(i, j))
        \/ (EmitOn /\ \E a \in {0, 1}, j \in ForkLits : ViewA(a, j))

Spec == Init /\ [][Next]_vars

\* ------------------------------------------------------------------ properties
RepOK == /\ m.rep \in {"small", "psmall", "big"}
         /\ m.len >= 0
         /\ IsSmall(m) => m.len <= MaxSmall /\ Len(m.kv) = MaxSmall
         /\ ~IsSmall(m) => m.len = Len(m.kv)
         /\ \A i \in 1..(m.len - 1) : Ord[m.kv[i][1]][m.kv[i + 1][1]] < 0      \* sorted, unique up to Cmp = 0
         /\ \A i \in 1..m.len : m.kv[i][1] \in KIdx /\ m.kv[i][2] \in VIdx
         /\ (IsSmall(m) /\ ~TrackStale) => \A i \in (m.len + 1)..MaxSmall : m.kv[i] = Zero

AbsOK == AbsOf(m) = abs /\ Cardinality(abs) = m.len

ObsOK == ImplObs(m) = AbsObs(abs)

EqOK == \A i \in 1..Len(Lits) : ImplEquals(m, ImplLit(Lits[i])) <=> AEqual(abs, ALit(Lits[i]))

\* a constant holding the map: re-binding / K[k] = v / del(K[k]) answer as the abstract map says, whatever the representation
ConstOK == /\ \A w \in 1..Len(Ways(abs)) :
                LET W == Ways(abs)[w]
                    x == IRun(EmptySmall, W.prog, 1)
                IN /\ (ARun({}, W.prog, 1) = abs) = W.same
                   /\ ImplIdentical(m, x) = W.same /\ ImplIdentical(x, m) = W.same
           /\ \A k \in KIdx : ImplKDel(m, k) = AbsKDel(abs, k)
           /\ \A k \in KIdx, v \in VIdx : ImplKSet(m, k, v) = AbsKSet(abs, k, v)

\* earlier results are unchanged: no value is made by writing into slots where another value's pairs live -
\* neither by the transition that made m, nor by the second of two merges from m
EarlierOK == /\ ~Hurt(m)
             /\ m.rep # "psmall" =>
                  /\ \A i \in ForkLits, j \in ForkLits : ~Hurt(ImplFork(m, ImplLit(Lits[i]), ImplLit(Lits[j])))
                  /\ m.len >= 1 => \A a \in {0, 1}, j \in ForkLits :
                        ~Hurt(ImplAppend(ObjRange(m, ViewL(a, m.len), ViewR(a, m.len)), ImplLit(Lits[j])))
CapOK == ~IsSmall(m) => m.spare \in 0..MaxSpare /\ m.live \in 0..m.spare

\* the model-checked universes are listed in the key order they define (constant-level, checked as an invariant)
KeysListedInOrder == \A i \in KIdx : \A j \in KIdx : i <= j => Ord[i][j] <= 0
ASSUME \A i \in KIdx : \A j \in KIdx : Ord[i][j] = -Ord[j][i]

\* ------------------------------------------------------------------ universes used by the check (cfg: Keys <- U8 ...)
KInt(n, txt)    == [t |-> "int", n |-> n, txt |-> txt]
KFloat(n2, txt) == [t |-> "float", n |-> n2, txt |-> txt]        \* n2 = twice the value
KStr(s, txt)    == [t |-> "str", s |-> s, txt |-> txt]
KArr(e, txt)    == [t |-> "arr", e |-> e, txt |-> txt]
KTrue           == [t |-> "bool", n |-> 1, txt |-> "true"]
KNil            == [t |-> "nil", txt |-> "nil"]

\*      -2       1            1.0             2.5               true   nil   "a"                     [1]
U8 == <<KInt(-2, "-2"), KInt(1, "1"), KFloat(2, "1"), KFloat(5, "2.5"), KTrue, KNil, KStr(<<97>>, "\"a\""), KArr(<<KInt(1, "1")>>, "[1]")>>
U7 == <<KInt(-2, "-2"), KInt(1, "1"), KFloat(2, "1"), KTrue, KNil, KStr(<<97>>, "\"a\""), KArr(<<KInt(1, "1")>>, "[1]")>>
U6 == <<KInt(1, "1"), KFloat(2, "1"), KTrue, KNil, KStr(<<97>>, "\"a\""), KArr(<<KInt(1, "1")>>, "[1]")>>
V2 == <<[t |-> "int", n |-> 10, txt |-> "10"], [t |-> "str", s |-> <<120>>, txt |-> "\"x\""]>>

\* literal operands (also the right/left operands of +): empty, singletons, duplicate keys in <= 4
\* and in >= 5 entries (a *big* map with 1..3 keys), exactly 4 and 5 distinct keys out of order, all keys.
LitsFor(n) ==
  <<  <<>>,
      <<<<1, 1>>>>,
      <<<<n, 2>>, <<2, 1>>>>,
      <<<<2, 1>>, <<1, 2>>, <<2, 2>>>>,
      <<<<4, 1>>, <<3, 2>>, <<2, 1>>, <<1, 2>>>>,
      <<<<1, 1>>, <<1, 2>>, <<1, 1>>, <<1, 2>>, <<1, 1>>>>,
      <<<<3, 1>>, <<2, 2>>, <<n, 1>>, <<3, 2>>, <<2, 1>>, <<n, 2>>>>,
      <<<<5, 1>>, <<4, 1>>, <<3, 1>>, <<2, 1>>, <<1, 1>>>>,
      [i \in 1..n |-> <<n + 1 - i, 1 + (i % 2)>>],
      <<<<n, 1>>>>,                          \* 10, 11: one pair at / near the upper end of the key order
      <<<<n - 2, 2>>>>
  >>
FL  == {3, 8, 10, 11}      \* MC
FLG == {3, 10, 11}         \* GEN
L8 == LitsFor(8)
L7 == LitsFor(7)
L6 == LitsFor(6)
=============================================================================
