----------------------------- MODULE GrolValues -----------------------------
(* Value domain of the grol reference semantics: constructors, the documented
   total order Cmp, equality Eq, finite maps in key order and the printed form.

   Values are records:
     [t |-> "int",   v |-> decimal string]          64-bit integers
     [t |-> "float", v |-> 16 hex digits]           IEEE-754 binary64 bit pattern
     [t |-> "bool",  v |-> BOOLEAN]
     [t |-> "nil"]
     [t |-> "str",   v |-> byte string]             chars are bytes
     [t |-> "arr",   e |-> sequence of values]
     [t |-> "map",   p |-> sequence of <<key, value>>, sorted by Cmp, keys unique up to Cmp = 0]
     [t |-> "func",  name, ps, variadic, body, env, ck]   closure (ck = canonical text, identity of the code)
     [t |-> "err",   m |-> message]                 language-level error object
     [t |-> "ctl",   c |-> "return"|"break"|"continue", v |-> value]   control value (never user visible)
   Scalar arithmetic / formatting comes from GrolPrims.                                   *)
EXTENDS Integers, Sequences, GrolPrims

Nil        == [t |-> "nil"]
Bool(b)    == [t |-> "bool", v |-> b]
IntV(s)    == [t |-> "int", v |-> s]          \* s: decimal string
IntN(n)    == [t |-> "int", v |-> IntToI64(n)] \* n: TLC integer
Flt(bits)  == [t |-> "float", v |-> bits]
Str(s)     == [t |-> "str", v |-> s]
Arr(e)     == [t |-> "arr", e |-> e]
Map(p)     == [t |-> "map", p |-> p]
Err(m)     == [t |-> "err", m |-> m]
Ctl(c, v)  == [t |-> "ctl", c |-> c, v |-> v]

IsErr(v)   == v.t = "err"
IsCtl(v)   == v.t = "ctl"

\* order of object.Type: INTEGER ~ FLOAT < BOOLEAN < NIL < ERROR < FUNC < STRING < ARRAY < MAP
Rank(v) == CASE v.t = "int"   -> 1
             [] v.t = "float" -> 1
             [] v.t = "bool"  -> 3
             [] v.t = "nil"   -> 4
             [] v.t = "err"   -> 5
             [] v.t = "func"  -> 7
             [] v.t = "str"   -> 8
             [] v.t = "arr"   -> 9
             [] v.t = "map"   -> 10
             [] OTHER         -> 99

Sign(n) == IF n < 0 THEN -1 ELSE IF n > 0 THEN 1 ELSE 0

(* The documented order: type rank first; numbers by exact mathematical value across
   int/float (NaN lowest, equal to itself); arrays and maps by length, then element-wise. *)
RECURSIVE Cmp(_, _)
RECURSIVE CmpSeq(_, _, _)
RECURSIVE CmpPairs(_, _, _)
Cmp(a, b) ==
  IF a.t = "int" /\ b.t = "float" THEN NumCmpExact(a.v, b.v)
  ELSE IF a.t = "float" /\ b.t = "int" THEN 0 - NumCmpExact(b.v, a.v)
  ELSE IF Rank(a) # Rank(b) THEN Sign(Rank(a) - Rank(b))
  ELSE CASE a.t = "int"   -> I64Cmp(a.v, b.v)
         [] a.t = "float" -> F64Cmp(a.v, b.v)
         [] a.t = "bool"  -> IF a.v = b.v THEN 0 ELSE IF a.v THEN 1 ELSE -1
         [] a.t = "nil"   -> 0
         [] a.t = "err"   -> StrCmp(a.m, b.m)
         [] a.t = "func"  -> StrCmp(a.ck, b.ck)
         [] a.t = "str"   -> StrCmp(a.v, b.v)
         [] a.t = "arr"   -> IF Len(a.e) # Len(b.e) THEN Sign(Len(a.e) - Len(b.e)) ELSE CmpSeq(a.e, b.e, 1)
         [] a.t = "map"   -> IF Len(a.p) # Len(b.p) THEN Sign(Len(a.p) - Len(b.p)) ELSE CmpPairs(a.p, b.p, 1)
         [] OTHER         -> 1
CmpSeq(x, y, i) ==
  IF i > Len(x) THEN 0
  ELSE LET c == Cmp(x[i], y[i]) IN IF c # 0 THEN c ELSE CmpSeq(x, y, i + 1)
CmpPairs(x, y, i) ==
  IF i > Len(x) THEN 0
  ELSE LET c == Cmp(x[i][1], y[i][1]) IN
       IF c # 0 THEN c
       ELSE LET d == Cmp(x[i][2], y[i][2]) IN IF d # 0 THEN d ELSE CmpPairs(x, y, i + 1)

\* == : same type class (int and float are different classes) and order-equal
Eq(a, b) == a.t = b.t /\ Cmp(a, b) = 0

\* ---------------------------------------------------------------- finite maps in key order
RECURSIVE MapFind(_, _, _)
\* index of key k in the sorted pair sequence p, or 0 - (insertion index) when absent
MapFind(p, k, i) ==
  IF i > Len(p) THEN 0 - i
  ELSE LET c == Cmp(p[i][1], k) IN
       IF c = 0 THEN i ELSE IF c > 0 THEN 0 - i ELSE MapFind(p, k, i + 1)

MapGet(p, k) == LET i == MapFind(p, k, 1) IN IF i > 0 THEN <<TRUE, p[i][2]>> ELSE <<FALSE, Nil>>
MapSet(p, k, v) ==
  LET i == MapFind(p, k, 1) IN
  IF i > 0 THEN [p EXCEPT ![i] = <<p[i][1], v>>]      \* the first key inserted stays (1 vs 1.0)
  ELSE LET j == 0 - i IN SubSeq(p, 1, j - 1) \o << <<k, v>> >> \o SubSeq(p, j, Len(p))
MapDel(p, k) ==
  LET i == MapFind(p, k, 1) IN
  IF i > 0 THEN <<TRUE, SubSeq(p, 1, i - 1) \o SubSeq(p, i + 1, Len(p))>> ELSE <<FALSE, p>>
RECURSIVE MapMerge(_, _, _)
MapMerge(p, q, i) == IF i > Len(q) THEN p ELSE MapMerge(MapSet(p, q[i][1], q[i][2]), q, i + 1)

\* ---------------------------------------------------------------- printed form (Inspect)
RECURSIVE Inspect(_)
RECURSIVE InspectSeq(_, _)
RECURSIVE InspectPairs(_, _)
Inspect(v) ==
  CASE v.t = "int"   -> v.v
    [] v.t = "float" -> F64Fmt(v.v)
    [] v.t = "bool"  -> IF v.v THEN "true" ELSE "false"
    [] v.t = "nil"   -> "nil"
    [] v.t = "str"   -> StrQuote(v.v)
    [] v.t = "arr"   -> StrCat(StrCat("[", InspectSeq(v.e, 1)), "]")
    [] v.t = "map"   -> StrCat(StrCat("{", InspectPairs(v.p, 1)), "}")
    [] v.t = "func"  -> IF v.name = "" THEN v.ck
                        ELSE StrCat(StrCat("func ", v.name), StrSub(v.ck, 6, StrLen(v.ck)))
    [] v.t = "err"   -> StrCat(StrCat("<err: ", v.m), ">")
    [] OTHER         -> "?"
InspectSeq(e, i) ==
  IF i > Len(e) THEN ""
  ELSE StrCat(IF i > 1 THEN "," ELSE "", StrCat(Inspect(e[i]), InspectSeq(e, i + 1)))
InspectPairs(p, i) ==
  IF i > Len(p) THEN ""
  ELSE StrCat(IF i > 1 THEN "," ELSE "",
       StrCat(Inspect(p[i][1]), StrCat(":", StrCat(Inspect(p[i][2]), InspectPairs(p, i + 1)))))

\* what print/println write for one argument: strings raw, everything else in printed form
Display(v) == IF v.t = "str" THEN v.v ELSE Inspect(v)

\* all-caps identifiers are constants: [A-Z][A-Z0-9_]*
IsUpper(b) == b >= 65 /\ b <= 90
IsConstName(name) ==
  LET bs == StrBytes(name) IN
  /\ Len(bs) > 0
  /\ \A i \in 1..Len(bs) : IsUpper(bs[i]) \/ (i > 1 /\ (bs[i] = 95 \/ (bs[i] >= 48 /\ bs[i] <= 57)))
=============================================================================
