----------------------------- MODULE Constants -----------------------------
(* C19 - constants cannot be changed by any path.

   State: the value bound to an all-caps name K (an abstract version number), whether K is
   bound, and the history of attempts.  An attempt is a syntactic kind of mutation
   (Kinds) made from a scope (Scopes).  Every binding-writing path of the evaluator is one of:
     checked setter     CreateOrSet: refuses a non-equal value for an existing constant
     in-place write     index assignment / element delete write into the container and only
                        then go through the checked setter
     register binding   integer parameters and counted-loop variables bound to a register
                        without going through the setter
   The pinned tree's deviations are named constants:
     WriteBeforeCheck  = TRUE  : for a LARGE container the in-place write modified the shared
                                 storage before the setter refused (the constant changed)
     RegisterShadows   = TRUE  : a parameter / loop variable named K was bound in a register,
                                 so inside the body K evaluated to the new value
     CheckWalksCallStack = TRUE: (a seeded change, never the pinned tree) the setter looks for the existing constant
                                 along the CALL chain instead of the lexical chain: a constant bound inside a function
                                 and captured by a closure that escaped is invisible to the check when the closure is
                                 called from somewhere else, and a plain = or := through the closure rebinds it
   The constant lives either at top level or inside a function whose closures escaped (home); in the second case every
   attempt is made through one of those closures, called from the top level, from a function or from a loop.
   ConstantsStable: K evaluates to the value it was bound to until an explicit del(K).
   With both constants FALSE (code after the repairs) it holds; with either TRUE TLC finds the
   attempt.  The explored histories are replayed on the real interpreter (GEN) for every value
   kind, with registers on and off.                                                        *)
EXTENDS Integers, Sequences, TLC, Json, GrolPrims

CONSTANTS MaxOps, WriteBeforeCheck, RegisterShadows, CheckWalksCallStack, EmitOn

Kinds  == {"assign", "define", "incr", "predecr", "index-assign", "del-entry", "loop-var", "list-loop-var",
           "param", "nested-assign", "nested-define", "func-name", "equal-reassign",
           "loop-from-own-value",   \* for K = K:K+3 {..}: the first loop value equals the constant (an accepted equal re-binding), the next ones do not
           "fresh-loop-constant",   \* for FRESH = 3 {..}: the first iteration binds a new constant, later iterations must not change it
           "fresh-param-constant"}  \* func(FRESHP) {++FRESHP ..}(3): the call binds a new constant, the body must not change it
Scopes == {"top", "function", "loop"}

ClosureKinds == {"assign", "define", "incr", "predecr", "index-assign", "del-entry", "nested-assign", "equal-reassign"}

VARIABLES ver,      \* version of the value K evaluates to at top level
          home,     \* "top": K is a global; "closure": K is bound inside a function and reached through escaped closures
          seenIn,   \* a body in which K evaluated to something else was run (shadowing)
          large,    \* K holds a large container (chosen at Init)
          hist
vars == <<ver, home, seenIn, large, hist>>

Init == ver = 0 /\ home \in {"top", "closure"} /\ seenIn = FALSE /\ large \in BOOLEAN /\ hist = <<>>

Attempt(k, sc) ==
  /\ Len(hist) < MaxOps
  /\ home = "closure" => k \in ClosureKinds
  /\ ver' = IF k \in {"index-assign", "del-entry"} /\ large /\ WriteBeforeCheck THEN ver + 1
            ELSE IF home = "closure" /\ k \in {"assign", "define"} /\ CheckWalksCallStack THEN ver + 1
            ELSE ver
  /\ seenIn' = (seenIn \/ (k \in {"param", "loop-var", "loop-from-own-value", "fresh-loop-constant", "fresh-param-constant"} /\ RegisterShadows))
  /\ UNCHANGED <<large, home>>
  /\ hist' = Append(hist, <<k, sc>>)

\* the one legitimate way: delete explicitly, then bind again
DelAndRebind ==
  /\ Len(hist) < MaxOps /\ home = "top"
  /\ ver' = 0 /\ seenIn' = FALSE /\ UNCHANGED <<large, home>>      \* version 0 again: "the value it was (re)bound to"
  /\ hist' = Append(hist, <<"del-rebind", "top">>)

Emit == EmitOn => EmitLine(ToJson([h |-> hist', home |-> home]))

Next ==
  /\ \/ \E k \in Kinds, sc \in Scopes : Attempt(k, sc)
     \/ DelAndRebind
  /\ Emit

Spec == Init /\ [][Next]_vars
ConstantsStable == ver = 0 /\ ~seenIn
=============================================================================
