----------------------------- MODULE Constants -----------------------------
(* C19 - constants cannot be changed by any path.

   State: the value bound to an all-caps name K (an abstract version number), whether K is
   bound, and the history of attempts.  An attempt is a syntactic kind of mutation
   (Kinds) made from a scope (Scopes).  Every binding-writing path of the evaluator is one of:
     checked setter     CreateOrSet: refuses a non-equal value for an existing constant
     in-place write     index assignment / element delete write into the container and only
                        then go through the checked setter
     register binding   integer parameters and counted-loop variables bound to a register
                        without going through the setter
   The pinned tree's deviations are named constants:
     WriteBeforeCheck  = TRUE  : for a LARGE container the in-place write modified the shared
                                 storage before the setter refused (the constant changed)
     RegisterShadows   = TRUE  : a parameter / loop variable named K was bound in a register,
                                 so inside the body K evaluated to the new value
     CheckWalksCallStack = TRUE: (a seeded change, never the pinned tree) the setter looks for the existing constant
                                 along the CALL chain instead of the lexical chain: a constant bound inside a function
                                 and captured by a closure that escaped is invisible to the check when the closure is
                                 called from somewhere else, and a plain = or := through the closure rebinds it
     FailureLeavesFrame = TRUE : (a seeded change) an input that FAILS inside a call - its deadline expires, it is cancelled, the
                                 depth limit is hit, an ordinary error - leaves the session in the frame of that call: the later inputs
                                 of the session are evaluated there.  A frame of a function the session defined still ends at
                                 the session's globals (the constant and the checks are where they were); a frame of one of the
                                 library's own grol-written functions (keys, log2, printf ..: defined when the extensions are
                                 initialised) hangs off another root, where K is not bound: K no longer evaluates, `K = v` binds
                                 a new K there
     InPlaceWhenNoRoom = TRUE  : (a seeded change) index assignment writes into the existing storage when the memory budget
                                 (GOMEMLIMIT) does not hold a second copy of the container: only a HUGE container under a TIGHT
                                 budget shows it
   The constant lives either at top level or inside a function whose closures escaped (home); in the second case every
   attempt is made through one of those closures, called from the top level, from a function or from a loop.
   ConstantsStable: K evaluates to the value it was bound to until an explicit del(K).
   With both constants FALSE (code after the repairs) it holds; with either TRUE TLC finds the
   attempt.  The explored histories are replayed on the real interpreter (GEN) for every value
   kind, with registers on and off.                                                        *)
EXTENDS Integers, Sequences, TLC, Json, GrolPrims

CONSTANTS MaxOps, MaxTightOps, WriteBeforeCheck, RegisterShadows, CheckWalksCallStack, FailureLeavesFrame, InPlaceWhenNoRoom, EmitOn

Kinds  == {"assign", "define", "incr", "predecr", "index-assign", "del-entry", "loop-var", "list-loop-var",
           "param", "nested-assign", "nested-define", "func-name", "equal-reassign",
           "loop-from-own-value",   \* for K = K:K+3 {..}: the first loop value equals the constant (an accepted equal re-binding), the next ones do not
           "fresh-loop-constant",   \* for FRESH = 3 {..}: the first iteration binds a new constant, later iterations must not change it
           "fresh-param-constant"}  \* func(FRESHP) {++FRESHP ..}(3): the call binds a new constant, the body must not change it
Scopes == {"top", "function", "loop"}

ClosureKinds == {"assign", "define", "incr", "predecr", "index-assign", "del-entry", "nested-assign", "equal-reassign"}

Hows   == {"deadline", "cancel", "depth", "error"}
Wheres == {"user", "lib", "lib-in-user"}

VARIABLES ver,      \* version of the value K evaluates to at top level
          home,     \* "top": K is a global; "closure": K is bound inside a function and reached through escaped closures
          seenIn,   \* a body in which K evaluated to something else was run (shadowing)
          large,    \* K holds a large container (chosen at Init)
          mem,      \* "free": no memory budget; "tight": K is huge and the budget left does not hold a second copy of it
          frame,    \* where the session's inputs are evaluated: "session" (its globals), or the frame a failed input left
                    \* behind: "user" (ends at the session's globals), "lib" (ends at the library's root)
          hist
vars == <<ver, home, seenIn, large, mem, frame, hist>>

Init == /\ ver = 0 /\ home \in {"top", "closure"} /\ seenIn = FALSE /\ large \in BOOLEAN /\ hist = <<>>
        /\ mem \in {"free", "tight"} /\ (mem = "tight" => large /\ home = "top")
        /\ frame = "session"

Budget == IF mem = "tight" THEN MaxTightOps ELSE MaxOps

Attempt(k, sc) ==
  /\ Len(hist) < Budget
  /\ home = "closure" => k \in ClosureKinds
  /\ ver' = IF k \in {"index-assign", "del-entry"} /\ large /\ WriteBeforeCheck THEN ver + 1
            ELSE IF k = "index-assign" /\ mem = "tight" /\ InPlaceWhenNoRoom THEN ver + 1
            ELSE IF frame = "lib" /\ k \in {"assign", "define", "nested-assign", "nested-define"} THEN ver + 1   \* binds a K of that frame
            ELSE IF home = "closure" /\ k \in {"assign", "define"} /\ CheckWalksCallStack THEN ver + 1
            ELSE ver
  /\ seenIn' = (seenIn \/ (k \in {"param", "loop-var", "loop-from-own-value", "fresh-loop-constant", "fresh-param-constant"} /\ RegisterShadows))
  /\ UNCHANGED <<large, home, mem, frame>>
  /\ hist' = Append(hist, <<k, sc>>)

\* an input that fails inside a call (nothing in it names K)
Fail(how, wh) ==
  /\ Len(hist) < Budget /\ mem = "free"
  /\ frame' = IF ~FailureLeavesFrame THEN "session" ELSE IF wh = "user" THEN "user" ELSE "lib"
  /\ UNCHANGED <<ver, seenIn, large, home, mem>>
  /\ hist' = Append(hist, <<StrCat("fail-", how), wh>>)

\* the one legitimate way: delete explicitly, then bind again
DelAndRebind ==
  /\ Len(hist) < Budget /\ home = "top" /\ frame = "session" /\ mem = "free"
  /\ ver' = 0 /\ seenIn' = FALSE /\ UNCHANGED <<large, home, mem, frame>>      \* version 0 again: "the value it was (re)bound to"
  /\ hist' = Append(hist, <<"del-rebind", "top">>)

Emit == EmitOn => EmitLine(ToJson([h |-> hist', home |-> home, mem |-> mem]))

Next ==
  /\ \/ \E k \in Kinds, sc \in Scopes : Attempt(k, sc)
     \/ \E how \in Hows, wh \in Wheres : Fail(how, wh)
     \/ DelAndRebind
  /\ Emit

Spec == Init /\ [][Next]_vars
\* K evaluates (the inputs run where K is in scope) to the value it was bound to, in every body too
ConstantsStable == ver = 0 /\ ~seenIn /\ frame \in {"session", "user"}
=============================================================================
