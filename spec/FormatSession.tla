----------------------------- MODULE FormatSession -----------------------------
(* C03, histories: "formatting the same input any number of times, in any process and after any
   other inputs were parsed, yields the same bytes".

   What could make the bytes depend on the past is process-global state of the front end: the
   token interning table (token/token.go: a map from (type, literal) to the FIRST token object
   created with that content; every later occurrence in any input is that same object).
   The model: an input is a sequence of token literals; Parse(i) interns its literals (the owner
   of a literal is the input that created the token object) and keeps the tree = the sequence of
   token objects <<literal, owner>>.  Format(m, i) writes bytes computed from the tree.
   With InternDependent = FALSE the bytes are computed from the literals only (the design the
   property demands); with TRUE they also depend on the object identity (owner) - the deviation
   TLC must refute (sabotage run).

   Routes (round 5).  A tree reaches the printer by more than one route (FormatLaws.tla): as parsed ("ast"), or REBUILT
   by a pass through ast.Modify that rewrites nothing ("modify": every input of a session that has a macro, every
   quote()).  A rebuild copies the tree node by node; the containers of the tree (the pairs of a map literal) are kept
   in a Go map next to the slice that remembers their source order, so a rebuild has a choice the parser does not
   have: copy in source order (RebuildOrder = "source", the design the property demands: a rebuilt tree is the same
   program and prints the same bytes) or in whatever order the container yields (RebuildOrder = "any": the deviation,
   refuted by TLC in a second sabotage run - the bytes of the "modify" route then differ from run to run although
   nothing else was parsed, which is why the SAME (mode, input) has to be observed repeatedly in one process and in
   fresh processes, through every route).  Format(m, i) observes every route in Routes.

   hist is the history of operations; it is part of the state, so TLC explores ALL orders of the
   inputs and all interleavings with (repeated) formatting, and every maximal history is emitted
   for replay on the real code in a fresh process (GEN).                                          *)
EXTENDS Integers, Sequences, FiniteSets, TLC, Json, GrolPrims

CONSTANTS NInputs,          \* inputs 1..NInputs
          MaxFmt,           \* at most this many Format operations per history
          InternDependent,  \* BOOLEAN, see above
          Routes,           \* routes to the printer observed by every Format: subset of {"ast", "modify"}
          RebuildOrder,     \* "source" | "any", see above
          EmitOn

VARIABLES table,   \* literal -> owner input (the interning table)
          trees,   \* input -> sequence of token objects <<literal, owner>> ( <<>> = not parsed yet )
          outs,    \* set of <<mode, input, route, bytes>> written so far
          hist     \* sequence of operations
vars == <<table, trees, outs, hist>>

Inputs == 1..NInputs
Modes == {"normal", "compact"}
\* input i consists of a private literal, a literal shared with its neighbour and one shared by all
Literals(i) == << <<"own", i>>, <<"pair", (i + 1) \div 2>>, <<"all", 0>> >>

Init == table = <<>> /\ trees = [i \in Inputs |-> <<>>] /\ outs = {} /\ hist = <<>>

Owner(tb, lit, i) == IF \E k \in 1..Len(tb) : tb[k][1] = lit
                     THEN (CHOOSE k \in 1..Len(tb) : tb[k][1] = lit) ELSE 0
RECURSIVE Intern(_, _, _)
Intern(tb, lits, i) ==   \* returns <<table', token objects>>
  IF lits = <<>> THEN <<tb, <<>>>>
  ELSE LET lit == Head(lits)
           k   == Owner(tb, lit, i)
           tb2 == IF k = 0 THEN Append(tb, <<lit, i>>) ELSE tb
           own == IF k = 0 THEN i ELSE tb[k][2]
           rest == Intern(tb2, Tail(lits), i)
       IN <<rest[1], <<(<<lit, own>>)>> \o rest[2]>>

NumFmt == Cardinality({k \in 1..Len(hist) : hist[k].op = "fmt"})

Parse(i) ==
  /\ trees[i] = <<>>
  /\ LET r == Intern(table, Literals(i), i) IN table' = r[1] /\ trees' = [trees EXCEPT ![i] = r[2]]
  /\ hist' = Append(hist, [op |-> "parse", i |-> i, m |-> ""])
  /\ UNCHANGED outs

Bytes(m, tr) == IF InternDependent THEN <<m, tr>> ELSE <<m, [k \in 1..Len(tr) |-> tr[k][1]]>>

\* the trees a pass through ast.Modify that rewrites nothing can return for tr
Perms(n) == {p \in [1..n -> 1..n] : \A a, b \in 1..n : a # b => p[a] # p[b]}
Rebuilds(tr) == IF RebuildOrder = "source" THEN {tr}
                ELSE {[k \in 1..Len(tr) |-> tr[p[k]]] : p \in Perms(Len(tr))}
TreeVia(r, tr, rb) == IF r = "modify" THEN rb ELSE tr

Format(m, i) ==
  /\ trees[i] # <<>> /\ NumFmt < MaxFmt
  /\ \E rb \in Rebuilds(trees[i]) :
       outs' = outs \cup {<<m, i, r, Bytes(m, TreeVia(r, trees[i], rb))>> : r \in Routes}
  /\ hist' = Append(hist, [op |-> "fmt", i |-> i, m |-> m])
  /\ UNCHANGED <<table, trees>>

Complete == \A i \in Inputs : trees[i] # <<>>
Finish ==   \* emits the maximal history once
  /\ Complete /\ NumFmt = MaxFmt /\ (hist = <<>> \/ hist[Len(hist)].op # "end")
  /\ hist' = Append(hist, [op |-> "end", i |-> 0, m |-> ""])
  /\ (EmitOn => EmitLine(ToJson([h |-> hist])))
  /\ UNCHANGED <<table, trees, outs>>

Next == (\E i \in Inputs : Parse(i)) \/ (\E m \in Modes, i \in Inputs : Format(m, i)) \/ Finish

\* the property: the bytes of Fmt(m, input) are a function of (m, input) only, i.e. they are what a
\* fresh process that parses nothing but this input writes - by whichever route the tree went to the printer
\* (a rebuilt tree is the same program)
Fresh(m, i) == Bytes(m, Intern(<<>>, Literals(i), i)[2])
Deterministic == \A o \in outs : o[4] = Fresh(o[1], o[2])
=============================================================================
