------------------------------ MODULE Session ------------------------------
(* C10 - a failed input leaves no trace in the session.

   The per-input protocol of repl.EvalOne on one persistent eval.State, implementation-shaped:
   what survives between inputs besides the globals is
     writer   where print output goes: "session" or a "dead" per-call buffer
     scope    the current environment: "top" or an "inner" function environment
     depth    the recursion depth counter
     regs     registers held in the top-level environment (0..NumRegisters)
   A good input needs writer = "session", scope = "top", depth = 0 and (for a counted loop)
   a free register to produce its normal output.  A failing input leaves by one of the
   failure paths; what each path restores is the subject of the property:
     language error     unwinds normally through every call and loop
     panic              (depth limit, memory guard, runtime panic) recovered at the REPL
                        boundary, which calls Reset (scope, depth)
     deadline           an error produced at the next evaluated node, unwinds normally
   Deviations of the pinned tree are named constants:
     WriterRestored = FALSE   a panic inside a call left the output writer swapped
     LoopReleases   = FALSE   an error/break/return inside a counted loop leaked its register
     DepthBalanced  = FALSE   a break / continue that reaches the end of a function body returns without giving its depth
                              level back (the counter is only reset by a recovered panic)
     ParserFresh    = FALSE   the parser object is reused from input to input and "nesting too deep" is never re-armed
     ErrorsNotCached = FALSE  error results are memoized: a deadline that expired inside a pure recursive function is
                              replayed to later calls whose arguments were on the failing stack
   FailureIsInvisible: between inputs the session is always in the clean state, so a good
   input behaves as if the failing inputs had never been submitted.  With both constants TRUE
   it holds; with either FALSE TLC finds the history (for the register leak: 8 failing
   inputs, then the 9th panics).

   The behaviours are the generator of C10 histories (GEN): each is replayed on the real
   interpreter and compared with the real run of the same history without the failing inputs. *)
EXTENDS Integers, Sequences, TLC, Json, GrolPrims

CONSTANTS NumRegisters, MaxOps, Bursts, WriterRestored, LoopReleases, MacroStateFresh, DepthBalanced, ParserFresh, ErrorsNotCached,
          RefusedCallIsNoOp,   \* TRUE: an extension call refused for an argument has not touched the extension's own state (FALSE: a refused
                               \*       draw has already closed the path)
          EmitOn

\* "loopvar" reads a counted-loop variable after its loop (hidden while registers are available); "deep" recurses to just
\* below the depth limit (fails if a failed input left depth levels behind)
\* "macro" expands and evaluates a macro call (fails if a failed expansion left the macro evaluator dirty)
\* "slowcall" calls a pure recursive function with an argument that was on the stack of a "deadline-in-pure-recursion" failure
\* "imgdraw" adds a segment to the path under construction on the session's image, draws it and prints the image
GoodKinds == {"print", "loop", "call", "define", "incr", "loopvar", "deep", "macro", "slowcall", "imgdraw"}
FailKinds == {"err-nested-calls", "err-in-top-loop", "err-in-nested-loops", "panic-in-function", "depth-overflow", "deadline", "memory-guard",
              "panic-in-top-loop", "memory-guard-top-level", "depth-overflow-expression",
              \* a call written directly at the top level that fails while its arguments are bound (count, constant parameter)
              "arity-error-top-call", "param-bind-error-top-call",
              \* failures while a macro BODY is evaluated during expansion (its own evaluator state)
              "depth-overflow-in-macro-body", "error-in-macro-body", "deadline-in-macro-body",
              \* a panic after output was captured inside a call; inside a function of the grol-written library (its frames hang
              \* off another root environment); inside code run by eval() (a nested evaluation in the same state)
              "print-then-panic-in-function", "depth-overflow-in-library-function", "depth-overflow-in-eval", "panic-in-eval",
              \* inputs the parser refuses (nothing is evaluated): an ordinary syntax error, an unterminated string, nesting beyond the limit
              "parse-error", "parse-error-unterminated", "parse-error-too-deep",
              \* a break / continue that reaches the end of a function body (directly, and through calls made from a loop)
              "break-reaches-function-end", "continue-reaches-function-end-in-loop",
              \* a deadline expiring inside a pure (memoizable) recursive function
              "deadline-in-pure-recursion",
              \* an extension call refused for one of its arguments while a path is under construction on an image
              "failing-draw-mid-path", "failing-segment-mid-path"}

VARIABLES writer, scope, depth, regs, macro, parser, stale, path, clean, hist
vars == <<writer, scope, depth, regs, macro, parser, stale, path, clean, hist>>
view == vars   \* every history is a distinct behaviour to replay (the abstract state alone is tiny)

Init == writer = "session" /\ scope = "top" /\ depth = 0 /\ regs = 0 /\ macro = 0 /\ parser = "fresh" /\ stale = FALSE /\ path = "open" /\ clean = TRUE /\ hist = <<>>

\* macro: depth levels left in the evaluator used for macro bodies (0 when every expansion gets a fresh one)
\* parser: "fresh" or "stuck" (refuses everything after one too-deep input); stale: the memo cache holds an error result
\* path: the path under construction in the image extension's own state is as the good inputs left it ("open") or was closed by a refused call
IsClean == writer = "session" /\ scope = "top" /\ depth = 0 /\ regs = 0 /\ macro = 0 /\ parser = "fresh" /\ ~stale /\ path = "open"

\* a good input shows its normal output iff the session is clean (a counted loop also needs a register)
Good(k) ==
  /\ Len(hist) < MaxOps
  /\ clean' = (clean /\ IsClean)
  /\ UNCHANGED <<writer, scope, depth, regs, macro, parser, stale>>
  /\ path' = IF k = "imgdraw" THEN "open" ELSE path     \* (a draw starts the next path)
  /\ hist' = Append(hist, <<"good", k, 1>>)

RECURSIVE After(_, _, _)
\* state after n failing inputs of kind k: <<writer, regs, macro>> (scope and depth are reset by Reset / normal unwinding)
After(k, n, st) ==
  IF n = 0 THEN st
  ELSE LET w == IF k \in {"panic-in-function", "depth-overflow", "memory-guard", "panic-in-top-loop",
                          "arity-error-top-call", "param-bind-error-top-call", "print-then-panic-in-function",
                          "depth-overflow-in-library-function", "depth-overflow-in-eval", "panic-in-eval"} /\ ~WriterRestored THEN "dead" ELSE st[1]
           m == IF k = "depth-overflow-in-macro-body" /\ ~MacroStateFresh THEN 1 ELSE st[3]
           r == IF k \in {"err-in-top-loop", "err-in-nested-loops", "panic-in-top-loop"} /\ ~LoopReleases
                THEN (IF st[2] + 1 > NumRegisters THEN NumRegisters ELSE st[2] + 1) ELSE st[2]
       IN After(k, n - 1, <<w, r, m>>)

Fail(k, n) ==
  /\ Len(hist) < MaxOps
  /\ LET a == After(k, n, <<writer, regs, macro>>) IN writer' = a[1] /\ regs' = a[2] /\ macro' = a[3]
  /\ depth' = IF k \in {"break-reaches-function-end", "continue-reaches-function-end-in-loop"} /\ ~DepthBalanced THEN depth + n ELSE depth
  /\ parser' = IF k = "parse-error-too-deep" /\ ~ParserFresh THEN "stuck" ELSE parser
  /\ stale' = (stale \/ (k = "deadline-in-pure-recursion" /\ ~ErrorsNotCached))
  /\ path' = IF k = "failing-draw-mid-path" /\ ~RefusedCallIsNoOp THEN "closed" ELSE path
  /\ UNCHANGED <<scope, clean>>
  /\ hist' = Append(hist, <<"fail", k, n>>)

Emit == EmitOn => EmitLine(ToJson([h |-> hist']))

Next ==
  /\ \/ \E k \in GoodKinds : Good(k)
     \/ \E k \in FailKinds, n \in Bursts : Fail(k, n)
  /\ (hist'[Len(hist')][1] = "good" /\ \E i \in 1..Len(hist') : hist'[i][1] = "fail") => Emit

Spec == Init /\ [][Next]_vars

FailureIsInvisible == clean /\ (Len(hist) > 0 => IsClean)
=============================================================================
