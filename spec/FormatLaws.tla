----------------------------- MODULE FormatLaws -----------------------------
(* C02 - formatting preserves the program; C03 - formatting is a canonical, deterministic
   fixpoint.  The laws, stated over OBSERVATIONS of the implementation.

   The implementation offers two partial functions on source texts (byte strings):
     T(s)       the tree parser.ParseProgram builds for s (defined when the parser accepts s)
     Fmt(m, s)  the bytes the formatter writes for s in mode m \in {"normal", "compact"}
                (ast.PrettyPrint of T(s) / repl.EvalOne with FormatOnly; defined when T(s) is)

   A "document" is a pair [text, tree]; formatting is the action
       Format(m) == doc' = [text |-> Fmt(m, doc.text), tree |-> T(Fmt(m, doc.text))]
   and the properties are action properties of every Format step:
       C02  doc'.tree is defined and  doc'.tree = (IF m = "compact" THEN StripComments(doc.tree) ELSE doc.tree)
       C03  a second Format(m) step stutters:  Fmt(m, doc'.text) = doc'.text   (byte for byte)
       C03  m = "normal" => doc'.text ends with exactly one newline
   Since T and Fmt live in the Go code, one run  src -Format(m)-> f -Format(m)-> ff  is recorded
   for each mode and judged here (Format_Trace.tla); nothing about the LAYOUT of f is stated.

   A record r (one source text, one way of invoking the formatter):
     d0            canonical structural dump of T(src)          (string; equal dumps <=> equal trees).
                   Not part of a dump, because not structure: the function cache key (an output of the
                   compact printer itself) and the same-line flags of comments (layout of the text the
                   tree was read from; a mishandled flag shows in the byte-for-byte law of C03)
     cm            T(src) contains a comment in a statement list
     t0, tC        the trees T(src), T(fC) as TLA+ values       (only when cm; else absent)
     pan           the formatter panicked on an accepted program
     fN, okN, dN   Fmt(normal, src); the parser accepts it; dump of T(fN)
     fNN, okNN     Fmt(normal, fN) (defined when okN)
     fC, okC, dC, fCC, okCC   the same for compact mode
   Routes (round 4).  The property quantifies over programs, and a program reaches the printer by more than one
   route; each route is its own pair (T_r, Fmt_r) and every route is judged by the SAME laws:
     ast     T = parser.ParseProgram over the whole-file lexer, Fmt = ast.PrettyPrint of that tree
     repl    Fmt = repl.EvalOne with FormatOnly (grol -format [-compact])
     line    T = parser.ParseProgram over the REPL's line-mode lexer (lexer.NewLineMode)
     modify  Fmt(m, s) = ast.PrettyPrint of R(T(s)), R = a pass through ast.Modify that rewrites nothing
             (eval.State.ExpandMacros in a session that has a macro the program does not call): the tree every input of
             such a session, every text loaded by eval.EvalString and every quote() holds.  R(t) is the same program
             as t, so  T(Fmt(m, s)) = T(s)  is demanded of it as of any other route; the output f is an ordinary text,
             its second pass is the plain formatter's.
   For function values (record ty = "fn") the routes are inspect / save (the literal evaluated as parsed) and
   inspect-rebuilt / save-rebuilt (evaluated in a session with an unrelated macro, i.e. R applied first).
   The laws never mention the route: a record is the same kind of object whichever route produced it.

   Empty program: T = <<>>, the code writes "\n" in normal mode and "" in compact mode; "\n" ends
   with exactly one newline, so the empty program is an ordinary case of the newline law.        *)
EXTENDS Integers, Sequences, TLC, GrolPrims

\* ------------------------------------------------------------------ comments are dropped by compact mode
\* Compact mode omits, by design, the comments that stand in statement position (elements of the
\* statement lists of the program, of blocks and of function bodies).  Everything else is kept.
IsCmt(t) == t.k = "cmt"
RECURSIVE Strip(_)
StripList(s) == LET f == SelectSeq(s, LAMBDA x : ~IsCmt(x)) IN [i \in 1..Len(f) |-> Strip(f[i])]
StripEach(s) == [i \in 1..Len(s) |-> Strip(s[i])]
Strip(t) ==
  CASE t.k = "pre"             -> [t EXCEPT !.r = Strip(t.r)]
    [] t.k = "ret"             -> [t EXCEPT !.e = Strip(t.e)]
    [] t.k \in {"inf", "asg"}  -> [t EXCEPT !.l = Strip(t.l), !.r = Strip(t.r)]
    [] t.k \in {"idx", "dotbad"} -> [t EXCEPT !.l = Strip(t.l), !.i = Strip(t.i)]
    [] t.k = "dot"             -> [t EXCEPT !.l = Strip(t.l)]
    [] t.k = "call"            -> [t EXCEPT !.f = Strip(t.f), !.a = StripEach(t.a)]
    [] t.k = "bi"              -> [t EXCEPT !.a = StripEach(t.a)]
    [] t.k = "arr"             -> [t EXCEPT !.e = StripEach(t.e)]
    [] t.k = "map"             -> [t EXCEPT !.p = [i \in 1..Len(t.p) |-> <<Strip(t.p[i][1]), Strip(t.p[i][2])>>]]
    [] t.k = "if"              -> [t EXCEPT !.c = Strip(t.c), !.t = StripList(t.t), !.e = StripList(t.e)]
    [] t.k = "for"             -> [t EXCEPT !.c = Strip(t.c), !.body = StripList(t.body)]
    [] t.k \in {"fn", "mac"}   -> [t EXCEPT !.body = StripList(t.body)]
    [] t.k = "block"           -> [t EXCEPT !.s = StripList(t.s)]
    [] OTHER                   -> t     \* leaves: id int float bool str cmt (in expression position) brk cnt none
StripComments(prog) == StripList(prog)

\* ------------------------------------------------------------------ the laws, per record
EndsWithOneNewline(s) ==
  LET n == StrLen(s) IN n >= 1 /\ StrByteAt(s, n) = 10 /\ (n >= 2 => StrByteAt(s, n - 1) # 10)

\* C02: the formatter's output is accepted by the parser again ...
ReparseN(r) == ~r.pan /\ r.okN
ReparseC(r) == ~r.pan /\ r.okC
\* ... and parses to a structurally identical program (compact: identical once comments are dropped)
TreeN(r) == ReparseN(r) /\ r.dN = r.d0
TreeC(r) == ReparseC(r) /\ (IF r.cm THEN r.tC = StripComments(r.t0) ELSE r.dC = r.d0)
\* C03: formatting already-formatted text returns it byte for byte
IdemN(r) == ReparseN(r) /\ r.okNN /\ r.fNN = r.fN
IdemC(r) == ReparseC(r) /\ r.okCC /\ r.fCC = r.fC
\* C03: normal-mode output ends with exactly one newline
NewlineN(r) == ~r.pan => EndsWithOneNewline(r.fN)

Laws(r) == [id |-> r.id, reparseN |-> ReparseN(r), treeN |-> TreeN(r), idemN |-> IdemN(r), nlN |-> NewlineN(r),
            reparseC |-> ReparseC(r), treeC |-> TreeC(r), idemC |-> IdemC(r)]

\* C02, function values: the text object.Function.Inspect() returns (and the line SaveGlobals writes) for an
\* evaluated function literal is accepted by the parser and is that function again: record
\* [d0 = dump of the literal, ok = the text parsed back to one function bound the same way, dI = its dump].
\* Both dumps are normalised the way the evaluator normalises by design: an anonymous func(..){..} is a lambda.
FnLaw(r) == r.ok /\ r.dI = r.d0
\* C03, function values: that text is a fixpoint - the function read back from it is printed as the same bytes
\* (t = the text, t2 = the text printed for the function obtained by evaluating t, ok2 = that could be done)
FnIdem(r) == r.ok /\ r.ok2 /\ r.t2 = r.t

\* C03: the bytes are a function of the input only - every observation of Fmt(m, input), whatever was
\* parsed before in that process and in whichever process, is the same byte string.
SameBytes(outs) == \A i \in 1..Len(outs) : outs[i] = outs[1]
=============================================================================
