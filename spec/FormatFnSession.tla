----------------------------- MODULE FormatFnSession -----------------------------
(* C02, function values in a SESSION: "a formatted, compacted, saved or history-recalled program does exactly what
   the original did" - observed at object.Function.Inspect and at the lines SaveGlobals writes.

   The families of GrolSyntax.tla print ONE function value per interpreter.  A session holds several, and what the
   function-value printer writes for one of them must not depend on which others exist or were printed before: the
   text written for the function bound to a name is the definition of THAT function (its own name, its parameters,
   its body), whatever other function shares its parameters and body text, its name, or its body.

   State: env = what every name is bound to (a function value = [name, sig, body]; name "" = a lambda; a named
   function can also be held under another name: k = g).  The printer is a function of the value alone (Memo =
   "none", the design the property demands).  The deviations keep, process wide, the text printed first under a key
   that identifies LESS than the whole value, and answer from it:
       Memo = "text"   key = (lambda?, parameters, body)  - everything the function's cache key identifies: not the name
       Memo = "name"   key = the function's own name      - not parameters and body (a redefinition, another state)
   TLC refutes both on every run (Faithful violated).  memo survives NewState (process wide) and Save/Load.

   Save + load is itself observed: every name must be bound, in the interpreter that loaded the saved text, to what it was
   bound to when the text was written.  A named function held under another name is written  k = func g(..){..} ; the
   third deviation is about LOADING that line:
       AliasLine = "binds"     it binds k (the design the property demands: save + load is the identity on env)
       AliasLine = "defines"   it binds g as well - what evaluating a named function literal does wherever it stands.
                               Then a session in which g is bound to something else by now (func g ; k = g ; g = ..)
                               comes back with g bound to the function k holds whenever k's line is loaded after g's
                               (sorted order), and TLC finds exactly that history (three definitions are needed).

   Operations: DefNamed (func n(sig) {body}), DefLam (n = (sig) => body), Alias (n = t), Inspect (Function.Inspect of the value
   of n), Save (SaveGlobals: one line per bound name, in sorted order; the session then goes on in a NEW interpreter
   that loaded the saved text - with a faithful printer that is the same env), NewState (another interpreter in the
   same process).  hist is part of the state, so TLC explores every order of MaxDefs definitions and MaxObs
   observations, and emits every maximal history with what each Inspect / Save must show (GEN): the harness replays
   it on the real interpreter and hands, per observation, [the function the model says is bound, the text the real
   code wrote, what the real parser reads back from it] to Format_Trace.tla, where FormatLaws!FnLaw decides.      *)
EXTENDS Integers, Sequences, FiniteSets, TLC, Json, GrolPrims

CONSTANTS NNames,    \* the first NNames of AllNames are used
          NSigs,     \* parameter lists 1..NSigs
          NBodies,   \* bodies 1..NBodies
          MaxDefs,   \* definitions per history
          MaxObs,    \* observations (Inspect / Save) per history
          MaxNew,    \* NewState operations per history
          Memo,      \* "none" | "text" | "name", see above
          AliasLine, \* "binds" | "defines", see above
          EmitOn

VARIABLES env,    \* name -> function value, or NoFn
          memo,   \* set of <<key, function value>>: what the deviating printer remembers (process wide)
          obs,    \* set of <<name, function value printed (or bound after a load), function value bound>>
          hist
vars == <<env, memo, obs, hist>>

\* the names, in the order SaveGlobals writes them (sorted)
AllNames == <<"g", "h", "k", "q">>
Names == SubSeq(AllNames, 1, NNames)
NameSet == {Names[i] : i \in 1..Len(Names)}
NoFn == [name |-> "", sig |-> 0, body |-> 0]
FnVal(n, s, b) == [name |-> n, sig |-> s, body |-> b]

Init == env = [n \in NameSet |-> NoFn] /\ memo = {} /\ obs = {} /\ hist = <<>>

Count(ops) == Cardinality({k \in 1..Len(hist) : hist[k].op \in ops})
NumDefs == Count({"named", "lam", "alias"})
NumObs  == Count({"print", "save"})
NumNew  == Count({"new"})
Bound(e) == {n \in NameSet : e[n] # NoFn}
Op(op, n, s, b, t, exp) == [op |-> op, n |-> n, s |-> s, b |-> b, t |-> t, exp |-> exp]
Exp(n, f) == [n |-> n, f |-> f]

\* ------------------------------------------------------------------ the printer
Key(f) == IF Memo = "text" THEN <<f.name = "", f.sig, f.body>> ELSE <<f.name>>
\* <<what is written for f, memo afterwards>>
Print1(mm, f) ==
  IF Memo = "none" THEN <<f, mm>>
  ELSE IF \E e \in mm : e[1] = Key(f) THEN <<(CHOOSE e \in mm : e[1] = Key(f))[2], mm>>
  ELSE <<f, mm \cup {<<Key(f), f>>}>>

\* SaveGlobals: the bound names in sorted order; <<lines, memo afterwards>>, a line = <<name, function value written>>
RECURSIVE SaveFrom(_, _)
SaveFrom(i, mm) ==
  IF i > Len(Names) THEN <<<<>>, mm>>
  ELSE IF env[Names[i]] = NoFn THEN SaveFrom(i + 1, mm)
  ELSE LET p == Print1(mm, env[Names[i]])
           rest == SaveFrom(i + 1, p[2])
       IN <<(<< <<Names[i], p[1]>> >>) \o rest[1], rest[2]>>
\* loading the saved text: a named function held under its own name was written as its definition (func f(..){..}: it
\* binds the name the TEXT carries), everything else as  name = <text>
RECURSIVE LoadLines(_, _)
LoadLines(lines, e) ==
  IF lines = <<>> THEN e
  ELSE LET n == Head(lines)[1]
           pf == Head(lines)[2]
           target == IF env[n].name = n /\ pf.name \in NameSet THEN pf.name ELSE n
           e1 == [e EXCEPT ![target] = pf]
           e2 == IF AliasLine = "defines" /\ target = n /\ pf.name \in NameSet \ {n} THEN [e1 EXCEPT ![pf.name] = pf] ELSE e1
       IN LoadLines(Tail(lines), e2)

\* ------------------------------------------------------------------ operations
CanDef == NumDefs < MaxDefs
\* the first definition is (first name, parameter list 1, body 1): names, parameter lists and bodies are interchangeable
First(n, s, b) == hist = <<>> => (n = Names[1] /\ s = 1 /\ b = 1)

DefNamed(n, s, b) ==
  /\ CanDef /\ First(n, s, b)
  /\ env' = [env EXCEPT ![n] = FnVal(n, s, b)]
  /\ hist' = Append(hist, Op("named", n, s, b, "", <<>>))
  /\ UNCHANGED <<memo, obs>>

DefLam(n, s, b) ==
  /\ CanDef /\ First(n, s, b)
  /\ env' = [env EXCEPT ![n] = FnVal("", s, b)]
  /\ hist' = Append(hist, Op("lam", n, s, b, "", <<>>))
  /\ UNCHANGED <<memo, obs>>

Alias(n, t) ==
  /\ CanDef /\ n # t /\ env[t] # NoFn /\ env[n] # env[t]
  /\ env' = [env EXCEPT ![n] = env[t]]
  /\ hist' = Append(hist, Op("alias", n, 0, 0, t, <<>>))
  /\ UNCHANGED <<memo, obs>>

Inspect(n) ==
  /\ NumObs < MaxObs /\ env[n] # NoFn
  /\ LET p == Print1(memo, env[n]) IN
       /\ memo' = p[2]
       /\ obs' = obs \cup {<<n, p[1], env[n]>>}
  /\ hist' = Append(hist, Op("print", n, 0, 0, "", <<Exp(n, env[n])>>))
  /\ UNCHANGED env

Save ==
  /\ NumObs < MaxObs /\ Bound(env) # {}
  /\ LET sv == SaveFrom(1, memo)
         loaded == LoadLines(sv[1], [n \in NameSet |-> NoFn]) IN
       /\ memo' = sv[2]
       /\ obs' = obs \cup {<<sv[1][k][1], sv[1][k][2], env[sv[1][k][1]]>> : k \in 1..Len(sv[1])}
                     \cup {<<n, loaded[n], env[n]>> : n \in NameSet}
       /\ env' = loaded
       /\ hist' = Append(hist, Op("save", "", 0, 0, "", [k \in 1..Len(sv[1]) |-> Exp(sv[1][k][1], env[sv[1][k][1]])]))

\* another interpreter of the same process: only before a definition, with something left behind
NewState ==
  /\ NumNew < MaxNew /\ CanDef /\ Bound(env) # {}
  /\ env' = [n \in NameSet |-> NoFn]
  /\ hist' = Append(hist, Op("new", "", 0, 0, "", <<>>))
  /\ UNCHANGED <<memo, obs>>

Ended == hist # <<>> /\ hist[Len(hist)].op = "end"
Finish ==   \* emits the maximal history once
  /\ ~Ended /\ NumDefs = MaxDefs /\ NumObs = MaxObs
  /\ hist' = Append(hist, Op("end", "", 0, 0, "", <<>>))
  /\ (EmitOn => EmitLine(ToJson([h |-> hist])))
  /\ UNCHANGED <<env, memo, obs>>

Next ==
  /\ ~Ended
  /\ \/ \E n \in NameSet, s \in 1..NSigs, b \in 1..NBodies : DefNamed(n, s, b) \/ DefLam(n, s, b)
     \/ \E n \in NameSet, t \in NameSet : Alias(n, t)
     \/ \E n \in NameSet : Inspect(n)
     \/ Save
     \/ NewState
     \/ Finish

\* the property: what is written for the function bound to a name is that function, and what a name is bound to after
\* save + load is what it was bound to
Faithful == \A o \in obs : o[2] = o[3]
=============================================================================
