----------------------------- MODULE GrolPrims -----------------------------
(* Scalar machine primitives of the grol reference semantics.

   TLC integers are 32-bit and TLA+ has no floating point, so 64-bit
   two's-complement arithmetic, IEEE-754 binary64 arithmetic and Go's number
   and string formatting cannot be *evaluated* by TLC from TLA+ definitions.
   This module states what each operator means; the Java class
   tlc2.module.GrolPrims (spec/overrides) is the TLC module override that
   evaluates it - the same relationship Integers has with TLC's Java code.

   Representations
     int64   : decimal string, e.g. "-9223372036854775808"
     float64 : 16 lower-case hex digits of the IEEE-754 bit pattern
     string  : a TLA+ string whose characters are the bytes (code = byte value)

   The right-hand sides below are placeholders that are never evaluated
   (TLC replaces them by the override); they only fix arity.               *)
EXTENDS Integers, Sequences

EmitLine(line)   == TRUE   \* append `line` to the file named by -Dverif.emit; TRUE
EmitFlush        == TRUE

\* two's-complement wrap of the exact result
I64Add(a, b) == a      I64Sub(a, b) == a      I64Mul(a, b) == a
I64Div(a, b) == a      \* truncated quotient, b # 0; MinInt64 / -1 wraps
I64Mod(a, b) == a      \* remainder with the sign of a, b # 0
I64Shl(a, b) == a      \* b >= 0; 0 when b >= 64
I64Shr(a, b) == a      \* logical shift of the 64-bit pattern, b >= 0
I64And(a, b) == a      I64Or(a, b) == a       I64Xor(a, b) == a
I64Neg(a)    == a      I64Not(a)   == a
I64Cmp(a, b) == 0      \* -1, 0, 1
I64Fits(a)   == TRUE   \* |a| <= 10^9: can be used as a TLC integer
I64ToInt(a)  == 0
IntToI64(n)  == ""

\* IEEE binary64, round to nearest even
F64Add(a, b) == a      F64Sub(a, b) == a      F64Mul(a, b) == a
F64Div(a, b) == a      F64Mod(a, b) == a      \* fmod
F64Neg(a)    == a
F64FromI64(i) == i     \* nearest float
F64Cmp(a, b) == 0      \* Go cmp.Compare: NaN lowest and equal to itself, -0 = +0
NumCmpExact(i, f) == 0 \* exact mathematical comparison of int64 i with float f (NaN lowest)
F64IsNaN(a)  == FALSE
F64Fmt(a)    == a      \* Go strconv.FormatFloat(f, 'f', -1, 64)

\* byte strings
StrByteAt(s, i)   == 0     \* 1-based byte value
StrSub(s, i, j)   == s     \* bytes i..j, 1-based inclusive
StrLen(s)         == 0
StrCat(a, b)      == a
StrRepeat(s, n)   == s
StrCmp(a, b)      == 0     \* bytewise -1, 0, 1
StrOfByte(b)      == ""
StrFirstRune(s)   == s     \* Go string([]rune(s)[:1])
StrRestRunes(s)   == s     \* Go string([]rune(s)[1:])
StrQuote(s)       == s     \* Go strconv.Quote
StrChars(s)       == <<>>  \* tuple of one-byte strings
StrBytes(s)       == <<>>  \* tuple of byte values
\* ---- C14 block (SaveLoad.tla) - begin
I64ParseOk(s)        == TRUE   \* Go strconv.ParseInt(s, 0, 64) succeeds (s: unsigned digits; leading 0 = octal)
I64Parse(s)          == s      \* its value as canonical decimal string ("" when it fails)
F64Parse(s)          == s      \* Go strconv.ParseFloat(s, 64) of digits with an optional '.', as bits; "" when it fails
StrIndexAny(s, i, c) == 0      \* smallest j >= i with s[j] among the chars of c, StrLen(s)+1 when none
StrFromBytes(seq)    == ""     \* the byte string with these byte values
StrRLE(s)            == <<>>   \* run-length form: the tuple of <<byte, count>> runs of s
\* ---- C14 block - end
\* ---- GrolLib block (extension functions of the reference semantics) - begin
F64Floor(a) == a      F64Ceil(a) == a      F64Trunc(a) == a      F64Sqrt(a) == a
F64TruncToI64(a) == a   \* safecast.Truncate[int64]: decimal string, "" when NaN / out of range
F64RoundToI64(a) == a   \* safecast.Round[int64] (half away from zero), "" when NaN / out of range
I64ParseBase0(s) == s   \* strconv.ParseInt(s, 0, 64) (no underscores), "" when it fails
StrRunes(s)      == <<>>  \* the runes of s as UTF-8 strings (invalid bytes -> U+FFFD)
StrRuneValues(s) == <<>>  \* the runes of s as code points
StrSplit(s, sep) == <<>>  \* Go strings.Split
StrTrim(s, cutset, mode) == s  \* Go strings.Trim (0) / TrimLeft (1) / TrimRight (2)
\* ---- GrolLib block - end
=============================================================================
