-------------------------------- MODULE Memo --------------------------------
(* C04 - automatic memoization is unobservable: the function-result cache of eval/memo.go and
   eval.applyFunction, implementation-shaped, over a small universe of REPL operations.

   The cache maps (function TEXT, arguments) to (result, printed output).  A call's result is
   stored unless the call recorded a "miss" (a read or write through a reference to an outer
   variable, info, del, a DontCache extension) or returned an error.  The code exempts two
   kinds of outer references from being misses: all-upper-case names (constants) and
   function-valued variables.  Whether those exemptions are sound depends on the rest of the
   system - that is what this model explores:

     ExemptOnlyTopLevel    TRUE: the exemption applies only to bindings of the top-level
                           environment; a captured constant / function of an enclosing call is a
                           miss.  FALSE (pinned tree): any depth - two closures with the same text
                           but different captured constants or functions share one cache entry.
     ResetOnRedefinition   TRUE: redefining or deleting a top-level function or constant drops
                           the cache.  FALSE (pinned tree): a cached result computed with the
                           old callee / old constant is served after the redefinition.

   Property ObsCorrect: what every call shows (value and printed output) is what evaluating it
   without any cache shows.  With both constants TRUE it holds; with either FALSE TLC finds the
   stale hit.  The behaviours explored are also the generator of C04 histories (GEN): each is
   instantiated as a REPL session and run on the real interpreter with the cache on and off. *)
EXTENDS Integers, Sequences, FiniteSets, TLC, Json, GrolPrims

CONSTANTS MaxOps, ExemptOnlyTopLevel, ResetOnRedefinition,
          MissPropagates,    \* TRUE: a caller of an uncacheable function is uncacheable too (FALSE on the pinned tree:
                             \*       'g=func(){x}; f=func(){g()}' cached f)
          ZeroSignDistinct,  \* TRUE: a -0.0 argument is never used as a cache key (FALSE: f(0.0) and f(-0.0) shared an entry)
          ImpureErrorIsMiss, \* TRUE: a DontCache extension marks its callers uncacheable whether it succeeds or fails
                             \*       (FALSE, a seeded change: the mark is skipped when the extension returns an error)
          FuncArgsUnhashable,\* TRUE: a call with a function-valued argument is never stored (FALSE, a seeded change: functions
                             \*       are keyed by their text, so closures of one factory with different captures share an entry)
          AbsentNameIsMiss,  \* TRUE: a call that looked a name up and found it nowhere is not stored (FALSE, pinned tree:
                             \*       'f=func(){catch(y).err}' stays "true" after y is defined)
          NewNameDropsCache, \* TRUE: defining a name that a stored call made a local of its own (no enclosing scope had it)
                             \*       drops the cache (FALSE, pinned tree: 'f=func(){y=5;y}' no longer assigns the global y)
          FunctionResultsNotStored, \* TRUE: a result that holds a function is never stored (FALSE, pinned tree: mk(0) twice
                             \*       handed out one closure and its captured variable)
          KeyKeepsGrouping,  \* TRUE: the key is a text that identifies the body (FALSE, pinned tree: the compact print,
                             \*       in which a+(b+c) and a+b+c are the same text)
          WorldExtensionsMarked, \* TRUE: every extension depending on the world is DontCache (FALSE, pinned tree: save, load,
                             \*       sleep and the vector image functions were not)
          GenKinds,          \* the call kinds used when behaviours are emitted for replay (GEN); all of Kinds when model checking
          EmitOn

\* "wraplower" calls f_lower (which reads the global g); "inv" is x => 1/x called with 0.0 (a = 1) or -0.0 (a = 2)
\* "catchlower" calls a function that reads g and FAILS when g = 0, and absorbs the error with catch()
\* "catchgate" calls the impure extension vgate(), which FAILS on every odd call of the run, and absorbs the error with catch()
\* "absentread" asks whether the global y exists (catch(y).err); "absentwrite" assigns y = 5 (a local of its own while no y exists,
\* the global afterwards); "groupl" / "groupr" are a + (1 + 2) and a + 1 + 2 applied to an array (append [3] / append 1 then 2);
\* "world" wraps an extension whose effect depends on the world (counted by ticks, like "impure") but is not known to be impure
Kinds == {"pure", "lower", "upper", "callee", "print", "error", "impure", "wraplower", "inv", "catchlower", "catchgate",
          "absentread", "absentwrite", "groupl", "groupr", "world"}
Caps  == {"lower", "upper", "func"}
Args  == {1, 2}

VARIABLES g,      \* lower-case global read by f_lower
          cst,    \* value of the global constant G read by f_upper
          hver,   \* version of the global function h called by f_callee (h(x) = x + hver)
          ticks,  \* state of the impure extension (vcount): number of calls so far
          cache,  \* set of [fn, arg, val, out]
          ydef,   \* the global y exists
          yval,   \* its value in the implementation (a hit skips the assignment of "absentwrite")
          tyval,  \* its value without any cache
          insts,  \* number of closures created by mk so far (each with its own captured counter)
          assumed,\* some call made y a local of its own because no enclosing scope had it (what DefineY looks at)
          good,   \* every observation so far equalled the cache-free truth
          hist
vars == <<g, cst, hver, ticks, cache, ydef, yval, tyval, insts, assumed, good, hist>>
view == <<g, cst, hver, ticks, cache, ydef, yval, tyval, insts, assumed, good, Len(hist)>>

Init == g = 0 /\ cst = 10 /\ hver = 1 /\ ticks = 0 /\ cache = {} /\ ydef = FALSE /\ yval = 0 /\ tyval = 0 /\ insts = 0 /\ assumed = FALSE /\ good = TRUE /\ hist = <<>>

\* cache-free truth of f_kind(a): <<value, prints?>>; "err" for the failing function
Truth(kind, a) ==
  CASE kind = "pure"   -> <<a * 2, FALSE>>
    [] kind = "lower"  -> <<a + g, FALSE>>
    [] kind = "upper"  -> <<a + cst, FALSE>>
    [] kind = "callee" -> <<a + hver, FALSE>>
    [] kind = "print"  -> <<a, TRUE>>
    [] kind = "error"  -> <<-1, FALSE>>
    [] kind = "impure" -> <<a + ticks + 1, FALSE>>
    [] kind = "wraplower" -> <<a + g, FALSE>>
    [] kind = "catchlower" -> <<IF g = 0 THEN -1 ELSE a + g, FALSE>>
    [] kind = "catchgate" -> <<IF (ticks + 1) % 2 = 1 THEN -1 ELSE ticks + 1, FALSE>>
    [] kind = "inv"    -> <<IF a = 1 THEN 1000 ELSE -1000, FALSE>>   \* +Inf / -Inf
    [] kind = "absentread"  -> <<IF ydef THEN 0 ELSE 1, FALSE>>
    [] kind = "absentwrite" -> <<5 + a, FALSE>>
    [] kind = "groupl" -> <<100 + a, FALSE>>      \* [a, 3]
    [] kind = "groupr" -> <<200 + a, FALSE>>      \* [a, 1, 2]
    [] kind = "world"  -> <<a + ticks + 1, FALSE>>

\* does the implementation store the result of this call?
Stored(kind) ==
  CASE kind \in {"pure", "print"} -> TRUE
    [] kind = "lower"  -> FALSE          \* reference to a non-constant outer variable: a miss
    [] kind = "upper"  -> TRUE           \* constants are exempt (top level)
    [] kind = "callee" -> TRUE           \* function-valued outer variables are exempt (top level)
    [] kind = "error"  -> FALSE          \* errors are never stored
    [] kind = "impure" -> FALSE          \* DontCache extension
    [] kind \in {"wraplower", "catchlower"} -> ~MissPropagates   \* also when the callee ended in an error
    [] kind = "catchgate" -> ~ImpureErrorIsMiss /\ (ticks + 1) % 2 = 1   \* stored only by the deviation, when vgate failed
    [] kind = "inv"    -> TRUE
    [] kind = "absentread"  -> ~ydef /\ ~AbsentNameIsMiss    \* (once y exists it is a reference to a lower-case global: a miss)
    [] kind = "absentwrite" -> ~ydef                          \* a local while no y exists; a write through a reference afterwards
    [] kind \in {"groupl", "groupr"} -> TRUE
    [] kind = "world"  -> ~WorldExtensionsMarked

\* the key under which a function is stored: its text
KeyOf(kind) == IF kind \in {"groupl", "groupr"} /\ ~KeyKeepsGrouping THEN "group" ELSE kind

\* 0.0 and -0.0 are equal as cache keys (Go map key equality)
SameKey(fn, a, b) == a = b \/ (fn = "inv" /\ ~ZeroSignDistinct)
Lookup(fn, a) == IF fn = "inv" /\ a = 2 /\ ZeroSignDistinct THEN {}
                 ELSE {e \in cache : e.fn = KeyOf(fn) /\ SameKey(fn, e.arg, a)}

Log(op) == hist' = Append(hist, op)

CallF(kind, a) ==
  /\ Len(hist) < MaxOps
  /\ LET hit == Lookup(kind, a)
         t   == Truth(kind, a)
         obs == IF hit # {} THEN LET e == CHOOSE e \in hit : TRUE IN <<e.val, e.out>> ELSE t
     IN /\ good' = (good /\ obs = t)
        /\ cache' = IF hit = {} /\ Stored(kind) /\ ~(kind = "inv" /\ a = 2 /\ ZeroSignDistinct)
                    THEN cache \cup {[fn |-> KeyOf(kind), arg |-> a, val |-> t[1], out |-> t[2]]} ELSE cache
  /\ ticks' = IF kind = "impure" \/ (kind \in {"catchgate", "world"} /\ Lookup(kind, a) = {}) THEN ticks + 1 ELSE ticks   \* a hit does not run the extension
  \* "absentwrite" really run while y exists assigns the global
  /\ tyval' = IF kind = "absentwrite" /\ ydef THEN 5 ELSE tyval
  /\ yval' = IF kind = "absentwrite" /\ ydef /\ Lookup(kind, a) = {} THEN 5 ELSE yval
  /\ assumed' = (assumed \/ (kind = "absentwrite" /\ ~ydef /\ Lookup(kind, a) = {}))
  /\ UNCHANGED <<g, cst, hver, ydef, insts>>
  /\ Log([op |-> "call", kind |-> kind, a |-> a])

(* mk_cap(v) builds a closure y => y + <captured v>; all closures of one cap have the same TEXT.
   The captured variable is a parameter of the enclosing call (not top level): lower-case ->
   a miss; upper-case / function-valued -> exempt unless ExemptOnlyTopLevel.                    *)
CallClosure(cap, v, a) ==
  /\ Len(hist) < MaxOps
  /\ LET fn  == "closure-" \o cap
         hit == Lookup(fn, a)
         t   == <<a + v, FALSE>>
         st  == cap # "lower" /\ ~ExemptOnlyTopLevel
         obs == IF hit # {} THEN LET e == CHOOSE e \in hit : TRUE IN <<e.val, e.out>> ELSE t
     IN /\ good' = (good /\ obs = t)
        /\ cache' = IF hit = {} /\ st THEN cache \cup {[fn |-> fn, arg |-> a, val |-> t[1], out |-> t[2]]} ELSE cache
  /\ UNCHANGED <<g, cst, hver, ticks, ydef, yval, tyval, insts, assumed>>
  /\ Log([op |-> "closure", cap |-> cap, v |-> v, a |-> a])

(* box(mk(v))[0](0): a function that only STORES its function-valued argument; the stored closure is called afterwards.
   Function values are not hashable, so the call is never stored - unless they are keyed by their text. *)
CallBox(v) ==
  /\ Len(hist) < MaxOps
  /\ LET hit == IF FuncArgsUnhashable THEN {} ELSE {e \in cache : e.fn = "box"}
         t   == <<v, FALSE>>
         obs == IF hit # {} THEN LET e == CHOOSE e \in hit : TRUE IN <<e.val, e.out>> ELSE t
     IN /\ good' = (good /\ obs = t)
        /\ cache' = IF hit = {} /\ ~FuncArgsUnhashable THEN cache \cup {[fn |-> "box", arg |-> 0, val |-> v, out |-> FALSE]} ELSE cache
  /\ UNCHANGED <<g, cst, hver, ticks, ydef, yval, tyval, insts, assumed>>
  /\ Log([op |-> "box", v |-> v])

(* a = mk(n): mk returns a closure over a counter of its own call. Without a cache every call creates a new closure; a hit
   hands out the closure of the stored call (observable as soon as one of the two is advanced). *)
CallMk(n) ==
  /\ Len(hist) < MaxOps
  /\ LET hit == {e \in cache : e.fn = "mk" /\ e.arg = n}
     IN /\ good' = (good /\ hit = {})
        /\ insts' = IF hit = {} THEN insts + 1 ELSE insts
        /\ cache' = IF hit = {} /\ ~FunctionResultsNotStored THEN cache \cup {[fn |-> "mk", arg |-> n, val |-> insts + 1, out |-> FALSE]} ELSE cache
  /\ UNCHANGED <<g, cst, hver, ticks, ydef, yval, tyval, assumed>>
  /\ Log([op |-> "mk", n |-> n])

\* y = 1 at top level: the name exists from now on
DefineY ==
  /\ Len(hist) < MaxOps /\ ~ydef
  /\ ydef' = TRUE /\ yval' = 1 /\ tyval' = 1
  /\ cache' = IF NewNameDropsCache /\ assumed THEN {} ELSE cache     \* (only names some call relied on the absence of)
  /\ assumed' = FALSE
  /\ UNCHANGED <<g, cst, hver, ticks, insts, good>>
  /\ Log([op |-> "definey"])

\* println(y)
ReadY ==
  /\ Len(hist) < MaxOps /\ ydef
  /\ good' = (good /\ yval = tyval)
  /\ UNCHANGED <<g, cst, hver, ticks, cache, ydef, yval, tyval, insts, assumed>>
  /\ Log([op |-> "ready"])

Dropped == IF ResetOnRedefinition THEN {} ELSE cache

Rest == <<ydef, yval, tyval, insts, assumed>>
MutateG   == Len(hist) < MaxOps /\ g' = 1 - g /\ UNCHANGED <<cst, hver, ticks, cache, good, Rest>> /\ Log([op |-> "mutate"])
RedefH    == Len(hist) < MaxOps /\ hver' = 3 - hver /\ cache' = Dropped /\ UNCHANGED <<g, cst, ticks, good, Rest>> /\ Log([op |-> "redefh"])
\* the same redefinition made from inside a function that never read h before (first write through a new reference)
RedefHInside == Len(hist) < MaxOps /\ hver' = 3 - hver /\ cache' = Dropped /\ UNCHANGED <<g, cst, ticks, good, Rest>> /\ Log([op |-> "redefhinside"])
RedefConst == Len(hist) < MaxOps /\ cst' = 30 - cst /\ cache' = Dropped /\ UNCHANGED <<g, hver, ticks, good, Rest>> /\ Log([op |-> "redefconst"])

Emit == EmitOn => EmitLine(ToJson([h |-> hist']))

Next ==
  /\ \/ \E k \in (IF EmitOn THEN GenKinds ELSE Kinds), a \in Args : CallF(k, a)
     \/ \E n \in {0} : CallMk(n)
     \/ DefineY \/ ReadY
     \/ \E c \in Caps, v \in {1, 2}, a \in {1} : CallClosure(c, v, a)
     \/ \E v \in {1, 2} : CallBox(v)
     \/ MutateG \/ RedefH \/ RedefHInside \/ RedefConst
  /\ (Len(hist') = MaxOps) => Emit

Spec == Init /\ [][Next]_vars

ObsCorrect == good
\* a stored entry is what re-running the call now would produce (the stronger, state-based form)
HitSound == \A e \in cache :
              IF e.fn \in Kinds \ {"inv", "catchgate", "absentwrite"} THEN <<e.val, e.out>> = Truth(e.fn, e.arg) ELSE TRUE
=============================================================================
