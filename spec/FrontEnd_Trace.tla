--------------------------- MODULE FrontEnd_Trace ---------------------------
(* Trace validation for C08: outcome records observed on the REAL front end
   (lexer.New / NewLineMode, parser.New, ParseProgram, Errors, ContinuationNeeded,
   PrettyPrint in three modes, all under recover()) are checked against the outcome
   protocol of FrontEnd.tla.

   frontend_trace.ndjson, one record per line (written by harness/c08.go):
     [line, pan, nerr, cont, tree, nil, pr1, pr2, pr3, elok]
       line  1 line mode / 0 file mode        pan   1 lexing or parsing panicked
       nerr  number of errors (capped at 9)   cont  1 ContinuationNeeded()
       tree  1 ParseProgram returned a tree   nil   missing children in a clean tree (capped at 9)
       pr_k  print attempt k (normal, compact, all-parens): 1 printed, 0 panicked, 2 not attempted
       elok  1 error lines were rendered without panicking

   Each record is installed as the Outcome state of the FrontEnd machine (mode, out,
   printed) and judged by the very predicates the invariants of FrontEnd are made of
   (OutcomeReasons).  The verdict is per record: a rejected record is emitted as
   {"line": n, "why": [violated invariants]} and the validation goes on, so one bad
   record does not hide the rest.  Records are consumed Chunk at a time; the last step
   emits {"done": number of records}.                                              *)
EXTENDS FrontEnd

CONSTANT Chunk
VARIABLE l
Trace == ndJsonDeserialize("frontend_trace.ndjson")

PrName(x)  == IF x = 1 THEN "ok" ELSE IF x = 0 THEN "panic" ELSE "skip"
RecMode(r) == IF r[1] = 1 THEN "line" ELSE "file"
RecOut(r)  == [pan |-> r[2] = 1, err |-> r[3], cont |-> r[4] = 1, tree |-> r[5] = 1, miss |-> r[6], np |-> TRUE, all |-> TRUE]
RecPr(r)   == <<PrName(r[7]), PrName(r[8]), PrName(r[9])>>
Reasons(r) == OutcomeReasons(RecMode(r), RecOut(r), RecPr(r)) \cup (IF r[10] = 1 THEN {} ELSE {"ErrorLines"})

\* the Outcome action accepts only the allowed combinations
Accepts(r) == Reasons(r) = {}
\* (IF, not \/: TLC would split a disjunction inside an action into successor branches)
Judge(j)   == IF Accepts(Trace[j]) THEN TRUE ELSE EmitLine(ToJson([line |-> j, why |-> Reasons(Trace[j])]))

TraceInit ==
  /\ l = 1
  /\ src = <<>> /\ toks = <<>> /\ swallowed = FALSE /\ mode = "file" /\ sep = "tight"
  /\ phase = "lex" /\ out = NoOut /\ printed = <<>>

TraceNext ==
  /\ l <= Len(Trace)
  /\ LET hi == Min2(l + Chunk - 1, Len(Trace)) IN
     /\ (\A j \in l..hi : Judge(j)) = TRUE
     /\ mode' = RecMode(Trace[hi]) /\ out' = RecOut(Trace[hi]) /\ printed' = RecPr(Trace[hi])
     /\ phase' = "outcome"
     /\ l' = hi + 1
     /\ (IF hi = Len(Trace) THEN EmitLine(ToJson([done |-> Len(Trace)])) ELSE TRUE) = TRUE
  /\ UNCHANGED <<src, toks, swallowed, sep>>

TraceSpec == TraceInit /\ [][TraceNext]_<<vars, l>>
=============================================================================
