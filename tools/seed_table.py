#!/usr/bin/env python3
"""seed_table.py: markdown table of /verif/seeded (one row per seeded change) for DESIGN.md section 10.7."""
import json, os
# what each initially missed seed led to (kept by hand: the history is not in the meta files)
STRENGTHENED = {
 "C20-3": "C20 session replay keeps ONE completion object across insertions and repeats TAB on the same prefix",
 "C05-1": "C05 deep register sessions (more nested loops / parameters than register slots, reuse after errors)",
 "C10-1": "C10 failing kinds calibrated (panic inside a top-level loop; output writer)", "C10-2": "C10 failing kind: error under nested calls", "C10-3": "C10 failing kind: depth overflow inside an expression",
 "C06-2": "C06 Shrink action (large representation with few elements), call-by-value after shrink", "C07-1": "C07 families over shrunk / emptied large containers", "C07-2": "C07 slicing matrix over strings with multi-byte runes", "C07-3": "C07 register-escape family",
 "C16-2": "C16 long tokens (interning cache boundary)", "C19-2": "C19 constant first bound from a register", "C19-3": "C19 loop-from-own-value attempts, fresh-loop-constant",
 "C01-1": "C01 operator x kind matrix with 2^53 / 2^63 boundary floats", "C01-2": "C01 repeated-call templates (memoized second call)", "C04-2": "C04 caught failing impure callee schedules",
 "C02-1": "C02 function-value printer family (delegated, see docs/C02_C03.md)", "C08-2": "C08 comment placement family", "C09-3": "C09 all wrap-around variants of array repetition pinned",
 "C14-3": "C14 value-limit boundary family above 64 KiB (delegated, see docs/C14.md)", "C17-1": "C17 multi-byte names (delegated)", "C17-2": "C17 fault trees: accepted target is a directory (delegated)",
 # round 3 (seeds 4-6)
 "C01-4": "C01 rebinding templates (pure dependent function called again after f := ...)", "C01-5": "C01 nested-container comparison templates (thresholds inside containers)",
 "C02-4": "C02 left-spine chains of depth 3-4 under a parenthesised right operand (delegated)", "C03-6": "C03 MinInt64 token in the sign-adjacency families (delegated)",
 "C04-5": "C04 deterministic product function kinds x every form of mutation/redefinition", "C06-6": "Containers.tla Overwrite action (merge onto an existing key)",
 "C07-4": "C07 introspection family (info at every call depth / closure shape)", "C08-5": "C08 odd tokens in every binding position",
 "C09-6": "C09 deep block / lambda-block / for-block generators pinned", "C10-4": "Session.tla macro good/fail kinds (MacroStateFresh)", "C10-5": "Session.tla argument-binding failures of top-level calls",
 "C13-4": "C13 repeated-call sites for templates without unquote (delegated)", "C13-5": "C13 Redefine sessions (delegated)", "C13-6": "C13 failing inputs between definition and use (delegated)",
 "C16-4": "C16 interning at scale (5k/17k/70k distinct tokens between equal tokens)", "C17-5": "C17 complete single-byte sweep of names (delegated)", "C18-5": "AutoSave.tla binding shapes, write faults at every binding position (delegated)",
 "C19-4": "C19 fresh constant bound as a parameter (ported to HEAD)", "C19-6": "Constants.tla home=closure (escaped closures), deviation CheckWalksCallStack",
 # round 4 (seeds 7-9)
 "C01-7": "C01 holder templates; C06 values stored in a holder", "C04-7": "C04 printing callee in every syntactic position", "C04-8": "C04 failing impure extension (vgate) under catch", "C04-9": "C04 closures as arguments of storing/returning functions",
 "C05-7": "interaction family L: recursion through counted loops (ported)", "C05-8": "interaction family M: register as right operand / index with mixed numeric keys", "C05-9": "caught after porting (family G/J programs)",
 "C06-7": "C06 source-form variants (pack(..) initial values), hashed variant selection, crash guard", "C06-9": "C06 + with non-identifier left operands, parent container printed",
 "C07-7": "C07 image pairs of every size", "C07-8": "C07 comment-only function bodies", "C07-9": "C07 quoted index/slice forms",
 "C09-7": "C09 medium allocations kept alive, long enough to pass the bound", "C09-8": "C09 recursion from inside counted loops (WantMaxDepth)",
 "C10-7": "Session.tla print-then-panic-in-function", "C10-8": "Session.tla depth-overflow-in-library-function", "C10-9": "Session.tla depth-overflow / panic in eval()",
 "C12-7": "C12 session epochs in the order universe (delegated)", "C12-9": "C12 construction-history twins (delegated)",
 "C19-7": "C19 del + rebinding to ANOTHER value, expected value tracked", "C19-8": "C19 shrunk-container constant kinds",
 "C20-8": "C20 evaluator-fed index (only top-level names ever get in)", "C20-9": "C20 completion after indentation",
 "C02-7": "C02 trees rebuilt by ast.Modify (delegated)", "C02-9": "C02 blocks beginning with a comment, compact (delegated, ported)", "C03-9": "C03 multi-line block comments at indent levels (delegated)",
 # round 5
 "C04-10": "C04 world sessions: wrappers of stdin / clock / random / file / image extensions in child processes", "C04-12": "C04 zero-sign twin argument lists never sampled out",
 "C05-11": "interaction family O: code naming a register-held variable that outlives it (ported)", "C05-12": "interaction family N: int64 range ends under every changing operator",
 "C06-10": "C06 Retype: print-alike twins (n / n.0) with a kind probe (delegated)", "C06-11": "C06 Frames: parameters surviving an inner call with the same names (delegated)", "C06-12": "C06 key chains around powers of two, twin addressing (delegated)", "C07-11": "C07 image histories: every shape drawn repeatedly",
 "C08-12": "C08 layout worker: long blank runs / long tokens in every gap (delegated)", "C09-10": "C09 rewrite / recnest skeletons: every nesting kind in every rewritten body (delegated)", "C09-12": "C09 autoload skeleton: saved state / PreInput longer than the deadline (delegated)",
 "C10-10": "C10 parse-error failure kinds; a failing input that stops failing is a violation", "C10-11": "C10 deadline inside a pure recursive function + slowcall (ported)", "C10-12": "C10 break/continue reaching the end of a function, every failure kind x good kind",
 "C11-10": "C11 keys(m) as an observation", "C11-12": "C11 numbers at both ends of the int64 range in the random universe (MapRep NumEnd)",
 "C12-10": "C12 number notations (delegated)", "C12-11": "C12 operands in another call's frame (delegated)", "C12-12": "C12 containers grown across the size threshold (delegated)",
 "C14-10": "C14 session steps observed (a failing auto-load is a disagreement, not an unusable case), NonLeafKeyMaps (delegated)", "C14-11": "C14 saves over what the history left, ShrinkCases (delegated)", "C15-10": "C15 Chunking.tla expansion pass: copied trees, function texts, 30 body forms (delegated)", "C16-11": "C16 interning across evaluator activity", "C18-10": "C18 AutoSave.tla Boot action; the next session started as the built binary (delegated)",
 "C19-10": "void on the final head (constant check is Identical since f12fe7e); C19 near-equal replacements cover the shape", "C19-12": "C19 ConstNames.tla: which names are constants",
 "C20-10": "C20 recorded definitions (Record action), leak into new indexes probed (delegated)", "C20-12": "C20 wide nodes: all 256 byte values under one node (delegated)",
 "C02-11": "C02 FormatFnSession.tla: function values across one process (delegated)", "C03-10": "C03 rebuilt-tree route, repeated observations in two processes, maps family (delegated)",
 # round 6
 "C01-15": "interaction family Q: variadic extras kept across other calls", "C04-13": "C04 macro bodies x memoization", "C04-14": "C04 world sessions: failing-then-succeeding extension absorbed by catch",
 "C05-13": "C05 recursion reaching exactly the depth limit, cache off", "C06-14": "C06 sessions observed after a timed-out input (delegated)", "C07-13": "C07 statements run by nested evaluators (ported)", "C07-14": "C07 loops left in every way under enclosing loops (ported)",
 "C08-13": "C08 operator pairs x prefix operators printed in every mode", "C10-15": "C10 / Session.tla: the image extension's own state, refused calls mid-path",
 "C11-13": "C11 ConstA: a map held by a constant (delegated)", "C11-14": "C11 ConstA: del on a constant map (delegated)", "C11-15": "C11 explicit capacity, ForkA / ViewA, earlier results unchanged (delegated)",
 "C12-14": "C12 a text denotes one value: five re-reading routes; not-repeatable = violation (delegated)", "C12-15": "C12 sums of maps whose operands meet or overlap: 12 seams (delegated)",
 "C15-13": "(ported; caught as before)", "C15-14": "C15 macro call sites that fail to expand without stopping the script", "C15-15": "C15 long flat newline-separated scripts per (statement end, statement start)",
 "C16-13": "(ported; caught)", "C16-15": "C16 tokens first met after the table grew are shared from then on", "C17-15": "C17 every second child calls extensions.Init again",
 "C19-13": "C19 children under a memory limit with a large constant array (delegated)", "C19-14": "C19 sessions observed after a timed-out input (delegated)", "C20-14": "C20 refused and half-failed definitions leave nothing in the index",
 "C13-7": "C13 argument pairs that print alike in compact form (delegated)", "C14-7": "C14 print -> modify existing element -> save again (delegated)", "C14-8": "C02 dot floats at statement boundaries (delegated)", "C14-9": "C02 source-level return/newline family (delegated)",
}
rows = []
for d in sorted(os.listdir("/verif/seeded")):
    mp = f"/verif/seeded/{d}/meta.json"
    if not os.path.exists(mp): continue
    m = json.load(open(mp)); v = m.get("verification", {})
    caught = [k for k, c in v.get("checks", {}).items() if c.get("caught")]
    missed = [k for k, c in v.get("checks", {}).items() if not c.get("caught")]
    port = " (ported to HEAD: patch_head.diff)" if os.path.exists(f"/verif/seeded/{d}/patch_head.diff") else ""
    summ = (m.get("summary") or "").replace("|", "/").replace("\n", " ")
    if len(summ) > 150: summ = summ[:147] + "..."
    sig = ""
    for k in caught:
        f = v["checks"][k].get("first", [])
        s = [x for x in f if "signature=" in x]
        if s: sig = s[0].split("signature=")[1].split(":")[0][:60]; break
    rows.append(f"| {d} | {summ}{port} | {', '.join(caught) or '-'}{(' (not: ' + ', '.join(missed) + ')') if missed else ''} | `{sig}` | {STRENGTHENED.get(d, '')} |")
print("| seed | change | caught by (quick tier) | first signature | check strengthened because it was missed at first |\n|---|---|---|---|---|")
print("\n".join(rows))
