#!/usr/bin/env python3
"""seed_table.py: markdown table of /verif/seeded (one row per seeded change) for DESIGN.md section 10.7."""
import json, os
# what each initially missed seed led to (kept by hand: the history is not in the meta files)
STRENGTHENED = {
 "C20-3": "C20 session replay keeps ONE completion object across insertions and repeats TAB on the same prefix",
 "C05-1": "C05 deep register sessions (more nested loops / parameters than register slots, reuse after errors)",
 "C10-1": "C10 failing kinds calibrated (panic inside a top-level loop; output writer)", "C10-2": "C10 failing kind: error under nested calls", "C10-3": "C10 failing kind: depth overflow inside an expression",
 "C06-2": "C06 Shrink action (large representation with few elements), call-by-value after shrink", "C07-1": "C07 families over shrunk / emptied large containers", "C07-2": "C07 slicing matrix over strings with multi-byte runes", "C07-3": "C07 register-escape family",
 "C16-2": "C16 long tokens (interning cache boundary)", "C19-2": "C19 constant first bound from a register", "C19-3": "C19 loop-from-own-value attempts, fresh-loop-constant",
 "C01-1": "C01 operator x kind matrix with 2^53 / 2^63 boundary floats", "C01-2": "C01 repeated-call templates (memoized second call)", "C04-2": "C04 caught failing impure callee schedules",
 "C02-1": "C02 function-value printer family (delegated, see docs/C02_C03.md)", "C08-2": "C08 comment placement family", "C09-3": "C09 all wrap-around variants of array repetition pinned",
 "C14-3": "C14 value-limit boundary family above 64 KiB (delegated, see docs/C14.md)", "C17-1": "C17 multi-byte names (delegated)", "C17-2": "C17 fault trees: accepted target is a directory (delegated)",
}
rows = []
for d in sorted(os.listdir("/verif/seeded")):
    mp = f"/verif/seeded/{d}/meta.json"
    if not os.path.exists(mp): continue
    m = json.load(open(mp)); v = m.get("verification", {})
    caught = [k for k, c in v.get("checks", {}).items() if c.get("caught")]
    missed = [k for k, c in v.get("checks", {}).items() if not c.get("caught")]
    port = " (ported to HEAD: patch_head.diff)" if os.path.exists(f"/verif/seeded/{d}/patch_head.diff") else ""
    summ = (m.get("summary") or "").replace("|", "/").replace("\n", " ")
    if len(summ) > 150: summ = summ[:147] + "..."
    sig = ""
    for k in caught:
        f = v["checks"][k].get("first", [])
        s = [x for x in f if "signature=" in x]
        if s: sig = s[0].split("signature=")[1].split(":")[0][:60]; break
    rows.append(f"| {d} | {summ}{port} | {', '.join(caught) or '-'}{(' (not: ' + ', '.join(missed) + ')') if missed else ''} | `{sig}` | {STRENGTHENED.get(d, '')} |")
print("| seed | change | caught by (quick tier) | first signature | check strengthened because it was missed at first |\n|---|---|---|---|---|")
print("\n".join(rows))
