#!/bin/bash
# tools/try_seed.sh <seed-dir> <Cxx> [tier]
# Applies seed-dir/patch.diff to a scratch worktree of /repo's HEAD (so that other jobs using /repo are not
# disturbed), runs the check against it (VERIF_REPO) and removes the worktree. Prints the last lines + exit code.
set -u
d=$1; p=$2; tier=${3:-quick}
wt=$(mktemp -d /tmp/seedtry.XXXXXX); rmdir "$wt"
git -C /repo worktree add -q --detach "$wt" HEAD || exit 2
cleanup() { git -C /repo worktree remove --force "$wt" 2>/dev/null; }
trap cleanup EXIT
git -C "$wt" apply "$d/patch.diff" || { echo "patch does not apply to /repo HEAD"; exit 2; }
out=$(mktemp /tmp/try_seed.XXXXXX)
( cd /verif && VERIF_REPO="$wt" timeout 3600 ./check "$p" "$tier" > "$out" 2>&1; echo "exit=$?" >> "$out" )
grep -v "^  \|^{" "$out" | tail -5 | cut -c1-300
rm -f "$out"
