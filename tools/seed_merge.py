#!/usr/bin/env python3
"""seed_merge.py <results-dir>: merge seed_process results into /verif/seeded, keeping the first run's check
outcomes as verification_initial (what the checks did before they were strengthened)."""
import json, os, shutil, sys
src = sys.argv[1]
for d in sorted(os.listdir(src)):
    s, t = f"{src}/{d}", f"/verif/seeded/{d}"
    new = json.load(open(f"{s}/meta.json"))
    if os.path.exists(f"{t}/meta.json"):
        old = json.load(open(f"{t}/meta.json"))
        init = old.get("verification_initial") or {"checks": old.get("verification", {}).get("checks", {}), "patch_applies_to_head": old.get("verification", {}).get("patch_applies_to_head")}
        new["verification_initial"] = init
        for k in ("ported_patch", "ported_checks", "notes"):
            if k in old and k not in new: new[k] = old[k]
        if not new["verification"].get("patch_applies_to_head") and old.get("verification", {}).get("checks"):
            new["verification"]["checks"] = old["verification"]["checks"]
    os.makedirs(t, exist_ok=True)
    for f in os.listdir(s):
        if f != "meta.json": shutil.copy(f"{s}/{f}", t)
    json.dump(new, open(f"{t}/meta.json", "w"), indent=1)
    v = new["verification"]
    print(d, "confirmed" if v.get("confirmed") else "UNCONFIRMED", {k: c.get("caught") for k, c in v.get("checks", {}).items()}, "initial:", {k: c.get("caught") for k, c in new.get("verification_initial", {}).get("checks", {}).items()})
