#!/usr/bin/env python3
"""Regenerates /verif/MANIFEST.json from the table below (one entry per claimed property)."""
import json, os, subprocess
V = os.path.dirname(os.path.dirname(os.path.abspath(__file__)))
props = [json.loads(l) for l in open(os.path.join(V, 'properties.jsonl'))]
# id -> (level text, technique, level note)
NOTE = "Trusted: TLC, the GrolPrims Java override (machine arithmetic, Go number/string formatting), the Go harness drivers; exhaustive only within the stated small bounds, seeded random beyond them."
done = {
 "C20": ("Trie.tla: implementation-shaped trie (shared end marker, min/max, valid) refines the word set; TLC explores every reachable trie for all words of length<=3 over {a,b} (and alphabets with bytes 0/255), invariants MembershipOK/PrefixOK/MinMaxOK in every state; every explored transition is replayed on trie.Trie and the completion callback; random longer histories recorded from trie.Trie are validated by Trie_Trace.tla; definitions as the evaluator records them (Record action), wide nodes with all 256 byte values, TAB results in every trace, refused and half-failed definitions, a fresh index probed after a failure",
         "TLC model checking of Trie.tla + transition replay on trie.Trie + trace validation (Trie_Trace.tla)"),
 "C01": ("GrolSem.tla is an independent reference evaluator of the core language written in TLA+ and executed by TLC; programs generated from the spec-side grammar (AST rendered with minimal parentheses from the spec's precedence table) are run on the real interpreter and each run (output text, final value by structure and type, error/non-error) is validated by Sem_Trace.tla against the reference semantics; GrolSem also models a library fragment (extension functions, abs, keys): programs calling it are validated too but a disagreement there is reported as EXTENDED-DEVIATION, not as a violation of C01 (whose statement is the core language)",
         "TLC-executed TLA+ reference semantics (GrolSem) + trace validation of real runs (Sem_Trace.tla)"),
}
extra = {}
p = os.path.join(V, 'tools', 'manifest_entries.json')
if os.path.exists(p):
    extra = json.load(open(p))
for k, v in extra.items():
    done[k] = (v["text"], v["technique"])
checks = []
for pr in props:
    i = pr['id']
    if i in done:
        checks.append({"property_id": i, "quick_cmd": f"./check {i} quick", "thorough_cmd": f"./check {i} thorough",
                       "evidence_file": f"/verif/evidence/{i}.json", "replay_cmd_template": "./check --replay {path}",
                       "engine": "tla-conformance",
                       "level_claimed": {"category": "model_checking", "text": done[i][0], "design_ref": f"DESIGN.md section 5, {i}"},
                       "level_note": NOTE, "technique": done[i][1]})
na = [{"property_id": pr['id'], "reason": "check not built yet in this session (planned, see DESIGN.md section 5); not claimed until its check exists"}
      for pr in props if pr['id'] not in done]
commits = subprocess.run(['git', '-C', '/repo', 'log', '--format=%h %s'], capture_output=True, text=True).stdout.splitlines()
hooks = [c.split()[0] for c in commits if c.split(' ', 1)[1].startswith('verif:')]
m = {"version": 1, "setup_cmd": "./check --setup",
     "hooks": {"guard": "verif", "enable": "go build -tags verif (the harness module replaces grol.io/grol with /repo)",
               "baseline_off_cmd": "cd /repo && GOFLAGS=-mod=mod GOPROXY=off go test -vet=off -count=1 ./...",
               "source_commits": hooks, "add_only": True},
     "engines": [{"name": "tla-conformance", "path": "/verif/check", "serves_properties": sorted(done),
                  "kind_free_text": "TLA+ specs in /verif/spec checked by TLC (MC), TLC-emitted transitions replayed on the real code (GEN), traces recorded from the real code validated by TLC trace specs (TV); Go harness /verif/harness"}],
     "checks": checks, "not_applicable": na,
     "notes": "Exit codes: 0 held, 1 violation, 2 infrastructure problem. known_findings.json is the read-only ledger of genuine defects (fixed / known)."}
json.dump(m, open(os.path.join(V, 'MANIFEST.json'), 'w'), indent=1)
print("claimed:", sorted(done), "not yet:", [x["property_id"] for x in na])
