#!/bin/bash
# tools/runall.sh [tier] [ids...]  run the claimed checks one after the other, one summary line each.
cd "$(dirname "$0")/.." || exit 2
tier=${1:-quick}; shift
ids=${@:-$(python3 -c "import json; print(' '.join(c['property_id'] for c in json.load(open('MANIFEST.json'))['checks']))")}
for p in $ids; do
  s=$(date +%s)
  out=$(./check $p $tier 2>&1); code=$?
  echo "$p exit=$code $(($(date +%s)-s))s $(echo "$out" | grep -c '^VIOLATION') violations $(echo "$out" | grep -c '^KNOWN-FINDING') known :: $(echo "$out" | tail -1 | cut -c1-160)"
  [ $code -ne 0 ] && echo "$out" | grep -v "^{" | tail -6 | cut -c1-300
done
