#!/usr/bin/env python3
"""design_refresh.py: regenerate the generated regions of DESIGN.md:
  <!-- FIXTABLE:BEGIN --> .. <!-- FIXTABLE:END -->    one row per `fix:` commit of /repo with the ledger's properties
  <!-- SEEDTABLE:BEGIN --> .. <!-- SEEDTABLE:END -->  tools/seed_table.py
"""
import json, re, subprocess
def sh(cmd): return subprocess.run(cmd, shell=True, capture_output=True, text=True).stdout
led = json.load(open("/verif/known_findings.json"))
led = led if isinstance(led, list) else led.get("findings", led.get("entries", []))
props = {}
for e in led:
    if e.get("status") == "fixed" and e.get("commit"):
        props.setdefault(e["commit"][:7], set()).add(e["property"])
rows = ["| commit | property (ledger) | what was wrong / what the repair does |", "|---|---|---|"]
for line in reversed(sh("git -C /repo log --format='%h %s' --grep='^fix:'").strip().splitlines()):
    h, s = line.split(" ", 1)
    rows.append(f"| `{h}` | {','.join(sorted(props.get(h[:7], []))) or '-'} | {s[len('fix: '):].replace('|', '/')} |")
fix = "\n".join(rows)
seed = sh("python3 /verif/tools/seed_table.py").strip()
d = open("/verif/DESIGN.md").read()
def put(d, tag, body):
    a, b = f"<!-- {tag}:BEGIN -->", f"<!-- {tag}:END -->"
    if a not in d: raise SystemExit(f"marker {a} missing")
    return d[:d.index(a) + len(a)] + "\n" + body + "\n" + d[d.index(b):]
d = put(d, "FIXTABLE", fix); d = put(d, "SEEDTABLE", seed)
open("/verif/DESIGN.md", "w").write(d)
print(len(rows) - 2, "fix rows;", seed.count("\n") - 1, "seed rows")
