#!/usr/bin/env python3
"""ledger_fix.py <finding-id> <commit-subject-substring>: mark every entry with that id as fixed by the /repo commit."""
import json, subprocess, sys
fid, sub = sys.argv[1], sys.argv[2]
log = subprocess.run(['git', '-C', '/repo', 'log', '--format=%h %s'], capture_output=True, text=True).stdout.splitlines()
hit = [l.split()[0] for l in log if sub in l]
assert len(hit) == 1, hit
p = '/verif/known_findings.json'
l = json.load(open(p))
n = 0
for e in l:
    if e['id'] == fid and e['status'] == 'known':
        e['status'] = 'fixed'; e['commit'] = hit[0]
        w = e['what']
        e['what'] = f"fixed: property={e['property']} {hit[0]} " + w
        n += 1
json.dump(l, open(p, 'w'), indent=1)
print(fid, '->', hit[0], n, 'entries')
