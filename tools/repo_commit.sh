#!/bin/bash
# tools/repo_commit.sh "<commit message>"  - builds /repo, runs the unedited suite with the tag off, commits only if green.
set -u
cd /repo || exit 2
export GOFLAGS=-mod=mod GOPROXY=off
gofmt -l ast eval object parser lexer token repl trie extensions 2>/dev/null | grep . && { echo "gofmt"; exit 1; }
go build ./... || exit 1
go build -tags verif ./... || exit 1
timeout 600 go test -vet=off -count=1 ./... > /tmp/repo_commit.out 2>&1
if grep -v "no test files" /tmp/repo_commit.out | grep -qv "^ok"; then echo "TESTS FAIL - not committed"; grep -v "^ok" /tmp/repo_commit.out | head -20; exit 1; fi
git commit -qam "$1" && git log --oneline | head -1
