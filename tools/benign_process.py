#!/usr/bin/env python3
"""benign_process.py <Cxx> <n> [check-id ...]
A property-PRESERVING change produced by a sub-agent (/tmp/benign-out/<Cxx>/<n>/{patch.diff,meta.json}): apply it to a
scratch worktree of /repo's current head, confirm it builds and the unedited suite passes, then run `./check <id> quick`
(default: the property it was written for) with VERIF_REPO pointing at it. The expected outcome is exit 0: anything else
is a false alarm of the check (or the change is not as harmless as claimed - decided by reading the VIOLATION).
Stores patch + meta (with what was run and seen) under /verif/benign/<Cxx>-<n>/."""
import json, os, shutil, subprocess, sys, tempfile
prop, n = sys.argv[1], sys.argv[2]
checks = sys.argv[3:] or [prop]
src = os.environ.get("BENIGN_SRC", "/tmp/benign-out") + f"/{prop}/{n}"
env = dict(os.environ, GOFLAGS="-mod=mod", GOPROXY="off")
def sh(cmd, cwd=None, timeout=3000):
    r = subprocess.run(cmd, shell=True, cwd=cwd, env=env, capture_output=True, text=True, timeout=timeout)
    return r.returncode, (r.stdout + r.stderr)
meta = json.load(open(f"{src}/meta.json"))
res = {}
scratch = tempfile.mkdtemp(prefix="benigntry.", dir="/tmp"); os.rmdir(scratch)
sh(f"git -C /repo worktree add -q --detach {scratch} HEAD")
c, o = sh(f"git apply --3way {src}/patch.diff", scratch)
res["patch_applies_to_head"] = (c == 0) and ("conflict" not in o.lower())
res["checks"] = {}
if res["patch_applies_to_head"]:
    c, o = sh("go build ./... && go test -vet=off -count=1 ./...", scratch, 1500)
    res["suite_passes_with_patch"] = (c == 0)
    if c != 0: res["suite_output"] = o[-500:]
    if c == 0:
        for cid in checks:
            c, o = sh(f"VERIF_REPO={scratch} ./check {cid} quick", os.environ.get("VERIF_ROOT", "/verif"), 3000)
            lines = [l for l in o.splitlines() if l.startswith("VIOLATION") or l.startswith("  signature") or l.startswith("INFRA")]
            res["checks"][cid] = {"exit": c, "alarm": c != 0, "first": [l[:400] for l in lines[:6]]}
sh(f"git -C /repo worktree remove --force {scratch}")
out = os.environ.get("BENIGN_OUT", "/verif/benign") + f"/{prop}-{n}"
os.makedirs(out, exist_ok=True)
shutil.copy(f"{src}/patch.diff", out)
meta["verification"] = res
json.dump(meta, open(f"{out}/meta.json", "w"), indent=1)
print(json.dumps({k: res.get(k) for k in ("patch_applies_to_head", "suite_passes_with_patch")}), {k: (v["exit"], v["first"][:2]) for k, v in res["checks"].items()})
