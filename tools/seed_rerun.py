#!/usr/bin/env python3
"""seed_rerun.py [ids...]: final pass - every stored seeded change (seeded/<id>/patch_head.diff if present, else
patch.diff) is applied to a scratch worktree of /repo's CURRENT head and the quick tier of its property's check is run
against it (VERIF_REPO); meta.json's verification.checks is replaced by what was seen now (the earlier outcome is kept
as verification_initial if not there yet). Seeds whose patch no longer applies keep their stored outcome, marked stale."""
import json, os, subprocess, sys, tempfile
root = os.environ.get("VERIF_ROOT", "/verif")
env = dict(os.environ, GOFLAGS="-mod=mod", GOPROXY="off")
def sh(cmd, cwd=None, timeout=3000):
    r = subprocess.run(cmd, shell=True, cwd=cwd, env=env, capture_output=True, text=True, timeout=timeout)
    return r.returncode, (r.stdout + r.stderr)
ids = sys.argv[1:] or sorted(os.listdir("/verif/seeded"))
for d in ids:
    sd = f"/verif/seeded/{d}"
    if not os.path.exists(f"{sd}/meta.json"): continue
    m = json.load(open(f"{sd}/meta.json")); v = m.setdefault("verification", {})
    patch = f"{sd}/patch_head.diff" if os.path.exists(f"{sd}/patch_head.diff") else f"{sd}/patch.diff"
    prop = d.split("-")[0]
    scratch = tempfile.mkdtemp(prefix="seedrerun.", dir="/tmp"); os.rmdir(scratch)
    sh(f"git -C /repo worktree add -q --detach {scratch} HEAD")
    c, o = sh(f"git apply {patch}", scratch)
    ok = (c == 0)
    if not ok:
        sh("git reset -q --hard", scratch)
        c, o = sh(f"git apply --3way {patch}", scratch)
        ok = (c == 0) and ("conflict" not in o.lower())
    if ok:
        c, o = sh("go build ./...", scratch); ok = (c == 0)
    if not ok:
        v["final_rerun"] = "patch does not apply to the final head: stored outcome kept"
        print(d, "STALE")
    else:
        if "verification_initial" not in m: m["verification_initial"] = {"checks": v.get("checks", {})}
        c, o = sh(f"VERIF_REPO={scratch} ./check {prop} quick", root, 3000)
        lines = [l for l in o.splitlines() if l.startswith("VIOLATION") or l.startswith("  signature") or l.startswith("INFRA")]
        v.setdefault("checks", {})[prop] = {"exit": c, "caught": c == 1, "first": [l[:300] for l in lines[:4]]}
        v["final_rerun"] = "applied to the final head"
        verdict = "caught" if c == 1 else f"NOT CAUGHT (exit {c})"
        if c == 0 and m.get("demo_cmd"):
            # not caught: does the change still break anything on this head? (a later fix: can make a seeded change harmless)
            dc, do = sh(m["demo_cmd"].replace("<worktree>", scratch), sd, 1200)
            if dc == 0 and "FAIL" not in do:
                v["final_rerun"] = "applied to the final head, where it no longer breaks the property: its own demonstration passes (void; stored outcome from the head it was made for kept below)"
                v["checks"][prop]["void_on_final_head"] = True
                verdict = "VOID (demonstration passes on the final head)"
        print(d, verdict)
    sh(f"git -C /repo worktree remove --force {scratch}")
    json.dump(m, open(f"{sd}/meta.json", "w"), indent=1)
