#!/usr/bin/env python3
"""seed_process.py <Cxx> <n> [check-id ...]
Confirms a seeded change produced by a seeding sub-agent and runs our checks against it.
 1. in the seeder's own worktree /tmp/seed-<Cxx> (clean, at the commit it was created from): apply patch,
    build, run the unedited suite (must pass), run the demonstration (must fail); remove the patch, run the
    demonstration again (must pass);
 2. apply the patch to a scratch worktree of /repo's CURRENT head and run `./check <id> quick` for each id
    (default: the seeded property) with VERIF_REPO pointing at it; exit 1 = caught;
 3. store patch, demonstration and meta.json (with what was run and seen) under /verif/seeded/<Cxx>-<n>/.
"""
import json, os, re, shutil, subprocess, sys, tempfile
prop, n = sys.argv[1], sys.argv[2]
checks = sys.argv[3:] or [prop]
src = os.environ.get("SEED_SRC", "/tmp/seed-out") + f"/{prop}/{n}"
wt = os.environ.get("SEED_WT", "/tmp/seed-") + prop
env = dict(os.environ, GOFLAGS="-mod=mod", GOPROXY="off")
def sh(cmd, cwd=None, timeout=1800):
    r = subprocess.run(cmd, shell=True, cwd=cwd, env=env, capture_output=True, text=True, timeout=timeout)
    return r.returncode, (r.stdout + r.stderr)
meta = json.load(open(f"{src}/meta.json"))
res = {"seeded_property": prop, "summary": meta.get("summary"), "needs": meta.get("needs")}
# 1. confirmation in the seeder's worktree
sh("git checkout -- . && git clean -fdq", wt)
demo = [f for f in os.listdir(src) if f.startswith("demo")][0]
head = open(f"{src}/{demo}").read(800)
cmdtxt = meta.get("demo_cmd", "") + "\n" + head
m = re.search(r"cp\s+\S+\s+(\S+_test\.go)", cmdtxt) or re.search(r"((?:/tmp/seed-\w+/)?(?:[a-z]+/)+\w+_test\.go)", cmdtxt)
dest = m.group(1) if m else None
if dest:
    dest = dest.replace(wt + "/", "").replace("<worktree>/", "").replace("$WT/", "").replace("${WT}/", "")
    if dest.startswith("/"):
        dest = None
if not dest:
    pk = re.search(r"^package (\w+)", open(f"{src}/{demo}").read(), re.M).group(1).replace("_test", "")
    pk = {"main": "."}.get(pk, pk)
    dest = f"{pk}/zz_seed_demo_{prop.lower()}_{n}_test.go"
pkg = os.path.dirname(dest) if dest else None
runm = re.search(r"-run\s+'?\"?([\w|^$()\\.]+)", meta.get("demo_cmd", "") + head)
runpat = runm.group(1) if runm else "."
tags = "-tags verif " if "-tags verif" in (meta.get("demo_cmd", "") + head) else ""
def run_demo():
    made = not os.path.isdir(f"{wt}/{pkg}")
    os.makedirs(f"{wt}/{pkg}", exist_ok=True)
    shutil.copy(f"{src}/{demo}", f"{wt}/{dest}")
    c, o = sh(f"go test {tags}-vet=off -count=1 -run '{runpat}' ./{pkg}/", wt, 900)
    os.remove(f"{wt}/{dest}")
    if made: shutil.rmtree(f"{wt}/{pkg}", ignore_errors=True)
    return c, o
c, o = sh(f"git apply {src}/patch.diff", wt)
res["patch_applies_to_base"] = (c == 0)
c, o = sh("go build ./... && go test -vet=off -count=1 ./...", wt, 1500)
res["suite_passes_with_patch"] = (c == 0)
if c != 0: res["suite_output"] = o[-600:]
c, o = run_demo()
res["demo_fails_with_patch"] = (c != 0) and ("FAIL" in o) and ("--- FAIL" in o or "panic" in o or "[build failed]" not in o)
if not res["demo_fails_with_patch"]: res["demo_patched_output"] = o[-600:]
sh("git checkout -- . && git clean -fdq", wt)
c, o = run_demo()
res["demo_passes_without_patch"] = (c == 0)
if c != 0: res["demo_clean_output"] = o[-600:]
sh("git checkout -- . && git clean -fdq", wt)
res["confirmed"] = all(res[k] for k in ("patch_applies_to_base", "suite_passes_with_patch", "demo_fails_with_patch", "demo_passes_without_patch"))
# 2. our checks against current /repo head + patch
scratch = tempfile.mkdtemp(prefix="seedtry.", dir="/tmp"); os.rmdir(scratch)
sh(f"git -C /repo worktree add -q --detach {scratch} HEAD")
c, o = sh(f"git apply --3way {src}/patch.diff", scratch)
res["patch_applies_to_head"] = (c == 0) and ("conflict" not in o.lower())
res["checks"] = {}
if res["patch_applies_to_head"]:
    c, o = sh("go build ./...", scratch)
    if c != 0:
        res["patch_applies_to_head"] = False
        res["head_build_error"] = o[-400:]
if res["patch_applies_to_head"]:
    for cid in checks:
        c, o = sh(f"VERIF_REPO={scratch} ./check {cid} quick", os.environ.get("VERIF_ROOT", "/verif"), 3000)
        lines = [l for l in o.splitlines() if l.startswith("VIOLATION") or l.startswith("  signature") or l.startswith("INFRA")]
        res["checks"][cid] = {"exit": c, "caught": c == 1, "first": [l[:300] for l in lines[:4]]}
sh(f"git -C /repo worktree remove --force {scratch}")
# 3. store
out = os.environ.get("SEED_OUT", "/verif/seeded") + f"/{prop}-{n}"
os.makedirs(out, exist_ok=True)
shutil.copy(f"{src}/patch.diff", out); shutil.copy(f"{src}/{demo}", out)
meta.update({"verification": res, "demo_file": demo, "demo_destination": dest,
             "what_i_ran": f"seeder worktree {wt} (base of the patch): git apply; go test ./... ; demo with and without the patch. Then VERIF_REPO=<scratch worktree of /repo HEAD + patch> ./check <id> quick"})
json.dump(meta, open(f"{out}/meta.json", "w"), indent=1)
print(json.dumps({k: res[k] for k in ("confirmed", "patch_applies_to_head")}), {k: (v["exit"], v["first"][:2]) for k, v in res["checks"].items()})
