#!/usr/bin/env python3
"""ledger_add_fixed.py <property> <finding-id> <commit-subject-substring> <repro> <what...>: add a fixed entry."""
import json, subprocess, sys
prop, fid, sub, repro = sys.argv[1:5]
what = " ".join(sys.argv[5:])
log = subprocess.run(['git', '-C', '/repo', 'log', '--format=%h %s'], capture_output=True, text=True).stdout.splitlines()
hit = [l.split()[0] for l in log if sub in l]
assert len(hit) == 1, hit
p = '/verif/known_findings.json'
l = json.load(open(p))
assert not any(e['property'] == prop and e['id'] == fid for e in l)
l.append({"property": prop, "id": fid, "status": "fixed", "what": f"fixed: property={prop} {hit[0]} {what}", "repro": repro, "commit": hit[0]})
json.dump(l, open(p, 'w'), indent=1)
print(prop, fid, hit[0])
